#!/bin/sh
# usage: mut.sh <file-rel-to-repo> '<old text>' '<new text>' <check-id> [extra symgo args]
# Applies a one-off textual mutation to a scratch COPY of /repo (never /repo itself), runs the check against the
# copy, and removes the copy. \n and \t escapes are understood in old/new.
D=$(cd "$(dirname "$0")" && pwd)
f="$1"; old="$2"; new="$3"; id="$4"; shift 4
M=$(mktemp -d /tmp/mutrepo.XXXXXX)
trap 'rm -rf "$M"' EXIT
rsync -a --exclude .git /repo/ "$M/"
python3 - "$M/$f" "$old" "$new" <<'PY'
import sys
p=sys.argv[1]; s=open(p).read()
old=sys.argv[2].encode().decode('unicode_escape'); new=sys.argv[3].encode().decode('unicode_escape')
if s.count(old)<1: print("MUTATION TARGET NOT FOUND"); sys.exit(3)
s=s.replace(old,new,1); open(p,'w').write(s)
PY
[ $? -eq 3 ] && exit 3
(cd "$M" && env -u GOFLAGS GOPROXY=off go build ./$(dirname "$f")/ 2>&1 | head -5)
cd "$D" && VERIF_DIR="${VERIF_DIR:-$D}" VERIF_REPO="$M" timeout 900 ./bin/symgo check "$id" --no-evidence "$@" 2>&1 | grep -v "^\s*/\|^main\.\|^goroutine\|^created" | tail -12
