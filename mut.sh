#!/bin/sh
# usage: mut.sh <file-rel-to-repo> <python-old> <python-new> <check-id> [extra symgo args]
# applies a one-off textual mutation to /repo, runs the check, restores /repo.
f="$1"; old="$2"; new="$3"; id="$4"; shift 4
python3 - "$f" "$old" "$new" <<'PY'
import sys
p='/repo/'+sys.argv[1]; s=open(p).read()
old=sys.argv[2].encode().decode('unicode_escape'); new=sys.argv[3].encode().decode('unicode_escape')
if s.count(old)<1: print("MUTATION TARGET NOT FOUND"); sys.exit(3)
s=s.replace(old,new,1); open(p,'w').write(s)
PY
[ $? -eq 3 ] && exit 3
git -C /repo diff --stat | tail -1
cd /verif && ./bin/symgo check "$id" --no-evidence "$@" 2>&1 | grep -v "^\s*/\|^main\.\|^goroutine\|^created" | tail -12
git -C /repo checkout -- .
