#!/usr/bin/env python3
"""Regenerates MANIFEST.json from harness/checks.json, not_applicable.json and properties.jsonl."""
import json, os
V = '/verif'
import glob
checks = {os.path.basename(f)[:-5]: json.load(open(f)) for f in glob.glob(f'{V}/harness/checks/*.json')}
na = json.load(open(f'{V}/not_applicable.json'))
props = [json.loads(l) for l in open(f'{V}/properties.jsonl')]
ids = [p['id'] for p in props]
out_checks = []
for pid in ids:
    c = checks.get(pid)  # T00 (engine self-test) is not a property and is skipped because it is not in properties.jsonl
    if not c or c.get('disabled'):
        continue
    kernel = c.get('kernel', '')
    note = c.get('note', '')
    level_note = ("KERNEL/PARTIAL: " + kernel + " " if kernel else "") + \
        "Trusted base: symgo (own SSA symbolic interpreter; sampled paths are cross-checked against the native build on every run), " \
        "x/tools go/ssa v0.50.0, z3 4.8.12 / z3 5.1.0 / cvc5 1.0, the harness reference model under /verif/harness/" + c['pkg'] + ". " \
        "Bounds: " + "; ".join(f"{k}: {v}" for k, v in c.get('bounds', {}).items()) + ". " + note
    # decision profile of the last quick run (from the evidence file this check wrote): what actually decided the paths
    technique = "symbolic execution of go/ssa + SMT (z3/cvc5), bounded; native replay of counterexamples"
    profile = ""
    try:
        ev = json.load(open(f'{V}/evidence/{pid}.json'))['coverage']
        paths = ev['states']; smt_asserts = sum(h['solver_checks'] for h in ev['harnesses']); q = ev['queries']['total']; en = ev['queries'].get('decided_by_enumeration')
        hs = ev['harnesses']; conc = [h['name'] for h in hs if h['solver_checks'] == 0]
        profile = (f"Decision profile of the last quick run: {paths} paths, {q} SMT queries"
                   + (f" plus {en} branch-feasibility queries over <= 8 input bits decided by complete enumeration" if en is not None else "")
                   + f", {smt_asserts} assertions discharged by SMT as symbolic formulas (all other assertion evaluations were constants on their path)"
                   + (f"; harnesses in which no assertion stayed symbolic: {', '.join(conc)}" if conc else "") + ". ")
        if q == 0 and smt_asserts == 0:
            technique = ("symbolic execution of go/ssa in which every input dimension of the stated bound is forked into concrete alternatives "
                         "(schedules, choices, small value sets) and the engine explores every resulting path exhaustively; data that stays symbolic "
                         "(payload bytes) never reaches a branch and meets assertions only as syntactically identical terms, which the hash-consed "
                         "term table decides for all values without a query, so no SMT query arises in this check; native replay of counterexamples")
        elif smt_asserts == 0:
            technique = ("symbolic execution of go/ssa + SMT (z3/cvc5), bounded: symbolic inputs decide branches (feasibility by SMT), assertions "
                         "evaluate to constants on every path; native replay of counterexamples")
    except Exception:
        pass
    level_note = level_note.strip() + " " + profile
    out_checks.append({
        "property_id": pid,
        "quick_cmd": f"./bin/symgo check {pid} --tier quick",
        "thorough_cmd": f"./bin/symgo check {pid} --tier thorough",
        "evidence_file": f"/verif/evidence/{pid}.json",
        "replay_cmd_template": "./bin/symgo replay {path}",
        "engine": "symgo",
        "level_claimed": {
            "category": "model_checking",
            "text": c.get('claim', "Bounded symbolic model checking of the real code: every path of the harness within the stated bounds is explored, "
                          "every assertion and implicit Go run-time check on it is discharged by an SMT solver for all input values, counterexamples are replayed natively."),
            "design_ref": "DESIGN.md §5 " + pid,
        },
        "level_note": level_note.strip(),
        "technique": technique,
    })
claimed = {c['property_id'] for c in out_checks}
out_na = []
for pid in ids:
    if pid in claimed:
        continue
    reason = na.get(pid, "check not built yet in this session (planned, see DESIGN.md §5)")
    out_na.append({"property_id": pid, "reason": reason})
man = {
    "version": 1,
    "setup_cmd": "sh /verif/build.sh && /verif/bin/symgo selftest",
    "hooks": {
        "guard": "verif",
        "enable": "none needed: harnesses and the vf* shim enter through build overlays (go/packages Overlay, go test -overlay); /repo carries no tagged source",
        "baseline_off_cmd": "cd /repo && env -u GOFLAGS -u GOSUMDB GOPROXY=off go test -json -vet=off -count=1 -timeout 25m ./...",
        "source_commits": [],
        "add_only": True,
    },
    "engines": [{
        "name": "symgo",
        "path": "/verif/symgo",
        "serves_properties": sorted(claimed),
        "kind_free_text": "SSA-level symbolic executor for Go (own implementation on x/tools go/ssa) with SMT back ends z3/cvc5; decision-trail re-execution DFS over 16 workers; native replay and per-path cross-validation via go test -overlay",
    }],
    "checks": out_checks,
    "not_applicable": out_na,
    "notes": "All checks rebuild the SSA from /repo's working tree on every run. Exit 0 = held within bounds (KNOWN-FINDING lines possible), 1 = VIOLATION replayed natively, 2 = inconclusive/engine error (never registered).",
}
json.dump(man, open(f'{V}/MANIFEST.json', 'w'), indent=1)
print(f"claimed={len(out_checks)} not_applicable={len(out_na)}")
