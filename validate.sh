#!/bin/sh
# validates MANIFEST.json and every evidence file against the schemas
python3-vt - <<'PY'
import json, jsonschema, glob
jsonschema.validate(json.load(open('/verif/MANIFEST.json')), json.load(open('/root/.vp/MANIFEST.schema.json')))
print("manifest valid")
es=json.load(open('/root/.vp/EVIDENCE.schema.json'))
for f in sorted(glob.glob('/verif/evidence/*.json')):
    try:
        jsonschema.validate(json.load(open(f)), es)
    except Exception as e:
        print("INVALID", f, str(e)[:300])
print("evidence checked")
PY
