#!/usr/bin/env python3
"""saveseed.py <ID> <X> <detected:yes|no|after-strengthening> <caught-by / note>  — keeps a confirmed seeded change under /verif/seeded/<ID>-<X>/"""
import json, os, shutil, sys
pid, x, det, note = sys.argv[1], sys.argv[2], sys.argv[3], sys.argv[4]
src = f'{os.environ.get("SEEDROOT", "/tmp/seed")}/{pid}/out/{x}'
dst = f'/verif/seeded/{pid}-{x}'
os.makedirs(dst, exist_ok=True)
for f in ('patch.diff', 'demo_test.go'):
    shutil.copy(f'{src}/{f}', f'{dst}/{f}')
try:
    meta = json.load(open(f'{src}/meta.json'))
except Exception:
    meta = {"property": pid}
meta['confirmed_by_lead'] = "seedtest.sh: demonstration fails on a scratch copy of /repo with the patch applied and passes on a clean copy"
meta['detected'] = det
meta['detected_by'] = note
json.dump(meta, open(f'{dst}/meta.json', 'w'), indent=1)
print('saved', dst)
