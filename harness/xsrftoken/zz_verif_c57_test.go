package xsrftoken

import (
	"strings"
	"time"
)

// C57 (partial) — XSRF tokens are bound to key, user, action and time window.
//
//   clean     for s, s' of 0..3 (thorough 0..4) symbolic bytes: clean(s) contains no ':' and clean(s) == clean(s') => s == s'.
//             Paper step: the MAC input is clean(u) + ":" + clean(a) + ":" + decimal; since neither clean(u) nor
//             clean(a) contains ':', the first two ':' are the separators, so equal MAC inputs have equal clean(u)
//             and clean(a) and (by injectivity) equal u and a.
//   window    token = generateTokenAtTime(key, u, a, t0) with key/u/a from small pools (entries that differ only in
//             where ':' and '_' appear) and t0 from a boundary set around a millisecond; then
//             validTokenAtTime(token, key', u', a', now, timeout) for SYMBOLIC now and timeout is true exactly when
//             (key', u', a') == (key, u, a) and issue-1min <= now and now-issue < timeout, issue = t0 rounded up to
//             the millisecond. HMAC-SHA1, base64, %d formatting and ParseInt run on concrete data (the real
//             library code is executed), so the MAC's strength is not part of the claim.
//   rounding  for symbolic t in [0, 2^62): m = (t + 1e6 - 1) / 1e6 as written in generateTokenAtTime satisfies
//             (m-1)*1e6 < t <= m*1e6 (round up to the millisecond, no overflow).
//   tamper    a token whose MAC part or timestamp part was altered in one symbolic position is never valid.
// Outside the claim: symbolic issue times through decimal formatting, MAC strength, Generate/Valid wall clock.
//
// Sensitivity (mut.sh, each caught by this check):
//   xsrf.go clean             the two ReplaceAll lines swapped
//   xsrf.go validTokenAtTime  `now.Sub(issueTime) >= timeout` -> `> timeout`
//   xsrf.go generateTokenAtTime `+ 1e6 - 1` -> `+ 1e6`
//   xsrf.go validTokenAtTime  `now.Add(1 * time.Minute)` -> `now.Add(1 * time.Second)`

func init() {
	vfRegister("VerifC57_clean", VerifC57_clean)
	vfRegister("VerifC57_window", VerifC57_window)
	vfRegister("VerifC57_rounding", VerifC57_rounding)
	vfRegister("VerifC57_tamper", VerifC57_tamper)
}

func VerifC57_clean() {
	maxn := 3 + vfTier()
	n1 := vfLen("n1", 0, maxn)
	s1 := vfString("s1", n1)
	n2 := vfLen("n2", 0, maxn)
	s2 := vfString("s2", n2)
	c1, c2 := clean(s1), clean(s2)
	vfAssert(!strings.Contains(c1, ":"), "clean(s) contains no ':'")
	vfAssert(len(c1) >= n1 && len(c1) <= 2*n1, "clean never shrinks, at most doubles")
	if c1 == c2 { // deliberate fork: the equal case is the interesting one
		vfAssert(s1 == s2, "clean is injective")
		vfReach("equal images")
	}
	vfObserveStr("clean", c1)
	vfReach("end")
}

var c57keys = []string{"k", "k:", "secret_key"}

// (user, action) pairs that collide unless ':' and '_' are escaped correctly.
var c57pairs = [][2]string{
	{"a:b", "c"},
	{"a", "b:c"},
	{"a_cb", "c"},
	{"a_", "_b"},
	{"a__b", ""},
	{"a", "_cb:c"},
	{"", ""},
}

const c57base = int64(1700000000123) * 1000000 // an exact millisecond

var c57issue = []int64{c57base, c57base + 1, c57base + 999999, c57base - 1}

func VerifC57_window() {
	ki := vfChoice("key", len(c57keys))
	pi := vfChoice("pair", len(c57pairs))
	t0 := c57issue[vfChoice("issue instant", len(c57issue))]
	tok := generateTokenAtTime(c57keys[ki], c57pairs[pi][0], c57pairs[pi][1], time.Unix(0, t0))
	issue := (t0 + 999999) / 1000000 * 1000000 // rounded up to the millisecond (concrete)
	if t0 > 0 && t0%1000000 != 0 {
		vfAssert(issue > t0 && issue-t0 < 1000000, "reference rounding sanity")
	}
	vfAssert(strings.HasSuffix(tok, ":"+c57itoa(issue/1000000)), "token carries the issue time in milliseconds")

	// the checking side: same or different key / pair
	kj, pj := ki, pi
	switch vfChoice("mismatch", 3) {
	case 1:
		kj = vfChoice("other key", len(c57keys))
	case 2:
		pj = vfChoice("other pair", len(c57pairs))
	}
	now := vfTime("now")
	nn := now.UnixNano()
	vfAssume(nn >= 1<<40)
	vfAssume(nn < 1<<61)
	timeout := time.Duration(vfI64("timeout"))
	vfAssume(timeout > -(1 << 61))
	vfAssume(timeout < 1<<61)
	got := validTokenAtTime(tok, c57keys[kj], c57pairs[pj][0], c57pairs[pj][1], now, timeout)
	same := kj == ki && pj == pi
	inWindow := vfAnd(issue-int64(time.Minute) <= nn, nn-issue < int64(timeout))
	vfObserveBool("valid", got)
	if same {
		vfAssert(got == inWindow, "valid exactly from one minute before issue up to (excluding) issue + timeout")
		if got {
			vfReach("accepted")
		} else {
			vfReach("rejected: outside the window")
		}
	} else {
		vfAssert(!got, "never valid for another key, user or action")
		vfReach("rejected: other key/user/action")
	}
	vfReach("end")
}

func c57itoa(v int64) string {
	if v == 0 {
		return "0"
	}
	neg := v < 0
	if neg {
		v = -v
	}
	var b []byte
	for v > 0 {
		b = append([]byte{byte('0' + v%10)}, b...)
		v /= 10
	}
	if neg {
		b = append([]byte{'-'}, b...)
	}
	return string(b)
}

func VerifC57_rounding() {
	t := vfI64("t")
	vfAssume(t >= 0)
	vfAssume(t < 1<<62)
	m := (t + 1e6 - 1) / 1e6 // the expression of generateTokenAtTime
	vfAssert(m*1000000 >= t, "rounded up: issue >= t")
	vfAssert(m*1000000-t < 1000000, "less than one millisecond later")
	vfAssert(vfImplies(t%1000000 == 0, m*1000000 == t), "exact milliseconds are kept")
	vfReach("end")
}

func VerifC57_tamper() {
	key, u, a := c57keys[2], c57pairs[0][0], c57pairs[0][1]
	tok := generateTokenAtTime(key, u, a, time.Unix(0, c57base))
	now := time.Unix(0, c57base+int64(time.Second))
	vfAssert(validTokenAtTime(tok, key, u, a, now, Timeout), "the untouched token is valid")
	sep := strings.LastIndex(tok, ":")
	pos := vfChoice("position", len(tok))
	b := []byte(tok)
	if pos < sep {
		// MAC part: any other octet (symbolic)
		c := vfU8("replacement")
		vfAssume(c != tok[pos])
		b[pos] = c
		vfReach("MAC altered")
	} else if pos == sep {
		b[pos] = '_'
	} else {
		// timestamp part: another digit (concrete, so that the re-computed MAC input stays concrete)
		d := byte('0' + vfChoice("digit", 10))
		vfAssume(d != tok[pos])
		b[pos] = d
		vfReach("timestamp altered")
	}
	vfAssert(!validTokenAtTime(string(b), key, u, a, now, Timeout), "a token altered in one position is never valid")
	vfReach("end")
}
