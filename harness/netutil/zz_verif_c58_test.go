package netutil

// C58 — LimitListener never exceeds its connection limit.
// Shape: symbolic scheduler over 1..2 acceptor goroutines and one closer; the ghost counter of
// accepted-and-not-yet-closed connections lives in the stub inner listener/conn, so it changes exactly at the
// inner Accept/Close events.
// Mutations caught: see checks/C58.json notes.

import (
	"errors"
	"net"
	"time"
)

func init() {
	vfRegister("VerifC58_limit", VerifC58_limit)
	vfRegister("VerifC58_closed", VerifC58_closed)
	vfRegister("VerifC58_concurrentClose", VerifC58_concurrentClose)
	vfRegister("VerifC58_transientError", VerifC58_transientError)
	vfRegister("VerifC58_acceptAfterClose", VerifC58_acceptAfterClose)
	vfRegister("VerifC58_wakeOnClose", VerifC58_wakeOnClose)
	vfRegister("VerifC58_slowClose", VerifC58_slowClose)
}

type c58world struct {
	n      int
	open   int // inner connections accepted and not closed
	maxed  bool
	closed bool
	// slowClose: the wrapped conn's Close contains a scheduling point before it takes effect, so the events "slot
	// released" and "connection closed" are distinguishable
	slowClose bool
}

type c58listener struct {
	w         *c58world
	transient int // number of temporary errors to return before accepting connections
	// closeMode: what the wrapped Close REPORTS (it always closes the wrapped listener: Accept fails afterwards).
	// 0 = nil every time; 1 = nil the first time, an error for every later Close (net.TCPListener: "use of closed
	// network connection"); 2 = an error every time (e.g. the owner closed the wrapped listener directly before, or
	// a Close whose cleanup fails). The property's "Accept after Close returns an error without blocking" is
	// unconditional: it does not depend on what the wrapped Close reports.
	closeMode int
	closes    int
}

type c58tempErr struct{}

func (c58tempErr) Error() string   { return "c58: temporary accept error" }
func (c58tempErr) Timeout() bool   { return false }
func (c58tempErr) Temporary() bool { return true }

var c58errClosed = errors.New("c58: listener closed")

func (l *c58listener) Accept() (net.Conn, error) {
	if l.w.closed {
		return nil, c58errClosed
	}
	if l.transient > 0 {
		l.transient--
		return nil, c58tempErr{}
	}
	l.w.open++
	vfAssert(l.w.open <= l.w.n, "at most n accepted connections are open")
	if l.w.open == l.w.n {
		l.w.maxed = true
	}
	return &c58conn{w: l.w}, nil
}
func (l *c58listener) Close() error {
	l.w.closed = true
	l.closes++
	if l.closeMode == 2 || (l.closeMode == 1 && l.closes > 1) {
		return c58errClosed
	}
	return nil
}
func (l *c58listener) Addr() net.Addr { return nil }

type c58conn struct {
	w      *c58world
	closed bool
}

func (c *c58conn) Close() error {
	if c.w.slowClose {
		// the wrapped Close is not instantaneous (TLS close_notify, SO_LINGER, flush): other goroutines run between
		// the moment it is entered and the moment the connection is really closed
		vfYield()
	}
	if !c.closed {
		c.closed = true
		c.w.open--
	}
	return nil
}
func (c *c58conn) Read(b []byte) (int, error)         { return 0, nil }
func (c *c58conn) Write(b []byte) (int, error)        { return len(b), nil }
func (c *c58conn) LocalAddr() net.Addr                { return nil }
func (c *c58conn) RemoteAddr() net.Addr               { return nil }
func (c *c58conn) SetDeadline(t time.Time) error      { return nil }
func (c *c58conn) SetReadDeadline(t time.Time) error  { return nil }
func (c *c58conn) SetWriteDeadline(t time.Time) error { return nil }

// Acceptors race with each other and with Listener.Close; every goroutine must finish (a closer exists).
func VerifC58_limit() {
	vfNoDeadlock()
	n := 1 + vfChoice("n", 2)
	// 2 acceptors + 1 closer + main; the second acceptor closes its connection exactly once. The thorough tier runs
	// the same program with one more preemption (1.3M schedules). 3 acceptors: a single configuration is > 2M
	// schedules at the engine's scheduling granularity (measured): out of reach.
	const nacc = 2
	w := &c58world{n: n}
	// what the wrapped Close reports: nil, or an error (mode 2; the wrapped listener is closed either way)
	inner := &c58listener{w: w, closeMode: 2 * vfChoice("wrapped Close reports an error", 2)}
	ll := LimitListener(inner, n)
	done := make(chan int, nacc+1)
	accepted := 0
	for i := 0; i < nacc; i++ {
		// this acceptor closes its connection 0, 1 or 2 times (the second acceptor exactly once)
		closes := 0
		if i == 1 {
			closes = 1
		} else {
			closes = vfChoice("closes", 3)
		}
		vfGo(func() {
			c, err := ll.Accept()
			if err == nil {
				accepted++
				for k := 0; k < closes; k++ {
					c.Close()
				}
			}
			done <- 1
		})
	}
	vfGo(func() {
		cerr := ll.Close()
		vfAssert((cerr != nil) == (inner.closeMode == 2), "Close reports the wrapped listener's result")
		done <- 1
	})
	for i := 0; i < nacc+1; i++ {
		<-done
	}
	vfAssert(w.open >= 0 && w.open <= n, "open connections within [0,n] at the end")
	// after Close: Accept returns an error and does not block (vfNoDeadlock: blocking here is a violation), also when
	// all n slots are still held by open connections and whatever the wrapped Close reported
	if w.open == n {
		vfReach("accept-after-close-saturated")
	}
	c, err := ll.Accept()
	vfAssert(err != nil && c == nil, "Accept after Close returns an error")
	if w.maxed {
		vfReach("limit-reached")
	}
	if accepted > 0 {
		vfReach("accepted")
	}
	vfReach("end")
}

// Sequential slot accounting: closing a connection (even twice) frees exactly one slot.
func VerifC58_closed() {
	n := 1 + vfChoice("n", 2)
	w := &c58world{n: n}
	ll := LimitListener(&c58listener{w: w}, n).(*limitListener)
	var conns []net.Conn
	for i := 0; i < n; i++ {
		c, err := ll.Accept()
		vfAssert(err == nil, "accept below the limit succeeds")
		conns = append(conns, c)
	}
	vfAssert(len(ll.sem) == n, "all slots taken")
	blocked := vfBlocks(func() { ll.Accept() })
	vfAssert(blocked, "Accept at the limit blocks")
	vfReach("end")
}

// Two goroutines close the SAME connection concurrently while another connection stays open:
// exactly one slot is freed (added after seeded change C58-A: a load-then-store flag instead of sync.Once).
func VerifC58_concurrentClose() {
	vfNoDeadlock()
	const n = 2
	w := &c58world{n: n}
	ll := LimitListener(&c58listener{w: w}, n)
	c1, err1 := ll.Accept()
	_, err2 := ll.Accept()
	vfAssert(err1 == nil && err2 == nil, "two accepts below the limit")
	done := make(chan int, 2)
	for i := 0; i < 2; i++ {
		vfGo(func() {
			c1.Close()
			done <- 1
		})
	}
	<-done
	<-done
	vfAssert(w.open == 1, "one inner connection left open")
	_, err3 := ll.Accept() // the freed slot
	vfAssert(err3 == nil, "the freed slot can be taken")
	blocked := vfBlocks(func() { ll.Accept() }) // the stub asserts open <= n if this wrongly succeeds
	vfAssert(blocked, "a double close frees exactly one slot: the next Accept blocks")
	vfReach("end")
}

// The wrapped listener reports a temporary error before delivering a connection; the caller retries as net/http
// does. The limit still holds (added after seeded change C58-B: an internal retry loop that does not re-acquire).
func VerifC58_transientError() {
	n := 1 + vfChoice("n", 2)
	w := &c58world{n: n}
	inner := &c58listener{w: w, transient: 1 + vfChoice("transient", 2)}
	ll := LimitListener(inner, n)
	got := 0
	for tries := 0; got < n && tries < n+3; tries++ {
		c, err := ll.Accept()
		if err != nil {
			ne, ok := err.(net.Error)
			vfAssert(ok && ne.Temporary(), "only the injected temporary error is reported")
			continue
		}
		vfAssert(c != nil, "a connection without an error")
		got++
	}
	vfAssert(got == n && w.open == n, "n connections accepted")
	vfAssert(len(ll.(*limitListener).sem) == n, "every accepted connection holds a slot")
	blocked := vfBlocks(func() { ll.Accept() })
	vfAssert(blocked, "Accept at the limit blocks")
	vfReach("end")
}

// "Accept after Close returns an error without blocking", sequentially and for every combination of: limit n, number
// k <= n of accepted connections still open (k == n: saturated, the semaphore cannot be acquired), what the wrapped
// Close reports (c58listener.closeMode) and 1..2 Close calls on the limit listener (added after seeded change C58-D:
// done closed only when the wrapped Close reports success).
func VerifC58_acceptAfterClose() {
	n := 1 + vfChoice("n", 2)
	w := &c58world{n: n}
	inner := &c58listener{w: w, closeMode: vfChoice("closeMode", 3)}
	ll := LimitListener(inner, n)
	k := vfLen("open connections", 0, n)
	for i := 0; i < k; i++ {
		_, err := ll.Accept()
		vfAssert(err == nil, "accept below the limit succeeds")
	}
	ncl := 1 + vfChoice("Close calls", 2)
	for i := 0; i < ncl; i++ {
		err := ll.Close()
		want := inner.closeMode == 2 || (inner.closeMode == 1 && i > 0)
		vfAssert((err != nil) == want, "Close reports the wrapped listener's result")
	}
	for i := 0; i < 2; i++ {
		var c net.Conn
		var err error
		blocked := vfBlocks(func() { c, err = ll.Accept() })
		vfAssert(!blocked, "Accept after Close does not block")
		vfAssert(err != nil && c == nil, "Accept after Close returns an error")
	}
	vfAssert(w.open == k, "no connection accepted or closed after Close")
	if k == n {
		vfReach("saturated")
	}
	if inner.closeMode != 0 {
		vfReach("wrapped-close-error")
	}
	vfReach("end")
}

// An Accept that is (or becomes) blocked on the semaphore of a saturated listener is woken by a concurrent Close and
// returns an error, whatever the wrapped Close reports; the n open connections are never closed, so only Close can
// wake it (vfNoDeadlock: staying blocked is a violation). All interleavings of 1..2 blocked acceptors and the closer.
func VerifC58_wakeOnClose() {
	vfNoDeadlock()
	n := 1 + vfChoice("n", 2)
	w := &c58world{n: n}
	inner := &c58listener{w: w, closeMode: vfChoice("closeMode", 3)}
	ll := LimitListener(inner, n)
	for i := 0; i < n; i++ {
		_, err := ll.Accept()
		vfAssert(err == nil, "accept below the limit succeeds")
	}
	nacc := 1 + vfChoice("acceptors", 2)
	done := make(chan int, nacc+1)
	for i := 0; i < nacc; i++ {
		vfGo(func() {
			c, err := ll.Accept()
			vfAssert(err != nil && c == nil, "a saturated Accept only returns through Close, with an error")
			done <- 1
		})
	}
	vfGo(func() {
		ll.Close()
		if inner.closeMode == 1 {
			ll.Close() // the second wrapped Close reports an error
		}
		done <- 1
	})
	for i := 0; i < nacc+1; i++ {
		<-done
	}
	vfAssert(w.open == n, "the n connections stay open")
	vfReach("end")
}

// "At every point ... at most n accepted connections that have not been closed; closing a connection (even several
// times) frees exactly one slot" when the wrapped Close is NOT atomic: the stub conn's Close has a scheduling point
// between being entered and taking effect (w.slowClose), so a slot that is handed back before the wrapped connection
// is really closed lets a waiting Accept push the ghost counter over n (asserted inside the stub Accept).
// Saturated listener (n 1..2 connections open), 1..2 closer goroutines each closing one of the open connections
// (choice: the same one or different ones) and one acceptor waiting for a slot: it must get a connection (vfNoDeadlock:
// a slot that is never freed is a violation). Afterwards main takes the remaining freed slot (two different
// connections closed) without blocking, and the listener is saturated again (a double close freed one slot only).
// Two concurrent acceptors + two closers: > 2M schedules at 3 preemptions (measured), out of reach.
// Added after seeded change C58-F (release before the wrapped Close).
func VerifC58_slowClose() {
	vfNoDeadlock()
	n := 1 + vfChoice("n", 2)
	w := &c58world{n: n, slowClose: true}
	ll := LimitListener(&c58listener{w: w}, n)
	var conns []net.Conn
	for i := 0; i < n; i++ {
		c, err := ll.Accept()
		vfAssert(err == nil, "accept below the limit succeeds")
		conns = append(conns, c)
	}
	ncl := 1 + vfChoice("closers", 2)
	var target [2]int
	distinct := 0
	seen := [2]bool{}
	for i := 0; i < ncl; i++ {
		target[i] = vfChoice("which connection", n)
		if !seen[target[i]] {
			seen[target[i]] = true
			distinct++
		}
	}
	done := make(chan int, 4)
	accepted := 0
	vfGo(func() {
		c, err := ll.Accept() // waits for a slot; the stub asserts open <= n when it delivers
		vfAssert(err == nil && c != nil, "a freed slot yields a connection")
		accepted++
		done <- 1
	})
	for i := 0; i < ncl; i++ {
		c := conns[target[i]]
		vfGo(func() {
			c.Close()
			done <- 1
		})
	}
	for i := 0; i < 1+ncl; i++ {
		<-done
	}
	vfAssert(accepted == 1, "the waiting Accept got a connection")
	vfAssert(w.open == n-distinct+1, "each distinct connection closed once, one accepted")
	vfAssert(len(ll.(*limitListener).sem) == w.open, "every open connection holds a slot, nothing else does")
	for i := 1; i < distinct; i++ {
		var err error
		blocked := vfBlocks(func() { _, err = ll.Accept() })
		vfAssert(!blocked && err == nil, "every closed connection freed a slot")
	}
	vfAssert(w.open == n, "saturated again")
	blocked := vfBlocks(func() { ll.Accept() }) // the stub asserts open <= n if this wrongly succeeds
	vfAssert(blocked, "closing freed exactly one slot per connection: the next Accept blocks")
	if ncl == 2 && distinct == 1 {
		vfReach("same-connection-closed-twice")
	}
	if distinct == 2 {
		vfReach("two-connections-closed")
	}
	vfReach("end")
}
