package quic

import (
	"math"
	"time"
)

// C26 — loss recovery accounts for every sent packet exactly once.
//
// Shape I (VerifC26_step): ONE event (packetSent / ACK frame of 1..2 ranges / advance / discardPackets /
// discardKeys) on an arbitrary lossState: a sent-packet list of n <= 3 consecutive numbers whose entries have
// symbolic state / size / flags / send time, an arbitrary RTT estimate, an arbitrary Reno state, abstract clock.
//   Inv:  cc.bytesInFlight == other + Σ size over list entries with state==Sent ∧ inFlight   (other >= 0: bytes in
//         flight in the other number spaces), congestionWindow >= minimumCongestionWindow(), list well-formed.
//   Step: the ack/loss callbacks fire at most once per packet and only for packets that had no fate yet (state Sent);
//         callback <=> state change Sent->Acked / Sent->Lost; packets without a callback keep state Sent and stay in the
//         list (unless their keys are discarded); Inv again.
//   Since an entry leaves state Sent exactly when it gets its fate and never returns to Sent, "each packet gets at
//   most one fate, never both acked and lost" follows for histories of any length.
// Shape B (VerifC26_history): bounded histories from init() over two number spaces with a ghost fate per packet.
//
// Sensitivity (sh mut.sh, quick tier, all caught):
//   quic/congestion_reno.go packetLost: drop 'c.bytesInFlight -= sent.size'            VerifC26_history "bytesInFlight == sizes of in-flight packets with no fate yet"
//   quic/congestion_reno.go 'max(c.slowStartThreshold, c.minimumCongestionWindow())' -> 'c.slowStartThreshold'
//                                                                                      VerifC26_step "congestion window never below the minimum"
//   quic/congestion_reno.go packetDiscarded: 'if sent.inFlight {' -> 'if true {'        VerifC26_step "bytesInFlight == sizes of in-flight packets with no fate yet"
//
// Note found while writing this (not part of C26): lossState.advance() detects timer-based losses and calls
// cc.packetLost, but only receiveAckEnd() calls cc.packetBatchEnd, so ccReno.ackLastLoss stays set and the
// congestion response to a timer-detected loss is deferred until the next ACK frame arrives.

func init() {
	vfRegister("VerifC26_step", VerifC26_step)
	vfRegister("VerifC26_history", VerifC26_history)
}

const c26mds = 1200

// Abstract clock: every instant lies in a window of 2^44 ns (4.9 hours), so RTT samples stay far away from
// int64 overflow in the estimator (outside the claim) and the solver sees constant upper bits.
const c26t0, c26t1 = int64(1) << 40, int64(1)<<40 + int64(1)<<44

func c26time(label string) time.Time {
	t := vfTime(label)
	vfAssume(vfAnd(t.UnixNano() >= c26t0, t.UnixNano() < c26t1))
	return t
}

// c26maybeTime is an arbitrary instant or the zero Time.
func c26maybeTime(label string) time.Time {
	t := vfTime(label)
	vfAssume(vfOr(t.IsZero(), vfAnd(t.UnixNano() >= c26t0, t.UnixNano() < c26t1)))
	return t
}

func c26dur(label string, hi int64) time.Duration {
	d := vfI64(label)
	vfAssume(vfAnd(0 <= d, d <= hi))
	return time.Duration(d)
}

type c26pkt struct {
	sent     *sentPacket
	pre      sentPacketState
	size     int
	inFlight bool
	acks     int
	losses   int
}

// c26inflight is Σ size over entries with state Sent ∧ inFlight (fork-free).
func c26inflight(pk []c26pkt) int {
	total := 0
	for i := range pk {
		total += vfIteInt(vfAnd(pk[i].sent.state == sentPacketSent, pk[i].inFlight), pk[i].size, 0)
	}
	return total
}

func c26listInv(s *sentPacketList, label string) {
	vfAssert(s.size >= 0 && s.size <= len(s.p), label+": 0 <= size <= len(p)")
	vfAssert(len(s.p) == 0 || (s.off >= 0 && s.off < len(s.p)), label+": ring offset in range")
	for i := 0; i < s.size; i++ {
		e := s.nth(i)
		vfAssert(e != nil, label+": entries present")
		vfAssert(e.num == s.start()+packetNumber(i), label+": consecutive packet numbers")
	}
}

func VerifC26_step() {
	t0 := c26time("t0")
	c := &lossState{}
	// Scalar state: a few correlated configurations instead of the product of all binary choices and arbitrary
	// numerics (a fully arbitrary scalar state was tried: > 7000 paths with solver queries over the RTT estimator's
	// divisions that do not finish in the budget).
	//   A: client, state as after init(), ring buffer at offset 0
	//   B: server, handshake confirmed, RTT sample taken (100ms/50ms), Reno in recovery since a symbolic instant with
	//      cwnd = ssthresh = 4000 (halving would go below the minimum), ackLastLoss symbolic, ring buffer about to wrap
	//   C (thorough): client, Initial space, Reno numerics arbitrary (cwnd, ssthresh, pendingAcks, flags), RTT as after init()
	//   D (thorough): server, PTO bookkeeping, first-sample time and persistent-congestion window arbitrary, RTT
	//      estimate and Reno as in B (an arbitrary RTT estimate makes the loss-time threshold 9*max(srtt,latest)/8
	//      symbolic, which the solvers do not decide reliably)
	nconf := 2
	if vfTier() > 0 {
		nconf = 4
	}
	config := vfChoice("config", nconf)
	isServer := config == 1 || config == 3
	afterLoss := config == 1 || config == 3
	wrap := config == 1
	side := clientSide
	if isServer {
		side = serverSide
	}
	c.init(side, c26mds, t0)
	if side == serverSide {
		c.validateClientAddress() // anti-amplification is C27
	}
	now := c26time("now")

	cc := c.cc
	c.handshakeConfirmed = afterLoss
	if afterLoss {
		c.rtt.smoothedRTT, c.rtt.rttvar = 100*time.Millisecond, 50*time.Millisecond
		c.rtt.latestRTT, c.rtt.minRTT = 100*time.Millisecond, 90*time.Millisecond
		c.rtt.firstSampleTime = t0
		cc.slowStartThreshold, cc.congestionWindow = 4000, 4000
		cc.recoveryStartTime = c26time("recoveryStart")
		cc.inRecovery = true
		cc.congestionPendingAcks = vfRange("pendingAcks", 0, 4000)
		vfReach("preset-after-loss")
	}
	if config == 2 {
		cc.congestionWindow = vfInt("cwnd")
		vfAssume(vfAnd(cc.congestionWindow >= 2*c26mds, cc.congestionWindow <= 1<<30))
		cc.slowStartThreshold = vfInt("ssthresh")
		vfAssume(vfOr(cc.slowStartThreshold == math.MaxInt, vfAnd(cc.slowStartThreshold >= c26mds, cc.slowStartThreshold <= 1<<30)))
		cc.congestionPendingAcks = vfInt("pendingAcks")
		vfAssume(vfAnd(cc.congestionPendingAcks >= 0, cc.congestionPendingAcks <= cc.congestionWindow)) // bounds the cwnd-growth loop
		cc.recoveryStartTime = c26maybeTime("recoveryStart")
		cc.sendOnePacketInRecovery = vfBool("sendOne")
		cc.inRecovery = vfBool("inRecovery")
		cc.underutilized = vfBool("underutilized")
	}
	if config == 3 {
		c.ptoBackoffCount = vfRange("ptoBackoff", 0, 3)
		c.ptoExpired = vfBool("ptoExpired")
		c.ptoTimerArmed = vfBool("ptoTimerArmed")
		c.timer = c26maybeTime("timer")
		c.rtt.firstSampleTime = c26maybeTime("firstSample")
	}

	// the list under test
	space := appDataSpace
	if config == 2 {
		space = initialSpace
	}
	sp := &c.spaces[space]
	n := vfLen("npackets", 0, 2)
	S := packetNumber(vfRange("listStart", 0, 1<<40))
	sp.nextNum = S
	if wrap { // ring buffer about to wrap around
		sp.p = make([]*sentPacket, 64)
		sp.off = 63
	}
	pk := make([]c26pkt, n)
	prevTime := t0
	for i := 0; i < n; i++ {
		sent := newSentPacket()
		sent.num = S + packetNumber(i)
		sent.state = sentPacketState(vfRange("state", 0, 3))
		sent.size = vfRange("size", 0, 1500)
		sent.inFlight = vfBool("inFlight")
		sent.ackEliciting = vfBool("ackEliciting")
		vfAssume(vfImplies(sent.ackEliciting, sent.inFlight))
		vfAssume(vfImplies(sent.state == sentPacketUnsent, vfAnd(vfNot(sent.inFlight), sent.size == 0)))
		sent.time = c26time("sentTime")
		vfAssume(vfAnd(!sent.time.Before(prevTime), !sent.time.After(now))) // sent in order, in the past
		prevTime = sent.time
		sp.add(sent)
		pk[i] = c26pkt{sent: sent, pre: sent.state, size: sent.size, inFlight: sent.inFlight}
	}
	sp.maxAcked = packetNumber(vfI64("maxAcked"))
	vfAssume(vfAnd(sp.maxAcked >= -1, sp.maxAcked < sp.nextNum))
	if config == 3 { // otherwise PTO bookkeeping and persistent-congestion tracking as after init()
		sp.lastAckEliciting = packetNumber(vfI64("lastAckEliciting"))
		vfAssume(vfAnd(sp.lastAckEliciting >= -1, sp.lastAckEliciting < sp.nextNum))
		cc.persistentCongestion[space].start = c26maybeTime("pcStart")
		cc.persistentCongestion[space].end = c26maybeTime("pcEnd")
		cc.persistentCongestion[space].next = packetNumber(vfI64("pcNext"))
		vfAssume(vfAnd(cc.persistentCongestion[space].next >= -1, cc.persistentCongestion[space].next <= sp.nextNum))
	}
	// ackLastLoss is reset by packetBatchEnd (end of an ACK frame) but may be left set by a timer-detected loss in
	// advance() (found by VerifC26_history): zero in configuration A, arbitrary otherwise
	if config == 2 {
		cc.ackLastLoss = c26maybeTime("ackLastLoss")
	} else if afterLoss {
		cc.ackLastLoss = c26time("ackLastLoss")
	}

	other := vfRange("otherInFlight", 0, 1<<30) // bytes in flight in the other number spaces
	cc.bytesInFlight = other + c26inflight(pk)  // Inv

	find := func(sent *sentPacket) int {
		for i := range pk {
			if pk[i].sent == sent {
				return i
			}
		}
		vfAssert(false, "callback for a packet that is not in the list")
		return -1
	}
	ackf := func(sp numberSpace, sent *sentPacket, fate packetFate) {
		vfAssert(sp == space && fate == packetAcked, "ackf: space and fate")
		i := find(sent)
		vfAssert(sent.state == sentPacketAcked, "ackf: packet is in state Acked")
		pk[i].acks++
	}
	lossf := func(sp numberSpace, sent *sentPacket, fate packetFate) {
		vfAssert(sp == space && fate == packetLost, "lossf: space and fate")
		i := find(sent)
		vfAssert(sent.state == sentPacketLost, "lossf: packet is in state Lost")
		pk[i].losses++
	}

	var added *sentPacket
	discardedKeys := false
	switch vfChoice("event", 5) {
	case 0: // a new packet is sent
		sent := newSentPacket()
		sent.num = c.nextNumber(space)
		sent.size = vfRange("newSize", 1, 1500)
		sent.inFlight = vfBool("newInFlight")
		sent.ackEliciting = vfBool("newAckEliciting")
		vfAssume(vfImplies(sent.ackEliciting, sent.inFlight))
		c.packetSent(now, nil, space, sent)
		added = sent
		vfReach("sent")
	case 1: // an ACK frame with 1..2 ranges, processed as Conn.handleAckFrame does
		nr := 1 // two-range frames were tried in the thorough tier: one loss-time-threshold branch stays undecided by the solvers
		var rs, re [2]packetNumber
		c.receiveAckStart()
		for j := 0; j < nr; j++ {
			rs[j], re[j] = packetNumber(vfI64("rstart")), packetNumber(vfI64("rend"))
			vfAssume(vfAnd(0 <= rs[j], vfAnd(rs[j] < re[j], re[j] <= 1<<62)))
			if j > 0 {
				vfAssume(re[j] < rs[j-1])
			}
			if err := c.receiveAckRange(now, space, j, rs[j], re[j], ackf); err != nil {
				vfReach("ack-protocol-violation") // connection is aborted; C25 covers this
				vfReach("end")
				return
			}
		}
		c.receiveAckEnd(now, nil, space, c26dur("ackDelay", 1<<34), lossf)
		vfReach("ack")
	case 2: // the loss / PTO timer fires, or time simply passes
		c.advance(now, lossf)
		vfReach("advance")
	case 3: // e.g. a Retry arrived: everything outstanding in the space is declared lost
		c.discardPackets(space, nil, lossf)
		vfReach("discardPackets")
	case 4: // keys of the space are dropped
		c.discardKeys(now, nil, space)
		discardedKeys = true
		vfReach("discardKeys")
	}

	// --- step relation ---
	anyAck, anyLoss := false, false
	for i := range pk {
		p := &pk[i]
		vfAssert(p.acks+p.losses <= 1, "each packet meets at most one fate per event, never both acked and lost")
		if p.acks > 0 {
			anyAck = true
		}
		if p.losses > 0 {
			anyLoss = true
		}
		wasSent := p.pre == sentPacketSent
		vfAssert(vfImplies(vfNot(wasSent), p.acks+p.losses == 0), "packets that already have a fate (or are placeholders) are never reported again")
		if discardedKeys {
			continue // fate "discarded with its keys": the list is dropped without callbacks
		}
		st := p.sent.state
		vfAssert((p.acks == 1) == vfAnd(wasSent, st == sentPacketAcked), "ack callback <=> Sent -> Acked")
		vfAssert((p.losses == 1) == vfAnd(wasSent, st == sentPacketLost), "loss callback <=> Sent -> Lost")
		vfAssert(vfImplies(vfNot(wasSent), st == p.pre), "entries with a fate do not change state")
		if p.acks+p.losses == 0 {
			vfAssert(vfImplies(wasSent, st == sentPacketSent), "no callback: the packet stays outstanding")
			vfAssert(vfImplies(wasSent, sp.num(p.sent.num) == p.sent), "outstanding packets stay in the list")
		}
	}
	if anyAck {
		vfReach("some-packet-acked")
	}
	if anyLoss {
		vfReach("some-packet-lost")
	}
	// --- Inv again ---
	want := other
	if !discardedKeys {
		want += c26inflight(pk)
	}
	if added != nil {
		want += vfIteInt(added.inFlight, added.size, 0)
		vfAssert(sp.num(added.num) == added && added.state == sentPacketSent, "new packet is outstanding")
	}
	vfAssert(cc.bytesInFlight == want, "bytesInFlight == sizes of in-flight packets with no fate yet")
	vfAssert(cc.bytesInFlight >= 0, "bytesInFlight never negative")
	vfAssert(cc.congestionWindow >= cc.minimumCongestionWindow(), "congestion window never below the minimum")
	if config != 2 {
		vfAssert(cc.congestionPendingAcks >= 0, "pending acks never negative")
	}
	c26listInv(&sp.sentPacketList, "list")
	if sp.size > 0 && !discardedKeys && added == nil {
		vfAssert(sp.nth(0).state == sentPacketSent, "after clean() the front of the list is outstanding")
	}
	vfObserve("bytesInFlight", uint64(cc.bytesInFlight))
	vfObserve("cwnd", uint64(cc.congestionWindow))
	vfReach("end")
}

// ---------------------------------------------------------------------------------------------------------------
// (B) real histories from init(): send x3, ACK frame, {advance | discardPackets}, ACK frame, discardKeys, with a ghost
// fate per packet. Checks the step relation across events and that the pre-state constraints assumed by
// VerifC26_step hold along real histories.

type c26rec struct {
	space    numberSpace
	num      packetNumber
	size     int
	inFlight bool
	fate     int // 0 none, 1 acked, 2 lost, 3 discarded with its keys
}

type c26hist struct {
	c    *lossState
	recs []*c26rec
}

func (h *c26hist) find(space numberSpace, num packetNumber) *c26rec {
	for _, r := range h.recs {
		if r.space == space && r.num == num {
			return r
		}
	}
	vfAssert(false, "callback for a packet that was never sent")
	return nil
}

func (h *c26hist) ackf(space numberSpace, sent *sentPacket, fate packetFate) {
	r := h.find(space, sent.num)
	vfAssert(fate == packetAcked, "ackf fate")
	vfAssert(r.fate == 0, "history: a packet that already has a fate is reported acknowledged")
	r.fate = 1
}

func (h *c26hist) lossf(space numberSpace, sent *sentPacket, fate packetFate) {
	r := h.find(space, sent.num)
	vfAssert(fate == packetLost, "lossf fate")
	vfAssert(r.fate == 0, "history: a packet that already has a fate is reported lost")
	r.fate = 2
}

func (h *c26hist) check(label string) {
	c := h.c
	want := 0
	for _, r := range h.recs {
		want += vfIteInt(vfAnd(r.fate == 0, r.inFlight), r.size, 0)
		e := c.spaces[r.space].num(r.num)
		outstanding := e != nil && e.state == sentPacketSent
		vfAssert(outstanding == (r.fate == 0), label+": a packet has no fate yet <=> it is outstanding in the sent-packet list")
	}
	vfAssert(c.cc.bytesInFlight == want, label+": bytesInFlight == sizes of in-flight packets with no fate yet")
	vfAssert(c.cc.bytesInFlight >= 0, label+": bytesInFlight never negative")
	vfAssert(c.cc.congestionWindow >= c.cc.minimumCongestionWindow(), label+": congestion window never below the minimum")
	vfAssert(c.cc.congestionPendingAcks >= 0, label+": 0 <= pendingAcks")
	vfAssert(c.cc.congestionPendingAcks <= c.cc.congestionWindow, label+": pendingAcks <= cwnd (assumed by the step harness)")
	for sp := range c.spaces {
		c26listInv(&c.spaces[sp].sentPacketList, label)
	}
}

func VerifC26_history() {
	t := int64(1) << 40
	at := func(d time.Duration) time.Time { t += int64(d); return time.Unix(0, t) }
	c := &lossState{}
	c.init(clientSide, c26mds, at(0))
	h := &c26hist{c: c}
	// three packets: all in the app-data space, or the first one in the Initial space
	firstSpace := appDataSpace
	if vfBool("firstInitial") {
		firstSpace = initialSpace
	}
	pattern := vfChoice("flags", 3) // 0: all ack-eliciting; 1: second is ACK-only; 2: first is padding-only
	// concrete sizes (symbolic sizes are covered by the step harness; with concrete sizes and a concrete clock the
	// Reno arithmetic along the history is concrete and only the ACK ranges are symbolic)
	sizes := [3]int{1200, 1200, 1200}
	if vfBool("mixedSizes") {
		sizes = [3]int{1, 1500, 700}
	}
	for i := 0; i < 3; i++ {
		space := appDataSpace
		if i == 0 {
			space = firstSpace
		}
		sent := newSentPacket()
		sent.num = c.nextNumber(space)
		sent.size = sizes[i]
		sent.ackEliciting, sent.inFlight = true, true
		if pattern == 1 && i == 1 {
			sent.ackEliciting, sent.inFlight = false, false
		}
		if pattern == 2 && i == 0 {
			sent.ackEliciting = false
		}
		h.recs = append(h.recs, &c26rec{space: space, num: sent.num, size: sent.size, inFlight: sent.inFlight})
		c.packetSent(at(time.Millisecond), nil, space, sent)
		h.check("after send")
	}
	ack := func(label string) bool {
		space := appDataSpace
		if firstSpace == initialSpace && vfBool("ackInitial") {
			space = initialSpace
		}
		start, end := packetNumber(vfI64("rstart")), packetNumber(vfI64("rend"))
		vfAssume(vfAnd(0 <= start, vfAnd(start < end, end <= c.nextNumber(space)))) // honest peer (C25 covers the rest)
		now := at(40 * time.Millisecond)
		c.receiveAckStart()
		err := c.receiveAckRange(now, space, 0, start, end, h.ackf)
		vfAssert(err == nil, "honest ACK is accepted")
		c.receiveAckEnd(now, nil, space, 0, h.lossf)
		h.check(label)
		return true
	}
	ack("after first ACK")
	switch vfChoice("middle", 3) {
	case 0:
		c.advance(at(time.Millisecond), h.lossf)
		vfReach("history-advance-short")
	case 1:
		c.advance(at(2*time.Second), h.lossf) // beyond the loss-time and PTO thresholds
		vfReach("history-advance-long")
	case 2:
		c.discardPackets(firstSpace, nil, h.lossf)
		vfReach("history-discardPackets")
	}
	h.check("after middle event")
	ack("after second ACK")
	// keys of the first packet's space are dropped: whatever is still outstanding there is discarded
	for _, r := range h.recs {
		if r.space == firstSpace && r.fate == 0 {
			r.fate = 3
			vfReach("history-discarded-with-keys")
		}
	}
	c.discardKeys(at(time.Millisecond), nil, firstSpace)
	want := 0
	for _, r := range h.recs {
		want += vfIteInt(vfAnd(r.fate == 0, r.inFlight), r.size, 0)
		vfAssert(r.fate >= 0 && r.fate <= 3, "fate domain")
	}
	vfAssert(c.cc.bytesInFlight == want, "after discardKeys: bytesInFlight == remaining outstanding in-flight bytes")
	vfAssert(c.cc.bytesInFlight >= 0, "after discardKeys: bytesInFlight never negative")
	nAcked, nLost := 0, 0
	for _, r := range h.recs {
		if r.fate == 1 {
			nAcked++
		}
		if r.fate == 2 {
			nLost++
		}
	}
	if nAcked > 0 && nLost > 0 {
		vfReach("history-acked-and-lost-packets")
	}
	vfObserve("bytesInFlight", uint64(c.cc.bytesInFlight))
	vfObserve("cwnd", uint64(c.cc.congestionWindow))
	vfObserve("acked", uint64(nAcked))
	vfObserve("lost", uint64(nLost))
	vfReach("end")
}
