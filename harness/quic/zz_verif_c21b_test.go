package quic

// C21 (conn level) — stream-count accounting along whole stream lifecycles.
//
// Shape B: a Conn built as in C20 (qsConn: real streamsInit, no endpoint/TLS/loop) plus lifetimeInit. Histories of
//   - STREAM frames of the peer for peer-initiated streams number 0..3 (explicit and implicit opening, frames for
//     live and for finished streams, streams beyond the advertised limit), delivered as wire bytes to the real
//     Conn.handleStreamFrame,
//   - streams opened by THIS endpoint (real localStreamLimits.open quota step; peer's MAX_STREAMS = 2 delivered as a
//     wire frame to Conn.handleMaxStreamsFrame),
//   - closing either direction of any live stream, local or remote: receive side by peer FIN + CloseRead or
//     CloseRead + STOP_SENDING on the wire + peer RESET_STREAM; send side by CloseWrite or Reset, the frame on the
//     wire, and its acknowledgement,
// with every packet produced by the real Conn.appendStreamFrames (which removes finished streams from the conn and
// does the close accounting) and parsed back from the wire; packet fates go through Conn.handleAckOrLoss.
//
// The oracle is a ghost that counts what an outside observer knows: how many streams the peer has opened (highest
// number + 1), how many peer-initiated streams are finished in both directions, and the MAX_STREAMS values seen on
// the wire. Statement parts asserted: MAX_STREAMS - (finished peer streams) <= MaxBidi/UniRemoteStreams for every
// frame on the wire and for the limit enforced (the peer can never hold more than the configured number of
// simultaneously open streams), MAX_STREAMS never decreases, a peer stream at or beyond the advertised limit closes
// the connection with STREAM_LIMIT_ERROR, locally opened streams stay below the peer's MAX_STREAMS.
//
// Sensitivity (sh mut.sh):
//   conn_streams.go appendStreamFrames: drop `if s.id.initiator() != c.side` around remoteLimit.close()   caught, quick tier
//     ("MAX_STREAMS on the wire lets the peer hold at most the configured number of open streams")
//   conn_streams.go appendStreamFrames: `remoteLimit[s.id.streamType()].close()` -> `remoteLimit[bidiStream].close()`   caught, same assert

func init() {
	vfRegister("VerifC21_conn_lifecycle", VerifC21_conn_lifecycle)
}

type c21gstream struct {
	s       *Stream
	id      streamID
	local   bool
	inOpen  bool // receive side exists and is not finished
	outOpen bool // send side exists and is not finished
}

type c21world struct {
	c        *Conn
	em       qsEmitter
	limit    [streamTypeCount]int64 // configured MaxBidi/UniRemoteStreams
	adv      [streamTypeCount]int64 // largest MAX_STREAMS the peer has been told (transport parameter included)
	gOpened  [streamTypeCount]int64 // peer streams opened: highest number + 1
	gClosed  [streamTypeCount]int64 // peer-initiated streams finished in both directions
	gLocal   [streamTypeCount]int64 // streams opened by this endpoint
	live     []*c21gstream
	finished map[streamID]bool
}

const c21localMax = 2 // MAX_STREAMS received from the peer

// emit fills one packet and checks every MAX_STREAMS frame on the wire against the ghost. It reports whether
// anything was written.
func (w *c21world) emit() bool {
	wrote, _ := w.emit2()
	return wrote
}

// emit2 additionally reports whether the packet carries a MAX_STREAMS frame.
func (w *c21world) emit2() (wrote, hasMax bool) {
	e, c := &w.em, w.c
	pw := &e.w
	pw.b = nil
	pw.reset(64)
	pw.sent = newSentPacket()
	pw.pktOff, pw.payOff = 0, 0
	pw.pktLim = 64
	pnum := e.pnum
	e.pnum++
	done := c.appendStreamFrames(pw, pnum, false)
	vfAssert(done, "everything fits into a 64-byte packet")
	payload := pw.payload()
	sent := pw.sent
	pw.sent = nil
	if len(payload) == 0 {
		return false, false
	}
	sent.num = pnum
	e.inflight = append(e.inflight, sent)
	for len(payload) > 0 {
		n := -1
		t := payload[0]
		switch {
		case t == frameTypeMaxStreamsBidi || t == frameTypeMaxStreamsUni:
			var styp streamType
			var v int64
			styp, v, n = consumeMaxStreamsFrame(payload)
			vfAssert(n > 0, "MAX_STREAMS frame parses")
			vfAssert(v >= w.adv[styp], "MAX_STREAMS on the wire never decreases")
			vfAssert(v-w.gClosed[styp] <= w.limit[styp], "MAX_STREAMS on the wire lets the peer hold at most the configured number of open streams")
			vfAssert(v == c.streams.remoteLimit[styp].max, "MAX_STREAMS on the wire is the limit enforced")
			w.adv[styp] = v
			hasMax = true
			vfReach("lc-max-streams-frame")
		case t >= frameTypeStreamBase && t < frameTypeStreamBase+8:
			var id streamID
			id, _, _, _, n = consumeStreamFrame(payload)
			vfAssert(id.initiator() != c.side || id.num() < c21localMax, "STREAM frame of a local stream below the peer's MAX_STREAMS")
		case t == frameTypeResetStream:
			_, _, _, n = consumeResetStreamFrame(payload)
		case t == frameTypeStopSending:
			_, _, n = consumeStopSendingFrame(payload)
		case t == frameTypeMaxStreamData:
			_, _, n = consumeMaxStreamDataFrame(payload)
		case t == frameTypeMaxData:
			_, n = consumeMaxDataFrame(payload)
		case t == frameTypeStreamDataBlocked:
			_, _, n = consumeStreamDataBlockedFrame(payload)
		}
		vfAssert(n > 0, "emitted frame parses")
		if n <= 0 {
			break
		}
		payload = payload[n:]
	}
	return true, hasMax
}

func (w *c21world) ackAll() {
	for len(w.em.inflight) > 0 {
		w.em.fate(w.c, 0, packetAcked)
	}
	qsDrain(w.c)
}

// retire moves streams that are finished in both directions from the live list to the finished set.
func (w *c21world) retire() {
	var keep []*c21gstream
	for _, g := range w.live {
		if g.inOpen || g.outOpen {
			keep = append(keep, g)
			continue
		}
		w.finished[g.id] = true
		if !g.local {
			w.gClosed[g.id.streamType()]++
			vfReach("lc-peer-stream-finished")
		} else {
			vfReach("lc-local-stream-finished")
		}
	}
	w.live = keep
}

// settle lets the conn send whatever it has to send until it is idle. Packets are acknowledged, except that a
// packet carrying MAX_STREAMS may be lost once per settle (the frame must then be sent again).
func (w *c21world) settle() {
	lost := false
	for i := 0; ; i++ {
		wrote, hasMax := w.emit2()
		if !wrote {
			break
		}
		if hasMax && !lost && vfChoice("max-streams-packet-lost", 2) == 1 {
			lost = true
			for len(w.em.inflight) > 0 {
				w.em.fate(w.c, 0, packetLost)
			}
			qsDrain(w.c)
			vfAssert(w.c.streams.remoteLimit[bidiStream].sendMax.shouldSend() || w.c.streams.remoteLimit[uniStream].sendMax.shouldSend(), "lost MAX_STREAMS is scheduled again")
			vfReach("lc-max-streams-lost")
			continue
		}
		w.ackAll()
		vfAssert(i < 5, "the conn becomes idle")
	}
}

// check compares the conn's accounting with the ghost.
func (w *c21world) check() {
	c := w.c
	var inMap [streamTypeCount]int64
	for id := range c.streams.streams {
		if id.initiator() != c.side {
			inMap[id.streamType()]++
		}
	}
	for t := streamType(0); t < streamTypeCount; t++ {
		lim := &c.streams.remoteLimit[t]
		vfAssert(lim.opened == w.gOpened[t], "opened counts the streams opened by the peer")
		vfAssert(lim.closed == w.gClosed[t], "closed counts exactly the finished peer-initiated streams")
		vfAssert(inMap[t] == w.gOpened[t]-w.gClosed[t], "the conn holds exactly the unfinished peer streams")
		vfAssert(inMap[t] <= w.limit[t], "peer holds at most the configured number of open streams")
		vfAssert(lim.max == w.adv[t], "idle conn: the limit enforced is the limit advertised")
		vfAssert(lim.max-w.gClosed[t] <= w.limit[t], "limit enforced lets the peer hold at most the configured number of open streams")
		c21assertInv(lim, "Inv on the Conn's limits")
		ll := &c.streams.localLimit[t]
		vfAssert(ll.opened == w.gLocal[t] && ll.opened <= ll.max, "local streams opened <= peer's MAX_STREAMS")
	}
	for _, g := range w.live {
		vfAssert(c.streams.streams[g.id].s == g.s, "unfinished stream is still attached to the conn")
	}
	for id := range w.finished {
		_, ok := c.streams.streams[id]
		vfAssert(!ok, "finished stream is removed from the conn")
	}
}

func c21streamFrame(id streamID, fin bool) []byte {
	t := byte(frameTypeStreamBase)
	if fin {
		t |= 0x01
	}
	return []byte{t, byte(id)} // id < 64: one-byte varint; no OFF, no LEN: empty data at offset 0
}

const (
	c21opPeerFrame = iota
	c21opLocalOpen
	c21opCloseIn
	c21opCloseOut
)

type c21alt struct{ kind, a, variant int }

func VerifC21_conn_lifecycle() {
	side := connSide(vfChoice("side", 2))
	styp := streamType(vfChoice("styp", 2)) // stream type the history plays with; the other type must stay untouched
	w := &c21world{finished: map[streamID]bool{}}
	w.limit[styp] = int64(vfLen("maxRemote", 1, 2))
	w.limit[1-styp] = 1
	c := qsConn(side, &Config{
		MaxBidiRemoteStreams:    w.limit[bidiStream],
		MaxUniRemoteStreams:     w.limit[uniStream],
		MaxStreamReadBufferSize: 4, MaxStreamWriteBufferSize: 4,
	})
	c.lifetimeInit()
	w.c = c
	w.adv = w.limit // initial_max_streams_* transport parameters
	now := vfTime("now")
	vfAssume(vfAnd(now.UnixNano() >= 1<<40, now.UnixNano() < 1<<60))
	ctx := qsCancelled()
	for t := streamType(0); t < streamTypeCount; t++ {
		f := []byte{frameTypeMaxStreamsBidi, c21localMax}
		if t == uniStream {
			f[0] = frameTypeMaxStreamsUni
		}
		vfAssert(c.handleMaxStreamsFrame(now, f) == 2, "peer's MAX_STREAMS frame accepted")
	}
	w.check()

	k := 4
	if vfTier() > 0 {
		k = 5
	}
	for step := 0; step < k; step++ {
		var menu []c21alt
		for num := 0; num < 4; num++ {
			menu = append(menu, c21alt{c21opPeerFrame, num, 0})
		}
		menu = append(menu, c21alt{c21opLocalOpen, 0, 0})
		for i, g := range w.live {
			if g.inOpen {
				menu = append(menu, c21alt{c21opCloseIn, i, 0}, c21alt{c21opCloseIn, i, 1})
			}
			if g.outOpen {
				menu = append(menu, c21alt{c21opCloseOut, i, 0}, c21alt{c21opCloseOut, i, 1})
			}
		}
		m := menu[vfChoice("op", len(menu))]
		switch m.kind {
		case c21opPeerFrame:
			num := int64(m.a)
			id := newStreamID(side.peer(), styp, num)
			n := c.handleStreamFrame(now, appDataSpace, c21streamFrame(id, false))
			vfAssert(n == 2, "STREAM frame consumed")
			qsDrain(c)
			ms, inMap := c.streams.streams[id]
			if num >= w.adv[styp] {
				vfAssert(c.lifetime.state != connStateAlive, "peer stream at or beyond the advertised MAX_STREAMS closes the connection")
				vfAssert(c21isTransportErr(c.lifetime.localErr, errStreamLimit), "beyond the advertised limit: STREAM_LIMIT_ERROR")
				vfAssert(!inMap, "stream beyond the limit is not created")
				vfObserve("aborted-at", uint64(step))
				vfReach("lc-stream-limit-error")
				vfReach("end")
				return
			}
			vfAssert(c.lifetime.state == connStateAlive, "peer stream below the advertised MAX_STREAMS is accepted")
			known := false
			for _, g := range w.live {
				if g.id == id {
					known = true
					vfAssert(ms.s == g.s, "frame for a live stream finds it")
				}
			}
			switch {
			case known:
				vfReach("lc-frame-live")
			case w.finished[id]:
				vfAssert(!inMap, "frame for a finished stream does not re-create it")
				vfReach("lc-frame-finished")
			default:
				vfAssert(inMap && ms.s != nil && ms.s.id == id, "peer stream created")
				ms.s.SetReadContext(ctx)
				ms.s.SetWriteContext(ctx)
				w.live = append(w.live, &c21gstream{s: ms.s, id: id, inOpen: true, outOpen: styp == bidiStream})
				if num >= w.gOpened[styp] {
					if num > w.gOpened[styp] {
						vfReach("lc-implicit-open")
					}
					w.gOpened[styp] = num + 1
				}
				vfReach("lc-peer-open")
			}
		case c21opLocalOpen:
			num, err := c.streams.localLimit[styp].open(ctx, c)
			if w.gLocal[styp] >= c21localMax {
				vfAssert(err != nil, "no local stream at or beyond the peer's MAX_STREAMS")
				vfReach("lc-local-blocked")
				break
			}
			vfAssert(err == nil && num == w.gLocal[styp], "local streams are numbered consecutively")
			vfAssert(num < c21localMax, "local stream number below the peer's MAX_STREAMS")
			w.gLocal[styp]++
			s := qsLocalStream(c, styp, num)
			s.SetReadContext(ctx)
			s.SetWriteContext(ctx)
			w.live = append(w.live, &c21gstream{s: s, id: s.id, local: true, inOpen: styp == bidiStream, outOpen: true})
			vfReach("lc-local-open")
		case c21opCloseIn:
			g := w.live[m.a]
			if m.variant == 0 { // peer finishes the stream, then the user closes the read side
				c.handleStreamFrame(now, appDataSpace, c21streamFrame(g.id, true))
				qsDrain(c)
				g.s.CloseRead()
				qsDrain(c)
			} else { // the user closes first (STOP_SENDING goes out), the peer answers with RESET_STREAM
				g.s.CloseRead()
				qsDrain(c)
				w.emit()
				w.ackAll()
				n := c.handleResetStreamFrame(now, appDataSpace, []byte{frameTypeResetStream, byte(g.id), 9, 0})
				vfAssert(n == 4, "RESET_STREAM consumed")
				qsDrain(c)
			}
			vfAssert(c.lifetime.state == connStateAlive, "closing the receive side is not an error")
			g.inOpen = false
			vfReach("lc-close-in")
		case c21opCloseOut:
			g := w.live[m.a]
			if m.variant == 0 {
				g.s.CloseWrite()
			} else {
				g.s.Reset(7)
			}
			qsDrain(c)
			vfAssert(w.emit(), "FIN / RESET_STREAM is sent")
			w.ackAll()
			g.outOpen = false
			vfReach("lc-close-out")
		}
		w.retire()
		w.settle()
		w.check()
	}
	for t := streamType(0); t < streamTypeCount; t++ {
		vfObserve("max", uint64(c.streams.remoteLimit[t].max))
		vfObserve("closed", uint64(c.streams.remoteLimit[t].closed))
	}
	vfReach("end")
}
