package quic

import (
	"net/netip"
)

// C27 (endpoint level) — the replies an Endpoint sends BEFORE a Conn exists: Retry, the Initial CONNECTION_CLOSE for a
// bad Retry token, Version Negotiation and stateless resets. No Conn exists, so the source address of the datagram
// is by definition not validated and the statement applies to the datagram and its reply directly: whatever the
// endpoint sends in response to a datagram of n bytes from address X goes to X and is at most 3n bytes (the endpoint
// keeps no per-address state, so the per-datagram bound is the cumulative one).
//
// Shape I (one step, arbitrary datagram): the REAL Endpoint.handleDatagram on a hand-built listening Endpoint (empty
// connection map, stub packetConn = ghost ledger) for ONE datagram from X:
//   first byte symbolic (header form, fixed bit, packet type, reserved bits), version symbolic (32 bit),
//   destination / source connection ID lengths from a menu incl. 0 and > 20, token length byte from a menu with token
//   bytes symbolic, rest zero; the datagram is this byte string cut or zero-extended to n bytes with
//   n = EVERY value 0..c27eSmallMax plus values around 1200 and larger (truncated datagrams included).
//   Config.RequireAddressValidation on or off, stateless-reset key configured or not.
// A datagram for which the endpoint would create a Conn ends the step (Endpoint.closing is preset, so Endpoint.newConn
// refuses; what the Conn then sends is VerifC27_conn's subject).

func init() {
	vfRegister("VerifC27_endpoint", VerifC27_endpoint)
}

// c27eAEAD stands in for the Retry-token AEAD (XChaCha20-Poly1305: 24-byte nonce) and, with a 12-byte nonce, for the
// Retry integrity AEAD: Seal appends plaintext and a 16-byte zero tag; Open accepts exactly the zero tag.
type c27eAEAD struct{ nonce int }

func (a c27eAEAD) NonceSize() int { return a.nonce }
func (c27eAEAD) Overhead() int    { return 16 }
func (c27eAEAD) Seal(dst, nonce, plaintext, additionalData []byte) []byte {
	dst = append(dst, plaintext...)
	var tag [16]byte
	return append(dst, tag[:]...)
}
func (c27eAEAD) Open(dst, nonce, ciphertext, additionalData []byte) ([]byte, error) {
	if len(ciphertext) < 16 {
		return nil, errInvalidPacket
	}
	n := len(ciphertext) - 16
	ok := true
	for _, b := range ciphertext[n:] {
		ok = vfAnd(ok, b == 0)
	}
	if !ok {
		return nil, errInvalidPacket
	}
	return append(dst, ciphertext[:n]...), nil
}

// c27eNet: the endpoint's packetConn; ledger of what was sent and to whom.
type c27eNet struct {
	sent   int64
	nsent  int
	toPeer bool
}

func (n *c27eNet) Close() error              { return nil }
func (n *c27eNet) LocalAddr() netip.AddrPort { return c27cLocal }
func (n *c27eNet) Read(f func(*datagram))    {}
func (n *c27eNet) Write(d datagram) error {
	n.sent += int64(len(d.b))
	n.nsent++
	n.toPeer = d.peerAddr == c27cAddrX
	return nil
}

const c27eSmallMax = 72

func c27eSizes() []int {
	var s []int
	hi := c27eSmallMax
	if vfTier() > 0 {
		hi = 200
	}
	for i := 0; i <= hi; i++ {
		s = append(s, i)
	}
	s = append(s, 600, 1199, 1200, 1201, 1472)
	return s
}

func VerifC27_endpoint() {
	c31setRand()
	savedRetryAEAD := retryAEAD
	retryAEAD = c27eAEAD{nonce: 12}
	defer func() { retryAEAD = savedRetryAEAD }()

	net := &c27eNet{}
	cfg := &Config{RequireAddressValidation: vfChoice("requireAddressValidation", 2) == 1}
	e := &Endpoint{
		listenConfig: cfg,
		packetConn:   net,
		conns:        make(map[*Conn]struct{}),
		closing:      true, // Endpoint.newConn refuses: the step ends where a Conn would be created
	}
	e.connsMap.init()
	e.resetGen.mac = c27cMac{}
	e.resetGen.canReset = vfChoice("statelessResetKey", 2) == 1
	e.retry.aead = c27eAEAD{nonce: 24}

	// the datagram
	cidLens := []int{0, 8, 20, 21}
	if vfTier() > 0 {
		cidLens = []int{0, 1, 8, 20, 21, 255}
	}
	dl := cidLens[vfChoice("dcidlen", len(cidLens))]
	sl := cidLens[vfChoice("scidlen", len(cidLens))]
	tokLens := []int{0, 1, 28, 40}
	tl := tokLens[vfChoice("tokenlen", len(tokLens))]
	var full []byte
	full = append(full, vfU8("byte0"))
	v := vfU32("version")
	full = append(full, byte(v>>24), byte(v>>16), byte(v>>8), byte(v))
	full = append(full, byte(dl))
	for i := 0; i < dl; i++ {
		full = append(full, byte(0xd0+i))
	}
	full = append(full, byte(sl))
	for i := 0; i < sl; i++ {
		full = append(full, byte(0x50+i))
	}
	full = append(full, byte(tl))
	full = append(full, vfBytes("token", tl)...)
	sizes := c27eSizes()
	n := sizes[vfChoice("size", len(sizes))]
	b := make([]byte, n)
	copy(b, full)

	m := &datagram{b: b, peerAddr: c27cAddrX, localAddr: c27cLocal}
	e.handleDatagram(m)

	vfAssert(net.nsent <= 1, "C27: at most one reply per datagram")
	if net.nsent > 0 {
		vfAssert(net.toPeer, "C27: the endpoint replies to the datagram's source address")
		vfAssert(net.sent > 0, "C27: no empty datagrams")
		vfAssert(net.sent <= 3*int64(n), "C27: endpoint reply (no Conn, address not validated) <= 3 * received datagram")
		if n < paddedInitialDatagramSize {
			vfReach("reply-to-small-datagram")
		} else {
			vfReach("reply-to-full-size-datagram")
		}
		if cfg.RequireAddressValidation && n >= paddedInitialDatagramSize && tl == 0 {
			vfReach("retry-or-version-negotiation")
		}
	}
	vfObserve("n", uint64(n))
	vfObserve("sent", uint64(net.sent))
	vfReach("end")
}
