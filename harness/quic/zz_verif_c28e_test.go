package quic

import "crypto/tls"

// C28 part (e): PROTECTED-packet parsers (with keys) on arbitrary bytes, ideal-crypto stubs of part (d).
// Nothing was ever sealed with these keys, so no byte string authenticates: every input must be rejected, without a
// panic (the byte slices have cap == len: any read past the end of the input is an implicit bounds violation), and
//   * a packet too short to hold a complete header-protection sample (fewer than 4+16 bytes from the packet-number
//     offset on, RFC 9001 §5.4.2 "MUST discard") is rejected BEFORE a sample is taken: the header-protection
//     function is not called, the error is errInvalidPacket and the packet does not count as an AEAD authentication
//     failure (RFC 9001 §6.6 counts packets that fail authentication);
//   * a long-header packet is delimited by its Length field: bytes after it (coalesced packets) are never sampled.

func init() {
	vfRegister("VerifC28_parse_protected_long", VerifC28_parse_protected_long)
	vfRegister("VerifC28_parse_protected_short", VerifC28_parse_protected_short)
}

func c28protectedTail() int { return 22 + 2*vfTier() }

// c28pnumMax: the receiver's largest packet number so far (none yet, small, large).
func c28pnumMax() packetNumber {
	return []packetNumber{-1, 0x7f, 0x12340000}[vfChoice("pnumMax", 3)]
}

// 1-RTT: first byte, connection ID of 0/8/20 bytes and 0..22 further bytes (thorough 24), all arbitrary.
func VerifC28_parse_protected_short() {
	hdr := c28headerKey()
	uk := updatingKeys{suite: tls.TLS_AES_128_GCM_SHA256, hdr: hdr, pkt: [2]packetKey{c28packetKey(), c28packetKey()}}
	k := &updatingKeyPair{r: uk, w: uk}
	k.init()
	if vfBool("phase") {
		k.phase = keyPhaseBit
	}
	k.updating = vfBool("updating")
	k.minSent, k.minReceived = maxPacketNumber, maxPacketNumber
	cidLen := []int{0, 8, 20}[vfChoice("dcidlen", 3)]
	tail := vfLen("tail", 0, c28protectedTail())
	pkt := vfBytes("pkt", 1+cidLen+tail)
	vfAssume(!isLongHeader(pkt[0]))

	p, err := parse1RTTPacket(pkt, k, cidLen, c28pnumMax())

	vfAssert(err != nil, "arbitrary bytes do not authenticate")
	vfAssert(p.payload == nil && p.num == 0, "no packet on error")
	sampled := len(*hdr.hp.(c28hp).tab)
	if tail < 4+headerProtectionSampleSize {
		vfAssert(err == errInvalidPacket, "too short for a header protection sample: invalid packet")
		vfAssert(sampled == 0, "too short for a header protection sample: no sample taken")
		vfAssert(k.authFailures == 0, "too short for a header protection sample: not an authentication failure")
		vfReach("too short")
	} else {
		vfAssert(sampled == 1, "one sample")
		vfAssert(err == c28errAuth && k.authFailures == 1, "authentication failure counted")
		vfReach("authentication failed")
	}
	vfAssert(!k.updating || vfConcretizeBool(k.minReceived == maxPacketNumber), "no key update state change on a rejected packet")
	vfObserve("authFailures", uint64(k.authFailures))
	vfReach("end")
}

// Long header: arbitrary first byte (long form), version, connection IDs, token (Initial; concrete lengths from a
// small set, arbitrary bytes), then an arbitrary 1-byte (thorough also 2-byte) Length varint and 0..22 arbitrary
// bytes (thorough 24): every relation between the Length field, the sample size and the bytes present.
func VerifC28_parse_protected_long() {
	k := fixedKeys{hdr: c28headerKey(), pkt: c28packetKey()}
	sh := [][3]int{{0, 0, 0}, {3, 1, 1}, {20, 20, 2}}[vfChoice("shape", 2+vfTier())] // dcid, scid, token lengths
	first := vfU8("first")
	vfAssume(isLongHeader(first))
	pkt := []byte{first}
	pkt = append(pkt, vfBytes("version", 4)...)
	pkt = append(pkt, byte(sh[0]))
	pkt = append(pkt, vfBytes("dcid", sh[0])...)
	pkt = append(pkt, byte(sh[1]))
	pkt = append(pkt, vfBytes("scid", sh[1])...)
	pt := getPacketType(pkt)
	if pt == packetTypeInitial {
		pkt = append(pkt, byte(sh[2]))
		pkt = append(pkt, vfBytes("token", sh[2])...)
	}
	lenOff := len(pkt)
	lenClass := 1 + vfChoice("lenClass", 1+vfTier())
	lenField := vfBytes("length", lenClass)
	vfAssume(lenField[0]>>6 == byte(lenClass-1))
	pkt = append(pkt, lenField...)
	pnumOff := len(pkt)
	tail := vfLen("tail", 0, c28protectedTail())
	pkt = append(pkt, vfBytes("tail", tail)...)
	pkt = c28clone(pkt) // cap == len is not guaranteed by append: make it so
	pkt = pkt[:len(pkt):len(pkt)]
	payLen, _, _ := c28varintAt(pkt, lenOff)

	pnumMax := packetNumber(0x7f)
	if vfTier() > 0 {
		pnumMax = c28pnumMax()
	}
	p, n := parseLongHeaderPacket(pkt, k, pnumMax)

	sampled := len(*k.hdr.hp.(c28hp).tab)
	switch pt {
	case packetTypeInvalid, packetTypeVersionNegotiation:
		vfAssert(n == -1 && sampled == 0, "not a protected long header packet")
		vfReach("invalid or version negotiation")
	case packetTypeRetry:
		vfAssert(n == len(pkt) && sampled == 0, "Retry packets carry no packet protection")
		vfReach("retry")
	default:
		vfAssert(n == -1, "arbitrary bytes do not authenticate")
		vfAssert(p.payload == nil && p.dstConnID == nil && p.version == 0, "empty packet on error")
		short := vfConcretizeBool(payLen < 4+headerProtectionSampleSize)
		truncated := vfConcretizeBool(payLen > uint64(tail))
		if short || truncated {
			vfAssert(sampled == 0, "truncated or too short for a header protection sample: no sample taken")
			if short && !truncated && tail >= 4+headerProtectionSampleSize {
				vfReach("too short, more bytes follow in the datagram")
			}
			if short && !truncated && int(payLen) == tail {
				vfReach("too short, nothing follows")
			}
		} else {
			vfAssert(sampled == 1, "one sample")
			vfReach("authentication failed")
		}
	}
	vfObserve("n", uint64(int64(n)))
	vfObserve("pnumOff", uint64(pnumOff))
	vfReach("end")
}
