package quic

import (
	"context"
	"errors"
)

// C21 (kernel) — QUIC stream-count limits are never exceeded.
//
// Shapes: (I) one step from an arbitrary valid remoteStreamLimits / localStreamLimits state,
// (B) bounded histories from the real init(), (B) streamForFrame on a hand-initialised Conn.
//
// Sensitivity (sh mut.sh, all caught on the quick tier):
//   quic/stream_limits.go  'if num >= lim.max {'        -> 'if num > lim.max {'          VerifC21_remote_step "open: error iff num >= max"
//   quic/stream_limits.go  'lim.closed+lim.maxOpen,'    -> 'lim.closed+lim.maxOpen+1,'   VerifC21_remote_step "Inv preserved: max <= closed+maxOpen"
//   quic/stream_limits.go  'lim.max = max(lim.max, maxStreams)' -> 'lim.max = maxStreams' VerifC21_local_step "setMax never lowers the limit"

func init() {
	vfRegister("VerifC21_remote_step", VerifC21_remote_step)
	vfRegister("VerifC21_remote_history", VerifC21_remote_history)
	vfRegister("VerifC21_local_step", VerifC21_local_step)
	vfRegister("VerifC21_local_history", VerifC21_local_history)
	vfRegister("VerifC21_streamForFrame", VerifC21_streamForFrame)
}

// Stream IDs are 62-bit varints, so stream numbers are < 2^60. The claim covers stream numbers below
// 2^60-implicitStreamLimit: beyond that lim.max can exceed maxStreamsLimit (2^60), which a MAX_STREAMS frame cannot
// carry (the peer would have to open ~2^60 streams first; outside the claim, stated in the check's bounds).
const c21numLimit = int64(1)<<60 - implicitStreamLimit
const c21idLimit = streamID(c21numLimit << 2)

// c21remoteInv is the representation invariant of remoteStreamLimits.
func c21remoteInv(lim *remoteStreamLimits) bool {
	ok := vfAnd(0 <= lim.closed, lim.closed <= lim.opened)
	ok = vfAnd(ok, lim.opened <= lim.max)
	ok = vfAnd(ok, lim.max <= lim.closed+lim.maxOpen)
	ok = vfAnd(ok, lim.max <= lim.opened+implicitStreamLimit)
	ok = vfAnd(ok, vfAnd(0 <= lim.maxOpen, lim.maxOpen <= maxStreamsLimit))
	ok = vfAnd(ok, lim.opened <= c21numLimit)
	return ok
}

// c21assertInv asserts the invariant conjunct by conjunct (smaller solver queries than one big conjunction).
func c21assertInv(lim *remoteStreamLimits, label string) {
	vfAssert(vfAnd(0 <= lim.closed, lim.closed <= lim.opened), label+": 0 <= closed <= opened")
	vfAssert(lim.opened <= lim.max, label+": opened <= max")
	vfAssert(lim.max <= lim.closed+lim.maxOpen, label+": max <= closed+maxOpen")
	vfAssert(lim.max <= lim.opened+implicitStreamLimit, label+": max <= opened+implicitStreamLimit")
	vfAssert(vfAnd(0 <= lim.maxOpen, lim.maxOpen <= maxStreamsLimit), label+": maxOpen in range")
	vfAssert(lim.opened <= c21numLimit, label+": opened <= 2^60-100")
}

// c21frameValue runs the real appendFrame into a real packetWriter and returns the MAX_STREAMS value on the wire
// (ok=false if no frame was written).
func c21frameValue(lim *remoteStreamLimits, typ streamType) (v int64, ok bool) {
	var w packetWriter
	w.reset(1200)
	w.start1RTTPacket(0, -1, nil)
	done := lim.appendFrame(&w, typ, 0, false)
	vfAssert(done, "appendFrame: fits into an empty 1200-byte packet")
	p := w.payload()
	if len(p) == 0 {
		return 0, false
	}
	gotTyp, gotMax, n := consumeMaxStreamsFrame(p)
	vfAssert(n == len(p), "appendFrame: exactly one well-formed MAX_STREAMS frame")
	vfAssert(gotTyp == typ, "appendFrame: stream type")
	return gotMax, true
}

func c21isTransportErr(err error, code transportError) bool {
	var te localTransportError
	if !errors.As(err, &te) {
		return false
	}
	return te.code == code
}

// (I) one operation on an arbitrary valid remoteStreamLimits.
func VerifC21_remote_step() {
	lim := &remoteStreamLimits{
		max:     vfI64("max"),
		opened:  vfI64("opened"),
		closed:  vfI64("closed"),
		maxOpen: vfI64("maxOpen"),
	}
	vfAssume(c21remoteInv(lim))
	if vfBool("sendMaxPending") {
		lim.sendMax.setUnsent()
	}
	pre := *lim
	switch vfChoice("op", 3) {
	case 0: // peer opens (or sends a frame for) stream id
		id := streamID(vfI64("id"))
		vfAssume(vfAnd(id >= 0, id < c21idLimit))
		num := int64(id) >> 2
		err := lim.open(id)
		if num >= pre.max {
			vfAssert(err != nil, "open: error iff num >= max")
			vfAssert(c21isTransportErr(err, errStreamLimit), "open: beyond the limit is STREAM_LIMIT_ERROR")
			vfAssert(vfAnd(lim.max == pre.max, vfAnd(lim.opened == pre.opened, lim.closed == pre.closed)), "open: rejected open changes nothing")
			vfReach("open-rejected")
		} else {
			vfAssert(err == nil, "open: error iff num >= max")
			vfAssert(lim.opened == vfIteI64(num >= pre.opened, num+1, pre.opened), "open: opened = max(opened, num+1) (implicit opening)")
			vfAssert(num < lim.opened, "open: the stream counts as opened")
			vfReach("open-accepted")
		}
	case 1: // a peer-created stream reaches the closed state
		vfAssume(lim.closed < lim.opened)
		lim.close()
		vfAssert(lim.closed == pre.closed+1, "close: counted once")
		vfAssert(lim.opened == pre.opened, "close: opened unchanged")
		vfReach("close")
	case 2:
		lim.maybeUpdateMax()
		vfAssert(vfAnd(lim.opened == pre.opened, lim.closed == pre.closed), "maybeUpdateMax: counters unchanged")
		vfReach("update")
	}
	c21assertInv(lim, "Inv preserved")
	vfAssert(lim.opened <= lim.closed+lim.maxOpen, "peer never holds more than maxOpen streams")
	vfAssert(lim.max >= pre.max, "advertised MAX_STREAMS never decreases")
	vfAssert(lim.maxOpen == pre.maxOpen, "maxOpen is configuration")
	if lim.max != pre.max {
		vfAssert(lim.sendMax.shouldSend(), "a raised limit is scheduled for sending")
		vfReach("max-raised")
	}
	typ := streamType(vfChoice("styp", 2))
	v, sent := c21frameValue(lim, typ)
	vfAssert(sent == vfOr(lim.max != pre.max, pre.sendMax.shouldSend()), "MAX_STREAMS sent iff pending")
	if sent {
		vfAssert(v == lim.max, "MAX_STREAMS on the wire == lim.max")
		vfAssert(!lim.sendMax.shouldSend(), "sent once")
		vfReach("frame")
	}
	vfObserve("max", uint64(lim.max))
	vfObserve("opened", uint64(lim.opened))
	vfReach("end")
}

// (B) real histories from init(): Inv holds, advertised values never decrease, every advertised value is what
// the peer is held to.
func VerifC21_remote_history() {
	var lim remoteStreamLimits
	maxOpen := vfI64("maxOpen")
	vfAssume(vfAnd(0 <= maxOpen, maxOpen <= maxStreamsLimit))
	lim.init(maxOpen)
	c21assertInv(&lim, "Inv(init)")
	lastAdvertised := lim.max // initial_max_streams_* transport parameter
	k := 3
	if vfTier() > 0 {
		k = 4
	}
	for i := 0; i < k; i++ {
		pre := lim
		switch vfChoice("op", 3) {
		case 0:
			id := streamID(vfI64("id"))
			vfAssume(vfAnd(id >= 0, id < c21idLimit))
			err := lim.open(id)
			vfAssert((err != nil) == (int64(id)>>2 >= pre.max), "history open: error iff num >= max")
		case 1:
			vfAssume(lim.closed < lim.opened)
			lim.close()
		case 2:
			v, sent := c21frameValue(&lim, bidiStream)
			if sent {
				vfAssert(v >= lastAdvertised, "history: MAX_STREAMS frames never decrease")
				lastAdvertised = v
				vfReach("history-frame")
			}
		}
		c21assertInv(&lim, "Inv along history")
		vfAssert(lim.opened <= lim.closed+maxOpen, "history: at most maxOpen simultaneously open")
		vfAssert(lim.max >= pre.max, "history: max monotone")
	}
	vfObserve("max", uint64(lim.max))
	vfReach("end")
}

// c21local builds a localStreamLimits with the gate condition consistent with (opened < max),
// which is what every unlock() establishes.
func c21local(opened, max int64) *localStreamLimits {
	lim := &localStreamLimits{}
	lim.init()
	lim.gate.lock()
	lim.opened = opened
	lim.max = max
	lim.unlock()
	return lim
}

func c21gateSet(lim *localStreamLimits) bool {
	set := lim.gate.lock()
	lim.gate.unlock(set)
	return set
}

// (I) one operation on an arbitrary localStreamLimits (gate executed sequentially).
func VerifC21_local_step() {
	opened, max := vfI64("opened"), vfI64("max")
	vfAssume(vfAnd(-1 <= opened, opened <= max)) // Inv: we never opened at or beyond the peer's limit; -1 = conn closed
	vfAssume(vfAnd(0 <= max, max <= maxStreamsLimit))
	lim := c21local(opened, max)
	switch vfChoice("op", 3) {
	case 0: // NewStream's quota step
		var num int64
		var err error
		// The quic package's TestMain waits for leaked goroutines, so the native run must be able to release
		// the blocked open(): the context is cancelled only after vfBlocks has reported its verdict.
		ctx, cancel := context.WithCancel(context.Background())
		defer cancel()
		blocked := vfBlocks(func() { num, err = lim.open(ctx, nil) })
		if blocked {
			vfAssert(opened >= max, "open blocks only when the quota is used up")
			vfReach("open-blocks")
			return
		}
		vfAssert(opened < max, "open returns only when opened < max")
		if opened < 0 {
			vfAssert(err == errConnClosed, "open on a closed conn")
			vfAssert(lim.opened == -1, "closed conn stays closed")
			vfReach("open-closed")
		} else {
			vfAssert(err == nil, "open succeeds")
			vfAssert(num == opened, "stream numbers are handed out in order")
			vfAssert(num < lim.max, "never opens a stream at or beyond the peer's MAX_STREAMS")
			vfAssert(lim.opened == opened+1, "opened counted once")
			vfReach("open-ok")
		}
	case 1: // MAX_STREAMS frame from the peer, any value (stale/duplicate frames included)
		v := vfI64("maxStreams")
		vfAssume(vfAnd(0 <= v, v <= maxStreamsLimit))
		lim.setMax(v)
		vfAssert(lim.max == vfIteI64(v > max, v, max), "setMax never lowers the limit")
		vfAssert(lim.opened == opened, "setMax: opened unchanged")
		vfReach("setMax")
	case 2:
		n := vfI64("n")
		vfAssert(lim.wasOpened(n) == (n < opened), "wasOpened")
		vfReach("wasOpened")
	}
	vfAssert(lim.opened <= lim.max, "Inv preserved: opened <= max")
	vfAssert(c21gateSet(lim) == (lim.opened < lim.max), "gate condition == quota available")
	vfObserve("opened", uint64(lim.opened))
	vfObserve("max", uint64(lim.max))
	vfReach("end")
}

// (B) real history from init(): streams are numbered 0,1,2,... and each is below the limit in force.
func VerifC21_local_history() {
	lim := &localStreamLimits{}
	lim.init()
	next := int64(0)
	k := 4
	if vfTier() > 0 {
		k = 6
	}
	for i := 0; i < k; i++ {
		switch vfChoice("op", 2) {
		case 0:
			var num int64
			var err error
			ctx, cancel := context.WithCancel(context.Background())
			defer cancel()
			if vfBlocks(func() { num, err = lim.open(ctx, nil) }) {
				vfAssert(lim.opened >= lim.max, "history: blocks only at the limit")
				vfReach("history-blocks")
				return
			}
			vfAssert(err == nil, "history: open ok")
			vfAssert(num == next, "history: consecutive numbers")
			vfAssert(num < lim.max, "history: below MAX_STREAMS")
			next++
		case 1:
			v := vfI64("maxStreams")
			vfAssume(vfAnd(0 <= v, v <= maxStreamsLimit))
			pre := lim.max
			lim.setMax(v)
			vfAssert(lim.max >= pre, "history: limit monotone")
		}
		vfAssert(lim.opened <= lim.max, "history: opened <= max")
	}
	vfObserve("opened", uint64(lim.opened))
	vfReach("end")
}

// (B) streamForFrame on a Conn whose stream state is initialised by the real streamsInit()/lifetimeInit()
// (no endpoint, no TLS). Up to two frames with arbitrary stream IDs and directions.
func VerifC21_streamForFrame() {
	maxBidi := int64(vfRange("MaxBidiRemoteStreams", 1, 3))
	maxUni := int64(vfRange("MaxUniRemoteStreams", 1, 3))
	c := &Conn{
		side:   connSide(vfChoice("side", 2)),
		config: &Config{MaxBidiRemoteStreams: maxBidi, MaxUniRemoteStreams: maxUni},
	}
	c.lifetimeInit()
	c.streamsInit()
	now := vfTime("now")
	vfAssume(vfAnd(now.UnixNano() >= 1<<40, now.UnixNano() < 1<<60))
	limit := [streamTypeCount]int64{bidiStream: maxBidi, uniStream: maxUni}
	var refOpened [streamTypeCount]int64
	vfAssert(c.streams.remoteLimit[bidiStream].max == maxBidi, "initial bidi limit")
	vfAssert(c.streams.remoteLimit[uniStream].max == maxUni, "initial uni limit")
	for call := 0; call < 2; call++ {
		id := streamID(vfI64("id"))
		vfAssume(vfAnd(id >= 0, id < c21idLimit))
		ftype := streamFrameType(vfChoice("ftype", 2))
		styp, num, local := id.streamType(), id.num(), id.initiator() == c.side
		_, known := c.streams.streams[id]
		s := c.streamForFrame(now, id, ftype)
		aborted := c.lifetime.state != connStateAlive
		switch {
		case styp == uniStream && local != (ftype == sendStream):
			vfAssert(s == nil && aborted, "wrong-direction frame for a uni stream aborts")
			vfAssert(c21isTransportErr(c.lifetime.localErr, errStreamState), "wrong direction: STREAM_STATE_ERROR")
			vfReach("sff-wrong-direction")
		case local:
			// we never open local streams in this harness
			vfAssert(s == nil && aborted, "frame for a never-opened local stream aborts")
			vfAssert(c21isTransportErr(c.lifetime.localErr, errStreamState), "unknown local stream: STREAM_STATE_ERROR")
			vfReach("sff-unknown-local")
		case num >= limit[styp]:
			vfAssert(s == nil && aborted, "peer stream beyond the advertised limit aborts")
			vfAssert(c21isTransportErr(c.lifetime.localErr, errStreamLimit), "beyond limit: STREAM_LIMIT_ERROR")
			vfReach("sff-limit")
		default:
			vfAssert(s != nil && !aborted, "peer stream below the limit is created or found")
			vfAssert(s.id == id, "stream has the requested id")
			if num >= refOpened[styp] {
				refOpened[styp] = num + 1
			}
			for n := int64(0); n < num; n++ { // all lower-numbered streams of the same kind exist (implicitly opened)
				_, ok := c.streams.streams[newStreamID(id.initiator(), styp, n)]
				vfAssert(ok, "lower-numbered streams implicitly created")
			}
			if known {
				vfReach("sff-existing")
			} else {
				vfReach("sff-created")
			}
		}
		if aborted {
			vfObserve("aborted-at", uint64(call))
			vfReach("end")
			return
		}
		vfAssert(c.streams.remoteLimit[styp].opened == refOpened[styp], "remoteLimit.opened tracks the highest stream")
		c21assertInv(&c.streams.remoteLimit[styp], "Inv on the Conn's limits")
		vfAssert(c.streams.remoteLimit[styp].opened <= limit[styp], "opened peer streams <= configured limit")
	}
	vfObserve("opened-bidi", uint64(refOpened[bidiStream]))
	vfObserve("opened-uni", uint64(refOpened[uniStream]))
	vfReach("end")
}
