package quic

// C31 (continued) — stateless-reset tokens from the REAL generator: statelessResetTokenGenerator.init (all-zero test,
// hmac.New over the Endpoint's StatelessResetKey) and tokenForConnID with the real crypto/hmac + crypto/sha256
// executed by the engine. No stub: the statement's "deterministic function of the connection ID for a given key" and
// "differ for different connection IDs and keys" are checked on the real function, for key pairs / connection-ID
// pairs that differ in ONE byte (any position, any two values of that byte). The byte that differs is the only
// symbolic input (8 free bits: the engine decides the assertion by evaluating SHA-256 for all 256 values), the rest of
// key and connection ID come from concrete patterns. A collision of two 128-bit tokens would show up as a violation
// that replays natively; none exists within the bounds.

func init() {
	vfRegister("VerifC31_reset_key_bytes", VerifC31_reset_key_bytes)
	vfRegister("VerifC31_reset_cid_bytes", VerifC31_reset_cid_bytes)
}

// c31pattern: concrete base patterns for keys and connection IDs.
func c31pattern(kind, n int) []byte {
	b := make([]byte, n)
	for i := range b {
		switch kind {
		case 0: // all zero
		case 1:
			b[i] = byte(7*i + 1)
		case 2:
			b[i] = 0xff
		}
	}
	return b
}

// c31differ asserts a != b. The comparison is a BRANCH so that its feasibility (one symbolic byte = 8 free bits under
// SHA-256) is decided by the engine's complete enumeration of the 256 values instead of bit-blasting SHA-256.
func c31differ(a, b []byte, label string) {
	if c31eq(a, b) {
		vfAssert(false, label)
	}
}

func c31realToken(key []byte, cid []byte) (statelessResetToken, bool) {
	var k [32]byte
	copy(k[:], key)
	var g statelessResetTokenGenerator
	g.init(k)
	return g.tokenForConnID(cid), g.canReset
}

// Every byte of the 32-byte key matters: keys that differ in one byte give different tokens for the same
// connection ID; the same key gives the same token in two independently initialised generators; the generator may
// send resets iff the key is not all zero.
func VerifC31_reset_key_bytes() {
	kind := vfChoice("keypattern", 3)
	pos := vfChoice("pos", 32)
	cidlens := []int{0, 1, 8, 20}
	cid := c31pattern(1, cidlens[vfChoice("cidlen", len(cidlens))])
	key1 := c31pattern(kind, 32)
	key1[pos] = 0x5a
	key2 := c31clone(key1)
	b := vfU8("keybyte")
	vfAssume(b != 0x5a)
	key2[pos] = b

	t1, can1 := c31realToken(key1, cid)
	t1again, _ := c31realToken(key1, cid)
	vfAssert(can1, "a non-zero key can send stateless resets")
	vfAssert(t1 == t1again, "same key, same connection ID: same token in every generator")

	zero2 := kind == 0 && b == 0
	if zero2 {
		// all-zero key = "no key configured": tokens come from a random secret, resets are not sent
		_, can2 := c31realToken(key2, cid)
		vfAssert(!can2, "an all-zero key never sends stateless resets")
		vfReach("zero key")
		vfReach("end")
		return
	}
	t2, can2 := c31realToken(key2, cid)
	vfAssert(can2, "a non-zero key can send stateless resets")
	c31differ(t1[:], t2[:], "keys that differ (in any one byte) give different tokens")
	vfObserveBytes("t1", t1[:])
	vfObserveBytes("t2", t2[:])
	if pos >= 16 {
		vfReach("upper half of the key")
	}
	vfReach("end")
}

// Every byte of the connection ID matters, and so does its length.
func VerifC31_reset_cid_bytes() {
	key := c31pattern(1+vfChoice("keypattern", 2), 32)
	n := 1 + vfChoice("cidlen", 20)
	if vfTier() == 0 && n > 3 && n != 8 && n != 20 {
		return
	}
	cid1 := c31pattern(1, n)
	var k [32]byte
	copy(k[:], key)
	var g statelessResetTokenGenerator
	g.init(k)
	t1 := g.tokenForConnID(cid1)
	if vfChoice("mode", 2) == 0 {
		pos := vfChoice("pos", n)
		cid2 := c31clone(cid1)
		b := vfU8("cidbyte")
		vfAssume(b != cid1[pos])
		cid2[pos] = b
		t2 := g.tokenForConnID(cid2)
		c31differ(t1[:], t2[:], "connection IDs that differ (in any one byte) give different tokens")
		vfObserveBytes("t2", t2[:])
		vfReach("byte")
	} else {
		// a proper prefix and a one-byte extension (the extra byte symbolic)
		t2 := g.tokenForConnID(cid1[:n-1])
		c31differ(t1[:], t2[:], "a shorter connection ID gives a different token")
		ext := append(c31clone(cid1), vfU8("ext"))
		t3 := g.tokenForConnID(ext)
		c31differ(t1[:], t3[:], "a longer connection ID gives a different token")
		vfReach("length")
	}
	t1again := g.tokenForConnID(cid1)
	vfAssert(t1 == t1again, "same connection ID, same token (state reset between requests)")
	vfObserveBytes("t1", t1[:])
	vfReach("end")
}
