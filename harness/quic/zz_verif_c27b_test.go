package quic

import (
	"crypto/tls"
	"net/netip"
	"time"
)

// C27 (connection level) — anti-amplification on the REAL Conn.handleDatagram / Conn.maybeSend.
//
// Shape B: a server Conn is built the way newConn builds it (real connIDState.initServer, lossState.init, streamsInit,
// lifetimeInit, restartIdleTimer), minus crypto/tls: the TLS stack is replaced by a nondeterministic model of what
// Conn.handleTLSEvents does for a server when the ClientHello arrives (CRYPTO data of a chosen size queued with the
// real cryptoStream.write per level, write keys installed per level, peer transport parameters applied with the real
// connIDState.setPeerActiveConnIDLimit). Packet protection is ideal (cipher.AEAD / headerProtection interface fields).
// The harness then plays the role of Conn.loop: after every event (datagram from the client's address X, datagram
// carrying the connection's IDs from another address Y, connection timer) it runs the real Conn.maybeSend.
// The network is the stub packetConn of a hand-built Endpoint; it keeps the ghost ledger
//     recvX = bytes of all datagrams handed to the conn that came from X
//     sentX = bytes of all datagrams the conn sent to X
// and asserts the property statement itself at every send: sentX <= 3*recvX while the address is not validated
// (validated = the harness delivered a Handshake packet that the conn processed).
//
// Known finding on the unchanged tree (vfAssertKF, key C27-initial-padding-overdraft): maybeSend pads a datagram with an
// ack-eliciting Initial to 1200 bytes although the budget is in [128,1200) (e.g. ONE client datagram of 1250 bytes,
// HelloRetryRequest-like flight, three PTOs: 4800 sent, 3750 allowed). Paths end at the first such overdraft.
//
// Sensitivity (quick tier; none of them is in the known-finding class):
//   seeded/C27-A  handleDatagram credits the budget before the peer-address check        "C27: sent <= 3 * received"
//   seeded/C27-B  trailing Initial padding no longer charged to sentInitial.size          "C27: sent <= 3 * received"
//   mut.sh conn_recv.go 'if p.ptype == packetTypeHandshake && c.side == serverSide {' -> 'if c.side == serverSide {'
//                                                                          "C27: first datagram credits three times its size"
//   mut.sh conn_send.go Handshake packets recorded with packetSent only on the client side  "C27: sent <= 3 * received"
//   mut.sh conn_send.go 'c.w.reset(c.loss.maxSendSize())' -> 'c.w.reset(smallestMaxDatagramSize)'  "C27: sent <= 3 * received"
//   (equivalent: 'if limit == ccBlocked' -> '... && !c.loss.ptoExpired': the packet writer limit still binds)

func init() {
	vfRegister("VerifC27_conn", VerifC27_conn)
}

const c27cKey = "C27-initial-padding-overdraft"

var (
	c27cAddrX = netip.AddrPortFrom(netip.AddrFrom4([4]byte{192, 0, 2, 1}), 4433)
	c27cAddrY = netip.AddrPortFrom(netip.AddrFrom4([4]byte{198, 51, 100, 7}), 4321)
	c27cLocal = netip.AddrPortFrom(netip.AddrFrom4([4]byte{203, 0, 113, 9}), 443)
)

// c27cAEAD: ideal AEAD with authentication: Seal appends the plaintext and a 16-byte zero tag, Open rejects
// any other tag (so that the harness can produce datagrams that fail packet protection removal).
type c27cAEAD struct{}

func (c27cAEAD) NonceSize() int { return 12 }
func (c27cAEAD) Overhead() int  { return aeadOverhead }
func (c27cAEAD) Seal(dst, nonce, plaintext, additionalData []byte) []byte {
	dst = append(dst, plaintext...)
	var tag [aeadOverhead]byte
	return append(dst, tag[:]...)
}
func (c27cAEAD) Open(dst, nonce, ciphertext, additionalData []byte) ([]byte, error) {
	if len(ciphertext) < aeadOverhead {
		return nil, errInvalidPacket
	}
	n := len(ciphertext) - aeadOverhead
	for _, b := range ciphertext[n:] {
		if b != 0 {
			return nil, errInvalidPacket
		}
	}
	return append(dst, ciphertext[:n]...), nil
}

func c27cFixedKeys() fixedKeys {
	return fixedKeys{hdr: headerKey{hp: c27hp{}}, pkt: packetKey{aead: c27cAEAD{}, iv: make([]byte, 12)}}
}

// c27cMac stands in for the endpoint's HMAC (stateless reset tokens of NEW_CONNECTION_ID frames).
type c27cMac struct{}

func (c27cMac) Write(p []byte) (int, error) { return len(p), nil }
func (c27cMac) Sum(b []byte) []byte         { return append(b, make([]byte, 32)...) }
func (c27cMac) Reset()                      {}
func (c27cMac) Size() int                   { return 32 }
func (c27cMac) BlockSize() int              { return 64 }

// c27cHooks: deterministic connection IDs instead of crypto/rand.
type c27cHooks struct{}

func (c27cHooks) init(first bool)                {}
func (c27cHooks) handleTLSEvent(e tls.QUICEvent) {}
func (c27cHooks) newConnID(seq int64) ([]byte, error) {
	return []byte{0xc0, 0x27, 0, 0, 0, 0, 0, byte(seq)}, nil
}

// c27cNet is the endpoint's packetConn and the ghost ledger.
type c27cNet struct {
	conn      *Conn
	recvX     int64 // bytes received from X and handed to the conn
	sentX     int64 // bytes sent to X
	nsent     int
	validated bool
	lastSize  int
}

func (n *c27cNet) Close() error              { return nil }
func (n *c27cNet) LocalAddr() netip.AddrPort { return c27cLocal }
func (n *c27cNet) Read(f func(*datagram))    {}
func (n *c27cNet) Write(d datagram) error {
	size := int64(len(d.b))
	vfAssert(d.peerAddr == c27cAddrX, "C27: the conn only sends to its peer address")
	vfAssert(size > 0, "C27: no empty datagrams")
	budget := 3*n.recvX - n.sentX // what the property still allows
	n.sentX += size
	n.nsent++
	n.lastSize = int(size)
	if n.validated {
		return nil
	}
	// Known finding C27-initial-padding-overdraft: the packets built by the packet writer respect the limit
	// (unpadded <= budget, budget >= minPacketSize so sending was legitimate), but maybeSend then pads the
	// datagram, which starts with an ack-eliciting Initial packet, to exactly 1200 bytes with trailing zeros.
	unpadded := int64(len(n.conn.w.datagram()))
	kcond := size == paddedInitialDatagramSize && budget >= minPacketSize && budget < paddedInitialDatagramSize &&
		unpadded <= budget && unpadded < size && getPacketType(d.b) == packetTypeInitial
	vfAssertKF(n.sentX <= 3*n.recvX, "C27: sent <= 3 * received", c27cKey, kcond)
	if size == budget {
		vfReach("conn-sent-exactly-to-the-limit")
	}
	return nil
}

// c27cPeer is the client side of the harness: packet numbers and the writer used to build client datagrams.
type c27cPeer struct {
	w    packetWriter
	next [numberSpaceCount]packetNumber
}

var (
	c27cOrigDst = []byte{0xd0, 1, 2, 3, 4, 5, 6, 7} // client-chosen transient destination connection ID
	c27cCliSrc  = []byte{0xc1, 1, 2, 3}             // client's source connection ID
)

// c27cServer mirrors newConn for a server connection created by a client's first Initial (no Retry).
func c27cServer(now time.Time, net *c27cNet, cfg *Config) *Conn {
	e := &Endpoint{listenConfig: cfg, packetConn: net}
	e.resetGen.mac = c27cMac{}
	c := &Conn{
		side:                 serverSide,
		endpoint:             e,
		config:               cfg,
		peerAddr:             c27cAddrX,
		donec:                make(chan struct{}),
		peerAckDelayExponent: -1,
		testHooks:            c27cHooks{},
	}
	c.msgc = make(chan any, 1)
	err := c.connIDState.initServer(c, newServerConnIDs{
		srcConnID:         c27cCliSrc,
		dstConnID:         c27cOrigDst,
		originalDstConnID: c27cOrigDst,
	})
	vfAssert(err == nil, "initServer")
	// c.prng is only used by skipState: any first skip in [64, 256) is a possible outcome of skip.init.
	c.skip = skipState{skip: 64, maxSkip: 512}
	c.keysAppData.init()
	c.loss.init(c.side, smallestMaxDatagramSize, now)
	c.streamsInit()
	c.lifetimeInit()
	c.restartIdleTimer(now)
	// startTLS: Initial keys derived from the client's destination connection ID.
	c.keysInitial = fixedKeyPair{r: c27cFixedKeys(), w: c27cFixedKeys()}
	net.conn = c
	return c
}

// c27cTLS models Conn.handleTLSEvents for the events a server's TLS stack emits when it has read the ClientHello.
// flight 0: HelloRetryRequest-like (Initial CRYPTO data only, no further keys);
// flight 1: ServerHello, Handshake keys, handshake flight of hsSize bytes, 1-RTT write keys, client transport parameters.
func c27cTLS(c *Conn, flight, initSize, hsSize int, params bool) {
	c.crypto[initialSpace].write(make([]byte, initSize))
	if flight == 0 {
		return
	}
	c.keysHandshake = fixedKeyPair{r: c27cFixedKeys(), w: c27cFixedKeys()}
	if params {
		// QUICTransportParameters: active_connection_id_limit 2 (the minimum and default) makes the server issue
		// one more connection ID, i.e. the first 1-RTT packet carries a NEW_CONNECTION_ID frame.
		err := c.connIDState.setPeerActiveConnIDLimit(c, 2)
		vfAssert(err == nil, "setPeerActiveConnIDLimit")
	}
	c.crypto[handshakeSpace].write(make([]byte, hsSize))
	c.keysAppData.w.hdr.hp = c27hp{}
	c.keysAppData.w.pkt[0] = packetKey{aead: c27cAEAD{}, iv: make([]byte, 12)}
	c.keysAppData.w.pkt[1] = packetKey{aead: c27cAEAD{}, iv: make([]byte, 12)}
}

const (
	c27cPing    = iota // Initial packet with a PING, datagram filled up with trailing zero bytes
	c27cAck            // Initial packet: ACK of every Initial packet the server has sent so far
	c27cCorrupt        // Initial packet whose AEAD tag is damaged
	c27cHsPing         // Handshake packet with a PING: validates the address (needs Handshake keys)
	c27cBadFrm         // Initial packet with a frame that is not allowed there (HANDSHAKE_DONE): the server closes
	c27cDup            // Initial packet repeating the previous Initial packet number (duplicate)
	c27cShort          // short-header bytes (the server has no 1-RTT read keys)
	c27cPadded         // Initial packet with a PING and PADDING frames up to the datagram size (what real clients send)
)

// datagram builds a client datagram of exactly `size` bytes (size >= 64): one long-header packet followed by 0x40 and
// zero bytes (which handleDatagram takes for a short-header packet it has no keys for, and skips), except c27cPadded.
func (p *c27cPeer) datagram(c *Conn, kind, size int) []byte {
	w := &p.w
	w.reset(size)
	b := make([]byte, size)
	if kind == c27cShort {
		b[0] = 0x40
		copy(b[1:], c.connIDState.local[1].cid)
		return b
	}
	space, ptype := initialSpace, packetTypeInitial
	if kind == c27cHsPing {
		space, ptype = handshakeSpace, packetTypeHandshake
	}
	pnum := p.next[space]
	if kind == c27cDup && pnum > 0 {
		pnum--
	} else {
		p.next[space]++
	}
	lp := longPacket{
		ptype:     ptype,
		version:   quicVersion1,
		num:       pnum,
		dstConnID: c.connIDState.local[1].cid, // the connection ID the server chose
		srcConnID: c27cCliSrc,
	}
	w.startProtectedLongHeaderPacket(-1, lp)
	if end := c.loss.nextNumber(initialSpace); kind == c27cAck && end > 0 {
		var seen rangeset[packetNumber]
		seen.add(0, end)
		w.appendAckFrame(seen, 0, ecnCounts{})
	} else {
		w.appendPingFrame()
	}
	if kind == c27cPadded {
		w.appendPaddingTo(size)
	}
	if kind == c27cBadFrm {
		w.b[w.payOff] = frameTypeHandshakeDone
	}
	sent := w.finishProtectedLongHeaderPacket(-1, c27cFixedKeys(), lp)
	vfAssert(sent != nil, "client packet built")
	n := copy(b, w.datagram())
	vfAssert(n == len(w.datagram()) && (kind != c27cPadded || n == size), "client datagram has the requested size")
	if kind == c27cCorrupt {
		b[n-1] ^= 0x55
	}
	if n < size {
		b[n] = 0x40 // the rest looks like a coalesced short-header packet (no 1-RTT read keys yet: skipped)
	}
	return b
}

// c27cNextTimeout is the timer computation of Conn.loop.
func c27cNextTimeout(c *Conn, sendTimeout time.Time) time.Time {
	next := sendTimeout
	next = firstTime(next, c.idle.nextTimeout)
	if c.isAlive() {
		next = firstTime(next, c.loss.timer)
		next = firstTime(next, c.acks[appDataSpace].nextAck)
	} else {
		next = firstTime(next, c.lifetime.drainEndTime)
	}
	return next
}

// c27cFlight: what the TLS model does when the first Initial has been handled (see c27cTLS).
type c27cFlight struct {
	flight, initSize, hsSize int
	params                   bool
}

// quick: the first 5; thorough: all
var c27cFlights = [...]c27cFlight{
	{0, 90, 0, false},    // HelloRetryRequest-like: ~90 bytes of Initial CRYPTO data, nothing else
	{1, 90, 36, false},   // PSK-sized handshake flight, nothing to send in 1-RTT
	{1, 90, 700, true},   // whole flight in one datagram, NEW_CONNECTION_ID in 1-RTT
	{1, 90, 2600, true},  // certificate-chain sized flight: three datagrams
	{1, 90, 36, true},    //
	{1, 90, 1100, false}, // flight just over one datagram
	{1, 90, 2600, false}, //
	{0, 1300, 0, false},  // Initial CRYPTO data larger than one datagram
}

// c27cDgram: one kind of datagram event.
type c27cDgram struct {
	other bool // from address Y instead of the client's address X
	kind  int
	size  int
	late  bool // arrives 1.5 s after the previous event (possibly after the PTO timer) instead of 1 ms
}

// quick: the first 10; thorough: all
var c27cMenu = [...]c27cDgram{
	{false, c27cPing, 1200, false},
	{false, c27cPing, 200, false}, // too short for an Initial packet: counted, not processed
	{false, c27cAck, 1200, false},
	{false, c27cCorrupt, 1200, false},
	{true, c27cPing, 1200, false},
	{true, c27cPing, 200, false},
	{false, c27cHsPing, 1200, false},
	{false, c27cBadFrm, 1200, false},
	{false, c27cPing, 1200, true},
	{true, c27cPing, 1200, true},
	{false, c27cPing, 1472, false},
	{false, c27cDup, 1200, false},
	{false, c27cShort, 1200, false},
	{false, c27cPadded, 1200, false},
	{false, c27cAck, 1200, true},
}

func VerifC27_conn() {
	thorough := vfTier() > 0
	now := time.Unix(0, 1<<50)
	cfg := &Config{}
	if thorough {
		cfg.HandshakeTimeout = 2 * time.Minute // room for more PTO probes than the default 10 s leaves
	}
	net := &c27cNet{}
	c := c27cServer(now, net, cfg)
	peer := &c27cPeer{}

	// Event 0: the client's first Initial datagram (>= 1200 bytes, or the endpoint would not have created the conn)
	// followed by the TLS stack's reaction to the ClientHello, as inside handleCryptoFrame -> handleTLSEvents.
	// histories: k events after the first datagram, at most maxDgrams of them datagrams (the others are timers)
	nFirst, nFlights, nMenu, k, maxDgrams := 2, 5, 10, 5, 2
	if thorough {
		nFirst, nFlights, nMenu, k, maxDgrams = 3, len(c27cFlights), len(c27cMenu), 7, 2
	}
	first := [3]int{1200, 1250, 1472}[vfChoice("firstSize", nFirst)]
	d := &datagram{b: peer.datagram(c, c27cPing, first), peerAddr: c27cAddrX, localAddr: c27cLocal}
	net.recvX += int64(len(d.b))
	handled := c.handleDatagram(now, d)
	vfAssert(handled, "first Initial handled")
	vfAssert(c.loss.antiAmplificationLimit == 3*first, "C27: first datagram credits three times its size")
	fl := c27cFlights[vfChoice("flight", nFlights)]
	c27cTLS(c, fl.flight, fl.initSize, fl.hsSize, fl.params)
	sendTimeout := c.maybeSend(now)
	vfAssert(net.nsent > 0, "the server answers the first Initial")

	dgrams := 0
	for i := 0; i < k; i++ {
		ev := 0
		if dgrams < maxDgrams {
			ev = vfChoice("event", 1+nMenu)
		}
		if ev == 0 { // connection timer
			nt := c27cNextTimeout(c, sendTimeout)
			vfAssume(!nt.IsZero())
			if nt.After(now) {
				now = nt
			}
			wasAlive := c.isAlive()
			if c.idleAdvance(now) { // (only after the handshake)
				c.abortImmediately(now, errIdleTimeout)
				break
			}
			if wasAlive && !c.isAlive() {
				vfReach("conn-handshake-timeout") // the server closes: CONNECTION_CLOSE is subject to the limit as well
			}
			c.loss.advance(now, c.handleAckOrLoss)
			if c.lifetimeAdvance(now) {
				vfReach("conn-drained")
				break
			}
			if c.loss.ptoExpired {
				vfReach("conn-pto")
			}
		} else {
			dgrams++
			m := c27cMenu[ev-1]
			if m.kind == c27cHsPing {
				vfAssume(c.keysHandshake.canRead())
			}
			if m.late {
				now = now.Add(1500 * time.Millisecond)
			} else {
				now = now.Add(time.Millisecond)
			}
			d := &datagram{b: peer.datagram(c, m.kind, m.size), peerAddr: c27cAddrX, localAddr: c27cLocal}
			if m.other {
				d.peerAddr = c27cAddrY
				vfReach("conn-other-address")
			} else {
				net.recvX += int64(m.size)
			}
			draining := c.isDraining()
			c.handleDatagram(now, d)
			if !m.other && m.kind == c27cHsPing && !draining {
				// the conn processed a Handshake packet from X: address validated, the property no longer binds
				net.validated = true
				vfAssert(c.loss.antiAmplificationLimit == antiAmplificationUnlimited, "Handshake packet from the peer validates the address")
				vfReach("conn-validated")
			}
			if !net.validated {
				vfAssert(c.loss.antiAmplificationLimit != antiAmplificationUnlimited, "C27: only a Handshake packet from the peer address lifts the limit")
			}
		}
		before := net.nsent
		sendTimeout = c.maybeSend(now)
		if net.validated {
			break
		}
		// the conn's own budget agrees with the ledger (ties the accounting kernel, proved by VerifC27_step/_history/
		// _datagram, to what handleDatagram/maybeSend feed into it)
		vfAssert(int64(c.loss.antiAmplificationLimit) == 3*net.recvX-net.sentX, "C27: antiAmplificationLimit == 3*received - sent")
		if net.nsent == before && c.lifetime.state == connStateAlive {
			if lim, _ := c.loss.sendLimit(now); lim == ccBlocked {
				vfReach("conn-blocked-by-anti-amplification")
			}
		}
	}
	vfAssert(net.validated || net.sentX <= 3*net.recvX, "C27: sent <= 3 * received at the end")
	vfObserve("recvX", uint64(net.recvX))
	vfObserve("sentX", uint64(net.sentX))
	vfObserve("nsent", uint64(net.nsent))
	vfObserve("limit", uint64(c.loss.antiAmplificationLimit))
	vfReach("end")
}
