package quic

// C29 — QUIC gates and queues provide exclusion without lost wakeups.
// Shape: symbolic scheduler (all interleavings at synchronisation granularity within the preemption bound) over small
// goroutine programs on quic.gate, quic.queue[int] and internal/gate.Gate. Ghost state (holder, last condition) is
// updated while the gate is held, i.e. exactly at the linearisation points.

import (
	"context"
	"errors"

	igate "golang.org/x/net/internal/gate"
)

func init() {
	vfRegister("VerifC29_gateExclusion", VerifC29_gateExclusion)
	vfRegister("VerifC29_gateWakeup", VerifC29_gateWakeup)
	vfRegister("VerifC29_gateCancel", VerifC29_gateCancel)
	vfRegister("VerifC29_queue", VerifC29_queue)
	vfRegister("VerifC29_queueClose", VerifC29_queueClose)
	vfRegister("VerifC29_queuePutClose", VerifC29_queuePutClose)
	vfRegister("VerifC29_internalGate", VerifC29_internalGate)
}

type c29ghost struct {
	holder int  // 0 = nobody
	cond   bool // condition recorded by the last unlock
	acq    int
}

func (gh *c29ghost) acquired(id int) {
	vfAssert(gh.holder == 0, "gate acquired while another goroutine holds it")
	gh.holder = id
	gh.acq++
}

func (gh *c29ghost) release(set bool) {
	gh.holder = 0
	gh.cond = set
}

// Mutual exclusion and truthful condition reports, any mix of lock / lockIfSet / waitAndLock.
func VerifC29_gateExclusion() {
	vfNoDeadlock()
	g := newGate()
	gh := &c29ghost{}
	ctx, cancel := context.WithCancel(context.Background())
	nthreads := 2 // (3 goroutines exceed the path budget since every visible operation is a scheduling point)
	done := make(chan int, nthreads+1)
	for t := 1; t <= nthreads; t++ {
		id := t
		op := 0
		if id == 2 && vfTier() == 0 {
			op = 2 * vfChoice("op", 2) // quick: the second goroutine uses lock or waitAndLock
		} else {
			op = vfChoice("op", 3)
		}
		// quick: odd goroutines unlock with the condition set, even ones unset; thorough: every combination
		set := id%2 == 1
		if vfTier() > 0 {
			set = vfChoice("set", 2) == 1
		}
		vfGo(func() {
			got := false
			switch op {
			case 0:
				s := g.lock()
				got = true
				gh.acquired(id)
				vfAssert(s == gh.cond, "lock reports the condition recorded by the last unlock")
			case 1:
				if g.lockIfSet() {
					got = true
					gh.acquired(id)
					vfAssert(gh.cond, "lockIfSet acquires only when the condition is set")
				}
			case 2:
				if err := g.waitAndLock(ctx); err == nil {
					got = true
					gh.acquired(id)
					vfAssert(gh.cond, "waitAndLock returns nil only once the condition is set")
				} else {
					vfAssert(ctx.Err() != nil, "waitAndLock fails only if the context is done")
				}
			}
			if got {
				vfYield()
				gh.release(set)
				g.unlock(set)
			}
			done <- 1
		})
	}
	vfGo(func() { // the context is cancelled at an arbitrary point, so every waiter terminates
		cancel()
		done <- 1
	})
	for i := 0; i < nthreads+1; i++ {
		<-done
	}
	// the gate is unlocked at the end and still usable
	s := g.lock()
	vfAssert(s == gh.cond, "final state: condition as recorded")
	if gh.acq == nthreads {
		vfReach("all-acquired")
	}
	vfReach("end")
}

// No lost wake-up: once some goroutine unlocks with the condition set and nobody clears it, a waiter returns.
func VerifC29_gateWakeup() {
	vfNoDeadlock()
	g := newGate()
	gh := &c29ghost{}
	done := make(chan int, 3)
	vfGo(func() { // waiter, no cancellation available
		err := g.waitAndLock(context.Background())
		vfAssert(err == nil, "waitAndLock with a live context returns nil")
		gh.acquired(1)
		vfAssert(gh.cond, "woken only with the condition set")
		gh.release(false)
		g.unlock(false)
		done <- 1
	})
	vfGo(func() { // setter
		g.lock()
		gh.acquired(2)
		gh.release(true)
		g.unlock(true)
		done <- 1
	})
	vfGo(func() { // bystander keeps the condition as it found it
		s := g.lock()
		gh.acquired(3)
		gh.release(s)
		g.unlock(s)
		done <- 1
	})
	for i := 0; i < 3; i++ {
		<-done
	}
	vfReach("end")
}

// Cancellation: a waiter whose context is cancelled returns an error without holding the gate.
func VerifC29_gateCancel() {
	vfNoDeadlock()
	g := newGate() // condition never set
	ctx, cancel := context.WithCancel(context.Background())
	done := make(chan int, 2)
	var werr error
	vfGo(func() {
		werr = g.waitAndLock(ctx)
		done <- 1
	})
	vfGo(func() {
		cancel()
		done <- 1
	})
	<-done
	<-done
	vfAssert(werr != nil, "cancelled waiter returns an error")
	vfAssert(errors.Is(werr, context.Canceled), "the error is the context's error")
	// not held: an unconditional lock succeeds
	s := g.lock()
	vfAssert(!s, "gate not held by the cancelled waiter; condition still unset")
	vfReach("end")
}

// Queue: items are delivered at most once, none is lost while the queue is open, per-producer FIFO order.
func VerifC29_queue() {
	vfNoDeadlock()
	q := newQueue[int]()
	done := make(chan int, 4)
	var got []int
	vfGo(func() { // producer A
		q.put(1)
		q.put(2)
		done <- 1
	})
	vfGo(func() { // producer B
		q.put(10)
		done <- 1
	})
	vfGo(func() { // consumer
		for i := 0; i < 3; i++ {
			v, err := q.get(context.Background())
			vfAssert(err == nil, "get on an open queue returns an item")
			got = append(got, v)
		}
		done <- 1
	})
	for i := 0; i < 3; i++ {
		<-done
	}
	vfAssert(len(got) == 3, "three items delivered")
	seen1, seen2, seen10 := 0, 0, 0
	pos1, pos2 := -1, -1
	for i, v := range got {
		switch v {
		case 1:
			seen1++
			pos1 = i
		case 2:
			seen2++
			pos2 = i
		case 10:
			seen10++
		default:
			vfAssert(false, "delivered a value that was never put")
		}
	}
	vfAssert(seen1 == 1 && seen2 == 1 && seen10 == 1, "every item delivered exactly once")
	vfAssert(pos1 < pos2, "FIFO order for one producer")
	vfAssert(q.gate.lockIfSet() == false, "drained queue: condition unset")
	vfReach("end")
}

// close wakes every blocked getter; put after close is refused; get after close returns the close error.
func VerifC29_queueClose() {
	vfNoDeadlock()
	q := newQueue[int]()
	cerr := errors.New("c29 closed")
	done := make(chan int, 3)
	nerr := 0
	for i := 0; i < 2; i++ {
		vfGo(func() {
			_, err := q.get(context.Background())
			vfAssert(err == cerr, "get on an empty queue fails only with the close error")
			nerr++
			done <- 1
		})
	}
	vfGo(func() {
		q.close(cerr)
		done <- 1
	})
	for i := 0; i < 3; i++ {
		<-done
	}
	vfAssert(nerr == 2, "close woke both blocked getters")
	_, err := q.get(context.Background())
	vfAssert(err == cerr, "get after close returns the close error")
	vfAssert(!q.put(8), "put after close is refused")
	vfReach("end")
}

// put racing with close and a getter: the item is delivered at most once and only if the put was accepted.
func VerifC29_queuePutClose() {
	vfNoDeadlock()
	q := newQueue[int]()
	cerr := errors.New("c29 closed")
	done := make(chan int, 3)
	putOK := false
	gotOK := false
	gotV := 0
	vfGo(func() {
		v, err := q.get(context.Background())
		if err == nil {
			gotOK, gotV = true, v
		} else {
			vfAssert(err == cerr, "get fails only with the close error")
		}
		done <- 1
	})
	vfGo(func() {
		q.close(cerr)
		done <- 1
	})
	vfGo(func() {
		putOK = q.put(7)
		done <- 1
	})
	for i := 0; i < 3; i++ {
		<-done
	}
	if gotOK {
		vfAssert(gotV == 7 && putOK, "delivered item is the accepted put")
		vfReach("delivered-before-close")
	}
	if !putOK {
		vfAssert(!gotOK, "a refused put is never delivered")
		vfReach("put-refused")
	}
	vfReach("end")
}

// The exported twin internal/gate.Gate (used by http3) under the same exclusion/wake-up scenario.
func VerifC29_internalGate() {
	vfNoDeadlock()
	g := igate.New(false)
	gh := &c29ghost{}
	done := make(chan int, 3)
	vfGo(func() {
		err := g.WaitAndLock(context.Background())
		vfAssert(err == nil, "WaitAndLock returns nil")
		gh.acquired(1)
		vfAssert(gh.cond, "woken only with the condition set")
		gh.release(false)
		g.Unlock(false)
		done <- 1
	})
	vfGo(func() {
		g.Lock()
		gh.acquired(2)
		gh.release(true)
		g.Unlock(true)
		done <- 1
	})
	vfGo(func() {
		if g.LockIfSet() {
			gh.acquired(3)
			vfAssert(gh.cond, "LockIfSet only when set")
			gh.release(true)
			g.Unlock(true)
		}
		done <- 1
	})
	for i := 0; i < 3; i++ {
		<-done
	}
	vfReach("end")
}
