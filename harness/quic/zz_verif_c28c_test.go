package quic

import (
	"net/netip"
	"time"
)

// C28 part (c): transport parameters.
//   VerifC28_tp_roundtrip  valid parameters survive marshal/unmarshal unchanged (field by field).
//   VerifC28_tp_bytes      arbitrary bytes: no panic; whatever is accepted is in range
//                          (max_udp_payload_size >= 1200, ack_delay_exponent <= 20, max_ack_delay < 2^14 ms,
//                          initial_max_streams_* <= 2^60, active_connection_id_limit >= 2, 16-byte reset token),
//                          every failure is TRANSPORT_PARAMETER_ERROR.

func init() {
	vfRegister("VerifC28_tp_roundtrip", VerifC28_tp_roundtrip)
	vfRegister("VerifC28_tp_bytes", VerifC28_tp_bytes)
}

// c28optBytes: nil, or a byte string of 0..max symbolic bytes.
func c28optBytes(label string, max int) []byte {
	n := vfLen(label+".len", -1, max)
	if n < 0 {
		return nil
	}
	b := vfBytes(label, n)
	if b == nil {
		b = []byte{}
	}
	return b
}

func c28sameOpt(a, b []byte) bool {
	if (a == nil) != (b == nil) {
		return false
	}
	return c28eqBytes(a, b)
}

// The marshaller and the parser treat every parameter independently, one after the other. To avoid the product of
// all varint length classes, each path makes ONE group of parameters symbolic and keeps the others at fixed
// non-default values (so that they are still on the wire around the symbolic ones).
func VerifC28_tp_roundtrip() {
	p := transportParameters{
		originalDstConnID:              []byte{1, 2},
		maxIdleTimeout:                 30 * time.Second,
		statelessResetToken:            []byte{0, 1, 2, 3, 4, 5, 6, 7, 8, 9, 10, 11, 12, 13, 14, 15},
		maxUDPPayloadSize:              1472,
		initialMaxData:                 1 << 20,
		initialMaxStreamDataBidiLocal:  70000,
		initialMaxStreamDataBidiRemote: 63,
		initialMaxStreamDataUni:        1 << 31,
		initialMaxStreamsBidi:          100,
		initialMaxStreamsUni:           3,
		ackDelayExponent:               4,
		maxAckDelay:                    26 * time.Millisecond,
		disableActiveMigration:         true,
		activeConnIDLimit:              4,
		initialSrcConnID:               []byte{},
		retrySrcConnID:                 []byte{9},
	}
	switch vfChoice("group", 6) {
	case 0: // durations: whole milliseconds from a boundary set (symbolic k*10^6/10^6 needs seconds of solver time per query)
		idle := []int64{0, 1, 63, 64, 16383, 16384, 1 << 32}
		p.maxIdleTimeout = time.Duration(idle[vfChoice("idle", len(idle))]) * time.Millisecond
		ad := []int64{0, 1, 24, 25, 26, 63, 64, 16383}
		p.maxAckDelay = time.Duration(ad[vfChoice("maxAckDelay", len(ad))]) * time.Millisecond
		p.disableActiveMigration = vfBool("disableActiveMigration")
	case 1:
		p.maxUDPPayloadSize = c28i62("maxUDPPayloadSize")
		vfAssume(p.maxUDPPayloadSize >= 1200)
		p.initialMaxData = c28i62("initialMaxData")
		e := vfU8("ackDelayExponent")
		vfAssume(e <= 20)
		p.ackDelayExponent = int8(e)
	case 2:
		p.initialMaxStreamDataBidiLocal = c28i62("bidiLocal")
		p.initialMaxStreamDataBidiRemote = c28i62("bidiRemote")
		p.initialMaxStreamDataUni = c28i62("uni")
	case 3:
		p.initialMaxStreamsBidi = c28i62("streamsBidi")
		p.initialMaxStreamsUni = c28i62("streamsUni")
		vfAssume(p.initialMaxStreamsBidi <= maxStreamsLimit && p.initialMaxStreamsUni <= maxStreamsLimit)
		p.activeConnIDLimit = c28i62("activeConnIDLimit")
		vfAssume(p.activeConnIDLimit >= 2)
	case 4:
		p.originalDstConnID = c28optBytes("odcid", 2)
		p.initialSrcConnID = c28optBytes("iscid", 2)
		p.retrySrcConnID = c28optBytes("rscid", 1)
		if vfBool("noResetToken") {
			p.statelessResetToken = nil
		} else {
			p.statelessResetToken = vfBytes("resetToken", 16)
		}
	case 5: // preferred address
		var a4 [4]byte
		var a6 [16]byte
		copy(a4[:], vfBytes("v4", 4))
		copy(a6[:], vfBytes("v6", 16))
		p.preferredAddrV4 = netip.AddrPortFrom(netip.AddrFrom4(a4), vfU16("port4"))
		p.preferredAddrV6 = netip.AddrPortFrom(netip.AddrFrom16(a6), vfU16("port6"))
		p.preferredAddrConnID = vfBytes("prefCID", vfLen("prefCIDLen", 1, 3))
		p.preferredAddrResetToken = vfBytes("prefToken", 16)
		vfReach("preferred address")
	}
	b := marshalTransportParameters(p)
	q, err := unmarshalTransportParams(b)
	vfAssert(err == nil, "valid parameters are accepted")
	vfAssert(c28sameOpt(q.originalDstConnID, p.originalDstConnID), "original_destination_connection_id")
	vfAssert(q.maxIdleTimeout == p.maxIdleTimeout, "max_idle_timeout")
	vfAssert(c28sameOpt(q.statelessResetToken, p.statelessResetToken), "stateless_reset_token")
	vfAssert(q.maxUDPPayloadSize == p.maxUDPPayloadSize, "max_udp_payload_size")
	vfAssert(q.initialMaxData == p.initialMaxData, "initial_max_data")
	vfAssert(q.initialMaxStreamDataBidiLocal == p.initialMaxStreamDataBidiLocal, "initial_max_stream_data_bidi_local")
	vfAssert(q.initialMaxStreamDataBidiRemote == p.initialMaxStreamDataBidiRemote, "initial_max_stream_data_bidi_remote")
	vfAssert(q.initialMaxStreamDataUni == p.initialMaxStreamDataUni, "initial_max_stream_data_uni")
	vfAssert(q.initialMaxStreamsBidi == p.initialMaxStreamsBidi, "initial_max_streams_bidi")
	vfAssert(q.initialMaxStreamsUni == p.initialMaxStreamsUni, "initial_max_streams_uni")
	vfAssert(q.ackDelayExponent == p.ackDelayExponent, "ack_delay_exponent")
	vfAssert(q.maxAckDelay == p.maxAckDelay, "max_ack_delay")
	vfAssert(q.disableActiveMigration == p.disableActiveMigration, "disable_active_migration")
	vfAssert(q.activeConnIDLimit == p.activeConnIDLimit, "active_connection_id_limit")
	vfAssert(c28sameOpt(q.initialSrcConnID, p.initialSrcConnID), "initial_source_connection_id")
	vfAssert(c28sameOpt(q.retrySrcConnID, p.retrySrcConnID), "retry_source_connection_id")
	vfAssert(c28sameOpt(q.preferredAddrConnID, p.preferredAddrConnID), "preferred_address connection ID")
	vfAssert(c28sameOpt(q.preferredAddrResetToken, p.preferredAddrResetToken), "preferred_address reset token")
	if p.preferredAddrConnID != nil {
		vfAssert(q.preferredAddrV4.Port() == p.preferredAddrV4.Port() && q.preferredAddrV6.Port() == p.preferredAddrV6.Port(), "preferred_address ports")
		vfAssert(q.preferredAddrV4.Addr().As4() == p.preferredAddrV4.Addr().As4(), "preferred_address IPv4")
		vfAssert(q.preferredAddrV6.Addr().As16() == p.preferredAddrV6.Addr().As16(), "preferred_address IPv6")
	}
	vfObserveBytes("wire", b)
	vfReach("end")
}

func c28tpLen() int {
	if vfTier() > 0 {
		return 7
	}
	return 6
}

func VerifC28_tp_bytes() {
	// either 0..6 (thorough 7) arbitrary bytes, or one parameter whose value fills 3..10 bytes (room for 8-byte varints)
	var b []byte
	if vfBool("single") {
		n := vfLen("vlen", 3, 10)
		b = vfBytes("b", 2+n)
		vfAssume(b[0] <= paramRetrySourceConnectionID && int(b[1]) == n)
		vfReach("single long parameter")
	} else {
		b = vfBytes("b", vfLen("n", 0, c28tpLen()))
	}
	p, err := unmarshalTransportParams(b)
	if err != nil {
		e, ok := err.(localTransportError)
		vfAssert(ok && e.code == errTransportParameter, "every failure is TRANSPORT_PARAMETER_ERROR")
		vfReach("rejected")
		vfObserve("ok", 0)
	} else {
		vfAssert(p.maxUDPPayloadSize >= 1200, "accepted max_udp_payload_size >= 1200")
		vfAssert(p.ackDelayExponent >= 0 && p.ackDelayExponent <= 20, "accepted ack_delay_exponent <= 20")
		vfAssert(p.maxAckDelay >= 0 && p.maxAckDelay < (1<<14)*time.Millisecond, "accepted max_ack_delay < 2^14 ms")
		vfAssert(p.initialMaxStreamsBidi >= 0 && p.initialMaxStreamsBidi <= maxStreamsLimit, "accepted initial_max_streams_bidi <= 2^60")
		vfAssert(p.initialMaxStreamsUni >= 0 && p.initialMaxStreamsUni <= maxStreamsLimit, "accepted initial_max_streams_uni <= 2^60")
		vfAssert(p.activeConnIDLimit >= 2, "accepted active_connection_id_limit >= 2")
		vfAssert(p.statelessResetToken == nil || len(p.statelessResetToken) == 16, "accepted stateless_reset_token has 16 bytes")
		vfAssert(p.maxIdleTimeout >= 0, "max_idle_timeout does not overflow")
		vfAssert(p.initialMaxData >= 0 && p.initialMaxStreamDataBidiLocal >= 0 && p.initialMaxStreamDataBidiRemote >= 0 && p.initialMaxStreamDataUni >= 0, "flow control limits are non-negative")
		vfReach("accepted")
		vfObserve("ok", 1)
		if p.maxUDPPayloadSize != defaultParamMaxUDPPayloadSize {
			vfReach("max_udp_payload_size present")
		}
		if p.ackDelayExponent != defaultParamAckDelayExponent {
			vfReach("ack_delay_exponent present")
		}
		if p.maxAckDelay != defaultParamMaxAckDelayMilliseconds*time.Millisecond {
			vfReach("max_ack_delay present")
		}
		if p.initialMaxStreamsBidi != 0 {
			vfReach("initial_max_streams_bidi present")
		}
		if p.activeConnIDLimit != defaultParamActiveConnIDLimit {
			vfReach("active_connection_id_limit present")
		}
	}
	vfReach("end")
}
