package quic

// C32 — QUIC stream resets carry consistent final sizes.
//
// Uses the stream-kernel infrastructure of zz_verif_c20_test.go (qsSender/qsReceiver: real Streams on a hand-built
// Conn, frames parsed back from a real packetWriter, fates through the real handleAckOrLoss).
//   send side  (shape B): VerifC32_send, VerifC32_code — the wire observer qsSender.observe asserts that no STREAM
//                         frame follows a reset and that every RESET_STREAM states final size == highest offset sent.
//   send side  (shape I): VerifC32_resetstep — one packet (ordinary or PTO probe) from an arbitrary state of a reset
//                         stream (RESET_STREAM unsent / in flight / acknowledged, FIN and opening in any state).
//   receive side (shape B): VerifC32_recv — STREAM/RESET_STREAM frames around the known final size, Read/CloseRead.
//   receive side (shape I, full 62-bit width): VerifC32_bounds (checkStreamBounds), VerifC32_reset (handleReset).
//
// Sensitivity (sh mut.sh, all caught):
//   stream.go appendOutFramesLocked: RESET_STREAM final size `s.outmaxsent` -> `s.out.end`          caught by VerifC32_send
//   stream.go appendOutFramesLocked: `if s.outreset.isSet()` -> `... && !pto` (STREAM after reset)  caught by VerifC32_send
//   seeded C32-A: appendOutFramesLocked `if outreset.isSet() {if shouldSendPTO {...}; return true}` flattened to
//     `if outreset.shouldSendPTO(pto) {...; return true}` (STREAM+FIN on a PTO probe after the RESET_STREAM was acked)
//     caught by VerifC32_resetstep and by the settle phase of VerifC32_send
//   stream.go checkStreamBounds: `fin && insize != -1 && end != insize` -> `end > insize`           caught by VerifC32_recv
//     (and by VerifC32_bounds / VerifC32_reset, which state the verdict at full width)

import (
	"errors"
	"io"
)

func init() {
	vfRegister("VerifC32_send", VerifC32_send)
	vfRegister("VerifC32_code", VerifC32_code)
	vfRegister("VerifC32_resetstep", VerifC32_resetstep)
	vfRegister("VerifC32_recv", VerifC32_recv)
	vfRegister("VerifC32_bounds", VerifC32_bounds)
	vfRegister("VerifC32_reset", VerifC32_reset)
}

// VerifC32_send: up to k1 events before the reset (reaching: nothing written / buffered / flushed / partly sent /
// sent / acked / lost / closed), then Reset or STOP_SENDING, then k2 further events, then one more full-size packet.
func VerifC32_send() {
	maxK1, k2 := 3, 2
	w := qsNewSender(4, 3, 5, 1)
	w.prune = true
	w.maxLen = 2
	w.avails = []int{4, 20} // 4 = STREAM header (3) + 1 byte
	if vfTier() > 0 {
		w.avails = []int{4, 5, 20}
		w.maxLen = 3
	}
	g := w.gs[0]
	k1 := vfLen("k1", 0, maxK1)
	for i := 0; i < k1; i++ {
		w.step(qsOpWrite | qsOpFlush | qsOpClose | qsOpEmit | qsOpFate)
	}
	sentBefore := g.maxSent
	kind := qsOpReset
	if vfBool("stop_sending") {
		kind = qsOpStopSending
	}
	w.do(qsAlt{kind, 0, 0})
	w.msd = []int64{6}
	w.avails = []int{5, 20}
	for i := 0; i < k2; i++ {
		w.step(qsOpWrite | qsOpFlush | qsOpMaxStreamData | qsOpReset | qsOpStopSending | qsOpEmit | qsOpEmitPTO | qsOpFate)
	}
	w.prune = false
	w.do(qsAlt{qsOpEmit, 0, 1})
	if g.s.outclosed.isReceived() && g.s.outacked.isrange(0, g.s.out.end) {
		// The peer acknowledged the FIN and every byte: the stream ended cleanly ("Data Recvd", RFC 9000 3.1) and
		// quic sends no RESET_STREAM for it any more, even if Reset was called before that acknowledgement arrived.
		vfReach("reset-of-a-finished-stream")
	} else {
		vfAssert(g.nreset >= 1, "RESET_STREAM is on the wire once the conn had room for it")
	}
	// settle: every packet still in flight meets its fate (quick: all acked or all lost; thorough: each one acked or
	// lost, any combination), then the conn fills a PTO probe (some unrelated ack-eliciting packet is unacknowledged)
	// and one more ordinary packet. qsSender.observe checks every frame: whatever the peer acknowledged, a reset
	// stream carries no STREAM frame and its RESET_STREAM keeps stating the highest offset sent.
	a := 0
	if vfBool("lost") {
		a = 1
	}
	for len(w.em.inflight) > 0 {
		w.do(qsAlt{qsOpFate, 0, a})
		if vfTier() > 0 && len(w.em.inflight) > 0 {
			a = 0
			if vfBool("lost") {
				a = 1
			}
		}
	}
	w.do(qsAlt{qsOpEmitPTO, 0, 1})
	w.do(qsAlt{qsOpEmit, 0, 1})
	if g.s.outreset.isReceived() {
		vfReach("probe-after-acked-reset")
	}
	vfAssert(g.maxSent == sentBefore, "the highest offset sent does not move after the reset")
	vfObserve("final", uint64(g.maxSent))
	if sentBefore > 0 {
		vfReach("reset-after-data")
	} else {
		vfReach("reset-before-data")
	}
	if g.nreset > 1 {
		vfReach("reset-retransmitted")
	}
	vfReach("end")
}

// VerifC32_resetstep (shape I): ONE packet, ordinary or PTO probe, filled by the real Conn.appendStreamFrames from an
// arbitrary state of a stream whose send side was reset. The pre-state is built directly; its invariant is what
// resetInternal establishes and what the operations still accepted by a reset stream (CloseWrite -> flushLocked,
// handleMaxStreamData, ack/loss of earlier packets) can change:
//   out.start == out.end, outmaxsent <= outflushed <= out.end, outmaxsent <= outwin,
//   outunsent empty or one range inside [outmaxsent, min(outwin, outflushed)),
//   outreset in {unsent, sent, received}, outclosed / outopened / outblocked in any state.
// (VerifC32_send asserts along real histories that outmaxsent is the highest offset on the wire.)
// Step relation = the statement: the packet carries no STREAM frame, a RESET_STREAM in it states final size ==
// outmaxsent and the recorded code, the stream stays reset and outmaxsent does not move.
func VerifC32_resetstep() {
	maxsent := int64(vfLen("outmaxsent", 0, 2))
	flushed := maxsent + int64(vfLen("flushed-not-sent", 0, 1))
	end := flushed + int64(vfLen("not-flushed", 0, 1))
	outwin := maxsent + int64(vfLen("window-room", 0, 1+vfTier()))
	w := qsNewSender(4, outwin, 8, 1)
	w.avails = []int{3, 20} // a RESET_STREAM frame takes 4 bytes here
	g := w.gs[0]
	s := g.s
	st := func(label string, lo, hi int) sentVal { // 0 unset, 1 unsent, 2 sent, 3 received
		switch vfLen(label, lo, hi) {
		case 0:
			return sentValUnset
		case 1:
			return sentValUnsent
		case 2:
			return sentValSent | 0 // carried by packet 0, which is still in flight
		}
		return sentValReceived
	}
	s.outgate.lock()
	s.out.start, s.out.end = end, end
	s.outflushed = flushed
	s.outmaxsent = maxsent
	s.outwin = outwin
	if lim := min(outwin, flushed); maxsent < lim && vfBool("late-unsent") {
		// CloseWrite or MAX_STREAM_DATA after the reset scheduled never-sent bytes
		s.outunsent.add(maxsent, lim)
	}
	s.outreset = st("outreset", 1, 3)
	s.outresetcode = 7
	s.outclosed = st("outclosed", 0, 3)
	s.outopened = st("outopened", 0, 3)
	s.outblocked = st("outblocked", 0, 1+vfTier())
	was := s.outreset
	s.outUnlock()
	w.c.streams.outflow.used = maxsent
	w.em.pnum = 1
	g.limit, g.maxSent, g.data = outwin, maxsent, make([]byte, end)
	g.closed, g.reset, g.code = s.outclosed.isSet(), true, 7
	pto := vfBool("pto")
	kind := qsOpEmit
	if pto {
		kind = qsOpEmitPTO
	}
	room := vfChoice("room", 2)
	w.do(qsAlt{kind, 0, room}) // qsSender.observe: no STREAM frame, RESET_STREAM final size == highest offset sent
	vfAssert(s.outreset.isSet(), "the stream stays reset")
	vfAssert(s.outmaxsent == maxsent && g.maxSent == maxsent, "the highest offset sent does not move after the reset")
	// A stream whose FIN and data were all acknowledged before the reset has ended cleanly: quic sends no
	// RESET_STREAM for it (here: FIN acknowledged on an empty stream; outacked is not part of the pre-state).
	finished := s.outclosed.isReceived() && end == 0
	due := was.shouldSendPTO(pto)
	if room == 1 {
		if finished && !pto {
			vfReach("reset-of-a-finished-stream")
		} else if due {
			vfAssert(g.nreset == 1, "a RESET_STREAM that is due is in the packet")
			vfReach("reset-sent")
		} else {
			vfAssert(g.nreset == 0, "no RESET_STREAM when none is due")
		}
	} else {
		vfAssert(g.nreset == 0 && s.outreset == was, "a packet without room leaves the reset pending")
	}
	if was.isReceived() && pto {
		vfReach("probe-after-acked-reset")
	}
	vfObserve("nreset", uint64(g.nreset))
	vfReach("end")
}

// VerifC32_code: arbitrary 64-bit reset code; the RESET_STREAM carries min(code, 2^62-1) and the final size.
func VerifC32_code() {
	w := qsNewSender(4, 3, 5, 1)
	w.avails = []int{20}
	w.symCode = true
	g := w.gs[0]
	n := vfLen("sent", 0, 2)
	if n > 0 {
		w.do(qsAlt{qsOpWrite, 0, n})
		w.do(qsAlt{qsOpFlush, 0, 0})
		w.do(qsAlt{qsOpEmit, 0, 0})
	}
	vfAssert(g.maxSent == int64(n), "prologue sent n bytes")
	kind := qsOpReset
	if vfBool("stop_sending") {
		kind = qsOpStopSending
	}
	w.do(qsAlt{kind, 0, 0}) // code symbolic
	w.do(qsAlt{qsOpEmit, 0, 0})
	vfAssert(g.nreset == 1, "RESET_STREAM emitted")
	vfReach("end")
}

// ---------------------------------------------------------------------------------------------------------------
// receive side

// qsReadGhost is the user-visible part of the receiving stream: what the peer's stream contains and how far the
// user has read.
type qsReadGhost struct {
	r       *qsReceiver
	content []byte // the peer's stream, byte i at offset i
	have    []bool // offsets received in frames the stream processed
	readpos int64
	viaFIN  bool // final size learned from a STREAM frame with FIN (as opposed to RESET_STREAM)
	eof     bool // Read has returned io.EOF
	// coverage flags
	sawData, sawResetErr bool
}

func qsNewReadGhost(r *qsReceiver, content []byte) *qsReadGhost {
	return &qsReadGhost{r: r, content: content, have: make([]bool, len(content)+12)}
}

// data delivers the STREAM frame [off, off+n) of the peer's stream.
func (g *qsReadGhost) data(off int64, n int, fin bool) {
	g.frame(off, g.content[off:off+int64(n)], fin)
}

// frame delivers a STREAM frame carrying b at off.
func (g *qsReadGhost) frame(off int64, b []byte, fin bool) {
	r := g.r
	n := len(b)
	ignored := r.rclosed || r.reset
	r.data(off, b, fin)
	if r.dead || ignored {
		return
	}
	for i := off; i < off+int64(n); i++ {
		g.have[i] = true
	}
	if fin {
		g.viaFIN = true
	}
}

// read calls Read with an n-byte buffer and checks the result against the peer's stream.
func (g *qsReadGhost) read(n int) {
	r := g.r
	buf := make([]byte, n)
	got, err := r.s.Read(buf)
	qsDrain(r.c)
	vfAssert(got >= 0 && got <= n, "Read count in range")
	if got > 0 {
		ok := true
		for i := 0; i < got; i++ {
			vfAssert(g.have[g.readpos+int64(i)], "C19: Read returns only bytes that were received")
			ok = vfAnd(ok, buf[i] == g.content[g.readpos+int64(i)])
		}
		vfAssert(ok, "C19: Read returns the peer's bytes in order, no gap, no duplicate")
		g.readpos += int64(got)
		g.sawData = true
	}
	switch {
	case err == nil:
		vfAssert(got > 0, "Read without error returns data")
	case err == io.EOF:
		vfAssert(!r.reset, "C32: no EOF after the peer reset the stream")
		vfAssert(g.viaFIN && r.final == g.readpos, "C19: EOF only after FIN and after all bytes were returned")
		g.eof = true
	default:
		vfAssert(got == 0, "a failing Read returns no data")
		var code StreamErrorCode
		if r.reset {
			vfAssert(errors.As(err, &code) && uint64(code) == r.rcode, "C32: Read after a peer reset returns an error wrapping the reset code")
			g.sawResetErr = true
		} else {
			vfAssert(!errors.As(err, &code), "no reset error without a reset")
			if !r.rclosed {
				// the only other failure is the expired context: nothing may have been available
				vfAssert(!g.have[g.readpos] && !(g.viaFIN && r.final == g.readpos), "C19: Read fails only if no byte and no EOF is available")
			}
		}
	}
	if got == 0 && !r.reset && !r.rclosed {
		vfAssert(!g.have[g.readpos], "C19: Read returns as soon as a byte is available")
	}
}

// VerifC32_recv: STREAM and RESET_STREAM frames around the data received so far and the known final size,
// interleaved with Read and CloseRead. The verdict of every frame is checked by qsReceiver.data/rst: FINAL_SIZE_ERROR
// iff the frame contradicts the known final size, carries data beyond it, or ends the stream below received data.
func VerifC32_recv() {
	k := 4
	if vfTier() > 0 {
		k = 5
	}
	r := qsNewReceiver(4, 8)
	g := qsNewReadGhost(r, vfBytes("content", 8))
	code := vfU64("code")
	vfAssume(code < 1<<62)
	type alt struct {
		kind, off, n int
		fin         bool
	}
	for step := 0; step < k && !r.dead; step++ {
		hi := int(r.hi)
		menu := []alt{
			{0, 0, 2, false}, {0, 0, 1, true},
			{0, hi, 1, false}, {0, hi, 1, true}, {0, hi, 0, true},
			{0, hi + 1, 1, false}, {0, hi + 1, 1, true},
			{1, hi, 0, false}, {1, hi + 1, 0, false},
			{2, 2, 0, false},
			{3, 0, 0, false},
		}
		if hi > 0 {
			menu = append(menu, alt{1, hi - 1, 0, false}, alt{0, hi - 1, 0, true})
		}
		m := menu[vfChoice("op", len(menu))]
		switch m.kind {
		case 0:
			g.data(int64(m.off), m.n, m.fin)
		case 1:
			r.rst(code, int64(m.off))
			if r.reset {
				vfReach("reset-accepted")
			}
		case 2:
			g.read(m.off)
		case 3:
			r.s.CloseRead()
			r.rclosed = true
		}
		qsDrain(r.c)
	}
	if !r.dead {
		g.read(1)
	}
	if r.sawFinal {
		vfReach("final-size-error")
	}
	if g.sawData {
		vfReach("read-data")
	}
	if g.eof {
		vfReach("read-eof")
	}
	if g.sawResetErr {
		vfReach("read-reset-error")
	}
	vfReach("end")
}

// VerifC32_bounds: see qsBoundsStep in zz_verif_c20_test.go (checkStreamBounds at full width).
func VerifC32_bounds() { qsBoundsStep() }

// VerifC32_reset: one RESET_STREAM with arbitrary code and final size on an arbitrary receive state (no buffered
// data structure needed: handleReset only moves offsets).
func VerifC32_reset() {
	c := qsConn(serverSide, &Config{})
	s := newStream(c, newStreamID(clientSide, bidiStream, 0))
	const lim = int64(1) << 62
	inwin, insize, instart, inend, fs := vfI64("inwin"), vfI64("insize"), vfI64("in.start"), vfI64("in.end"), vfI64("finalSize")
	prev, code := vfI64("inresetcode"), vfU64("code")
	used, sent := vfI64("usedLimit"), vfI64("sentLimit")
	vfAssume(0 <= inwin && inwin < lim && 0 <= instart && instart <= inend && inend <= inwin && 0 <= fs && fs < lim)
	vfAssume(insize == -1 || (inend <= insize && insize <= inwin))
	vfAssume(prev >= -1 && prev < lim && code < uint64(lim))
	vfAssume(vfImplies(prev != -1, insize != -1)) // a stream that was reset knows its final size
	vfAssume(0 <= used && used <= sent && sent < lim && inend <= used)
	s.inwin, s.insize, s.in.start, s.in.end, s.inresetcode = inwin, insize, instart, inend, prev
	c.streams.inflow.usedLimit, c.streams.inflow.sentLimit, c.streams.inflow.newLimit = used, sent, sent
	s.inUnlock()
	s.outUnlock()
	got := qsErrCode(s.handleReset(code, fs))
	qsDrain(c)
	flow := fs > inwin
	known := insize != -1
	size := vfOr(vfAnd(known, fs != insize), fs < inend)
	connflow := vfAnd(vfNot(known), used+(fs-inend) > sent)
	want := vfIteInt(flow, int(errFlowControl), vfIteInt(size, int(errFinalSize), vfIteInt(vfAnd(prev == -1, connflow), int(errFlowControl), 0)))
	vfAssert(got == want, "handleReset verdict")
	if got == 0 {
		vfAssert(s.insize == fs, "final size recorded (or confirmed)")
		if prev == -1 {
			vfAssert(s.inresetcode == int64(code), "reset code recorded")
			vfReach("first-reset")
		} else {
			vfAssert(s.inresetcode == prev, "a second RESET_STREAM does not change the code")
			vfReach("duplicate-reset")
		}
		vfAssert(s.inresetcode != -1, "stream is in the reset state")
	} else if got == int(errFinalSize) {
		vfReach("final-size-error")
	} else {
		vfReach("flow-control-error")
	}
	vfReach("end")
}
