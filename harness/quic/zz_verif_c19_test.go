package quic

// C19 — QUIC streams deliver bytes reliably and in order over a faulty network (PARTIAL: stream kernel).
//
// Shape B. Two real Streams: a sender (client conn) and a receiver (server conn, stream created by the real
// streamForFrame), both on hand-built Conns (see zz_verif_c20_test.go). The sender's packets (real packetWriter,
// frames parsed from the wire) are datagrams of a faulty network: each may be delivered any number of times, in any
// order, or never; the sender is told "acked" only for packets that arrived, and "lost" for any packet (also
// spuriously). Written bytes are symbolic.
//   safety (after every event): Read returns exactly the next bytes written (qsReadGhost.read), EOF only after FIN
//     and all bytes; frames of the sender never raise a connection error at the receiver; STREAM frames carry the
//     bytes written at their offsets (qsSender.observe); Close returns nil only if every byte and the FIN were
//     carried by acknowledged packets (hence arrived).
//   eventual delivery (after the free events): a few rounds of emit / deliver everything / ack everything make
//     Close return nil and the receiver read all bytes followed by io.EOF.
//
// FINDING on the unchanged tree (known_findings.txt key C19-fin-marked-sent-on-truncated-frame, repro/C19):
//   appendOutFramesLocked decides `fin` before appendStreamFrame truncates the frame (which drops the FIN bit) and
//   still does outclosed.setSent(pnum). Shortest history found: Write(3); Flush; packet [0,3); CloseWrite; PTO probe
//   with room for 2 bytes -> STREAM [0,2) without FIN, outclosed = sent(probe); everything delivered and acked:
//   the FIN is never put on the wire, the reader never sees io.EOF, Close never returns nil. Second variant: the
//   FIN was already acknowledged and a later truncated probe moves outclosed back from "received" to "sent".
//   The eventual-delivery assertions are vfAssertKF with kcond = finMismarked.
//
// Harnesses: VerifC19_transfer (windows larger than the data), VerifC19_window (stream window and write buffer bind),
// VerifC19_connwin (connection window binds; loss may be declared at any time; lost datagrams may never arrive),
// VerifC19_ackorder (write buffer binds, two packets in flight, acks in any order, Writes of the whole buffer).
// zz_verif_c19b_test.go: VerifC19_credit / VerifC19_creditconn (windows of 16..24 bytes, free read sizes incl. the
// fast path, faulty RETURN path for MAX_STREAM_DATA / MAX_DATA; seeded C19-C, C19-D).
//   seeded C19-B: outUnlockNoQueue `outunsent.min() < outmaxsent` -> `outunsent.max() < outmaxsent` (a stream with lost
//     bytes AND never-sent bytes waits on queueData for connection credit that only the lost bytes can free)
//     caught by VerifC19_connwin "eventual delivery"
//
//   seeded C19-E: ackOrLossData frees the send buffer only up to the end of THIS ack instead of outacked[0].end (acks out
//     of order leave out.start stuck inside acknowledged data; the write buffer shrinks for good)
//     caught by VerifC19_ackorder "Write takes bytes whenever fewer than MaxStreamWriteBufferSize bytes await acknowledgement"
//
// Sensitivity (sh mut.sh, caught by VerifC19_transfer):
//   stream.go handleData: `b = b[newOff-off:]` -> `b = b[0:]`                 "Read returns the peer's bytes in order"
//   stream.go ackOrLossData: `if fin {outclosed.ackOrLoss}` -> `if true {..}`  "Close returns nil only after ... FIN acknowledged"

func init() {
	vfRegister("VerifC19_transfer", VerifC19_transfer)
	vfRegister("VerifC19_window", VerifC19_window)
	vfRegister("VerifC19_connwin", VerifC19_connwin)
	vfRegister("VerifC19_ackorder", VerifC19_ackorder)
}

type c19pkt struct {
	pnum      packetNumber
	frames    []qsFrame
	delivered bool
	lost      bool // the sender was told that this packet is lost
}

type c19world struct {
	w    *qsSender
	sg   *qsSendGhost
	r    *qsReceiver
	rg   *qsReadGhost
	pkts []*c19pkt
	// what acknowledged packets carried
	acked    []bool
	finAcked bool
	ctl      bool // receiver->sender control frames (MAX_STREAM_DATA, MAX_DATA) are part of the menu
	// other: the packet number space also carries traffic that is not materialised here (PING probes, ACKs, frames
	// of other streams); one of those packets may have been acknowledged, so loss detection may declare the oldest
	// packet in flight lost at any time, not only after a later packet of THIS stream was acknowledged.
	other bool
	// coverage: a packet was declared lost while the connection window was used up and flushed, never-sent bytes
	// were waiting for it (the retransmission must not wait for connection-level credit)
	sawLossAtConnLimit bool
	// coverage flags
	sawDup, sawReorder, sawLoss, sawRetrans, closeEarly, sawDrop bool
	maxAcked packetNumber // largest acknowledged packet number, -1 = none
	// finMismarked: the stream recorded its FIN as sent in a packet that carries no FIN (known finding
	// C19-fin-marked-sent-on-truncated-frame); from then on the FIN may never be retransmitted.
	finMismarked bool
	// write-side progress (seeded C19-E): the configured MaxStreamWriteBufferSize, the Write sizes on the menu
	// (default {1}) and whether "datagram i arrives and is acknowledged at once" is one event of the menu
	outmaxbuf int64
	wsizes    []int
	dack      bool
	sawAckReorder, sawRefill bool
}

func c19new(outmaxbuf, win, connwin int64) *c19world {
	x := &c19world{outmaxbuf: outmaxbuf, wsizes: []int{1}}
	x.w = qsNewSender(outmaxbuf, win, connwin, 1)
	x.w.symData = true
	x.sg = x.w.gs[0]
	x.r = qsNewReceiver(win, connwin)
	x.rg = qsNewReadGhost(x.r, nil)
	x.acked = make([]bool, 64)
	x.maxAcked = -1
	x.w.onFrame = func(f qsFrame) {
		var p *c19pkt
		if n := len(x.pkts); n > 0 && x.pkts[n-1].pnum == f.pnum {
			p = x.pkts[n-1]
		} else {
			p = &c19pkt{pnum: f.pnum}
			x.pkts = append(x.pkts, p)
		}
		p.frames = append(p.frames, f)
	}
	x.w.onFate = func(pnum packetNumber, fate packetFate) {
		if fate != packetAcked {
			if p := x.pkt(pnum); p != nil {
				p.lost = true
			}
			return
		}
		p := x.pkt(pnum)
		vfAssert(p != nil && p.delivered, "harness: only packets that arrived are acknowledged")
		if pnum > x.maxAcked {
			x.maxAcked = pnum
		} else {
			x.sawAckReorder = true
		}
		for _, f := range p.frames {
			if f.typ != frameTypeStreamBase {
				continue
			}
			for i := range f.data {
				x.acked[f.off+int64(i)] = true
			}
			if f.fin {
				x.finAcked = true
			}
		}
	}
	return x
}

func (x *c19world) pkt(pnum packetNumber) *c19pkt {
	for _, p := range x.pkts {
		if p.pnum == pnum {
			return p
		}
	}
	return nil
}

const c19KeyFin = "C19-fin-marked-sent-on-truncated-frame"

// emit lets the sender's conn fill one packet and watches the bookkeeping of the FIN: if the stream now records its
// FIN as sent in this packet although the packet carries no STREAM frame with the FIN bit, neither an ack nor the
// loss of any packet will ever move outclosed again, and only a later PTO can retransmit the FIN (finMismarked).
func (x *c19world) emit(kind, a int) {
	pnum := x.w.em.pnum
	x.w.do(qsAlt{kind, 0, a})
	s := x.sg.s
	if uint64(s.outclosed) == uint64(sentValSent)|uint64(pnum) {
		carries := false
		if p := x.pkt(pnum); p != nil {
			for _, f := range p.frames {
				if f.typ == frameTypeStreamBase && f.fin {
					carries = true
				}
			}
		}
		if !carries {
			x.finMismarked = true
		}
	}
}

// deliver hands the STREAM frames of one datagram to the receiving stream.
func (x *c19world) deliver(p *c19pkt) {
	p.delivered = true
	for _, f := range p.frames {
		if f.typ == frameTypeStreamBase {
			x.rg.frame(f.off, f.data, f.fin)
			vfAssert(!x.r.dead, "C19: frames of a correct sender never raise a connection error")
		}
	}
	qsDrain(x.r.c)
}

func (x *c19world) read(n int) {
	x.rg.content = x.sg.data
	x.rg.read(n)
}

// write calls Write(n symbolic bytes) and states the progress half of the claim for the writer: the send buffer holds
// the bytes from the first unacknowledged one to the last written one, so Write takes bytes as long as fewer than
// MaxStreamWriteBufferSize bytes are waiting behind the acknowledged PREFIX of the stream, whatever the order in which
// the acknowledgements arrived. (The context is cancelled: "would block" shows up as a short count.) A Write that
// takes less is stuck for good once everything sent was acknowledged: the bytes are never delivered to the peer.
func (x *c19world) write(n int) {
	before := len(x.sg.data)
	prefix := 0
	for prefix < before && x.acked[prefix] {
		prefix++
	}
	x.w.do(qsAlt{qsOpWrite, 0, n})
	if x.sg.closed {
		return
	}
	want := int(x.outmaxbuf) - (before - prefix)
	if want > n {
		want = n
	}
	if prefix > 0 && want > 0 && before-prefix+want == int(x.outmaxbuf) {
		x.sawRefill = true
	}
	vfAssert(len(x.sg.data)-before == want, "C19: Write takes bytes whenever fewer than MaxStreamWriteBufferSize bytes await acknowledgement")
}

// control lets the receiver emit one packet and delivers its MAX_STREAM_DATA / MAX_DATA frames to the sender at
// once; the packet is acknowledged at once. It reports whether the packet carried anything.
func (x *c19world) control() bool {
	frames := x.r.emit(20, false)
	for _, f := range frames {
		switch f.typ {
		case frameTypeMaxStreamData:
			x.sg.s.handleMaxStreamData(f.val)
			if f.val > x.sg.limit {
				x.sg.limit = f.val
			}
		case frameTypeMaxData:
			x.w.c.streams.outflow.setMaxData(f.val)
			if f.val > x.w.connMax {
				x.w.connMax = f.val
			}
		}
	}
	if len(frames) > 0 {
		x.r.em.fate(x.r.c, len(x.r.em.inflight)-1, packetAcked)
	}
	qsDrain(x.w.c)
	qsDrain(x.r.c)
	return len(frames) > 0
}

func (x *c19world) allAcked() bool {
	for i := range x.sg.data {
		if !x.acked[i] {
			return false
		}
	}
	return x.finAcked
}

func (x *c19world) allReceived() bool {
	for i := range x.sg.data {
		if !x.rg.have[i] {
			return false
		}
	}
	return x.rg.viaFIN && x.r.final == int64(len(x.sg.data))
}

// step: one free event of the network / receiver / sender's conn.
func (x *c19world) step(writes bool) {
	type alt struct{ kind, a int }
	var menu []alt
	w := x.w
	for i := range w.avails {
		menu = append(menu, alt{0, i})
	}
	if len(w.em.inflight) > 0 { // the PTO timer runs only while ack-eliciting packets are in flight
		for i := range w.avails {
			menu = append(menu, alt{1, i})
		}
	}
	for i := range x.pkts {
		menu = append(menu, alt{2, i})
	}
	for i, sp := range w.em.inflight {
		if x.pkt(sp.num).delivered {
			menu = append(menu, alt{3, 2 * i})
		}
		// loss detection declares the oldest unacknowledged packets lost, and only packets sent before an
		// acknowledged one (RFC 9002 6.1); it may be wrong about them (spurious loss)
		if i == 0 && (x.other || x.maxAcked > sp.num) {
			menu = append(menu, alt{3, 2*i + 1})
		}
	}
	menu = append(menu, alt{4, 2})
	if x.ctl {
		menu = append(menu, alt{5, 0})
	}
	if writes && !x.sg.closed {
		for _, n := range x.wsizes {
			menu = append(menu, alt{6, n})
		}
		menu = append(menu, alt{7, 0})
	}
	if x.dack { // a datagram that has not arrived yet arrives and its acknowledgement reaches the sender: one event
		for i, sp := range w.em.inflight {
			if !x.pkt(sp.num).delivered {
				menu = append(menu, alt{8, i})
			}
		}
	}
	m := menu[vfChoice("ev", len(menu))]
	switch m.kind {
	case 0:
		x.emit(qsOpEmit, m.a)
	case 1:
		x.emit(qsOpEmitPTO, m.a)
	case 2:
		if x.pkts[m.a].delivered {
			x.sawDup = true
		} else if m.a+1 < len(x.pkts) && !x.pkts[m.a].delivered {
			for _, q := range x.pkts[m.a+1:] {
				if q.delivered {
					x.sawReorder = true
				}
			}
		}
		x.deliver(x.pkts[m.a])
	case 3:
		if m.a&1 == 1 {
			x.sawLoss = true
			if s := x.sg.s; w.c.streams.outflow.avail() == 0 && len(s.outunsent) > 0 && s.outunsent.max() > s.outmaxsent {
				x.sawLossAtConnLimit = true
			}
		}
		w.do(qsAlt{qsOpFate, 0, m.a})
	case 4:
		x.read(m.a)
	case 5:
		if !x.control() {
			vfAssume(false)
		}
	case 6:
		x.write(m.a)
	case 7:
		w.do(qsAlt{qsOpClose, 0, 0})
	case 8:
		x.deliver(x.pkt(w.em.inflight[m.a].num))
		w.do(qsAlt{qsOpFate, 0, 2 * m.a})
	}
}

// finish: Close's verdict now (safety), then eventual delivery, then Close and the reads (liveness part of the claim).
func (x *c19world) finish(rounds int) {
	w, s := x.w, x.sg.s
	w.prune = false
	err := s.Close()
	x.sg.closed = true
	qsDrain(w.c)
	if err == nil {
		vfAssert(x.allAcked(), "C19: Close returns nil only after every byte and the FIN were acknowledged")
		vfAssert(x.allReceived(), "C19: Close returns nil only after the peer received the whole stream")
		x.closeEarly = true
	}
	big := len(w.avails) - 1
	// Datagrams that the sender already wrote off as lost and that have not arrived yet: either the loss was spurious
	// and they arrive late (stragglers), or the network really dropped them and they never arrive. Everything that
	// is still in flight or sent from now on is delivered.
	dropped := false
	for _, p := range x.pkts {
		if p.lost && !p.delivered {
			dropped = true
		}
	}
	if dropped && vfBool("stragglers-arrive") {
		dropped = false
	}
	if dropped {
		x.sawDrop = true
	}
	for i := 0; i < rounds; i++ {
		x.emit(qsOpEmit, big)
		for _, p := range x.pkts {
			if !p.delivered && !(dropped && p.lost) {
				x.deliver(p)
			}
		}
		for len(w.em.inflight) > 0 {
			w.do(qsAlt{qsOpFate, 0, 0})
		}
		if x.ctl {
			x.read(4)
			x.control()
		}
	}
	vfAssertKF(x.allAcked() && x.allReceived(), "eventual delivery: everything written arrived and was acknowledged", c19KeyFin, x.finMismarked)
	vfAssertKF(s.Close() == nil, "C19: with eventual delivery Close returns nil", c19KeyFin, x.finMismarked)
	for i := 0; i < 6+len(x.sg.data)/2 && !x.rg.eof; i++ {
		x.read(2)
	}
	vfAssertKF(x.rg.eof, "C19: the reader reaches io.EOF", c19KeyFin, x.finMismarked)
	vfAssert(x.rg.readpos == int64(len(x.sg.data)), "C19: the reader got every byte written")
	vfObserveBytes("written", x.sg.data)
}


// VerifC19_transfer: windows larger than the data. Script: Write(3 symbolic bytes); Flush; first packet with room for
// 1, 2 or all 3 bytes; CloseWrite. Then k free events: emit (small or full packet), PTO probe, deliver any datagram
// (again), ack an arrived packet, declare any packet lost, Read(2).
func VerifC19_transfer() {
	k := 5
	x := c19new(4, 8, 8)
	w := x.w
	w.avails = []int{4, 5, 20} // STREAM header is 3 bytes at offset 0, 4 otherwise
	w.do(qsAlt{qsOpWrite, 0, 3})
	w.do(qsAlt{qsOpFlush, 0, 0})
	w.do(qsAlt{qsOpEmit, 0, vfChoice("first", 3)})
	w.do(qsAlt{qsOpClose, 0, 0})
	w.avails = []int{5, 20}
	if vfTier() > 0 {
		w.avails = []int{4, 5, 20}
	}
	w.prune = true
	for i := 0; i < k; i++ {
		x.step(false)
	}
	x.finish(3)
	if x.sawDup {
		vfReach("duplicate-delivery")
	}
	if x.sawReorder {
		vfReach("reordered-delivery")
	}
	if x.sawLoss {
		vfReach("loss")
	}
	if x.closeEarly {
		vfReach("close-nil-before-the-final-rounds")
	}
	if x.sawDrop {
		vfReach("lost-datagram-never-arrives")
	}
	vfReach("end")
}

// VerifC19_window: 4 bytes through a 2-byte stream window and a 3-byte connection window with a 2-byte write buffer:
// the transfer needs MAX_STREAM_DATA / MAX_DATA from the real receiver (after Reads) and acks to free the buffer.
// Script: Write(2); Flush; then k free events including Write(1), CloseWrite and the receiver's control packet.
func VerifC19_window() {
	k := 6
	if vfTier() > 0 {
		k = 7
	}
	x := c19new(2, 2, 3)
	x.ctl = true
	w := x.w
	w.avails = []int{20}
	w.do(qsAlt{qsOpWrite, 0, 2})
	w.do(qsAlt{qsOpFlush, 0, 0})
	w.prune = true
	for i := 0; i < k; i++ {
		x.step(true)
	}
	x.finish(4)
	if x.sawLoss {
		vfReach("loss")
	}
	if x.sg.limit > 2 {
		vfReach("window-extended-by-the-receiver")
	}
	if len(x.sg.data) > 3 {
		vfReach("more-than-the-initial-windows")
	}
	vfReach("end")
}

// VerifC19_connwin: the CONNECTION-level window is the binding limit: the receiver's connection buffer is 1 byte, so the
// sender's MAX_DATA credit is used up after every new byte while flushed bytes wait behind it (stream window 4, write
// buffer 3). Script: Write(2); Flush; then k free events as in VerifC19_window, under the wider fault model "other":
// the oldest packet in flight may be declared lost at any time (an unrelated later packet was acknowledged).
// Lost bytes must be retransmitted without new connection-level credit (RFC 9000 4.1: retransmissions do not
// count against the limit), otherwise reader and writer wait for each other forever; the final rounds demand that
// everything arrives, Close returns nil and the reader reaches io.EOF.
func VerifC19_connwin() {
	k := 5
	if vfTier() > 0 {
		k = 6
	}
	x := c19new(3, 4, 1)
	x.ctl = true
	x.other = true
	w := x.w
	w.avails = []int{20}
	w.do(qsAlt{qsOpWrite, 0, 2})
	w.do(qsAlt{qsOpFlush, 0, 0})
	w.prune = true
	for i := 0; i < k; i++ {
		x.step(true)
	}
	x.finish(4 + len(x.sg.data)) // the window opens by one byte per round
	if x.sawLoss {
		vfReach("loss")
	}
	if x.sawLossAtConnLimit {
		vfReach("loss-while-the-connection-window-is-used-up")
	}
	if x.sawDrop {
		vfReach("lost-datagram-never-arrives")
	}
	if x.w.connMax > 1 {
		vfReach("connection-window-extended-by-the-receiver")
	}
	vfReach("end")
}

// VerifC19_ackorder (seeded C19-E): acknowledgements in any order while the WRITE BUFFER is the binding limit and the
// writer keeps writing. Write buffer 4, windows 16 (never bind). Script: Write(4 symbolic bytes) fills the buffer; Flush;
// a first packet with room for 1, 2 or 3 bytes, a second one with the rest: two packets in flight. Then k free events
// as in VerifC19_window (emit, PTO probe, deliver any datagram, ack any arrived packet in any order, loss, Read) plus
// "datagram arrives and is acknowledged" as one event and Write(1) / Write(4 = the whole buffer) / CloseWrite. Every
// Write is checked against the acknowledged prefix (c19world.write); then the usual eventual-delivery rounds.
func VerifC19_ackorder() {
	k := 4
	if vfTier() > 0 {
		k = 5
	}
	x := c19new(4, 16, 16)
	x.rg.have = make([]bool, 64)
	x.dack = true
	x.wsizes = []int{1, 4}
	w := x.w
	w.avails = []int{4, 5, 6, 20}
	x.write(4)
	w.do(qsAlt{qsOpFlush, 0, 0})
	x.emit(qsOpEmit, vfChoice("first", 3))
	x.emit(qsOpEmit, 3)
	vfAssert(len(w.em.inflight) == 2, "harness: two packets in flight")
	w.avails = []int{20}
	w.prune = true
	for i := 0; i < k; i++ {
		x.step(true)
	}
	x.finish(3 + len(x.sg.data)/4)
	if x.sawAckReorder {
		vfReach("acks-out-of-order")
	}
	if x.sawRefill {
		vfReach("write-refills-the-buffer-after-acks")
	}
	if x.sawLoss {
		vfReach("loss")
	}
	if len(x.sg.data) > 4 {
		vfReach("more-than-one-buffer-written")
	}
	vfReach("end")
}
