package quic

import (
	"time"
)

// C27 (kernel) — anti-amplification: until the client's address is validated a server sends at most three
// times the bytes it received.
//
// Claimed: the accounting kernel in loss.go (datagramReceived / packetSent / sendLimit / maxSendSize /
// validateClientAddress) and the packet writer's datagram limit (packetWriter.reset(lim) ... finish*), glued
// together the way Conn.maybeSend glues them (sendLimit -> reset(maxSendSize()) -> start/append/finish ->
// packetSent(sent.size)). Conn.handleDatagram and Conn.maybeSend themselves (including the Initial-datagram padding
// loop `for len(buf) < paddedInitialDatagramSize`, which pads outside the packet writer) are executed by
// VerifC27_conn in zz_verif_c27b_test.go (known finding C27-initial-padding-overdraft).
//
// Shapes: (I) VerifC27_step, VerifC27_datagram from an arbitrary ledger state; (B) VerifC27_history from init().
//
// Sensitivity (sh mut.sh, caught on the quick tier):
//   quic/loss.go 'c.antiAmplificationLimit += 3 * size' -> '+= 4 * size'            VerifC27_step "received: limit grows by exactly 3*size"
//   quic/loss.go 'if c.antiAmplificationLimit < minPacketSize {' -> '< 0 {'          VerifC27_step "sendLimit: blocked iff limit < minPacketSize"
//   quic/packet_writer.go 'w.pktLim = w.dgramLim - aeadOverhead\n\tw.b = w.b[:w.payOff]' -> 'w.pktLim = w.dgramLim\n\tw.b = w.b[:w.payOff]'
//                                                                                     VerifC27_datagram: slice-bounds panic in packetWriter.finish (datagram would exceed the limit)

func init() {
	vfRegister("VerifC27_step", VerifC27_step)
	vfRegister("VerifC27_history", VerifC27_history)
	vfRegister("VerifC27_datagram", VerifC27_datagram)
}

const c27mds = 1200 // maxDatagramSize handed to lossState.init (smallestMaxDatagramSize)

func c27time(label string) time.Time {
	t := vfTime(label)
	vfAssume(vfAnd(t.UnixNano() >= 1<<40, t.UnixNano() < 1<<60))
	return t
}

// c27ledger is the ghost state: R = bytes received, S = bytes sent (datagram sizes).
type c27ledger struct{ R, S int64 }

// c27state builds a server-side lossState by the real init() and then installs an arbitrary ledger
// satisfying Inv: limit == 3R - S, limit >= 0.
func c27state(now time.Time) (*lossState, *c27ledger) {
	c := &lossState{}
	c.init(serverSide, c27mds, now)
	g := &c27ledger{R: vfI64("R"), S: vfI64("S")}
	vfAssume(vfAnd(0 <= g.R, g.R < 1<<40))
	vfAssume(vfAnd(0 <= g.S, g.S <= 3*g.R))
	c.antiAmplificationLimit = int(3*g.R - g.S)
	return c, g
}

func c27inv(c *lossState, g *c27ledger) bool {
	return vfAnd(int64(c.antiAmplificationLimit) == 3*g.R-g.S, c.antiAmplificationLimit >= 0)
}

func c27sentPacket(c *lossState, space numberSpace, size int) *sentPacket {
	sent := newSentPacket()
	sent.num = c.nextNumber(space)
	sent.size = size
	sent.ackEliciting = vfBool("ackEliciting")
	sent.inFlight = vfBool("inFlight")
	vfAssume(vfImplies(sent.ackEliciting, sent.inFlight)) // markAckEliciting sets both
	return sent
}

// (I) one accounting step from an arbitrary ledger.
func VerifC27_step() {
	t0 := c27time("t0")
	c, g := c27state(t0)
	now := c27time("now")
	vfAssume(!now.Before(t0))
	L := c.antiAmplificationLimit

	lim, _ := c.sendLimit(now)
	vfAssert((lim == ccBlocked) == (L < minPacketSize), "sendLimit: blocked iff limit < minPacketSize")
	vfAssert(c.maxSendSize() <= L, "maxSendSize <= limit")
	vfAssert(c.maxSendSize() <= c27mds, "maxSendSize <= max datagram size")

	switch vfChoice("op", 4) {
	case 0: // a datagram of any size arrives
		size := vfRange("rsize", 0, 65535)
		c.datagramReceived(now, size)
		g.R += int64(size)
		vfAssert(c.antiAmplificationLimit == L+3*size, "received: limit grows by exactly 3*size")
		vfReach("received")
	case 1: // a packet is sent under maybeSend's contract: not blocked, size <= maxSendSize()
		vfAssume(lim != ccBlocked)
		size := vfInt("ssize")
		vfAssume(vfAnd(1 <= size, size <= c.maxSendSize()))
		space := numberSpace(vfChoice("space", 3))
		c.packetSent(now, nil, space, c27sentPacket(c, space, size))
		g.S += int64(size)
		vfAssert(c.antiAmplificationLimit == L-size, "sent: limit shrinks by exactly size")
		vfReach("sent")
	case 2: // contract broken (size > limit): the clamp hides the overdraft; documents what the kernel relies on
		size := vfInt("ssize")
		vfAssume(vfAnd(size > L, size <= 65535))
		c.packetSent(now, nil, initialSpace, c27sentPacket(c, initialSpace, size))
		vfAssert(c.antiAmplificationLimit == 0, "overdraft clamps to zero")
		vfAssert(g.S+int64(size) > 3*g.R, "overdraft means more than 3x was sent")
		vfReach("overdraft-outside-contract")
		vfReach("end")
		return
	case 3: // address validated: the limit is lifted for good
		c.validateClientAddress()
		c.datagramReceived(now, vfRange("rsize", 0, 65535))
		c.packetSent(now, nil, appDataSpace, c27sentPacket(c, appDataSpace, vfRange("ssize", 1, 65535)))
		vfAssert(c.antiAmplificationLimit == antiAmplificationUnlimited, "validated: stays unlimited")
		lim2, _ := c.sendLimit(now)
		vfAssert(lim2 != ccBlocked, "validated: never blocked by anti-amplification")
		vfReach("validated")
		vfReach("end")
		return
	}
	vfAssert(c27inv(c, g), "Inv preserved: limit == 3R - S >= 0")
	vfAssert(g.S <= 3*g.R, "sent <= 3 * received")
	vfObserve("limit", uint64(c.antiAmplificationLimit))
	vfReach("end")
}

// (B) real history from init(): receive / send-under-contract events. The ledger is kept in tripled units
// (R3 = sum of 3*size over received datagrams) so that the invariant is a linear identity for the solver.
func VerifC27_history() {
	now := c27time("t0")
	c := &lossState{}
	c.init(serverSide, c27mds, now)
	var R3, S int64
	vfAssert(c.antiAmplificationLimit == 0, "Inv(init): limit 0, nothing received")
	k := 4
	if vfTier() > 0 {
		k = 5
	}
	for i := 0; i < k; i++ {
		t := c27time("now")
		vfAssume(!t.Before(now))
		now = t
		if vfBool("recv") {
			// received sizes from a boundary table (3*42 = 126 < minPacketSize <= 129 = 3*43); arbitrary sizes are
			// covered by VerifC27_step, and concrete sizes keep the solver queries of long histories linear
			nsizes := 5
			if vfTier() > 0 {
				nsizes = 3 // longer histories, fewer sizes
			}
			size := [5]int{43, 1200, 42, 0, 65535}[vfChoice("rsize", nsizes)]
			c.datagramReceived(now, size)
			R3 += 3 * int64(size)
		} else {
			lim, _ := c.sendLimit(now)
			if lim == ccBlocked {
				vfAssert(c.antiAmplificationLimit < minPacketSize, "history: blocked only below minPacketSize")
				vfReach("history-blocked")
				continue
			}
			var size int
			if vfTier() > 0 {
				// longer histories with boundary sizes only (chains of 5 symbolic sizes are too hard for the solvers)
				size = 1
				if vfBool("maxSize") {
					size = c.maxSendSize()
				}
			} else {
				size = vfInt("ssize")
				vfAssume(vfAnd(1 <= size, size <= c.maxSendSize()))
			}
			sent := c27sentPacket(c, initialSpace, size)
			if vfTier() > 0 {
				sent.inFlight = sent.ackEliciting // thorough: ack-eliciting or ACK-only, no padding-only packets
			}
			c.packetSent(now, nil, initialSpace, sent)
			S += int64(size)
			vfReach("history-sent")
		}
		vfAssert(int64(c.antiAmplificationLimit) == R3-S, "history: limit == 3R - S")
		vfAssert(c.antiAmplificationLimit >= 0, "history: limit >= 0")
		vfAssert(S <= R3, "history: sent <= 3 * received")
	}
	vfObserve("limit", uint64(c.antiAmplificationLimit))
	vfReach("end")
}

// Ideal packet protection (the only property of the ciphers that matters here is the ciphertext length).
type c27aead struct{}

func (c27aead) NonceSize() int { return 12 }
func (c27aead) Overhead() int  { return aeadOverhead }
func (c27aead) Seal(dst, nonce, plaintext, additionalData []byte) []byte {
	dst = append(dst, plaintext...)
	var tag [aeadOverhead]byte
	return append(dst, tag[:]...)
}
func (c27aead) Open(dst, nonce, ciphertext, additionalData []byte) ([]byte, error) {
	return append(dst, ciphertext[:len(ciphertext)-aeadOverhead]...), nil
}

type c27hp struct{}

func (c27hp) headerProtection(sample []byte) (mask [5]byte) { return mask }

func c27fixedKeys() fixedKeys {
	return fixedKeys{hdr: headerKey{hp: c27hp{}}, pkt: packetKey{aead: c27aead{}, iv: make([]byte, 12)}}
}

// c27frames appends frames the way appendFrames could: PING, or a CRYPTO frame asking for `size` bytes around the
// space left, then optional padding to a target beyond the limit.
func c27frames(w *packetWriter, lim int) {
	switch vfChoice("frame", 3) {
	case 0:
		w.appendPingFrame()
	case 1:
		avail := w.avail()
		size := vfRange("cryptoSize", 1, 1400)
		vfAssume(vfOr(size == 1, vfOr(vfAnd(size >= avail-5, size <= avail-2), size == 1400)))
		size = int(vfConcretize(uint64(size)))
		b, added := w.appendCryptoFrame(int64(vfRange("cryptoOff", 0, 63)), size)
		vfAssert(!added || len(b) <= size, "crypto frame never longer than asked")
	case 2:
	}
	switch vfChoice("pad", 3) {
	case 0:
	case 1:
		w.appendPaddingTo(lim + 1)
	case 2:
		w.appendPaddingTo(paddedInitialDatagramSize)
	}
}

// (I) one datagram from an arbitrary ledger, built like Conn.maybeSend builds it:
// sendLimit -> w.reset(maxSendSize()) -> [long-header packet] [1-RTT packet] -> packetSent(each).
func VerifC27_datagram() {
	t0 := c27time("t0")
	c := &lossState{}
	c.init(serverSide, c27mds, t0)
	g := &c27ledger{R: vfI64("R")}
	vfAssume(vfAnd(0 <= g.R, g.R < 1<<40))
	// limit: boundary values around minPacketSize, mid-range, around the max datagram size, and anything larger
	var L int
	switch vfChoice("limit", 7) {
	case 0:
		L = minPacketSize - 1
	case 1:
		L = minPacketSize
	case 2:
		L = c27mds
	case 3:
		L = vfInt("L")
		vfAssume(vfAnd(L > c27mds, L < 1<<41))
	case 4:
		L = minPacketSize + 1
	case 5:
		L = 200
	case 6:
		L = c27mds - 1
	}
	g.S = 3*g.R - int64(L)
	vfAssume(g.S >= 0)
	c.antiAmplificationLimit = L
	now := c27time("now")
	vfAssume(!now.Before(t0))

	limit, _ := c.sendLimit(now)
	if limit == ccBlocked {
		vfAssert(L < minPacketSize, "blocked only below minPacketSize")
		vfReach("dgram-blocked")
		vfReach("end")
		return
	}
	var w packetWriter
	lim := c.maxSendSize()
	vfAssert(lim <= L, "maxSendSize <= limit")
	lim = int(vfConcretize(uint64(lim))) // one concrete value per limit class (1200 for every L > 1200)
	w.reset(lim)
	dstConnID := make([]byte, 8)
	if vfTier() > 0 && vfBool("emptyDCID") {
		dstConnID = nil
	}
	var sents [2]*sentPacket
	var spaces [2]numberSpace
	n := 0
	if vfBool("long") {
		space, ptype := initialSpace, packetTypeInitial
		if vfTier() > 0 && vfBool("handshake") {
			space, ptype = handshakeSpace, packetTypeHandshake
		}
		pnum := c.nextNumber(space)
		p := longPacket{ptype: ptype, version: quicVersion1, num: pnum, dstConnID: dstConnID, srcConnID: make([]byte, 4)}
		w.startProtectedLongHeaderPacket(-1, p)
		c27frames(&w, lim)
		if sent := w.finishProtectedLongHeaderPacket(-1, c27fixedKeys(), p); sent != nil {
			sents[n], spaces[n] = sent, space
			n++
			vfReach("dgram-long")
		}
		vfAssert(len(w.datagram()) <= lim, "datagram fits the limit (after long-header packet)")
	}
	if vfBool("1rtt") {
		pnum := c.nextNumber(appDataSpace)
		w.start1RTTPacket(pnum, -1, dstConnID)
		c27frames(&w, lim)
		k := &updatingKeyPair{}
		k.init()
		k.w.hdr.hp = c27hp{}
		k.w.pkt[0] = packetKey{aead: c27aead{}, iv: make([]byte, 12)}
		if sent := w.finish1RTTPacket(pnum, -1, dstConnID, k); sent != nil {
			sents[n], spaces[n] = sent, appDataSpace
			n++
			vfReach("dgram-1rtt")
		}
	}
	dgram := w.datagram()
	vfAssert(len(dgram) <= lim, "datagram fits the limit")
	total := 0
	for i := 0; i < n; i++ {
		total += sents[i].size
		c.packetSent(now, nil, spaces[i], sents[i])
	}
	vfAssert(total == len(dgram), "sum of recorded packet sizes == datagram size")
	g.S += int64(len(dgram))
	vfAssert(c27inv(c, g), "Inv preserved by a whole datagram")
	vfAssert(g.S <= 3*g.R, "sent <= 3 * received after the datagram")
	if n == 2 {
		vfReach("dgram-coalesced")
	}
	if len(dgram) == lim {
		vfReach("dgram-exactly-at-limit")
	}
	vfObserve("dgram", uint64(len(dgram)))
	vfObserve("limit", uint64(c.antiAmplificationLimit))
	vfReach("end")
}
