package quic

import (
	"crypto/tls"
	"errors"
)

// C28 part (d): packet protection round trip with IDEAL-CRYPTO stubs injected through the interfaces the code uses
// (cipher.AEAD in packetKey.aead, headerProtection in headerKey.hp):
//   Seal(nonce, ad, plaintext) = plaintext ‖ tag, tag = fresh 16 symbolic bytes per distinct (nonce, ad, plaintext);
//   Open succeeds iff exactly that (nonce, ad, plaintext, tag) was sealed before (unforgeable, deterministic);
//   headerProtection(sample) = fresh 5 symbolic bytes per distinct 16-byte sample.
// What is decided is the code's own logic: header layout, length field, packet-number truncation, nonce = iv xor pn,
// header as associated data, sample offset, first-byte mask (0x0f long / 0x1f short), padding to the sample size,
// key-phase bit. The strength of AES-GCM / ChaCha20-Poly1305 / the HP ciphers is outside the claim.
// Packet numbers come from a boundary set (the truncation/decoding arithmetic for all values is C23).

func init() {
	vfRegister("VerifC28_protect_long", VerifC28_protect_long)
	vfRegister("VerifC28_protect_short", VerifC28_protect_short)
	vfRegister("VerifC28_protect_tamper", VerifC28_protect_tamper)
}

type c28sealed struct{ nonce, ad, pt, tag []byte }

type c28aead struct{ tab *[]c28sealed }

func (a c28aead) NonceSize() int { return 12 }
func (a c28aead) Overhead() int  { return aeadOverhead }

func c28clone(b []byte) []byte { return append([]byte(nil), b...) }

func (a c28aead) Seal(dst, nonce, plaintext, ad []byte) []byte {
	vfAssert(len(nonce) == 12, "AEAD nonce size")
	n, d, p := c28clone(nonce), c28clone(ad), c28clone(plaintext)
	var tag []byte
	for _, e := range *a.tab {
		if vfAnd(vfAnd(c28eqBytes(e.nonce, n), c28eqBytes(e.ad, d)), c28eqBytes(e.pt, p)) {
			tag = e.tag
		}
	}
	if tag == nil {
		tag = vfBytes("aead.tag", aeadOverhead)
		*a.tab = append(*a.tab, c28sealed{n, d, p, tag})
	}
	out := append(dst, p...) // in place when dst and plaintext are adjacent in one buffer, as the writer arranges
	return append(out, tag...)
}

var c28errAuth = errors.New("ideal AEAD: authentication failed")

func (a c28aead) Open(dst, nonce, ciphertext, ad []byte) ([]byte, error) {
	if len(ciphertext) < aeadOverhead {
		return nil, c28errAuth
	}
	pt, tag := ciphertext[:len(ciphertext)-aeadOverhead], ciphertext[len(ciphertext)-aeadOverhead:]
	for _, e := range *a.tab {
		if vfAnd(vfAnd(c28eqBytes(e.nonce, nonce), c28eqBytes(e.ad, ad)), vfAnd(c28eqBytes(e.pt, pt), c28eqBytes(e.tag, tag))) {
			return append(dst, c28clone(pt)...), nil
		}
	}
	return nil, c28errAuth
}

type c28mask struct {
	sample []byte
	mask   [5]byte
}

type c28hp struct{ tab *[]c28mask }

func (h c28hp) headerProtection(sample []byte) (mask [5]byte) {
	vfAssert(len(sample) == headerProtectionSampleSize, "header protection sample size")
	for _, e := range *h.tab {
		if c28eqBytes(e.sample, sample) {
			return e.mask
		}
	}
	copy(mask[:], vfBytes("hp.mask", 5))
	*h.tab = append(*h.tab, c28mask{c28clone(sample), mask})
	return mask
}

func c28packetKey() packetKey {
	return packetKey{aead: c28aead{tab: new([]c28sealed)}, iv: vfBytes("iv", 12)}
}

func c28headerKey() headerKey { return headerKey{hp: c28hp{tab: new([]c28mask)}} }

// c28pnums: (pnum, largest acked by the peer) pairs covering every truncated length and the extremes.
func c28pnums(few bool) (pnum, maxAcked packetNumber) {
	set := [][2]packetNumber{
		{0, -1}, {0x12345678, 0x12340000}, {0x7e, -1}, {0x7f, -1}, {0x7fff, 0}, {0x8000, 1}, {0x1000000, 0x7ffffe},
		{maxPacketNumber, maxPacketNumber - 1}, {maxPacketNumber, maxPacketNumber - 0x8000}, {1 << 40, 1<<40 - 0x7fffffff},
	}
	n := len(set)
	if few {
		n = 1 + vfTier()
	}
	c := set[vfChoice("pnum", n)]
	return c[0], c[1]
}

func c28payloadLen() int {
	if vfTier() > 0 {
		return 6
	}
	return 3
}

func VerifC28_protect_long() {
	pkt, _, _ := c28protectLong(false)
	if len(pkt) == 7+2+20 { // header of the smallest shape + length + padded packet number/payload/tag
		vfReach("padded to the minimum size")
	}
	vfReach("end")
}

// The same with one byte of the protected packet changed afterwards: the ideal AEAD binds header and payload.
func VerifC28_protect_tamper() {
	pkt, k, maxAcked := c28protectLong(true)
	// a change of any single byte of the protected packet (header, length, packet number, payload, tag) is rejected
	// positions: first byte, first version byte, and everything from the Length field on (Length, packet number,
	// payload, tag). Changing a connection-ID/token length byte re-frames the whole header (symbolic Length field:
	// path explosion) and is left out.
	lenOff := 1 + 4 + 1 + 1 + 1 + 2 + 1 + 1 // shape {1,2,1} Initial packet
	pos := vfChoice("flip.pos", 2+len(pkt)-lenOff)
	if pos >= 2 {
		pos += lenOff - 2
	}
	d := []byte{0x01, 0x30, 0x80}[vfChoice("flip.delta", 2+vfTier())] // concrete masks: a symbolic one makes every length field symbolic
	pkt[pos] ^= d
	q2, n2 := parseLongHeaderPacket(pkt, k, maxAcked)
	if n2 != -1 && q2.ptype == packetTypeRetry {
		// the type bits now say Retry: Retry packets carry no packet protection (their integrity tag is checked by
		// the caller, retry.go), parseLongHeaderPacket returns them as they are
		vfAssert(pos == 0, "only a change of the first byte turns the packet into a Retry")
		vfReach("became a Retry packet")
	} else {
		vfAssert(n2 == -1, "modified packet is rejected")
	}
	vfObserve("flip.pos", uint64(pos))
	vfReach("tamper rejected")
	vfReach("end")
}

func c28protectLong(vfTamper bool) ([]byte, fixedKeys, packetNumber) {
	k := fixedKeys{hdr: c28headerKey(), pkt: c28packetKey()}
	iv0 := c28clone(k.pkt.iv)
	types := []packetType{packetTypeInitial, packetType0RTT, packetTypeHandshake}
	tamper := vfTamper
	shapes := [][3]int{{0, 0, 0}, {1, 2, 1}, {3, 0, 2}, {20, 20, 0}} // dcid, scid, token lengths
	nshape, ntype := len(shapes), 3
	if tamper {
		nshape, ntype = 1, 1
	}
	sh := shapes[vfChoice("shape", nshape)]
	if tamper {
		sh = shapes[1]
	}
	p := longPacket{
		ptype:     types[vfChoice("ptype", ntype)],
		version:   vfU32("version"),
		dstConnID: vfBytes("dcid", sh[0]),
		srcConnID: vfBytes("scid", sh[1]),
	}
	vfAssume(p.version != 0)
	var maxAcked packetNumber
	p.num, maxAcked = c28pnums(tamper)
	if p.ptype == packetTypeInitial {
		p.extra = vfBytes("token", sh[2])
	}
	npay := 1
	if !tamper && vfBool("longPayload") {
		npay = c28payloadLen()
	}
	payload := vfBytes("payload", npay)

	var w packetWriter
	w.reset(1200)
	prefix := 0
	if !tamper {
		prefix = vfLen("prefix", 0, 1) // a previous packet in the datagram (coalescing): pktOff > 0
	}
	w.b = append(w.b, vfBytes("earlier", prefix*5)...)
	w.startProtectedLongHeaderPacket(maxAcked, p)
	vfAssert(w.avail() >= npay, "room for the payload")
	w.b = append(w.b, payload...)
	sent := w.finishProtectedLongHeaderPacket(maxAcked, k, p)
	vfAssert(sent != nil && sent.num == p.num && sent.ptype == p.ptype, "sent packet record")
	dgram := w.datagram()
	vfAssert(sent.size == len(dgram)-prefix*5, "recorded size is the packet size")
	vfAssert(len(dgram) <= 1200, "within the datagram limit")
	vfAssert(c28eqBytes(k.pkt.iv, iv0), "IV restored after protect")
	pkt := c28clone(dgram[prefix*5:])
	first := pkt[0]

	// the receiver has seen everything the sender knows to be acked
	q, n := parseLongHeaderPacket(pkt, k, maxAcked)
	vfAssert(n == len(pkt), "whole packet consumed")
	vfAssert(q.ptype == p.ptype && q.version == p.version && q.num == p.num, "type, version, packet number")
	vfAssert(c28eqBytes(q.dstConnID, p.dstConnID) && c28eqBytes(q.srcConnID, p.srcConnID), "connection IDs")
	vfAssert(c28eqBytes(q.extra, p.extra), "token")
	vfAssert(len(q.payload) >= npay && c28eqBytes(q.payload[:npay], payload), "payload")
	for i := npay; i < len(q.payload); i++ {
		vfAssert(q.payload[i] == 0, "only PADDING frames added")
	}
	pnumLen := packetNumberLength(p.num, maxAcked)
	vfAssert(pnumLen+len(q.payload)+aeadOverhead >= 4+headerProtectionSampleSize, "padded to the header protection sample")
	vfAssert(first&0xf0 == pkt[0]&0xf0 && isLongHeader(first) && first&fixedBit != 0, "only the low 4 bits of a long header's first byte are masked")
	vfAssert(pkt[0]&reservedLongBits == 0 && int(pkt[0]&3)+1 == pnumLen, "reserved bits zero, packet number length")
	vfAssert(c28eqBytes(k.pkt.iv, iv0), "IV restored after unprotect")
	vfObserve("pktlen", uint64(len(pkt)))
	vfObserve("pnumlen", uint64(pnumLen))

	return c28clone(dgram[prefix*5:]), k, maxAcked
}

func VerifC28_protect_short() {
	// one key pair object used for both directions: r and w hold the same ideal keys (current and next phase)
	hdr := c28headerKey()
	cur, next := c28packetKey(), c28packetKey()
	uk := updatingKeys{suite: tls.TLS_AES_128_GCM_SHA256, hdr: hdr, pkt: [2]packetKey{cur, next}}
	k := &updatingKeyPair{r: uk, w: uk}
	k.init()
	if vfBool("phase") {
		k.phase = keyPhaseBit
	}
	k.updating = vfBool("updating")
	k.minSent, k.minReceived = maxPacketNumber, maxPacketNumber
	if vfBool("earlyUpdate") {
		k.updateAfter = 0 // this packet triggers the start of a key update after being protected
	}
	updating0 := k.updating
	pnum, maxAcked := c28pnums(false)
	dcid := vfBytes("dcid", []int{0, 3, 8, 20}[vfChoice("dcidlen", 4)])
	npay := 1
	if vfBool("longPayload") {
		npay = c28payloadLen()
	}
	payload := vfBytes("payload", npay)

	var w packetWriter
	w.reset(1200)
	w.start1RTTPacket(pnum, maxAcked, dcid)
	vfAssert(w.avail() >= npay, "room for the payload")
	w.b = append(w.b, payload...)
	sent := w.finish1RTTPacket(pnum, maxAcked, dcid, k)
	vfAssert(sent != nil && sent.num == pnum && sent.ptype == packetType1RTT, "sent packet record")
	pkt := c28clone(w.datagram())
	vfAssert(sent.size == len(pkt), "recorded size is the packet size")
	first := pkt[0]
	vfAssert(c28eqBytes(pkt[1:1+len(dcid)], dcid), "destination connection ID in the clear")

	q, err := parse1RTTPacket(pkt, k, len(dcid), maxAcked)
	// Known finding: a key update that starts right after this packet was protected sets minReceived to the
	// sentinel maxPacketNumber; a current-phase packet numbered exactly 2^62-1 then fails `pnum < k.minReceived`
	// and is tried with the next-phase key.
	vfAssertKF(err == nil, "packet unprotects", "C28-keyupdate-sentinel-maxpnum",
		pnum == maxPacketNumber && !updating0 && k.updating)
	vfAssert(err == nil, "packet unprotects (outside the known finding)")
	vfAssert(q.num == pnum, "packet number")
	vfAssert(len(q.payload) >= npay && c28eqBytes(q.payload[:npay], payload), "payload")
	for i := npay; i < len(q.payload); i++ {
		vfAssert(q.payload[i] == 0, "only PADDING frames added")
	}
	pnumLen := packetNumberLength(pnum, maxAcked)
	vfAssert(pnumLen+len(q.payload)+aeadOverhead >= 4+headerProtectionSampleSize, "padded to the header protection sample")
	vfAssert(first&0xe0 == pkt[0]&0xe0 && !isLongHeader(first) && first&fixedBit != 0, "only the low 5 bits of a short header's first byte are masked")
	vfAssert(pkt[0]&reserved1RTTBits == 0 && int(pkt[0]&3)+1 == pnumLen, "reserved bits zero, packet number length")
	wantPhase := k.phase
	if updating0 {
		wantPhase ^= keyPhaseBit
	}
	vfAssert(pkt[0]&keyPhaseBit == wantPhase, "key phase bit: current phase, next phase while updating")
	vfObserve("pktlen", uint64(len(pkt)))
	if updating0 {
		vfReach("next-phase keys")
		vfAssert(k.minSent == pnum && k.minReceived == pnum, "update bookkeeping")
	}
	vfReach("end")
}
