package quic

import (
	"crypto/rand"
	"errors"
	"net/netip"
	"sync"
	"time"
)

// C31 (partial claim) — QUIC address-validation (Retry) tokens and stateless-reset tokens are bound to their context.
//
// The primitives are reached through interfaces (retryState.aead cipher.AEAD, the package variable retryAEAD,
// statelessResetTokenGenerator.mac hash.Hash), so the harness injects IDEAL stubs:
//   AEAD: Seal(nonce, ad, pt) = pt ‖ tag, one fresh symbolic 16-byte tag per distinct (nonce, ad, pt), different from
//         every tag handed out before (injective); Open succeeds iff exactly that tuple and tag were sealed.
//   MAC:  Sum = one fresh symbolic 32-byte value per distinct input since the last Reset (deterministic).
// What is decided is the code's own logic: what goes into nonce / additional data / plaintext / MAC input, the
// layout of the token, the time window, the Reset discipline. Cryptographic strength is outside the claim, as is
// "tokens differ for different connection IDs and keys" (collision resistance of HMAC-SHA256).
//
// Sensitivity (sh mut.sh quic/<file> '<old>' '<new>' C31), all CAUGHT:
//   retry.go additionalData: `AppendUint16(additional, addr.Port())` -> `AppendUint16(additional, 0)`      VerifC31_ad + VerifC31_issue_validate
//   retry.go validateToken:  `abs(now.Sub(when))` -> `now.Sub(when)`                                        VerifC31_issue_validate
//   stateless_reset.go:      `defer g.mac.Reset()` -> no-op                                                 VerifC31_reset_token
//   retry.go parseRetryPacket: pseudo-packet built with an empty original DCID                              VerifC31_retry_packet
//   retry.go validateToken: nonce split derived from len(dstConnID) instead of maxConnIDLen (seed C31-A)     VerifC31_issue_validate_lens
//   stateless_reset.go: the two defers swapped, Reset after Unlock (seed C31-B)                             VerifC31_reset_token (lock
//       discipline, replays natively) + VerifC31_reset_concurrent (symbolic scheduler: wrong token on an interleaving)
//
// Engine caveat: the harness that first needs package time (VerifC31_issue_validate) must run before the one that
// turns *c31mac into a hash.Hash (VerifC31_reset_token): x/tools go/ssa canonicalises signatures ignoring receivers,
// and the instance time.atoi[[]byte] otherwise inherits the signature object of (*c31mac).Write (SanityCheck
// failure). Harnesses run in name order, hence the names.

func init() {
	vfRegister("VerifC31_issue_validate", VerifC31_issue_validate)
	vfRegister("VerifC31_ad", VerifC31_ad)
	vfRegister("VerifC31_issue_validate_lens", VerifC31_issue_validate_lens)
	vfRegister("VerifC31_retry_packet", VerifC31_retry_packet)
	vfRegister("VerifC31_reset_token", VerifC31_reset_token)
	vfRegister("VerifC31_reset_concurrent", VerifC31_reset_concurrent)
}

func c31eq(a, b []byte) bool {
	if len(a) != len(b) {
		return false
	}
	ok := true
	for i := range a {
		ok = vfAnd(ok, a[i] == b[i])
	}
	return ok
}

func c31clone(b []byte) []byte { return append([]byte(nil), b...) }

// crypto/rand: the engine replaces crypto/rand.Read by one fresh symbolic input per byte (label "rand"). For the
// native replay the harness installs a Reader that takes the same bytes from the vector, in the same order.
type c31rand struct{}

func (c31rand) Read(p []byte) (int, error) {
	for i := range p {
		p[i] = vfU8("rand")
	}
	return len(p), nil
}

func c31setRand() {
	if !vfSymbolic() {
		rand.Reader = c31rand{}
	}
}

// ---- ideal AEAD ----

type c31sealed struct{ nonce, ad, pt, tag []byte }

type c31aead struct {
	nonceSize int
	tab       *[]c31sealed
	// byte strings fixed by the adversary before a fresh tag is drawn: a fresh tag is unpredictable, i.e. different
	// from all of them (needed where the code recomputes a tag and compares instead of calling Open)
	presented *[][]byte
}

func (a c31aead) NonceSize() int { return a.nonceSize }
func (a c31aead) Overhead() int  { return 16 }

func (a c31aead) Seal(dst, nonce, plaintext, ad []byte) []byte {
	vfAssert(len(nonce) == a.nonceSize, "AEAD nonce size")
	n, d, p := c31clone(nonce), c31clone(ad), c31clone(plaintext)
	for _, e := range *a.tab {
		if vfAnd(vfAnd(c31eq(e.nonce, n), c31eq(e.ad, d)), c31eq(e.pt, p)) {
			return append(append(dst, p...), e.tag...)
		}
	}
	tag := vfBytes("aead.tag", 16)
	for _, e := range *a.tab {
		vfAssume(vfNot(c31eq(e.tag, tag))) // injective: a new tuple never gets an old tag
	}
	if a.presented != nil {
		for _, g := range *a.presented {
			vfAssume(vfNot(c31eq(g, tag))) // unpredictable
		}
	}
	*a.tab = append(*a.tab, c31sealed{n, d, p, tag})
	return append(append(dst, p...), tag...)
}

var c31errAuth = errors.New("ideal AEAD: authentication failed")

func (a c31aead) Open(dst, nonce, ciphertext, ad []byte) ([]byte, error) {
	if len(nonce) != a.nonceSize {
		panic("ideal AEAD: bad nonce size")
	}
	if len(ciphertext) < 16 {
		return nil, c31errAuth
	}
	pt, tag := ciphertext[:len(ciphertext)-16], ciphertext[len(ciphertext)-16:]
	for _, e := range *a.tab {
		if vfAnd(vfAnd(c31eq(e.nonce, nonce), c31eq(e.ad, ad)), vfAnd(c31eq(e.pt, pt), c31eq(e.tag, tag))) {
			return append(dst, c31clone(pt)...), nil
		}
	}
	return nil, c31errAuth
}

// ---- contexts ----

type c31ctx struct {
	src  []byte
	v6   bool
	ip   []byte
	port uint16
}

func c31context(tag string, lens []int) c31ctx {
	var c c31ctx
	c.src = vfBytes(tag+".srcConnID", lens[vfChoice(tag+".srclen", len(lens))])
	c.v6 = vfBool(tag + ".ipv6")
	if c.v6 {
		c.ip = vfBytes(tag+".ip6", 16)
	} else {
		c.ip = vfBytes(tag+".ip4", 4)
	}
	c.port = vfU16(tag + ".port")
	return c
}

func (c c31ctx) addrPort() netip.AddrPort {
	if c.v6 {
		var a [16]byte
		copy(a[:], c.ip)
		return netip.AddrPortFrom(netip.AddrFrom16(a), c.port)
	}
	var a [4]byte
	copy(a[:], c.ip)
	return netip.AddrPortFrom(netip.AddrFrom4(a), c.port)
}

func (c c31ctx) same(d c31ctx) bool {
	if c.v6 != d.v6 {
		return false
	}
	return vfAnd(vfAnd(c31eq(c.src, d.src), c31eq(c.ip, d.ip)), c.port == d.port)
}

func c31maxSrc() int {
	if vfTier() > 0 {
		return 3
	}
	return 2
}

// source connection ID lengths: 12 makes srcConnID+IPv4 as long as an empty srcConnID+IPv6
func c31srcLens() []int {
	if vfTier() > 0 {
		return []int{0, 1, 2, 12, 20}
	}
	return []int{0, 1, 12}
}

// additionalData is injective: equal byte strings only for equal (srcConnID, address family, address, port).
func VerifC31_ad() {
	var rs retryState
	a, b := c31context("a", c31srcLens()), c31context("b", c31srcLens())
	ada, adb := rs.additionalData(a.src, a.addrPort()), rs.additionalData(b.src, b.addrPort())
	vfAssert(len(ada) == 1+len(a.src)+len(a.ip)+2, "additional data length")
	vfAssert(c31eq(ada, adb) == a.same(b), "additional data equal iff contexts equal")
	if len(ada) == len(adb) && a.v6 != b.v6 {
		vfReach("same length, different address family")
	}
	vfObserveBytes("ad", ada)
	vfReach("end")
}

// makeToken then validateToken in an arbitrary presented context.
func VerifC31_issue_validate() {
	c31setRand()
	rs := retryState{aead: c31aead{nonceSize: 24, tab: new([]c31sealed)}}
	// issue time: concrete instants (whole second / last nanosecond of a second: the token stores seconds);
	// validation time: symbolic
	issue := []time.Time{time.Unix(1700000000, 0), time.Unix(1700000000, 999999999)}[vfChoice("issue", 2)]
	issueSec := time.Unix(1700000000, 0)
	a := c31context("issued", c31srcLens())
	odcid := vfBytes("origDstConnID", vfLen("odcidlen", 0, c31maxSrc()))
	token, newDst, err := rs.makeToken(issue, a.src, odcid, a.addrPort())
	vfAssert(err == nil, "makeToken succeeds")
	vfAssert(len(newDst) == maxConnIDLen, "new destination connection ID has 20 bytes")
	vfAssert(len(token) == 4+8+len(odcid)+16, "token layout: 4 nonce bytes, timestamp, original DCID, tag")
	tok0, dst0 := c31clone(token), c31clone(newDst)

	// presented context: everything independent of what was issued
	b := c31context("presented", c31srcLens())
	var dst []byte
	if vfBool("dstLen20") {
		dst = vfBytes("presented.dstConnID", maxConnIDLen)
	} else {
		dst = vfBytes("presented.dstConnID.short", 8)
	}
	tok := vfBytes("presented.token", len(token)-1+vfLen("tokendelta", 0, 2))
	now := vfTime("presented.now")
	vfAssume(vfAnd(now.UnixNano() >= 1<<50, now.UnixNano() < 1<<61))

	got, ok := rs.validateToken(now, tok, b.src, dst, b.addrPort())

	d := now.Sub(issueSec)
	inTime := vfAnd(d <= retryTokenValidityPeriod, d >= -retryTokenValidityPeriod)
	want := vfAnd(vfAnd(a.same(b), c31eq(dst, dst0)), vfAnd(c31eq(tok, tok0), inTime))
	vfAssert(ok == want, "accepted iff same address, port, connection IDs, unmodified token, within 5 s")
	if ok {
		vfAssert(c31eq(got, odcid), "returns the original destination connection ID")
		vfReach("accepted")
	} else {
		vfAssert(got == nil, "no connection ID when rejected")
		vfReach("rejected")
	}
	vfObserveBool("ok", ok)
	vfReach("end")
}

// The token is bound to the EXACT destination connection ID (the 20-byte Source Connection ID of our Retry packet)
// and is accepted only UNMODIFIED: here the presented destination connection ID has any length 0..25 and the
// presented token any length from 0 bytes to 25 bytes more than what was issued (both fully symbolic), so that every
// way of moving bytes between "connection ID", "nonce tail" and "ciphertext" is covered, including connection IDs
// longer than the 24-byte nonce. The issued context has one shape (1-byte source connection ID, IPv4, original DCID
// of 0..1 bytes; thorough also 12-byte/IPv6 and 0..2) and the presented address/port/source connection ID are
// independent symbolic values of the same shape (the shapes are varied by VerifC31_issue_validate).
func VerifC31_issue_validate_lens() {
	c31setRand()
	rs := retryState{aead: c31aead{nonceSize: 24, tab: new([]c31sealed)}}
	issue := time.Unix(1700000000, 0)
	var a c31ctx
	if vfTier() > 0 {
		a = c31context("issued", []int{1, 12})
	} else {
		a = c31ctx{src: vfBytes("issued.srcConnID", 1), ip: vfBytes("issued.ip4", 4), port: vfU16("issued.port")}
	}
	odcid := vfBytes("origDstConnID", vfLen("odcidlen", 0, 1+vfTier()))
	token, newDst, err := rs.makeToken(issue, a.src, odcid, a.addrPort())
	vfAssert(err == nil, "makeToken succeeds")
	tok0, dst0 := c31clone(token), c31clone(newDst)

	b := c31ctx{src: vfBytes("presented.srcConnID", len(a.src)), v6: a.v6, ip: vfBytes("presented.ip", len(a.ip)), port: vfU16("presented.port")}
	dst := vfBytes("presented.dstConnID", vfLen("dstlen", 0, maxConnIDLen+5))
	tok := vfBytes("presented.token", vfLen("tokenlen", 0, len(token)+maxConnIDLen+5))
	now := vfTime("presented.now")
	vfAssume(vfAnd(now.UnixNano() >= 1<<50, now.UnixNano() < 1<<61))

	got, ok := rs.validateToken(now, tok, b.src, dst, b.addrPort())

	d := now.Sub(issue)
	inTime := vfAnd(d <= retryTokenValidityPeriod, d >= -retryTokenValidityPeriod)
	want := vfAnd(vfAnd(a.same(b), c31eq(dst, dst0)), vfAnd(c31eq(tok, tok0), inTime))
	vfAssert(ok == want, "accepted iff same address, port, connection IDs (exact length), unmodified token, within 5 s")
	if ok {
		vfAssert(c31eq(got, odcid), "returns the original destination connection ID")
		vfReach("accepted")
	} else {
		vfAssert(got == nil, "no connection ID when rejected")
		if len(dst) != maxConnIDLen {
			vfReach("rejected: other connection ID length")
		}
		if len(dst)+len(tok) == len(dst0)+len(tok0) && len(dst) < maxConnIDLen {
			vfReach("rejected: bytes moved from the connection ID into the token")
		}
	}
	vfObserveBool("ok", ok)
	vfReach("end")
}

// Retry packets (RFC 9001 §5.8): the integrity tag binds the packet to the original destination connection ID.
func VerifC31_retry_packet() {
	saved := retryAEAD
	presented := new([][]byte)
	retryAEAD = c31aead{nonceSize: 12, tab: new([]c31sealed), presented: presented}
	defer func() { retryAEAD = saved }()
	odcid := vfBytes("odcid", vfLen("odcidlen", 0, c31maxSrc()))
	sh := [][3]int{{0, 0, 1}, {1, 2, 3}, {2, 0, 2}}[vfChoice("shape", 3)] // dcid, scid, token lengths
	p := retryPacket{
		dstConnID: vfBytes("dcid", sh[0]),
		srcConnID: vfBytes("scid", sh[1]),
		token:     vfBytes("token", sh[2]),
	}
	pkt := encodeRetryPacket(odcid, p)
	vfAssert(len(pkt) == 1+4+1+len(p.dstConnID)+1+len(p.srcConnID)+len(p.token)+16, "Retry packet layout")
	vfAssert(getPacketType(pkt) == packetTypeRetry, "packet type")

	q, ok := parseRetryPacket(c31clone(pkt), odcid)
	vfAssert(ok, "Retry packet verifies against its original destination connection ID")
	vfAssert(c31eq(q.dstConnID, p.dstConnID) && c31eq(q.srcConnID, p.srcConnID) && c31eq(q.token, p.token), "fields round trip")

	// a different original DCID, or a packet with one byte changed, does not verify
	other := vfBytes("odcid2", vfLen("odcid2len", 0, c31maxSrc()))
	mod := c31clone(pkt)
	modified := vfBool("modify")
	if modified {
		pos := vfChoice("pos", len(mod))
		mod[pos] ^= []byte{0x01, 0x80}[vfChoice("delta", 2)] // concrete masks (a symbolic one makes the length bytes symbolic)
	}
	if len(mod) >= 16 {
		*presented = append(*presented, c31clone(mod[len(mod)-16:]))
	}
	_, ok2 := parseRetryPacket(mod, other)
	vfAssert(vfImplies(ok2, vfAnd(c31eq(other, odcid), !modified)), "a Retry packet verifies only unmodified and for the connection ID it was made for")
	if ok2 {
		vfReach("same context accepted")
	} else {
		vfReach("other context rejected")
	}
	vfObserveBool("ok2", ok2)
	vfReach("end")
}

// ---- ideal MAC ----

type c31macEntry struct{ in, out []byte }

// c31mac is an ideal MAC with the (non-)concurrency contract of hash.Hash: one shared buffer, no internal locking.
// Every method is a scheduling point of the symbolic scheduler before its effect on the shared state (so between any
// two accesses of one goroutine another goroutine's accesses can be interleaved, as with a real hash.Hash).
// If mu is set, every access additionally checks the lock discipline the generator documents ("The hash.Hash
// interface is not concurrency safe, so we need a mutex here"): the mutex must be HELD during the access.
type c31mac struct {
	buf   []byte
	tab   []c31macEntry
	calls [][]byte // the input of every Sum, in order
	mu    *sync.Mutex
}

func (m *c31mac) access(what string) {
	if m.mu != nil {
		free := m.mu.TryLock() // also a scheduling point
		vfAssert(!free, "the shared MAC state is accessed only while the generator's mutex is held")
		return
	}
	vfYield()
}

// f is the ideal keyed function itself: one fresh 32-byte value per distinct input, the same value for the same input.
func (m *c31mac) f(in []byte) []byte {
	for _, e := range m.tab {
		if c31eq(e.in, in) {
			return e.out
		}
	}
	out := vfBytes("mac.out", 32)
	m.tab = append(m.tab, c31macEntry{c31clone(in), out})
	return out
}

func (m *c31mac) Write(p []byte) (int, error) {
	m.access("Write")
	m.buf = append(m.buf, p...)
	return len(p), nil
}
func (m *c31mac) Reset()         { m.access("Reset"); m.buf = nil }
func (m *c31mac) Size() int      { return 32 }
func (m *c31mac) BlockSize() int { return 64 }
func (m *c31mac) Sum(b []byte) []byte {
	m.access("Sum")
	in := c31clone(m.buf)
	m.calls = append(m.calls, in)
	return append(b, m.f(in)...)
}

// c31generator: with discipline the MAC stub asserts the lock discipline at every access (sequential harness: the
// violation is then independent of the schedule and replays natively); without, the accesses are plain scheduling
// points and the harness judges the OUTCOME of every interleaving.
func c31generator(discipline bool) (*statelessResetTokenGenerator, *c31mac) {
	mac := &c31mac{}
	g := &statelessResetTokenGenerator{canReset: true, mac: mac}
	if discipline {
		mac.mu = &g.mu
	}
	return g, mac
}

// Stateless-reset tokens: deterministic function of the connection ID for a given key (MAC), also across
// interleaved requests for other connection IDs (the deferred Reset).
func VerifC31_reset_token() {
	g, mac := c31generator(true)
	cid1 := vfBytes("cid1", vfLen("cid1len", 0, 3))
	cid2 := vfBytes("cid2", vfLen("cid2len", 0, 3))
	t1 := g.tokenForConnID(cid1)
	t2 := g.tokenForConnID(cid2)
	t3 := g.tokenForConnID(cid1)
	vfAssert(len(mac.calls) == 3, "one MAC computation per token")
	vfAssert(c31eq(mac.calls[0], cid1) && c31eq(mac.calls[1], cid2) && c31eq(mac.calls[2], cid1), "the MAC input is exactly the connection ID (state is reset between tokens)")
	vfAssert(t3 == t1, "same connection ID, same token")
	vfAssert(vfImplies(c31eq(cid1, cid2), t2 == t1), "equal connection IDs give equal tokens")
	vfAssert(c31eq(t1[:], mac.tab[0].out[:statelessResetTokenLen]), "token = first 16 bytes of the MAC")
	if len(mac.tab) == 2 {
		vfReach("two distinct connection IDs")
	}
	// the generator can be used again after the mutex was released
	vfAssert(!vfBlocks(func() { g.tokenForConnID(cid2) }), "mutex released")
	vfObserve("macs", uint64(len(mac.tab)))
	vfReach("end")
}

// The same under CONCURRENT use of one generator (several Conns of an Endpoint issue NEW_CONNECTION_ID tokens while
// the endpoint's receive loop computes stateless resets): 2 goroutines each request 1 token (thorough: the first one 1 or 2, one more preemption) for
// their own symbolic connection IDs under the symbolic scheduler; every scheduling point of the mutex and of the
// MAC stub is a possible context switch (preemption bound of the check json). Every token must be the ideal keyed
// function of exactly its connection ID, whatever the interleaving; the generator must not deadlock.
func VerifC31_reset_concurrent() {
	vfNoDeadlock()
	g, mac := c31generator(false)
	n := 2
	type req struct {
		cid []byte
		tok statelessResetToken
	}
	reqs := make([][]req, n)
	total := 0
	for i := range reqs {
		k := 1
		if i == 0 && vfTier() > 0 {
			k = 1 + vfChoice("twice", 2) // thorough: the first goroutine asks once or twice (Reset of its own earlier request)
		}
		for j := 0; j < k; j++ {
			reqs[i] = append(reqs[i], req{cid: vfBytes("cid", vfLen("cidlen", 0, 1))})
			total++
		}
	}
	done := make(chan int, n)
	for i := range reqs {
		mine := reqs[i]
		vfGo(func() {
			for j := range mine {
				mine[j].tok = g.tokenForConnID(mine[j].cid)
			}
			done <- 1
		})
	}
	for range reqs {
		<-done
	}
	vfAssert(len(mac.calls) == total, "one MAC computation per token")
	for i := range reqs {
		for _, r := range reqs[i] {
			want := mac.f(r.cid)
			vfAssert(c31eq(r.tok[:], want[:statelessResetTokenLen]), "concurrent use: the token is the keyed function of exactly its connection ID")
		}
	}
	// and a sequential request afterwards agrees (nothing was left in the MAC state)
	again := g.tokenForConnID(reqs[0][0].cid)
	vfAssert(again == reqs[0][0].tok, "same connection ID, same token, after concurrent use")
	vfObserve("macs", uint64(len(mac.tab)))
	vfReach("end")
}
