package quic

// C20 — QUIC never sends stream data beyond the peer's flow-control limits.
//
// Shape B (bounded histories from the real initial state) on real Stream objects attached to a hand-built Conn
// (no endpoint, no TLS, no conn loop: messages posted to the loop are executed by the harness after every event).
// Frames are produced by the real Conn.appendStreamFrames into a real packetWriter and parsed back from the wire
// bytes with the real consume*Frame parsers; packet fates go through the real Conn.handleAckOrLoss.
// Small-domain quantities (lengths, windows, packet space) are enumerated concretely (cheap paths, no solver);
// the arithmetic kernels are additionally checked at full 64-bit width in shape I (VerifC20_window, VerifC20_bounds).
//
// The qs* helpers in this file are shared with the C32 and C19 harnesses.
//
// Sensitivity (sh mut.sh, all caught):
//   stream.go appendOutFramesLocked: conn-level clamp `outmaxsent+outflow.avail()` -> `...+1`   caught by VerifC20_two
//     (sum of highest offsets > MAX_DATA; also the code's own "BUG: streamOutSendData set ..." panic)
//   stream.go flushLocked: `min(s.outwin, s.out.end)` -> `s.out.end`                             caught by VerifC20_send
//   conn_flow.go handleStreamBytesReceived: `usedLimit > sentLimit` -> `> sentLimit+1`            caught by VerifC20_recv
//   stream.go handleMaxStreamData: `maxStreamData <= s.outwin` -> `==` (window may shrink)        caught by VerifC20_window
//   seeded C20-B: conn_streams.go streamForFrame: `s.outwin = peerInitialMaxStreamDataBidiLocal` ->
//     `peerInitialMaxStreamDataRemote[bidiStream]` (peer-opened stream takes the limit meant for our streams)
//     caught by VerifC20_initwin (quick) and by the peer-origin runs of VerifC20_send/_resend (thorough)

import (
	"context"
	"time"
)

func init() {
	vfRegister("VerifC20_send", VerifC20_send)
	vfRegister("VerifC20_resend", VerifC20_resend)
	vfRegister("VerifC20_two", VerifC20_two)
	vfRegister("VerifC20_initwin", VerifC20_initwin)
	vfRegister("VerifC20_recv", VerifC20_recv)
	vfRegister("VerifC20_window", VerifC20_window)
	vfRegister("VerifC20_bounds", VerifC20_bounds)
	vfRegister("VerifC20_outflow", VerifC20_outflow)
}

// ---------------------------------------------------------------------------------------------------------------
// shared infrastructure (qs = quic stream kernel)

// qsConn builds a Conn that is just sufficient for the stream kernel: side, config, the loop's message channel and
// the real streamsInit (stream map, limits, connection-level inflow from the config).
func qsConn(side connSide, cfg *Config) *Conn {
	c := &Conn{side: side, config: cfg}
	c.msgc = make(chan any, 8)
	c.streamsInit()
	return c
}

// qsDrain plays the role of the conn's loop for messages posted by user-facing stream calls.
func qsDrain(c *Conn) {
	for {
		select {
		case m := <-c.msgc:
			if f, ok := m.(func(time.Time, *Conn)); ok {
				f(time.Time{}, c)
			}
		default:
			return
		}
	}
}

// qsLocalStream mirrors Conn.newLocalStream without the stream-count gate and without the trip through the loop.
func qsLocalStream(c *Conn, styp streamType, num int64) *Stream {
	s := newStream(c, newStreamID(c.side, styp, num))
	s.outmaxbuf = c.config.maxStreamWriteBufferSize()
	s.outwin = c.streams.peerInitialMaxStreamDataRemote[styp]
	if styp == bidiStream {
		s.inmaxbuf = c.config.maxStreamReadBufferSize()
		s.inwin = c.config.maxStreamReadBufferSize()
	}
	s.inUnlock()
	s.outUnlock()
	c.streams.streams[s.id] = maybeStream{s}
	return s
}

// qsCancelled is a context that is already done: blocking stream calls return instead of waiting.
func qsCancelled() context.Context {
	ctx, cancel := context.WithCancel(context.Background())
	cancel()
	return ctx
}

type qsFrame struct {
	typ  byte // frameTypeStreamBase, frameTypeResetStream, frameTypeStreamDataBlocked, frameTypeMaxStreamData, frameTypeMaxData, frameTypeStopSending
	id   streamID
	off  int64
	data []byte
	fin  bool
	code uint64
	val  int64 // final size / limit
	pnum packetNumber
}

// qsEmitter owns the packet writer and the packets in flight of one endpoint.
type qsEmitter struct {
	w        packetWriter
	pnum     packetNumber
	inflight []*sentPacket
}

// emit lets the conn fill one packet with avail bytes of payload space and returns the frames found on the wire.
func (e *qsEmitter) emit(c *Conn, avail int, pto bool) []qsFrame {
	w := &e.w
	w.b = nil
	w.reset(64)
	w.sent = newSentPacket()
	w.pktOff, w.payOff = 0, 0
	w.pktLim = avail
	pnum := e.pnum
	e.pnum++
	c.appendStreamFrames(w, pnum, pto)
	payload := w.payload()
	vfAssert(len(payload) <= avail, "packet payload within the packet limit")
	frames := qsParse(payload, pnum)
	sent := w.sent
	w.sent = nil
	if len(payload) > 0 {
		sent.num = pnum
		e.inflight = append(e.inflight, sent)
	}
	return frames
}

// fate acks or loses the i'th packet in flight and returns its number.
func (e *qsEmitter) fate(c *Conn, i int, fate packetFate) packetNumber {
	sent := e.inflight[i]
	e.inflight = append(e.inflight[:i:i], e.inflight[i+1:]...)
	c.handleAckOrLoss(appDataSpace, sent, fate)
	return sent.num
}

func qsParse(payload []byte, pnum packetNumber) []qsFrame {
	var out []qsFrame
	for len(payload) > 0 {
		f := qsFrame{pnum: pnum}
		n := -1
		t := payload[0]
		switch {
		case t >= frameTypeStreamBase && t < frameTypeStreamBase+8:
			f.typ = frameTypeStreamBase
			f.id, f.off, f.fin, f.data, n = consumeStreamFrame(payload)
		case t == frameTypeResetStream:
			f.typ = t
			f.id, f.code, f.val, n = consumeResetStreamFrame(payload)
		case t == frameTypeStopSending:
			f.typ = t
			f.id, f.code, n = consumeStopSendingFrame(payload)
		case t == frameTypeStreamDataBlocked:
			f.typ = t
			f.id, f.val, n = consumeStreamDataBlockedFrame(payload)
		case t == frameTypeMaxStreamData:
			f.typ = t
			f.id, f.val, n = consumeMaxStreamDataFrame(payload)
		case t == frameTypeMaxData:
			f.typ = t
			f.val, n = consumeMaxDataFrame(payload)
		}
		vfAssert(n > 0, "emitted frame parses")
		if n <= 0 {
			return out
		}
		out = append(out, f)
		payload = payload[n:]
	}
	return out
}

// qsSendGhost is what an observer of the API and of the wire knows about one sending stream.
type qsSendGhost struct {
	s       *Stream
	limit   int64  // largest MAX_STREAM_DATA given to the sender (initial value included)
	maxSent int64  // highest offset seen in any STREAM frame
	data    []byte // bytes accepted by Write, in order
	closed  bool   // CloseWrite called
	reset   bool   // Reset called or STOP_SENDING received (first one wins)
	code    uint64 // code of the first reset
	nreset  int    // RESET_STREAM frames seen
}

// operation kinds (bit mask)
const (
	qsOpWrite = 1 << iota
	qsOpFlush
	qsOpClose
	qsOpReset
	qsOpStopSending
	qsOpMaxStreamData
	qsOpMaxData
	qsOpEmit
	qsOpEmitPTO
	qsOpFate
)

// qsSender is a sending endpoint: a conn with 1..2 local streams, its emitter and the ghosts.
type qsSender struct {
	c       *Conn
	em      qsEmitter
	gs      []*qsSendGhost
	connMax int64 // largest MAX_DATA given to the sender
	symData bool  // written bytes symbolic (C19) or a concrete counter
	symCode bool  // reset codes symbolic (any uint64) or the constant 7
	prune   bool  // cut histories whose last event left the implementation state unchanged (covered by the shorter history)
	next    byte
	maxLen  int     // longest Write
	msd     []int64 // MAX_STREAM_DATA values on offer
	md      []int64 // MAX_DATA values on offer
	avails  []int   // packet payload space on offer
	onFrame func(f qsFrame)
	onFate  func(pnum packetNumber, fate packetFate)
}

func qsNewSender(outmaxbuf, win0, maxdata0 int64, nstreams int) *qsSender {
	return qsNewSenderFrom(qsOriginLocal, outmaxbuf, win0, maxdata0, nstreams)
}

// Who opened the streams of a qsSender. The peer states three different initial per-stream limits in its transport
// parameters (RFC 9000 18.2): initial_max_stream_data_bidi_remote / _uni govern the streams the endpoint opens,
// initial_max_stream_data_bidi_local the bidirectional streams the peer opens. The limit that governs the sender's
// streams is win0; the others are set to a larger decoy, so that taking the window from the wrong parameter shows
// up as data beyond the peer's limit.
const (
	qsOriginLocal = iota // streams opened by the endpoint (bidirectional, then unidirectional)
	qsOriginPeer         // bidirectional streams opened by the peer, created by the real Conn.streamForFrame
)

func qsNewSenderFrom(origin int, outmaxbuf, win0, maxdata0 int64, nstreams int) *qsSender {
	cfg := &Config{MaxStreamWriteBufferSize: outmaxbuf, MaxStreamReadBufferSize: 4}
	c := qsConn(clientSide, cfg)
	c.streams.outflow.setMaxData(maxdata0)
	decoy := win0 + 3
	if origin == qsOriginLocal {
		c.streams.peerInitialMaxStreamDataRemote[bidiStream] = win0
		c.streams.peerInitialMaxStreamDataRemote[uniStream] = win0
		c.streams.peerInitialMaxStreamDataBidiLocal = decoy
	} else {
		c.streams.peerInitialMaxStreamDataRemote[bidiStream] = decoy
		c.streams.peerInitialMaxStreamDataRemote[uniStream] = decoy
		c.streams.peerInitialMaxStreamDataBidiLocal = win0
	}
	ctx := qsCancelled()
	w := &qsSender{c: c, connMax: maxdata0, maxLen: 2}
	for i := 0; i < nstreams; i++ {
		var s *Stream
		if origin == qsOriginLocal {
			styp := bidiStream
			if i == 1 {
				styp = uniStream
			}
			s = qsLocalStream(c, styp, 0)
		} else {
			// the first frame the peer sends for its i'th bidirectional stream creates it
			id := newStreamID(serverSide, bidiStream, int64(i))
			s = c.streamForFrame(time.Time{}, id, recvStream)
			vfAssert(s != nil && s.id == id, "streamForFrame creates the peer's stream")
		}
		s.SetWriteContext(ctx)
		s.SetReadContext(ctx)
		w.gs = append(w.gs, &qsSendGhost{s: s, limit: win0})
	}
	return w
}

func (w *qsSender) ghost(id streamID) *qsSendGhost {
	for _, g := range w.gs {
		if g.s.id == id {
			return g
		}
	}
	return nil
}

// step performs one event chosen among the kinds in mask. It reports the kind performed.
func (w *qsSender) step(mask int) int {
	// build the menu of concrete alternatives
	type alt = qsAlt
	var menu []alt
	for gi := range w.gs {
		if mask&qsOpWrite != 0 {
			for n := 1; n <= w.maxLen; n++ {
				menu = append(menu, alt{qsOpWrite, gi, n})
			}
		}
		for _, k := range []int{qsOpFlush, qsOpClose, qsOpReset, qsOpStopSending} {
			if mask&k != 0 {
				menu = append(menu, alt{k, gi, 0})
			}
		}
		if mask&qsOpMaxStreamData != 0 {
			for i := range w.msd {
				menu = append(menu, alt{qsOpMaxStreamData, gi, i})
			}
		}
	}
	if mask&qsOpMaxData != 0 {
		for i := range w.md {
			menu = append(menu, alt{qsOpMaxData, 0, i})
		}
	}
	if mask&qsOpEmit != 0 {
		for i := range w.avails {
			menu = append(menu, alt{qsOpEmit, 0, i})
		}
	}
	if mask&qsOpEmitPTO != 0 {
		for i := range w.avails {
			menu = append(menu, alt{qsOpEmitPTO, 0, i})
		}
	}
	if mask&qsOpFate != 0 {
		for i := range w.em.inflight {
			menu = append(menu, alt{qsOpFate, 0, 2 * i}, alt{qsOpFate, 0, 2*i + 1})
		}
	}
	return w.do(menu[vfChoice("op", len(menu))])
}

// qsAlt is one concrete event: kind, stream index, argument (length / index into the value lists / packet and fate).
type qsAlt struct {
	kind, g, a int
}

// do performs one event. For qsOpEmit/qsOpEmitPTO the argument indexes w.avails, for qsOpMaxStreamData w.msd,
// for qsOpMaxData w.md; for qsOpFate it is 2*index of the packet in flight + (1 if lost).
func (w *qsSender) do(m qsAlt) int {
	g := w.gs[m.g]
	s := g.s
	switch m.kind {
	case qsOpWrite:
		var b []byte
		if w.symData {
			b = vfBytes("data", m.a)
		} else {
			b = make([]byte, m.a)
			for i := range b {
				w.next++
				b[i] = w.next
			}
		}
		nn, err := s.Write(b)
		vfAssert(nn >= 0 && nn <= len(b), "Write count in range")
		vfAssert((err == nil) == (nn == len(b)) || g.closed || g.reset, "short Write iff error")
		if g.closed || g.reset {
			vfAssert(nn == 0 && err != nil, "Write after CloseWrite/Reset fails")
		}
		g.data = append(g.data, b[:nn]...)
	case qsOpFlush:
		s.Flush()
	case qsOpClose:
		s.CloseWrite()
		g.closed = true
	case qsOpReset, qsOpStopSending:
		code := uint64(7 + m.a) // concrete unless symCode
		if w.symCode {
			code = vfU64("code")
		}
		if m.kind == qsOpStopSending {
			s.handleStopSending(code)
		} else {
			s.Reset(code)
			g.closed = true
		}
		if !g.reset {
			g.reset = true
			g.code = code
		}
	case qsOpMaxStreamData:
		v := w.msd[m.a]
		before := s.outwin
		s.handleMaxStreamData(v)
		if v > g.limit {
			g.limit = v
		}
		if w.prune && s.outwin == before {
			vfAssume(false) // the implementation ignored the (stale) frame: same state as the shorter history
		}
	case qsOpMaxData:
		v := w.md[m.a]
		before := w.c.streams.outflow.max
		w.c.streams.outflow.setMaxData(v)
		if v > w.connMax {
			w.connMax = v
		}
		if w.prune && w.c.streams.outflow.max == before {
			vfAssume(false)
		}
	case qsOpEmit, qsOpEmitPTO:
		frames := w.em.emit(w.c, w.avails[m.a], m.kind == qsOpEmitPTO)
		w.observe(frames)
		if w.prune && len(frames) == 0 {
			vfAssume(false) // nothing was put on the wire and nothing recorded: same state as the shorter history
		}
	case qsOpFate:
		fate := packetAcked
		if m.a&1 == 1 {
			fate = packetLost
		}
		pnum := w.em.fate(w.c, m.a/2, fate)
		if w.onFate != nil {
			w.onFate(pnum, fate)
		}
	}
	qsDrain(w.c)
	return m.kind
}

// observe checks the frames of one emitted packet against the ghosts: this is the wire-level statement of
// C20 (limits), C32 (reset) and the sender half of C19 (content).
func (w *qsSender) observe(frames []qsFrame) {
	// STREAM frames first (the statements of C20/C32/C19 are about them), then the other frames of the packet
	var order []qsFrame
	for _, f := range frames {
		if f.typ == frameTypeStreamBase {
			order = append(order, f)
		}
	}
	for _, f := range frames {
		if f.typ != frameTypeStreamBase {
			order = append(order, f)
		}
	}
	for _, f := range order {
		switch f.typ {
		case frameTypeStreamBase:
			g := w.ghost(f.id)
			vfAssert(g != nil, "STREAM frame for a known stream")
			end := f.off + int64(len(f.data))
			// C20
			vfAssert(end <= g.limit, "C20: STREAM frame within the peer's MAX_STREAM_DATA")
			// C32
			vfAssert(!g.reset, "C32: no STREAM frame after the send side was reset")
			// C19 (sender half): the frame carries exactly the bytes written at these offsets; FIN is truthful
			vfAssert(end <= int64(len(g.data)), "STREAM frame within the bytes written")
			ok := true
			for i := range f.data {
				ok = vfAnd(ok, f.data[i] == g.data[f.off+int64(i)])
			}
			vfAssert(ok, "C19: STREAM frame carries the bytes written at its offsets")
			if f.fin {
				vfAssert(g.closed && end == int64(len(g.data)), "C19: FIN only after CloseWrite and at the final size")
			}
			if end > g.maxSent {
				g.maxSent = end
			}
		case frameTypeResetStream:
			g := w.ghost(f.id)
			vfAssert(g != nil, "RESET_STREAM for a known stream")
			vfAssert(g.reset, "C32: RESET_STREAM only after Reset/STOP_SENDING")
			vfAssert(f.val == g.maxSent, "C32: RESET_STREAM final size equals the highest offset sent")
			want := g.code
			if want > 1<<62-1 {
				want = 1<<62 - 1
			}
			vfAssert(f.code == want, "C32: RESET_STREAM carries the reset code")
			g.nreset++
		case frameTypeStreamDataBlocked:
			g := w.ghost(f.id)
			vfAssert(g != nil && !g.reset, "STREAM_DATA_BLOCKED for a live known stream")
			vfAssert(f.val == g.limit, "STREAM_DATA_BLOCKED reports the current limit")
		}
		if w.onFrame != nil {
			w.onFrame(f)
		}
	}
	var sum int64
	for _, g := range w.gs {
		sum += g.maxSent
		vfAssert(g.s.outmaxsent == g.maxSent, "C20: outmaxsent equals the highest offset on the wire")
	}
	vfAssert(sum <= w.connMax, "C20: sum of highest offsets within the peer's MAX_DATA")
	vfAssert(w.c.streams.outflow.used == sum, "C20: outflow.used equals the sum of highest offsets")
	vfObserve("sum", uint64(sum))
}

// ---------------------------------------------------------------------------------------------------------------

// VerifC20_send: sender side, one stream. Any history of Write/Flush/CloseWrite/Reset/MAX_STREAM_DATA/MAX_DATA,
// packet emission into packets of several sizes (normal and PTO) and ack/loss of the emitted packets.
func VerifC20_send() {
	k := 4
	outmaxbuf := int64(3)
	if vfTier() > 0 {
		outmaxbuf = int64(vfLen("outmaxbuf", 2, 4))
	}
	win0 := int64(vfChoice("win0", 2) * 2)         // 0, 2
	maxdata0 := int64(vfChoice("maxdata0", 2) * 3) // 0, 3
	origin := qsOriginLocal
	if vfTier() > 0 {
		origin = vfChoice("origin", 2) // thorough: also on a stream the peer opened (quick: VerifC20_initwin)
	}
	w := qsNewSenderFrom(origin, outmaxbuf, win0, maxdata0, 1)
	w.prune = true
	w.msd = []int64{1, 3, 6}
	w.md = []int64{2, 6}
	w.avails = []int{3, 5, 20}
	mask := qsOpWrite | qsOpFlush | qsOpMaxStreamData | qsOpMaxData | qsOpEmit | qsOpEmitPTO | qsOpFate
	if vfTier() > 0 {
		mask |= qsOpClose
	}
	for step := 0; step < k; step++ {
		w.step(mask)
	}
	if w.gs[0].maxSent > 0 {
		vfReach("data-sent")
	}
	if w.gs[0].maxSent > win0 {
		vfReach("window-grown")
	}
	vfReach("end")
}

// VerifC20_resend: the same, from the state after "Write(3 bytes); Flush; one packet emitted" so that loss,
// retransmission, PTO probes and window growth interleave within the step bound.
func VerifC20_resend() {
	k := 4
	origin := qsOriginLocal
	if vfTier() > 0 {
		origin = vfChoice("origin", 2) // thorough: also on a bidirectional stream the peer opened
	}
	w := qsNewSenderFrom(origin, 4, 2, 3, 1)
	w.prune = true
	w.msd = []int64{3, 6}
	w.md = []int64{4, 8}
	if vfTier() > 0 {
		w.msd = []int64{3, 4, 6}
		w.md = []int64{4, 5, 8}
	}
	w.avails = []int{7, 20} // 7 = STREAM_DATA_BLOCKED (3) + STREAM header (3) + 1 byte
	w.do(qsAlt{qsOpWrite, 0, 3}) // 2 bytes inside the stream window, 1 blocked
	w.do(qsAlt{qsOpFlush, 0, 0})
	w.do(qsAlt{qsOpEmit, 0, vfChoice("avail0", 2)}) // first packet carries 1 byte or both sendable bytes
	vfAssert(w.gs[0].maxSent >= 1, "prologue put data on the wire")
	mask := qsOpWrite | qsOpFlush | qsOpMaxStreamData | qsOpMaxData | qsOpEmit | qsOpEmitPTO | qsOpFate
	if vfTier() > 0 {
		mask |= qsOpClose
	}
	w.maxLen = 1
	lost := false
	w.onFate = func(pnum packetNumber, fate packetFate) {
		if fate == packetLost {
			lost = true
		}
	}
	resent := false
	w.onFrame = func(f qsFrame) {
		if lost && f.typ == frameTypeStreamBase && len(f.data) > 0 && f.off+int64(len(f.data)) <= w.gs[0].maxSent {
			resent = true
		}
	}
	for step := 0; step < k; step++ {
		w.step(mask)
	}
	if resent {
		vfReach("retransmission")
	}
	if resent && w.gs[0].maxSent > 2 {
		vfReach("retransmission-and-growth")
	}
	vfReach("end")
}

// VerifC20_two: two streams (one bidirectional, one unidirectional) share the connection-level limit.
func VerifC20_two() {
	k := 4
	maxdata0 := int64(vfChoice("maxdata0", 2) * 3) // 0, 3
	w := qsNewSender(3, 2, maxdata0, 2)
	w.prune = true
	w.msd = []int64{4}
	w.md = []int64{2, 5}
	w.avails = []int{5, 20}
	if vfTier() > 0 {
		w.msd = []int64{3, 4}
		w.md = []int64{2, 5, 8}
		w.avails = []int{4, 5, 20}
	}
	mask := qsOpWrite | qsOpFlush | qsOpMaxStreamData | qsOpMaxData | qsOpEmit | qsOpFate
	for step := 0; step < k; step++ {
		w.step(mask)
	}
	if w.gs[0].maxSent > 0 && w.gs[1].maxSent > 0 {
		vfReach("both-streams-sent")
	}
	if w.gs[0].maxSent+w.gs[1].maxSent == w.connMax && w.connMax > 0 && (len(w.gs[0].data) > int(w.gs[0].maxSent) || len(w.gs[1].data) > int(w.gs[1].maxSent)) {
		vfReach("conn-limit-binds")
	}
	vfReach("end")
}

// VerifC20_initwin: where a stream's FIRST send window comes from. The peer's transport parameters carry three
// per-stream limits with three different values; they are installed by the real Conn.receiveTransportParameters.
// Streams of every origin are then created by the real code: Conn.NewStream / NewSendOnlyStream (the conn's loop is a
// second goroutine that runs the posted function) and Conn.streamForFrame for a bidirectional stream opened by the
// peer (first frame of either direction). More bytes than any limit are written and flushed; ordinary packets, a PTO
// probe and one MAX_STREAM_DATA update follow. qsSender.observe asserts that no STREAM frame passes the limit the
// PEER attached to this kind of stream (RFC 9000 18.2) or the largest MAX_STREAM_DATA since.
func VerifC20_initwin() {
	side := clientSide
	if vfBool("server") {
		side = serverSide
	}
	cfg := &Config{MaxStreamWriteBufferSize: 8, MaxStreamReadBufferSize: 4}
	c := qsConn(side, cfg)
	c.endpoint = &Endpoint{}
	cid := []byte{0xc1}
	c.connIDState.remote = []remoteConnID{{connID: connID{seq: 0, cid: cid}}}
	// three different limits, in any order
	vals := [][3]int64{{1, 2, 3}, {1, 3, 2}, {2, 1, 3}, {2, 3, 1}, {3, 1, 2}, {3, 2, 1}, {0, 2, 4}, {4, 0, 2}, {2, 4, 0}}
	v := vals[vfChoice("limits", len(vals))]
	p := transportParameters{
		initialMaxData:                 16,
		initialMaxStreamsBidi:          1,
		initialMaxStreamsUni:           1,
		initialMaxStreamDataBidiLocal:  v[0], // bidirectional streams opened by the sender of the parameters (the peer)
		initialMaxStreamDataBidiRemote: v[1], // bidirectional streams opened by the receiver of the parameters (us)
		initialMaxStreamDataUni:        v[2], // unidirectional streams opened by us
		ackDelayExponent:               defaultParamAckDelayExponent,
		initialSrcConnID:               cid,
	}
	err := c.receiveTransportParameters(p)
	vfAssert(err == nil, "consistent transport parameters are accepted")
	ctx := qsCancelled()
	var s *Stream
	var limit int64
	peerID := newStreamID(side.peer(), bidiStream, 0)
	kind := vfChoice("stream", 4)
	switch kind {
	case 0, 1: // opened by us through the public API; the loop goroutine runs the registration posted by newLocalStream
		vfGo(func() {
			for {
				if f, ok := (<-c.msgc).(func(time.Time, *Conn)); ok {
					f(time.Time{}, c)
					return
				}
			}
		})
		var err error
		if kind == 0 {
			s, err = c.NewStream(context.Background())
			limit = v[1]
		} else {
			s, err = c.NewSendOnlyStream(context.Background())
			limit = v[2]
		}
		vfAssert(err == nil && s != nil, "a stream within the peer's MAX_STREAMS is opened")
		vfAssert(c.streams.streams[s.id].s == s, "the new stream is registered with the conn")
		vfReach("opened-locally")
	case 2: // opened by the peer: its first frame is a STREAM/RESET_STREAM/STREAM_DATA_BLOCKED frame ...
		s = c.streamForFrame(time.Time{}, peerID, recvStream)
		limit = v[0]
		vfReach("opened-by-peer")
	case 3: // ... or a MAX_STREAM_DATA/STOP_SENDING frame
		s = c.streamForFrame(time.Time{}, peerID, sendStream)
		limit = v[0]
		vfReach("opened-by-peer")
	}
	vfAssert(s != nil, "the stream exists")
	s.SetWriteContext(ctx)
	s.SetReadContext(ctx)
	w := &qsSender{c: c, connMax: 16, maxLen: 2}
	w.gs = []*qsSendGhost{{s: s, limit: limit}}
	w.msd = []int64{1, 3, 5}
	w.avails = []int{20}
	n := 5 // more than any initial limit
	vfAssert(w.do(qsAlt{qsOpWrite, 0, n}) == qsOpWrite && len(w.gs[0].data) == n, "the write buffer takes the bytes")
	w.do(qsAlt{qsOpFlush, 0, 0})
	w.do(qsAlt{qsOpEmit, 0, 0})
	vfObserve("sent-under-initial-limit", uint64(w.gs[0].maxSent))
	if w.gs[0].maxSent == limit && limit > 0 {
		vfReach("initial-window-used-up")
	}
	w.do(qsAlt{qsOpMaxStreamData, 0, vfChoice("msd", len(w.msd))}) // stale, equal or larger than the initial limit
	if vfBool("probe") {
		w.do(qsAlt{qsOpEmitPTO, 0, 0})
	}
	w.do(qsAlt{qsOpEmit, 0, 0})
	vfObserve("sent", uint64(w.gs[0].maxSent))
	if w.gs[0].maxSent > limit {
		vfReach("window-grown")
	}
	vfReach("end")
}

// ---------------------------------------------------------------------------------------------------------------
// receiving endpoint (shared with C32 and C19)

// qsErrCode classifies an error returned by handleData/handleReset: 0 = nil, otherwise the transport error code
// (-1 for an error that is not a localTransportError).
func qsErrCode(err error) int {
	if err == nil {
		return 0
	}
	if e, ok := err.(localTransportError); ok {
		return int(e.code)
	}
	return -1
}

// qsReceiver is a receiving endpoint with one peer-initiated bidirectional stream (created by the real
// Conn.streamForFrame), its emitter, and the peer's view of the limits and of what it has sent.
type qsReceiver struct {
	c         *Conn
	em        qsEmitter
	s         *Stream
	advStream int64 // largest MAX_STREAM_DATA advertised so far (initial window included)
	advConn   int64 // largest MAX_DATA advertised so far (initial limit included)
	lastMSD   int64 // most recent MAX_STREAM_DATA frame value (0 = none yet)
	lastMD    int64
	hi        int64 // highest offset of stream data the peer has sent in frames the receiver processed
	final     int64 // final size the receiver has been told in a processed frame; -1 = none
	rclosed   bool  // CloseRead called
	reset     bool  // RESET_STREAM processed
	rcode     uint64
	dead      bool // a connection error was raised: the history ends
	// coverage flags (turned into vfReach markers by the harnesses)
	sawFlow, sawFinal, sawStreamExt, sawConnExt bool
}

func qsNewReceiver(inmaxbuf, connbuf int64) *qsReceiver {
	cfg := &Config{MaxStreamReadBufferSize: inmaxbuf, MaxConnReadBufferSize: connbuf, MaxStreamWriteBufferSize: 4}
	c := qsConn(serverSide, cfg)
	id := newStreamID(clientSide, bidiStream, 0)
	s := c.streamForFrame(time.Time{}, id, recvStream)
	vfAssert(s != nil && s.id == id, "streamForFrame creates the peer's first stream")
	ctx := qsCancelled()
	s.SetReadContext(ctx)
	s.SetWriteContext(ctx)
	r := &qsReceiver{c: c, s: s, advStream: inmaxbuf, advConn: connbuf, final: -1}
	vfAssert(s.inwin == inmaxbuf && c.streams.inflow.sentLimit == connbuf, "initial limits come from the config")
	return r
}

// data delivers a STREAM frame and checks the verdict: flow control (C20) first, then final size (C32).
func (r *qsReceiver) data(off int64, b []byte, fin bool) {
	end := off + int64(len(b))
	err := r.s.handleData(off, b, fin)
	got := qsErrCode(err)
	want := 0
	ignored := r.rclosed || r.reset
	newhi := r.hi
	if end > newhi {
		newhi = end
	}
	switch {
	case end > r.advStream:
		want = int(errFlowControl)
	case r.final != -1 && end > r.final:
		want = int(errFinalSize)
	case fin && r.final != -1 && end != r.final:
		want = int(errFinalSize)
	case fin && end < r.hi:
		want = int(errFinalSize)
	case ignored:
	case r.final == -1 && newhi > r.advConn:
		want = int(errFlowControl)
	}
	switch want {
	case int(errFlowControl):
		vfAssert(got == want, "C20: peer data beyond an advertised limit is a FLOW_CONTROL_ERROR")
		r.sawFlow = true
	case int(errFinalSize):
		vfAssert(got == want, "C32: data contradicting the final size is a FINAL_SIZE_ERROR")
		r.sawFinal = true
	default:
		vfAssert(got == 0, "peer data within the limits and consistent with the final size is accepted")
	}
	if got != 0 {
		r.dead = true
		return
	}
	if !ignored {
		r.hi = newhi
		if fin {
			r.final = end
		}
	}
}

// rst delivers a RESET_STREAM frame.
func (r *qsReceiver) rst(code uint64, finalSize int64) {
	err := r.s.handleReset(code, finalSize)
	got := qsErrCode(err)
	want := 0
	switch {
	case finalSize > r.advStream:
		want = int(errFlowControl)
	case r.final != -1 && finalSize != r.final:
		want = int(errFinalSize)
	case finalSize < r.hi:
		want = int(errFinalSize)
	case r.reset:
	case r.final == -1 && finalSize > r.advConn:
		want = int(errFlowControl)
	}
	switch want {
	case int(errFlowControl):
		vfAssert(got == want, "C20: final size beyond an advertised limit is a FLOW_CONTROL_ERROR")
		r.sawFlow = true
	case int(errFinalSize):
		vfAssert(got == want, "C32: RESET_STREAM contradicting the final size or earlier data is a FINAL_SIZE_ERROR")
		r.sawFinal = true
	default:
		vfAssert(got == 0, "consistent RESET_STREAM is accepted")
	}
	if got != 0 {
		r.dead = true
		return
	}
	if !r.reset {
		r.reset = true
		r.rcode = code
		r.final = finalSize
		if finalSize > r.hi {
			r.hi = finalSize
		}
	}
}

// emit lets the receiving conn fill a packet and checks that advertised limits never decrease.
func (r *qsReceiver) emit(avail int, pto bool) []qsFrame {
	frames := r.em.emit(r.c, avail, pto)
	for _, f := range frames {
		switch f.typ {
		case frameTypeMaxStreamData:
			vfAssert(f.id == r.s.id, "MAX_STREAM_DATA for the known stream")
			vfAssert(f.val >= r.advStream, "C20: advertised MAX_STREAM_DATA never decreases")
			vfAssert(f.val >= r.lastMSD, "C20: MAX_STREAM_DATA frames are non-decreasing")
			r.lastMSD = f.val
			if f.val > r.advStream {
				r.advStream = f.val
				r.sawStreamExt = true
			}
		case frameTypeMaxData:
			vfAssert(f.val >= r.advConn, "C20: advertised MAX_DATA never decreases")
			r.lastMD = f.val
			if f.val > r.advConn {
				r.advConn = f.val
				r.sawConnExt = true
			}
		}
	}
	vfAssert(r.s.inwin == r.advStream, "inwin equals the largest advertised MAX_STREAM_DATA")
	vfAssert(r.c.streams.inflow.sentLimit == r.advConn, "inflow.sentLimit equals the largest advertised MAX_DATA")
	return frames
}

// VerifC20_recv: receiver side. The peer sends STREAM/RESET_STREAM frames at offsets around the limits, the user
// reads and closes, the conn emits MAX_STREAM_DATA/MAX_DATA/STOP_SENDING into packets that are acked or lost.
func VerifC20_recv() {
	k := 4
	maxbuf := 3
	if vfTier() > 0 {
		maxbuf = 4
	}
	inmaxbuf := int64(vfLen("inmaxbuf", 2, maxbuf))
	connbuf := int64(2 + 2*vfChoice("connbuf", 2)) // 2 (below the stream window: the connection limit binds first), 4
	r := qsNewReceiver(inmaxbuf, connbuf)
	type alt struct{ kind, a, b int }
	for step := 0; step < k && !r.dead; step++ {
		var menu []alt
		for _, off := range []int64{0, r.hi, r.hi + 1} {
			if off == r.hi && off == 0 {
				continue
			}
			for n := 1; n <= 2; n++ {
				menu = append(menu, alt{0, int(off), n})
			}
		}
		menu = append(menu, alt{1, int(r.hi), 0}, alt{1, int(r.hi), 1}) // FIN
		menu = append(menu, alt{2, 1, 0}, alt{2, 2, 0})                 // Read
		if vfTier() > 0 {
			menu = append(menu, alt{2, 3, 0}, alt{4, 5, 0})
		}
		menu = append(menu, alt{3, 0, 0})                               // CloseRead
		menu = append(menu, alt{4, 3, 0}, alt{4, 20, 0}, alt{4, 20, 1}) // emit
		menu = append(menu, alt{5, int(r.hi), 0}, alt{5, int(r.hi) + 2, 0})
		for i := range r.em.inflight {
			menu = append(menu, alt{6, i, 0}, alt{6, i, 1})
		}
		m := menu[vfChoice("op", len(menu))]
		switch m.kind {
		case 0, 1:
			b := make([]byte, m.b)
			r.data(int64(m.a), b, m.kind == 1)
		case 2:
			buf := make([]byte, m.a)
			r.s.Read(buf)
		case 3:
			r.s.CloseRead()
			r.rclosed = true
		case 4:
			if len(r.emit(m.a, m.b == 1)) == 0 {
				vfAssume(false)
			}
		case 5:
			r.rst(7, int64(m.a))
		case 6:
			fate := packetAcked
			if m.b == 1 {
				fate = packetLost
			}
			r.em.fate(r.c, m.a, fate)
		}
		qsDrain(r.c)
	}
	if r.sawFlow {
		vfReach("flow-control-error")
	}
	if r.sawStreamExt {
		vfReach("stream-window-extended")
	}
	if r.sawConnExt {
		vfReach("conn-window-extended")
	}
	vfReach("end")
}

// ---------------------------------------------------------------------------------------------------------------
// shape I, full 64-bit width: the arithmetic kernels

// qsRanges builds an arbitrary valid rangeset with n ranges inside [lo, hi).
func qsRanges(n int, lo, hi int64) rangeset[int64] {
	var s rangeset[int64]
	prev := lo
	for i := 0; i < n; i++ {
		a, b := vfI64("start"), vfI64("end")
		vfAssume(a < b && b <= hi)
		if i == 0 {
			vfAssume(prev <= a)
		} else {
			vfAssume(prev < a)
		}
		s = append(s, i64range[int64]{a, b})
		prev = b
	}
	return s
}

func qsMember(s rangeset[int64], w int64) bool {
	in := false
	for i := range s {
		in = vfOr(in, vfAnd(s[i].start <= w, w < s[i].end))
	}
	return in
}

// VerifC20_window: one MAX_STREAM_DATA frame with an arbitrary value in an arbitrary send state.
// The window never decreases, becomes max(old, v), and data scheduled for sending stays below it.
func VerifC20_window() {
	c := qsConn(clientSide, &Config{})
	s := newStream(c, newStreamID(clientSide, bidiStream, 0))
	const lim = int64(1) << 62
	outwin, flushed, oend, ostart, v, wit := vfI64("outwin"), vfI64("outflushed"), vfI64("out.end"), vfI64("out.start"), vfI64("v"), vfI64("w")
	vfAssume(0 <= outwin && outwin < lim && 0 <= ostart && ostart <= flushed && flushed <= oend && oend < lim)
	vfAssume(0 <= v && v < lim)
	s.outmaxbuf = oend - ostart + 1
	s.outwin = outwin
	s.outflushed = flushed
	s.out.start, s.out.end = ostart, oend
	sendable := flushed
	if outwin < sendable { // fork: window-limited or not
		sendable = outwin
		vfReach("blocked-state")
	}
	s.outunsent = qsRanges(vfLen("nunsent", 0, 2), ostart, sendable)
	before := qsMember(s.outunsent, wit)
	s.inUnlock()
	s.outUnlock()
	s.handleMaxStreamData(v)
	qsDrain(c)
	vfAssert(s.outwin >= outwin, "C20: the send window never decreases")
	vfAssert(s.outwin == qsMax64(outwin, v), "the send window is the largest MAX_STREAM_DATA seen")
	after := qsMember(s.outunsent, wit)
	vfAssert(vfImplies(after, wit < s.outwin), "C20: nothing beyond the window is scheduled for sending")
	vfAssert(vfImplies(after, wit < flushed), "only flushed data is scheduled")
	vfAssert(vfImplies(before, after), "scheduled data stays scheduled")
	vfAssert(vfImplies(vfAnd(after, vfNot(before)), wit >= outwin), "newly scheduled data was beyond the old window")
	vfAssert(vfImplies(vfAnd(vfAnd(wit >= outwin, wit < flushed), wit < s.outwin), after), "flushed data that the new window admits is scheduled")
	if v > outwin {
		vfReach("window-raised")
	} else {
		vfReach("stale-frame")
	}
	vfReach("end")
}

func qsMax64(a, b int64) int64 { return vfIteI64(a > b, a, b) }

// VerifC20_bounds: checkStreamBounds for arbitrary 62-bit offsets: FLOW_CONTROL_ERROR iff beyond the advertised
// window; otherwise FINAL_SIZE_ERROR iff the frame contradicts the known final size or earlier data (C32).
func VerifC20_bounds() { qsBoundsStep() }

func qsBoundsStep() {
	c := qsConn(serverSide, &Config{})
	s := newStream(c, newStreamID(clientSide, bidiStream, 0))
	const lim = int64(1) << 62
	inwin, insize, inend, end := vfI64("inwin"), vfI64("insize"), vfI64("in.end"), vfI64("end")
	fin := vfBool("fin")
	vfAssume(0 <= inwin && inwin < lim && 0 <= inend && inend <= inwin && 0 <= end && end < lim)
	vfAssume(insize == -1 || (inend <= insize && insize <= inwin))
	s.inwin, s.insize, s.in.end = inwin, insize, inend
	got := qsErrCode(s.checkStreamBounds(end, fin))
	flow := end > inwin
	known := insize != -1
	size := vfOr(vfAnd(known, end > insize), vfAnd(fin, vfOr(vfAnd(known, end != insize), end < inend)))
	want := vfIteInt(flow, int(errFlowControl), vfIteInt(size, int(errFinalSize), 0))
	vfAssert(got == want, "checkStreamBounds verdict")
	switch got {
	case int(errFlowControl):
		vfReach("flow")
	case int(errFinalSize):
		vfReach("final-size")
	case 0:
		vfReach("ok")
	}
	vfReach("end")
}

// VerifC20_outflow: connection-level send accounting at full width.
func VerifC20_outflow() {
	var f connOutflow
	const lim = int64(1) << 62
	m, u, v, n := vfI64("max"), vfI64("used"), vfI64("v"), vfI64("n")
	vfAssume(0 <= u && u <= m && m < lim && 0 <= v && v < lim)
	f.max, f.used = m, u
	f.setMaxData(v)
	vfAssert(f.max >= m && f.max == qsMax64(m, v), "C20: MAX_DATA only ever raises the limit")
	vfAssert(f.avail() == f.max-u && f.avail() >= 0, "avail is the unused part of the limit")
	vfAssume(0 <= n && n <= f.avail())
	f.consume(n)
	vfAssert(f.used == u+n && f.used <= f.max, "consuming at most avail keeps used within the limit")
	vfReach("end")
}
