package quic

// Overlay-only helper for the http3 harnesses (C33, C35). Never part of /repo.
//
// VerifLoadedStream returns a receive-side *Stream (client-initiated bidirectional stream 0 on a server-side
// Conn that has no loop, no endpoint and no peer) whose input pipe already holds data, delivered through the
// real handleData path (flow-control accounting, pipe.writeAt, rangeset.add). With fin the stream's final size
// is len(data), so reads past the data return io.EOF; without fin such a read would block forever.
// Only the read side carries data (Read, ReadByte, CloseRead); len(data) must stay below the 1<<20 default windows/8 so
// that no MAX_DATA / MAX_STREAM_DATA update is ever scheduled on the (absent) conn loop.
func VerifLoadedStream(data []byte, fin bool) *Stream {
	c := &Conn{side: serverSide, config: &Config{}}
	c.inflowInit()
	s := newStream(c, 0)
	s.inmaxbuf = c.config.maxStreamReadBufferSize()
	s.inwin = s.inmaxbuf
	s.inUnlock()
	s.outUnlock() // the send side stays empty; unlocked so that Reset/CloseWrite (http3 error handling) do not block
	if err := s.handleData(0, data, fin); err != nil {
		panic(err)
	}
	return s
}

// VerifStreamUnread reports how many bytes delivered to s have not been consumed by Read/ReadByte yet.
func VerifStreamUnread(s *Stream) int64 {
	return s.in.end - s.in.start - int64(s.inbufoff)
}
