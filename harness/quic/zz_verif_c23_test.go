package quic

// C23 — QUIC packet numbers decode to the number that was sent.

func init() {
	vfRegister("VerifC23_chosenLength", VerifC23_chosenLength)
	vfRegister("VerifC23_anyLength", VerifC23_anyLength)
}

func c23trunc(b []byte) packetNumber {
	var t packetNumber
	for _, x := range b {
		t = t<<8 | packetNumber(x)
	}
	return t
}

// Sender uses the length chosen by packetNumberLength.
func VerifC23_chosenLength() {
	pn, A, L := packetNumber(vfI64("pn")), packetNumber(vfI64("A")), packetNumber(vfI64("L"))
	vfAssume(A >= -1)
	vfAssume(A < pn)
	vfAssume(pn <= maxPacketNumber)
	vfAssume(pn-A < 1<<31) // what a 4-byte encoding can represent (RFC 9000 §17.1); larger gaps are outside the claim
	n := packetNumberLength(pn, A)
	b := appendPacketNumber(nil, pn, A)
	vfAssert(len(b) == n, "encoded length == packetNumberLength")
	vfAssert(n >= 1 && n <= 4, "length in 1..4")
	win := packetNumber(1) << (8 * uint(n))
	vfAssert(pn-A < win/2, "pn - A below half the window")
	vfObserve("n", uint64(n))
	trunc := c23trunc(b)
	vfAssume(L >= -1)
	vfAssume(L <= maxPacketNumber)
	// receiver state: A <= L < pn, or L within half the window of pn
	c1 := vfAnd(A <= L, L < pn)
	c2 := vfAnd(L+1-win/2 < pn, pn <= L+1+win/2)
	vfAssume(vfOr(c1, c2))
	got := decodePacketNumber(L, trunc, n)
	vfAssert(got == pn, "decodes to pn")
	vfObserve("got", uint64(got))
	vfReach("end")
}

// Sender that chooses any (possibly longer) length 1..4 under the same half-window condition.
func VerifC23_anyLength() {
	pn, L := packetNumber(vfI64("pn")), packetNumber(vfI64("L"))
	n := vfLen("n", 1, 4)
	vfAssume(pn >= 0)
	vfAssume(pn <= maxPacketNumber)
	vfAssume(L >= -1)
	vfAssume(L <= maxPacketNumber)
	win := packetNumber(1) << (8 * uint(n))
	vfAssume(vfAnd(L+1-win/2 < pn, pn <= L+1+win/2))
	trunc := pn & (win - 1)
	got := decodePacketNumber(L, trunc, n)
	vfAssert(got == pn, "decodes to pn")
	vfReach("end")
}
