package quic

// C29 (continued) — long sequential queue histories and the initial state of internal/gate.Gate.
//
// VerifC29_queueLong, shape B: ONE goroutine drives a queue[int] from the real newQueue() through alternating bursts
// of put and get with a backlog that stays pending across several growth steps of the internal buffer (up to 500
// items, i.e. every capacity the runtime/engine give a slice grown by one-element appends up to 512, where the engine's
// growth model and the runtime agree). Reference model: the items are base+0, base+1, ... (base symbolic), so the
// FIFO/exactly-once oracle is two counters. After EVERY burst the gate condition must equal "backlog non-empty"
// (no lost wake-up: a getter is only woken through the condition) and a get with an already-cancelled context
// must return the oldest pending item iff one is pending.
//
// VerifC29_internalGateInit: the exported twin internal/gate.Gate from its real constructor New(set) with BOTH initial
// conditions, then any mix of Lock / LockIfSet / WaitAndLock under the symbolic scheduler (the shape of
// VerifC29_gateExclusion): the constructor's argument is the "condition recorded by the last unlock" of the ghost.

import (
	"context"

	igate "golang.org/x/net/internal/gate"
)

func init() {
	vfRegister("VerifC29_queueLong", VerifC29_queueLong)
	vfRegister("VerifC29_internalGateInit", VerifC29_internalGateInit)
	vfRegister("VerifC29_internalGateInitSeq", VerifC29_internalGateInitSeq)
}

func c29burst(label string, menu []int) int {
	return menu[vfChoice(label, len(menu))]
}

func VerifC29_queueLong() {
	vfNoDeadlock()
	q := newQueue[int]()
	dead, cancel := context.WithCancel(context.Background())
	cancel()
	base := int(vfU32("base"))
	nextPut, nextGet := 0, 0
	maxBacklog, consumedUndrained, maxConsumedUndrained := 0, 0, 0

	check := func() {
		// the condition is exactly "an item is pending" (the queue is open throughout)
		set := q.gate.lock()
		q.unlock()
		vfAssert(set == (nextPut > nextGet), "gate condition == backlog non-empty")
	}
	put := func(n int) {
		for i := 0; i < n; i++ {
			vfAssert(q.put(base+nextPut), "put on an open queue is accepted")
			nextPut++
			if nextPut-nextGet > maxBacklog {
				maxBacklog = nextPut - nextGet
			}
		}
		check()
	}
	get := func(n int) {
		for i := 0; i < n; i++ {
			v, err := q.get(dead)
			if nextGet == nextPut {
				vfAssert(err != nil, "get on an empty open queue delivers nothing")
				vfReach("get-on-empty")
				break
			}
			vfAssert(err == nil, "get returns at once while an item is pending")
			vfAssert(v == base+nextGet, "items are delivered exactly once, in FIFO order")
			nextGet++
			if nextGet == nextPut {
				consumedUndrained = 0
			} else {
				consumedUndrained++
				if consumedUndrained > maxConsumedUndrained {
					maxConsumedUndrained = consumedUndrained
				}
			}
		}
		check()
	}

	// burst sizes: small values and values around the buffer growth steps 4,8,...,256 (sum of the put bursts <= 512)
	putMenu := []int{0, 1, 3, 130, 250}
	getMenu := []int{0, 1, 2, 129, 200, 600}
	rounds := 2
	if vfTier() > 0 {
		putMenu = []int{0, 1, 5, 33, 130, 170}
		getMenu = []int{0, 1, 4, 32, 129, 131, 600}
		rounds = 3
	}
	for r := 0; r < rounds; r++ {
		put(c29burst("put", putMenu))
		get(c29burst("get", getMenu))
	}
	// steady flow on top of whatever backlog is left: one in, one out (quick 40, thorough 140 times)
	flow := 40
	if vfTier() > 0 {
		flow = 140
	}
	if nextPut+flow <= 512 {
		for i := 0; i < flow; i++ {
			put(1)
			get(1)
		}
	}
	// drain completely, then the queue is empty
	get(nextPut - nextGet)
	vfAssert(nextGet == nextPut, "drained")
	_, err := q.get(dead)
	vfAssert(err != nil, "nothing is delivered twice: the drained queue is empty")
	if maxBacklog >= 129 && maxConsumedUndrained >= 129 {
		vfReach("long-backlog")
	}
	if maxBacklog > 256 {
		vfReach("backlog>256")
	}
	vfObserve("put", uint64(nextPut))
	vfObserve("maxBacklog", uint64(maxBacklog))
	vfReach("end")
}

// internal/gate.New(set): the gate starts unlocked with the condition `set`.
func VerifC29_internalGateInit() {
	vfNoDeadlock()
	set0 := vfChoice("set0", 2) == 1
	g := igate.New(set0)
	gh := &c29ghost{cond: set0}
	ctx, cancel := context.WithCancel(context.Background())
	nthreads := 2
	done := make(chan int, nthreads+1)
	waiters := 0
	for t := 1; t <= nthreads; t++ {
		id := t
		op := 0
		if id == 2 && vfTier() == 0 {
			op = 2 * vfChoice("op", 2) // quick: the second goroutine uses Lock or WaitAndLock
		} else {
			op = vfChoice("op", 3)
		}
		if op == 2 {
			waiters++
		}
		set := id%2 == 1 // the first goroutine unlocks with the condition set, the second unset
		vfGo(func() {
			got := false
			switch op {
			case 0:
				s := g.Lock()
				got = true
				gh.acquired(id)
				vfAssert(s == gh.cond, "Lock reports the condition recorded by the last Unlock (or by New)")
			case 1:
				if g.LockIfSet() {
					got = true
					gh.acquired(id)
					vfAssert(gh.cond, "LockIfSet acquires only when the condition is set")
				}
			case 2:
				if err := g.WaitAndLock(ctx); err == nil {
					got = true
					gh.acquired(id)
					vfAssert(gh.cond, "WaitAndLock returns nil only once the condition is set")
				} else {
					vfAssert(ctx.Err() != nil, "WaitAndLock fails only if the context is done")
				}
			}
			if got {
				vfYield()
				gh.release(set)
				g.Unlock(set)
			}
			done <- 1
		})
	}
	if waiters > 0 { // the context is cancelled at an arbitrary point, so every waiter terminates
		vfGo(func() {
			cancel()
			done <- 1
		})
	} else {
		done <- 1
	}
	for i := 0; i < nthreads+1; i++ {
		<-done
	}
	cancel()
	s := g.Lock()
	vfAssert(s == gh.cond, "final state: condition as recorded")
	if gh.acq == nthreads {
		vfReach("all-acquired")
	}
	vfReach("end")
}

// Sequential: right after New(set), without any other goroutine: LockIfSet succeeds iff set, WaitAndLock with a live
// context returns iff set (a gate created set needs no further wake-up), Lock reports set.
func VerifC29_internalGateInitSeq() {
	set0 := vfChoice("set0", 2) == 1
	g := igate.New(set0)
	switch vfChoice("op", 3) {
	case 0:
		vfAssert(g.Lock() == set0, "Lock on a new gate reports the initial condition")
	case 1:
		vfAssert(g.LockIfSet() == set0, "LockIfSet on a new gate succeeds iff it was created set")
	case 2:
		// (the context is cancelled afterwards only so that the native goroutine does not outlive the replay:
		// the quic package's TestMain waits for leaked goroutines)
		ctx, cancel := context.WithCancel(context.Background())
		defer cancel() // also when an assertion below fails in the native replay
		var werr error
		blocked := vfBlocks(func() { werr = g.WaitAndLock(ctx) })
		vfAssert(blocked == !set0, "WaitAndLock with a live context on a new gate returns at once iff it was created set")
		if blocked {
			cancel()
			vfReach("waits-when-unset")
			vfReach("end")
			return
		}
		vfAssert(werr == nil, "WaitAndLock with a live context returns nil")
		cancel()
	}
	// held now (or not acquired): an Unlock/Lock round trip keeps the recorded condition
	vfReach("end")
}
