package quic

// C25, wire level: "An ACK frame sent by a QUIC endpoint never acknowledges a packet number it did not receive" is
// asserted on the bytes the real packetWriter.appendAckFrame writes, decoded by the real consumeAckFrame, for
// rangesets of 1..4 ranges and EVERY amount of remaining packet space (so every way of dropping older ranges for
// lack of room is explored). VerifC25_acks_step shows that the set handed to appendAckFrame is exactly `seen`.
//
// Shape: exhaustive over one call. The remaining packet space is symbolic (every value 0..48). The ranges are
// enumerated over a grid: every gap field and every length field of the older ranges independently takes each of
// the boundary values of the varint length classes (quick {0, 63, 64}: one and two bytes; thorough also 16383 and
// 16384: four bytes), the newest range and the position of the whole set cover the 1-, 2-, 4- (thorough 8-) byte
// classes of "largest acknowledged" and "first range". Which older ranges fit depends only on these length
// classes; the arithmetic of the fields for arbitrary 62-bit values is the subject of VerifC28_ack_write and
// VerifC28_ack_parse (a fully symbolic decode(encode(set)) costs seconds per solver query: tried again here, 83
// paths in 200 s).
//
// Oracle (from the statement): every range [start,end) reported by the parser is non-empty and lies inside ONE range
// of the set that was handed to the writer (no acknowledged number outside the received set); the frame is parsed
// completely, stays within the packet space and always acknowledges the newest received packet.
//
// Sensitivity (sh mut.sh):
//   packet_writer.go appendAckFrame: `break` -> `continue` when an older range does not fit      caught, quick tier
//   packet_writer.go appendAckFrame: gap `seen[i+1].start - seen[i].end - 1` -> `... - seen[i].end`  caught

func init() {
	vfRegister("VerifC25_ack_wire", VerifC25_ack_wire)
}

func c25pick(label string, vals []packetNumber) packetNumber { return vals[vfChoice(label, len(vals))] }

// c25wireSet enumerates the grid of sets described above, oldest range first.
func c25wireSet(nr int) rangeset[packetNumber] {
	older := []packetNumber{0, 63, 64}
	lowest := []packetNumber{0, 1 << 14}
	firsts := []packetNumber{0, 64}
	if vfTier() > 0 {
		older = []packetNumber{0, 63, 64, 16383, 16384}
		if nr == 4 {
			older = []packetNumber{0, 63, 64, 16384}
		}
		lowest = []packetNumber{0, 1 << 14, 1 << 30, 1 << 61}
		firsts = []packetNumber{0, 64, 1 << 30}
	}
	seen := make(rangeset[packetNumber], nr)
	start := c25pick("lowest", lowest)
	for i := 0; i < nr; i++ {
		if i == nr-1 {
			seen[i] = i64range[packetNumber]{start, start + c25pick("first", firsts) + 1}
			break
		}
		seen[i] = i64range[packetNumber]{start, start + c25pick("len", older) + 1}
		start = seen[i].end + c25pick("gap", older) + 1
	}
	return seen
}

func VerifC25_ack_wire() {
	nr := vfLen("ranges", 1, 4)
	seen := c25wireSet(nr)
	c25seenInv(seen, "input set")

	var w packetWriter
	w.reset(1200)
	w.start1RTTPacket(0, -1, nil)
	space := vfRange("space", 0, 48) // remaining payload space of the packet: every value
	w.pktLim = w.payOff + space

	// header/trailer sizes: plain ACK with a one-byte delay, ACK_ECN (three more fields after the ranges) with a
	// two-byte delay
	var delay unscaledAckDelay
	var ecn ecnCounts
	switch vfChoice("shape", 2) {
	case 0:
		delay = 10
	case 1:
		delay, ecn = 100, ecnCounts{t0: 1, t1: 70, ce: 3}
	}

	added := w.appendAckFrame(seen, delay, ecn)
	payload := w.payload()
	if !added {
		vfAssert(len(payload) == 0, "no ACK frame: nothing written")
		vfReach("wire-no-room")
		vfReach("end")
		return
	}
	vfAssert(len(payload) > 0 && len(payload) <= space, "ACK frame within the remaining packet space")
	nranges := 0
	newest := false
	largest, _, _, n := consumeAckFrame(payload, func(idx int, start, end packetNumber) {
		vfAssert(idx == nranges, "range index counts up")
		nranges++
		vfAssert(start < end, "acknowledged range is not empty")
		inside := false
		for _, r := range seen {
			inside = vfOr(inside, vfAnd(r.start <= start, end <= r.end))
		}
		vfAssert(inside, "ACK frame acknowledges only packet numbers that were received")
		if idx == 0 {
			newest = vfAnd(start <= seen.max(), seen.max() < end)
		}
	})
	vfAssert(n == len(payload), "the ACK frame written parses completely")
	vfAssert(nranges >= 1 && nranges <= nr, "no more ranges than received")
	vfAssert(newest, "the newest received packet is acknowledged")
	vfAssert(largest == seen.max(), "largest acknowledged is the newest received packet")
	if nranges < nr {
		vfReach("wire-ranges-dropped")
	}
	if nranges == 4 {
		vfReach("wire-four-ranges")
	}
	vfObserve("ack.ranges", uint64(nranges))
	vfObserveBytes("ack.frame", payload)
	vfReach("end")
}
