package quic

import (
	"time"
)

// C25 — ACKs only for received packets, no double processing; ACKs for never-sent or skipped numbers are a
// PROTOCOL_VIOLATION.
//
// Receiver side (acks.go), shape I with an arbitrary witness packet number p and ghost bit recv_p ("p has been
// handed to receive()"):  Inv_p :=  seen.contains(p) => recv_p   and   recv_p => !shouldProcess(p).
//   VerifC25_shouldProcess shouldProcess(p) == (p >= seen.min() && !seen.contains(p)) for every p and arbitrary seen
//   VerifC25_acks_step     one receive / handleAck / acksToSend from an arbitrary ackState (the rangeset handed to
//                          appendAckFrame is exactly `seen`; wire-level agreement of appendAckFrame/consumeAckFrame is C28:
//                          a decode(encode(seen)) harness was tried here and is too hard for the solvers)
//   VerifC25_acks_history  (B) arrivals and ACK-of-ACKs from the zero ackState, Inv_p along the history
//   VerifC25_ack_wire      (zz_verif_c25c_test.go) the frame appendAckFrame actually writes, for 1..4 ranges and every amount of
//                          remaining packet space, decoded by consumeAckFrame, acknowledges only members of the set
// Sender side (loss.go, sent_packet_list.go):
//   VerifC25_ackrange_step (I) one receiveAckRange on a hand-built sent-packet list incl. Unsent placeholders
//   VerifC25_loss_history  (B) packetSent / skipNumber / ACK frames (<= 2 ranges) from init()
//
// Sensitivity (sh mut.sh, quick tier, all caught):
//   quic/acks.go 'rangeContaining(largestAcked).start)' -> '.end)'            VerifC25_acks_step "Inv_p: a received packet is never processed again"
//   quic/loss.go 'if sent.state == sentPacketUnsent {' -> '== sentPacketLost {' VerifC25_ackrange_step "range covering a skipped number still in the list"
//   quic/loss.go 'end > e {' -> 'end > e+1 {'                                  VerifC25_loss_history: nil dereference in receiveAckRange (never-sent number accepted)
//
// Finding on the unchanged tree (known finding C25-skipped-number-cleaned, asserted with vfAssertKF in
// VerifC25_loss_history): send 0, skip 1, ACK{0}, ACK{0-1} is accepted without PROTOCOL_VIOLATION because
// sentPacketList.clean() drops the Unsent placeholder of the skipped number together with the acknowledged packet
// before it; replay repro/C25/skipped_number_cleaned.json, public-API reproduction repro/C25/skipped_ack_after_clean_test.go.

func init() {
	vfRegister("VerifC25_shouldProcess", VerifC25_shouldProcess)
	vfRegister("VerifC25_acks_step", VerifC25_acks_step)
	vfRegister("VerifC25_acks_history", VerifC25_acks_history)
}

const c25maxPnum = packetNumber(1) << 62 // packet numbers are < 2^62

// c25lim is the bound on packet numbers in the receiver-side harnesses: full range in the thorough tier,
// < 2^16 in the quick tier (the code only compares and increments packet numbers; the smaller domain keeps
// the solver queries over 8 ranges cheap).
func c25lim() packetNumber {
	if vfTier() > 0 {
		return c25maxPnum
	}
	return 1 << 16
}

// c25now returns concrete, strictly increasing instants: time is irrelevant to C25 (stated in the check json).
func c25now(i int) time.Time { return time.Unix(0, 1<<40+int64(i)*int64(time.Millisecond)) }

// c25seen builds an arbitrary `seen` set of exactly n ranges satisfying the rangeset invariant (C24) within [0,2^62).
func c25seen(n int) rangeset[packetNumber] {
	var s rangeset[packetNumber]
	prev := packetNumber(-2)
	for i := 0; i < n; i++ {
		a, b := packetNumber(vfI64("start")), packetNumber(vfI64("end"))
		vfAssume(vfAnd(prev < a, a < b))
		vfAssume(vfAnd(a >= 0, b <= c25lim()))
		s = append(s, i64range[packetNumber]{a, b})
		prev = b
	}
	return s
}

func c25seenInv(s rangeset[packetNumber], label string) {
	vfAssert(len(s) <= 8, label+": at most maxAckRanges ranges")
	for i := range s {
		vfAssert(s[i].start < s[i].end, label+": ranges non-empty")
		if i > 0 {
			vfAssert(s[i-1].end < s[i].start, label+": sorted, disjoint, non-adjacent")
		} else {
			vfAssert(s[i].start >= 0, label+": no negative packet numbers")
		}
	}
}

// c25member is the reference membership (no early exit, fork-free).
func c25member(s rangeset[packetNumber], w packetNumber) bool {
	in := false
	for i := range s {
		in = vfOr(in, vfAnd(s[i].start <= w, w < s[i].end))
	}
	return in
}

// c25wouldProcess is the reference of shouldProcess: not below the minimum, not a member.
func c25wouldProcess(s rangeset[packetNumber], w packetNumber) bool {
	if len(s) == 0 {
		return w >= 0
	}
	return vfAnd(w >= s[0].start, vfNot(c25member(s, w)))
}

func c25nranges(label string) int {
	// quick: the empty state, small states and the full state (8 ranges: the next new range triggers pruning);
	// thorough: every count 0..8
	if vfTier() > 0 {
		return vfLen(label, 0, 8)
	}
	switch vfChoice(label, 4) {
	case 0:
		return 0
	case 1:
		return 1
	case 2:
		return 2
	}
	return 8
}

// c25arrival picks the ack-scheduling inputs of receive() (irrelevant to `seen`, kept to a few combinations).
func c25arrival() (space numberSpace, ackEliciting bool, ecn ecnBits) {
	n := 2
	if vfTier() > 0 {
		n = 4
	}
	switch vfChoice("arrival", n) {
	case 0:
		return initialSpace, true, ecnNotECT
	case 1:
		return appDataSpace, false, ecnECT0
	case 2:
		return appDataSpace, true, ecnCE
	}
	return handshakeSpace, false, ecnECT1
}

// shouldProcess is exactly "not below the minimum and not a member" (so the other harnesses may use the
// fork-free reference c25wouldProcess in their invariants).
func VerifC25_shouldProcess() {
	seen := c25seen(c25nranges("nranges"))
	acks := &ackState{seen: seen}
	p := packetNumber(vfI64("witness"))
	vfAssume(vfAnd(p >= 0, p < c25lim()))
	got := acks.shouldProcess(p)
	vfAssert(got == c25wouldProcess(seen, p), "shouldProcess agrees with its set definition")
	vfAssert(seen.contains(p) == c25member(seen, p), "contains agrees with the scan")
	vfObserveBool("shouldProcess", got)
	vfReach("end")
}

func VerifC25_acks_step() {
	acks := &ackState{seen: c25seen(c25nranges("nranges"))}
	acks.maxAckEliciting = packetNumber(vfRange("maxAckEliciting", 0, 1<<40))
	acks.unackedAckEliciting = vfRange("unacked", 0, 20)
	if vfBool("ackPending") {
		acks.nextAck = c25now(1)
	}
	acks.maxRecvTime = c25now(0)
	now := c25now(2)

	p := packetNumber(vfI64("witness"))
	vfAssume(vfAnd(p >= 0, p < c25lim()))
	recvP := vfBool("recv_p")
	vfAssume(vfImplies(c25member(acks.seen, p), recvP))               // Inv_p (1)
	vfAssume(vfImplies(recvP, vfNot(c25wouldProcess(acks.seen, p)))) // Inv_p (2)
	pre := len(acks.seen)

	switch vfChoice("op", 3) {
	case 0: // a packet with number num arrives and passes the duplicate filter (shouldProcess(num), see VerifC25_shouldProcess)
		num := packetNumber(vfI64("num"))
		vfAssume(vfAnd(num >= 0, num < c25lim()))
		vfAssume(c25wouldProcess(acks.seen, num))
		vfAssert(vfImplies(num == p, vfNot(recvP)), "a packet already received is never processed again")
		space, ackEliciting, ecn := c25arrival()
		acks.receive(now, space, num, ackEliciting, ecn)
		recvP = vfOr(recvP, num == p)
		vfAssert(c25member(acks.seen, num), "received packet is in the set to acknowledge")
		vfAssert(vfNot(c25wouldProcess(acks.seen, num)), "received packet is never processed again")
		if pre == 8 {
			vfReach("receive-at-max-ranges")
		}
		vfReach("receive")
	case 1: // one of our ACK frames (largest acknowledged = largest) was acknowledged by the peer
		largest := packetNumber(vfI64("largest"))
		vfAssume(vfAnd(largest >= 0, largest < c25lim()))
		acks.handleAck(largest)
		vfAssert(len(acks.seen) <= pre, "handleAck only discards")
		vfReach("handleAck")
	case 2: // build an ACK frame
		nums, _ := acks.acksToSend(now)
		if nums != nil {
			vfAssert(len(nums) == len(acks.seen), "acksToSend returns seen")
			for i := range nums {
				vfAssert(nums[i] == acks.seen[i], "acksToSend returns seen")
			}
			vfReach("acksToSend")
		}
		vfAssert(vfImplies(c25member(nums, p), recvP), "every number offered for acknowledgement was received")
	}
	c25seenInv(acks.seen, "seen")
	vfAssert(vfImplies(c25member(acks.seen, p), recvP), "Inv_p: only received packets are acknowledged")
	vfAssert(vfImplies(recvP, vfNot(c25wouldProcess(acks.seen, p))), "Inv_p: a received packet is never processed again")
	vfObserve("nranges", uint64(len(acks.seen)))
	vfReach("end")
}

// (B) real histories from the zero ackState.
func VerifC25_acks_history() {
	acks := &ackState{}
	p := packetNumber(vfI64("witness"))
	vfAssume(vfAnd(p >= 0, p < c25lim()))
	recvP := false
	var sentLargest []packetNumber // largest-acknowledged values of the ACK frames we "sent"
	k := 4
	if vfTier() > 0 {
		k = 5
	}
	for i := 0; i < k; i++ {
		now := c25now(i)
		switch vfChoice("event", 3) {
		case 0: // packet arrival (any number, duplicates included)
			num := packetNumber(vfI64("num"))
			vfAssume(vfAnd(num >= 0, num < c25lim()))
			if acks.shouldProcess(num) {
				vfAssert(vfImplies(num == p, vfNot(recvP)), "history: no packet is processed twice")
				acks.receive(now, initialSpace, num, true, ecnNotECT)
				recvP = vfOr(recvP, num == p)
			} else {
				vfReach("history-dropped")
			}
		case 1: // we send an ACK frame
			nums, _ := acks.acksToSend(now)
			vfAssert(vfImplies(c25member(nums, p), recvP), "history: ACK frames cover received packets only")
			if len(nums) == 0 {
				vfReach("end")
				return // nothing to send: same state as before, prune
			}
			sentLargest = append(sentLargest, nums.max())
			acks.sentAck()
			vfReach("history-ack-sent")
		case 2: // the peer acknowledges one of our earlier ACK frames
			if len(sentLargest) == 0 {
				vfReach("end")
				return
			}
			acks.handleAck(sentLargest[vfChoice("which", len(sentLargest))])
			vfReach("history-ack-of-ack")
		}
		c25seenInv(acks.seen, "history seen")
		vfAssert(vfImplies(c25member(acks.seen, p), recvP), "history Inv_p (1)")
		vfAssert(vfImplies(recvP, vfNot(c25wouldProcess(acks.seen, p))), "history Inv_p (2)")
	}
	vfObserve("nranges", uint64(len(acks.seen)))
	vfReach("end")
}
