package quic

import (
	"golang.org/x/net/internal/quic/quicwire"
)

// C28 — QUIC frame, packet and transport-parameter codecs round-trip safely.
//
// Part (a) in this file: every packetWriter.append*Frame followed by the matching consume*Frame.
// Parts (b) arbitrary bytes, (c) transport parameters, (d) packet protection with ideal-crypto stubs are in
// zz_verif_c28b_test.go / zz_verif_c28c_test.go / zz_verif_c28d_test.go; (e) protected-packet parsers on arbitrary bytes
// and (f) full packets under large datagram limits are in zz_verif_c28e_test.go / zz_verif_c28f_test.go.
//
// Shape I per codec (pure functions of their arguments and of the writer's remaining capacity).
//
// Findings on the unchanged tree (kept as vfAssertKF, see known_findings.txt and repro/C28/frame_limits_test.go):
//   C28-streams-blocked-limit      consumeStreamsBlockedFrame accepts Maximum Streams > 2^60
//   C28-ncid-length-varint         consumeNewConnectionIDFrame reads the 8-bit Length as a varint (0x40 0x01 = "1")
//   C28-keyupdate-sentinel-maxpnum updatingKeyPair.unprotect: packet number 2^62-1 collides with the minReceived sentinel
//
// Sensitivity (sh mut.sh <file> '<old>' '<new>' C28 --harness <h>):
//   packet_writer.go appendStreamFrame  `typ |= streamOffBit` -> `typ |= streamLenBit`            CAUGHT (VerifC28_dataframes: STREAM round trip)
//   packet_parser.go consumeMaxStreamsFrame `if v > maxStreamsLimit` -> `>=`                       CAUGHT (VerifC28_frames: MAX_STREAMS round trip)
//   transport_params.go `if v > 20 {` -> `if v >= 20 {`                                            CAUGHT (VerifC28_tp_roundtrip: valid parameters are accepted)
//   transport_params.go `p.maxUDPPayloadSize < 1200` -> `< 1199`                                   CAUGHT (VerifC28_tp_bytes: accepted max_udp_payload_size >= 1200)
//   packet_writer.go appendAckFrame gap `... - 1)` -> `...)`                                        CAUGHT (VerifC28_ack_write: wire image)
//   packet_parser.go consumeAckFrame `- packetNumber(gap) - 2` -> `- 1`                             CAUGHT (VerifC28_ack_parse)
//   packet_protection.go headerKey.protect long-header mask 0x0f -> 0x1f                           CAUGHT (VerifC28_protect_long)
//   packet_writer.go startProtectedLongHeaderPacket: space check removed                           survives (the 1200-byte limit is never tight in these harnesses; packet size accounting is C27)
//   packet_writer.go startProtectedLongHeaderPacket: Length cap from payOff instead of pnumOff (seed C28-A)    CAUGHT (VerifC28_protect_long_full, zz_verif_c28f_test.go)
//   packet_protection.go headerKey.unprotect: guard `pnumOff+4+sample` -> `pnumOff+sample` (seed C28-B)       CAUGHT (VerifC28_parse_protected_short/_long, zz_verif_c28e_test.go)

func init() {
	vfRegister("VerifC28_frames", VerifC28_frames)
	vfRegister("VerifC28_dataframes", VerifC28_dataframes)
	vfRegister("VerifC28_ack_write", VerifC28_ack_write)
	vfRegister("VerifC28_ack_parse", VerifC28_ack_parse)
}

const c28max = quicwire.MaxVarint // 2^62-1

// c28writer starts a real 1-RTT packet in a real packetWriter and then lowers the packet limit so that a symbolic
// number of bytes (0..maxAvail) remains — what a smaller datagram limit would produce.
func c28writer(maxAvail int) (*packetWriter, int) {
	w := &packetWriter{}
	w.reset(1200)
	w.start1RTTPacket(0, -1, nil)
	vfAssert(w.payOff == 2 && len(w.b) == 2 && w.pktLim == 1200-aeadOverhead, "start1RTTPacket layout")
	a := vfRange("avail", 0, maxAvail)
	w.pktLim = len(w.b) + a
	return w, a
}

func c28u62(label string) uint64 {
	v := vfU64(label)
	vfAssume(v <= c28max)
	return v
}

func c28i62(label string) int64 {
	v := vfI64(label)
	vfAssume(v >= 0 && v <= c28max)
	return v
}

// c28frame returns the frame just appended (with one arbitrary trailing byte, which parsers must ignore)
// after checking the writer-side obligations; ok=false if nothing was added.
func c28frame(w *packetWriter, before int, added bool) (frame []byte, size int, ok bool) {
	if !added {
		vfAssert(len(w.b) == before, "not added => buffer unchanged")
		vfReach("frame did not fit")
		return nil, 0, false
	}
	vfAssert(len(w.b) > before, "added => bytes appended")
	vfAssert(len(w.b) <= w.pktLim, "writer never exceeds the packet limit")
	size = len(w.b) - before
	frame = append(append([]byte(nil), w.b[before:]...), vfU8("trailing"))
	vfReach("frame added")
	return frame, size, true
}

func c28eqBytes(a, b []byte) bool {
	if len(a) != len(b) {
		return false
	}
	ok := true
	for i := range a {
		ok = vfAnd(ok, a[i] == b[i])
	}
	return ok
}

// Frames made only of integers / fixed-size fields.
func VerifC28_frames() {
	w, _ := c28writer(30)
	before := len(w.b)
	switch vfChoice("frame", 14) {
	case 0:
		f, n, ok := c28frame(w, before, w.appendPingFrame())
		if ok {
			vfAssert(n == 1 && f[0] == frameTypePing, "PING")
		}
	case 1:
		id, code, fs := streamID(c28u62("id")), c28u62("code"), c28i62("finalSize")
		f, n, ok := c28frame(w, before, w.appendResetStreamFrame(id, code, fs))
		if ok {
			vfAssert(f[0] == frameTypeResetStream, "RESET_STREAM type")
			id2, code2, fs2, n2 := consumeResetStreamFrame(f)
			vfAssert(n2 == n && id2 == id && code2 == code && fs2 == fs, "RESET_STREAM round trip")
		}
	case 2:
		id, code := streamID(c28u62("id")), c28u62("code")
		f, n, ok := c28frame(w, before, w.appendStopSendingFrame(id, code))
		if ok {
			vfAssert(f[0] == frameTypeStopSending, "STOP_SENDING type")
			id2, code2, n2 := consumeStopSendingFrame(f)
			vfAssert(n2 == n && id2 == id && code2 == code, "STOP_SENDING round trip")
		}
	case 3:
		max := c28i62("max")
		f, n, ok := c28frame(w, before, w.appendMaxDataFrame(max))
		if ok {
			vfAssert(f[0] == frameTypeMaxData, "MAX_DATA type")
			max2, n2 := consumeMaxDataFrame(f)
			vfAssert(n2 == n && max2 == max, "MAX_DATA round trip")
		}
	case 4:
		id, max := streamID(c28u62("id")), c28i62("max")
		f, n, ok := c28frame(w, before, w.appendMaxStreamDataFrame(id, max))
		if ok {
			vfAssert(f[0] == frameTypeMaxStreamData, "MAX_STREAM_DATA type")
			id2, max2, n2 := consumeMaxStreamDataFrame(f)
			vfAssert(n2 == n && id2 == id && max2 == max, "MAX_STREAM_DATA round trip")
		}
	case 5:
		st := streamType(vfChoice("streamType", 2))
		max := c28i62("max")
		f, n, ok := c28frame(w, before, w.appendMaxStreamsFrame(st, max))
		if ok {
			st2, max2, n2 := consumeMaxStreamsFrame(f)
			if max <= maxStreamsLimit {
				vfAssert(n2 == n && st2 == st && max2 == max, "MAX_STREAMS round trip")
				vfReach("MAX_STREAMS within limit")
			} else {
				vfAssert(n2 == -1, "MAX_STREAMS above 2^60 rejected by the parser")
				vfReach("MAX_STREAMS above limit")
			}
		}
	case 6:
		max := c28i62("max")
		f, n, ok := c28frame(w, before, w.appendDataBlockedFrame(max))
		if ok {
			vfAssert(f[0] == frameTypeDataBlocked, "DATA_BLOCKED type")
			max2, n2 := consumeDataBlockedFrame(f)
			vfAssert(n2 == n && max2 == max, "DATA_BLOCKED round trip")
		}
	case 7:
		id, max := streamID(c28u62("id")), c28i62("max")
		f, n, ok := c28frame(w, before, w.appendStreamDataBlockedFrame(id, max))
		if ok {
			vfAssert(f[0] == frameTypeStreamDataBlocked, "STREAM_DATA_BLOCKED type")
			id2, max2, n2 := consumeStreamDataBlockedFrame(f)
			vfAssert(n2 == n && id2 == id && max2 == max, "STREAM_DATA_BLOCKED round trip")
		}
	case 8:
		st := streamType(vfChoice("streamType", 2))
		max := c28i62("max")
		f, n, ok := c28frame(w, before, w.appendStreamsBlockedFrame(st, max))
		if ok {
			vfAssert(f[0] == frameTypeStreamsBlockedBidi || f[0] == frameTypeStreamsBlockedUni, "STREAMS_BLOCKED type")
			st2, max2, n2 := consumeStreamsBlockedFrame(f)
			if max > maxStreamsLimit {
				// RFC 9000 §19.14: a Maximum Streams value above 2^60 is an error (enforced since /repo commit f07ae60);
				// the writer is only ever called with a stream limit, which never exceeds 2^60
				vfAssert(n2 == -1, "STREAMS_BLOCKED above 2^60 rejected by the parser")
				vfReach("streams-blocked-over-limit")
			} else {
				vfAssert(n2 == n && st2 == st && max2 == max, "STREAMS_BLOCKED round trip")
			}
		}
	case 9:
		seq := c28i62("seq")
		f, n, ok := c28frame(w, before, w.appendRetireConnectionIDFrame(seq))
		if ok {
			vfAssert(f[0] == frameTypeRetireConnectionID, "RETIRE_CONNECTION_ID type")
			seq2, n2 := consumeRetireConnectionIDFrame(f)
			vfAssert(n2 == n && seq2 == seq, "RETIRE_CONNECTION_ID round trip")
		}
	case 10:
		var data pathChallengeData
		copy(data[:], vfBytes("data", 8))
		var f []byte
		var n int
		var ok bool
		var data2 pathChallengeData
		var n2 int
		if vfBool("response") {
			f, n, ok = c28frame(w, before, w.appendPathResponseFrame(data))
			if ok {
				vfAssert(f[0] == frameTypePathResponse, "PATH_RESPONSE type")
				data2, n2 = consumePathResponseFrame(f)
			}
		} else {
			f, n, ok = c28frame(w, before, w.appendPathChallengeFrame(data))
			if ok {
				vfAssert(f[0] == frameTypePathChallenge, "PATH_CHALLENGE type")
				data2, n2 = consumePathChallengeFrame(f)
			}
		}
		if ok {
			vfAssert(n2 == n && n == 9 && data2 == data, "PATH_* round trip")
		}
	case 11:
		f, n, ok := c28frame(w, before, w.appendHandshakeDoneFrame())
		if ok {
			vfAssert(n == 1 && f[0] == frameTypeHandshakeDone, "HANDSHAKE_DONE")
		}
	case 12: // padding up to a datagram size
		to := vfRange("padTo", 0, 80)
		w.sent.inFlight = false
		w.appendPaddingTo(to)
		vfAssert(len(w.b) <= w.pktLim || len(w.b) == before, "padding respects the packet limit")
		vfAssert(len(w.b) == before || len(w.b)+aeadOverhead <= to, "padding never exceeds the requested size")
		vfAssert(vfImplies(vfAnd(to-aeadOverhead <= w.pktLim, to-aeadOverhead >= before), len(w.b) == to-aeadOverhead), "padding reaches the requested size when it fits")
		vfAssert((len(w.b) > before) == w.sent.inFlight, "padding marks the packet in flight")
		f, n := parseDebugFramePadding(append(append([]byte(nil), w.b[before:]...), 1))
		vfAssert(n == len(w.b)-before && f.size == n, "PADDING run parses back")
		for i := before; i < len(w.b); i++ {
			vfAssert(w.b[i] == 0, "padding bytes are zero")
		}
	case 13: // NEW_CONNECTION_ID
		seq, retire := c28i62("seq"), c28i62("retire")
		vfAssume(retire <= seq)
		nid := 1 + vfChoice("cidlen", 3)*8 // 1, 9, 17
		if nid == 17 {
			nid = 20
		}
		cid := vfBytes("cid", nid)
		var tok statelessResetToken
		copy(tok[:], vfBytes("token", 16))
		f, n, ok := c28frame(w, before, w.appendNewConnectionIDFrame(seq, retire, cid, tok))
		if ok {
			vfAssert(f[0] == frameTypeNewConnectionID, "NEW_CONNECTION_ID type")
			seq2, retire2, cid2, tok2, n2 := consumeNewConnectionIDFrame(f)
			vfAssert(n2 == n && seq2 == seq && retire2 == retire && tok2 == tok, "NEW_CONNECTION_ID round trip")
			vfAssert(c28eqBytes(cid2, cid), "NEW_CONNECTION_ID connection ID")
		}
	}
	vfReach("end")
}

func c28dataLen() int {
	if vfTier() > 0 {
		return 6
	}
	return 3
}

// Frames carrying byte strings; STREAM and CRYPTO may be shortened to what fits.
func VerifC28_dataframes() {
	w, _ := c28writer(16)
	before := len(w.b)
	switch vfChoice("frame", 5) {
	case 0: // CRYPTO
		off := c28i62("off")
		nd := vfLen("datalen", 0, c28dataLen())
		data := vfBytes("data", nd)
		vfAssume(off+int64(nd) <= c28max)
		b, added := w.appendCryptoFrame(off, nd)
		vfAssert(len(b) <= nd, "CRYPTO buffer no larger than requested")
		copy(b, data)
		f, n, ok := c28frame(w, before, added)
		if ok {
			vfAssert(len(b) > 0 || nd == 0, "CRYPTO frame without data only when none was requested")
			vfAssert(f[0] == frameTypeCrypto, "CRYPTO type")
			off2, data2, n2 := consumeCryptoFrame(f)
			vfAssert(n2 == n && off2 == off, "CRYPTO round trip")
			vfAssert(c28eqBytes(data2, data[:len(b)]), "CRYPTO data is the prefix that fit")
			if len(b) < nd {
				vfReach("CRYPTO shortened")
				vfAssert(len(w.b) == w.pktLim, "shortened CRYPTO fills the packet")
			}
		} else {
			vfAssert(b == nil, "no buffer when not added")
		}
	case 1: // STREAM
		id := streamID(c28u62("id"))
		off := c28i62("off")
		fin := vfBool("fin")
		nd := vfLen("datalen", 0, c28dataLen())
		data := vfBytes("data", nd)
		vfAssume(off+int64(nd) < 1<<62)
		b, added := w.appendStreamFrame(id, off, nd, fin)
		vfAssert(len(b) <= nd, "STREAM buffer no larger than requested")
		copy(b, data)
		f, n, ok := c28frame(w, before, added)
		if ok {
			vfAssert(f[0]&0xf8 == frameTypeStreamBase, "STREAM type")
			id2, off2, fin2, data2, n2 := consumeStreamFrame(f)
			vfAssert(n2 == n && id2 == id && off2 == off, "STREAM round trip")
			vfAssert(c28eqBytes(data2, data[:len(b)]), "STREAM data is the prefix that fit")
			vfAssert(fin2 == (fin && len(b) == nd), "FIN only on the frame carrying the last byte")
			vfAssert(len(b) > 0 || nd == 0, "STREAM frame without data only when none was requested")
			if len(b) < nd {
				vfReach("STREAM shortened")
				vfAssert(len(w.b) == w.pktLim, "shortened STREAM fills the packet")
			}
			if off == 0 {
				vfReach("STREAM without offset field")
			}
		} else {
			vfAssert(b == nil, "no buffer when not added")
		}
	case 2: // NEW_TOKEN
		nd := vfLen("toklen", 1, c28dataLen())
		tok := vfBytes("token", nd)
		f, n, ok := c28frame(w, before, w.appendNewTokenFrame(tok))
		if ok {
			vfAssert(f[0] == frameTypeNewToken, "NEW_TOKEN type")
			tok2, n2 := consumeNewTokenFrame(f)
			vfAssert(n2 == n && c28eqBytes(tok2, tok), "NEW_TOKEN round trip")
		}
	case 3: // CONNECTION_CLOSE (transport)
		code, ft := c28u62("code"), c28u62("frameType")
		nd := vfLen("reasonlen", 0, c28dataLen())
		reason := vfString("reason", nd)
		f, n, ok := c28frame(w, before, w.appendConnectionCloseTransportFrame(transportError(code), ft, reason))
		if ok {
			vfAssert(f[0] == frameTypeConnectionCloseTransport, "CONNECTION_CLOSE type")
			code2, ft2, reason2, n2 := consumeConnectionCloseTransportFrame(f)
			vfAssert(n2 == n && uint64(code2) == code && ft2 == ft, "CONNECTION_CLOSE round trip")
			vfAssert(c28eqBytes([]byte(reason2), []byte(reason)), "CONNECTION_CLOSE reason")
		}
	case 4: // CONNECTION_CLOSE (application)
		code := c28u62("code")
		nd := vfLen("reasonlen", 0, c28dataLen())
		reason := vfString("reason", nd)
		f, n, ok := c28frame(w, before, w.appendConnectionCloseApplicationFrame(code, reason))
		if ok {
			vfAssert(f[0] == frameTypeConnectionCloseApplication, "CONNECTION_CLOSE(app) type")
			code2, reason2, n2 := consumeConnectionCloseApplicationFrame(f)
			vfAssert(n2 == n && code2 == code, "CONNECTION_CLOSE(app) round trip")
			vfAssert(c28eqBytes([]byte(reason2), []byte(reason)), "CONNECTION_CLOSE(app) reason")
		}
	}
	vfReach("end")
}

func c28ackRanges() int {
	if vfTier() > 0 {
		return 3
	}
	return 2
}

// ACK frames. The round trip "appendAckFrame then consumeAckFrame returns the newest ranges of the set" is
// established in three steps, each of which the solver can decide cheaply (a direct symbolic round trip makes it
// prove add/sub identities through varint encode/decode bit patterns: seconds per query):
//   (1) VerifC28_ack_write: the bytes appendAckFrame emits are exactly type ‖ varint(largest) ‖ varint(delay) ‖
//       count ‖ varint(firstRange) ‖ (varint(gap_i) ‖ varint(len_i))* ‖ ecn, for the RFC 9000 §19.3 field values
//       F(seen) computed by the harness, with count+1 <= number of ranges (newest first, never zero ranges);
//   (2) VerifC28_ack_parse: for ALL field values (independent symbolic integers) consumeAckFrame applied to such an
//       encoding reports the ranges R(fields) defined by §19.3.1, or -1 exactly when a range would go below 0;
//   (3) VerifC28_ack_write, "lemma" assertions: R(F(seen)) = the ranges of seen (pure arithmetic).
// The native cross-validation of (1) additionally runs the real round trip on concrete values.

// c28ackSet builds a rangeset obeying the C24 invariant: arbitrary newest range; older ranges restricted to
// gap and length < 2^14 (two varint length classes each) to bound the path count.
func c28ackSet(nr int) rangeset[packetNumber] {
	var seen rangeset[packetNumber]
	prev := packetNumber(-1)
	for i := 0; i < nr; i++ {
		a, b := packetNumber(vfI64("start")), packetNumber(vfI64("end"))
		vfAssume(a >= 0 && a < b && b <= 1<<62)
		if i > 0 {
			vfAssume(prev < a)
			vfAssume(a-prev <= 16384) // gap field < 2^14
		}
		if i < nr-1 {
			vfAssume(b-a <= 16384) // length field < 2^14
		}
		seen = append(seen, i64range[packetNumber]{a, b})
		prev = b
	}
	return seen
}

func VerifC28_ack_write() {
	w, _ := c28writer(40)
	before := len(w.b)
	nr := vfLen("ranges", 0, c28ackRanges())
	seen := c28ackSet(nr)
	delay := unscaledAckDelay(c28i62("delay"))
	vfAssume(delay < 16384)
	var ecn ecnCounts
	if vfBool("ecn") {
		ecn.t0, ecn.t1, ecn.ce = int(c28i62("t0")), int(c28i62("t1")), int(c28i62("ce"))
		vfAssume(ecn.t1 < 64 && ecn.ce < 16384)
	}
	added := w.appendAckFrame(seen, delay, ecn)
	if nr == 0 {
		vfAssert(!added && len(w.b) == before, "no ACK frame for an empty set")
		vfReach("empty")
		vfReach("end")
		return
	}
	f, n, ok := c28frame(w, before, added)
	if ok {
		f = f[:n] // without the trailing byte
		isECN := ecn != ecnCounts{}
		m := int(f[1+quicwire.SizeVarint(uint64(seen.max()))+quicwire.SizeVarint(uint64(delay))]) // range count byte
		vfAssert(m >= 0 && m <= nr-1, "range count within the set")
		// (1) reference encoding of F(seen)
		top := seen[nr-1]
		var ref []byte
		if isECN {
			ref = append(ref, frameTypeAckECN)
			vfReach("ecn")
		} else {
			ref = append(ref, frameTypeAck)
		}
		ref = quicwire.AppendVarint(ref, uint64(top.end-1))
		ref = quicwire.AppendVarint(ref, uint64(delay))
		ref = quicwire.AppendVarint(ref, uint64(m))
		ref = quicwire.AppendVarint(ref, uint64(top.end-top.start-1))
		for i := nr - 2; i >= nr-1-m; i-- {
			ref = quicwire.AppendVarint(ref, uint64(seen[i+1].start-seen[i].end-1))
			ref = quicwire.AppendVarint(ref, uint64(seen[i].end-seen[i].start-1))
		}
		if isECN {
			ref = quicwire.AppendVarint(ref, uint64(ecn.t0))
			ref = quicwire.AppendVarint(ref, uint64(ecn.t1))
			ref = quicwire.AppendVarint(ref, uint64(ecn.ce))
		}
		vfAssert(c28eqBytes(f, ref), "ACK wire image = encoding of largest, delay, count, first range, (gap, length)*, ecn")
		// (3) the fields reconstruct the ranges (RFC 9000 §19.3.1 arithmetic)
		rangeMax := top.end - 1
		rangeMin := rangeMax - (top.end - top.start - 1)
		vfAssert(rangeMin == top.start, "lemma: largest - firstRange = start of the newest range")
		for i := nr - 2; i >= nr-1-m; i-- {
			rangeMax = rangeMin - (seen[i+1].start - seen[i].end - 1) - 2
			vfAssert(rangeMax == seen[i].end-1, "lemma: gap arithmetic")
			rangeMin = rangeMax - (seen[i].end - seen[i].start - 1)
			vfAssert(rangeMin == seen[i].start, "lemma: range length arithmetic")
		}
		vfObserve("ack.ranges", uint64(m+1))
		vfObserveBytes("ack.frame", f)
		if m+1 < nr {
			vfReach("ranges dropped for lack of space")
		}
		if m+1 == c28ackRanges() {
			vfReach("all ranges")
		}
		// concrete runs (native cross-validation): the real round trip
		if !vfSymbolic() {
			var got []i64range[packetNumber]
			largest, delay2, ecn2, n2 := consumeAckFrame(f, func(idx int, start, end packetNumber) {
				got = append(got, i64range[packetNumber]{start, end})
			})
			vfAssert(n2 == n && largest == seen.max() && delay2 == delay && ecn2 == ecn && len(got) == m+1, "native ACK round trip")
			for i := range got {
				vfAssert(got[i] == seen[nr-1-i], "native ACK ranges")
			}
		}
	}
	vfReach("end")
}

// c28field appends one varint field of a forked length class (1, 2, 4 or 8 bytes; arbitrary payload bits, so
// non-shortest encodings are included) to f and returns its value as decoded by quicwire.ConsumeVarint (C22).
func c28field(f []byte, label string, classes []int) ([]byte, uint64) {
	cls := classes[vfChoice(label+".class", len(classes))]
	b := vfBytes(label, 1<<cls)
	vfAssume(b[0]>>6 == byte(cls))
	v, n := quicwire.ConsumeVarint(b)
	vfAssert(n == len(b), "field length class")
	return append(f, b...), v
}

// (2) the parser on arbitrary well-formed field encodings: every field is a varint of a forked length class with
// arbitrary bits. The reference works on the field values as decoded by quicwire.ConsumeVarint (the subject of C22).
func VerifC28_ack_parse() {
	all := []int{0, 1, 2, 3}
	// older gaps/lengths and delay/ECN counts in 1-byte varints: every further length class multiplies the number of
	// ~1 s bit-vector queries (the no-wrap lemma)
	first, older := all, []int{0}
	cnt := vfLen("count", 0, 1) // a third range makes the no-wrap lemma undecidable within the solver timeout (tried)
	isECN := vfBool("ecn")
	var f []byte
	if isECN {
		f = append(f, frameTypeAckECN)
	} else {
		f = append(f, frameTypeAck)
	}
	lens := make([]uint64, cnt+1)
	gaps := make([]uint64, cnt+1)
	var L, delay, t0, t1, ce uint64
	f, L = c28field(f, "largest", first)
	f, delay = c28field(f, "delay", older)
	f = quicwire.AppendVarint(f, uint64(cnt))
	f, lens[0] = c28field(f, "firstRange", first)
	for i := 1; i <= cnt; i++ {
		f, gaps[i] = c28field(f, "gap", older)
		f, lens[i] = c28field(f, "len", older)
	}
	if isECN {
		f, t0 = c28field(f, "t0", older)
		f, t1 = c28field(f, "t1", []int{0})
		f, ce = c28field(f, "ce", []int{0})
	}
	size := len(f)
	f = append(f, vfU8("trailing"))
	// reference R(fields), RFC 9000 §19.3.1
	want := make([]i64range[packetNumber], cnt+1)
	valid := true
	rangeMax := packetNumber(L)
	for i := 0; i <= cnt; i++ {
		if i > 0 {
			rangeMax = want[i-1].start - packetNumber(gaps[i]) - 2
		}
		rangeMin := rangeMax - packetNumber(lens[i])
		// no wrap-around: all fields are < 2^62 (older gaps/lengths < 2^14)
		vfAssert(vfNot(rangeMin > rangeMax), "lemma: range arithmetic does not wrap")
		valid = vfAnd(valid, vfNot(rangeMin < 0))
		want[i] = i64range[packetNumber]{rangeMin, rangeMax + 1}
	}
	var got []i64range[packetNumber]
	largest, delay2, ecn2, n := consumeAckFrame(f, func(idx int, start, end packetNumber) {
		vfAssert(idx == len(got), "range index counts up")
		got = append(got, i64range[packetNumber]{start, end})
	})
	if n < 0 {
		vfAssert(n == -1, "failure is -1")
		vfAssert(!valid, "ACK rejected only when a range would start below 0")
		vfReach("rejected")
	} else {
		vfAssert(valid, "ACK with a range below 0 is rejected")
		vfAssert(n == size, "ACK consumed length")
		vfAssert(uint64(largest) == L && uint64(delay2) == delay, "ACK largest and delay")
		vfAssert(uint64(ecn2.t0) == t0 && uint64(ecn2.t1) == t1 && uint64(ecn2.ce) == ce, "ACK ECN counts")
		vfAssert(len(got) == cnt+1, "one callback per range")
		for i := range got {
			vfAssert(got[i] == want[i], "ranges as defined by RFC 9000 19.3.1")
		}
		vfReach("accepted")
		if cnt == 1 {
			vfReach("two ranges")
		}
	}
	vfReach("end")
}
