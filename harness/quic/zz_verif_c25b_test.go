package quic

import "errors"

// C25, sender side: ACK frames from the peer that acknowledge never-sent or skipped packet numbers are a
// PROTOCOL_VIOLATION; every sent packet is reported acknowledged at most once. (See zz_verif_c25_test.go.)

func init() {
	vfRegister("VerifC25_ackrange_step", VerifC25_ackrange_step)
	vfRegister("VerifC25_loss_history", VerifC25_loss_history)
}

func c25isViolation(err error) bool {
	var te localTransportError
	return errors.As(err, &te) && te.code == errProtocolViolation
}

// (I) one receiveAckRange on a hand-built sent-packet list: n <= 4 consecutive numbers starting at an arbitrary
// list start, each in an arbitrary state (Sent / Acked / Lost / Unsent placeholder).
func VerifC25_ackrange_step() {
	c := &lossState{}
	c.init(clientSide, 1200, c25now(0))
	const space = appDataSpace
	sp := &c.spaces[space]
	maxN := 3
	if vfTier() > 0 {
		maxN = 4
	}
	n := vfLen("npackets", 0, maxN)
	S := packetNumber(vfRange("listStart", 0, 1<<40))
	sp.nextNum = S
	var pk [4]*sentPacket
	var pre [4]sentPacketState
	for i := 0; i < n; i++ {
		sent := newSentPacket()
		sent.num = S + packetNumber(i)
		sent.size = 1200
		sent.time = c25now(1)
		if vfTier() > 0 && n <= 2 {
			sent.state = sentPacketState(vfChoice("state", 4))
		} else { // Lost entries behave exactly like Acked ones in receiveAckRange (state != Sent): only for short lists in thorough
			sent.state = [3]sentPacketState{sentPacketSent, sentPacketAcked, sentPacketUnsent}[vfChoice("state", 3)]
		}
		if sent.state != sentPacketUnsent {
			sent.ackEliciting, sent.inFlight = true, true
		}
		if sent.state == sentPacketSent {
			c.cc.bytesInFlight += sent.size
		}
		sp.add(sent)
		pk[i], pre[i] = sent, sent.state
	}
	if vfBool("ackedBefore") {
		sp.maxAcked = S - 1
	}

	start, end := packetNumber(vfI64("start")), packetNumber(vfI64("end"))
	vfAssume(vfAnd(0 <= start, vfAnd(start < end, end <= c25maxPnum)))
	rangeIndex := vfChoice("rangeIndex", 2)
	var calls [4]int
	stray := 0
	ackf := func(sp numberSpace, sent *sentPacket, fate packetFate) {
		vfAssert(fate == packetAcked && sp == space, "ackf: fate and space")
		for i := 0; i < n; i++ {
			if pk[i] == sent {
				calls[i]++
				return
			}
		}
		stray++
	}
	c.receiveAckStart()
	err := c.receiveAckRange(c25now(2), space, rangeIndex, start, end, ackf)

	covers := func(i int) bool { // packet i of the list lies in [start,end)
		num := S + packetNumber(i)
		return vfAnd(start <= num, num < end)
	}
	vfAssert(stray == 0, "ackf only for packets of the list")
	if end > S+packetNumber(n) {
		vfAssert(c25isViolation(err), "range reaching beyond the last sent number: PROTOCOL_VIOLATION")
		for i := 0; i < n; i++ {
			vfAssert(calls[i] == 0 && pk[i].state == pre[i], "never-sent: nothing acknowledged")
		}
		vfReach("step-never-sent")
	} else {
		coversUnsent := false
		for i := 0; i < n; i++ {
			if pre[i] == sentPacketUnsent {
				coversUnsent = vfOr(coversUnsent, covers(i))
			}
		}
		if coversUnsent {
			vfAssert(c25isViolation(err), "range covering a skipped number still in the list: PROTOCOL_VIOLATION")
			vfReach("step-covers-placeholder")
		} else {
			vfAssert(err == nil, "honest range: no error")
			for i := 0; i < n; i++ {
				if pre[i] == sentPacketSent {
					if covers(i) {
						vfAssert(calls[i] == 1 && pk[i].state == sentPacketAcked, "covered outstanding packet acknowledged exactly once")
						vfReach("step-acked")
					} else {
						vfAssert(calls[i] == 0 && pk[i].state == sentPacketSent, "uncovered packet untouched")
					}
				}
			}
		}
		for i := 0; i < n; i++ {
			vfAssert(calls[i] <= 1, "at most one acknowledgement per packet")
			if pre[i] != sentPacketSent {
				vfAssert(calls[i] == 0 && pk[i].state == pre[i], "acked / lost / placeholder entries are never reported again")
			}
		}
	}
	vfAssert(sp.nextNum == S+packetNumber(n) && sp.size == n, "list shape unchanged by receiveAckRange")
	vfObserveBool("err", err != nil)
	vfReach("end")
}

// (B) history from init(): "send" = packetSent optionally followed by skipNumber (as Conn.maybeSend does),
// "ack" = an ACK frame with 1..2 ranges processed the way Conn.handleAckFrame does.
func VerifC25_loss_history() {
	c := &lossState{}
	c.init(clientSide, 1200, c25now(0))
	const space = appDataSpace
	const maxNums = 12
	var kind [maxNums]uint8 // ghost per packet number: 0 none, 1 sent, 2 skipped
	var acked, lost [maxNums]int
	ackf := func(sp numberSpace, sent *sentPacket, fate packetFate) {
		vfAssert(fate == packetAcked, "ackf fate")
		vfAssert(kind[sent.num] == 1, "only packets that were sent are reported acknowledged")
		acked[sent.num]++
	}
	lossf := func(sp numberSpace, sent *sentPacket, fate packetFate) {
		vfAssert(fate == packetLost, "lossf fate")
		vfAssert(kind[sent.num] == 1, "only packets that were sent are reported lost")
		lost[sent.num]++
	}
	k := 4
	if vfTier() > 0 {
		k = 5
	}
	for i := 0; i < k; i++ {
		now := c25now(i + 1)
		if vfBool("send") {
			sent := newSentPacket()
			sent.num = c.nextNumber(space)
			sent.size = 1200
			sent.ackEliciting, sent.inFlight = true, true
			kind[sent.num] = 1
			c.packetSent(now, nil, space, sent)
			if vfBool("skipNext") {
				kind[c.nextNumber(space)] = 2
				c.skipNumber(now, space)
				vfReach("history-skip")
			}
			continue
		}
		// ACK frame: ranges in descending order, separated by at least one unacknowledged number
		next := c.nextNumber(space)
		listStart := c.spaces[space].start()
		nr := vfLen("nranges", 1, 2)
		var rs, re [2]packetNumber
		for j := 0; j < nr; j++ {
			rs[j], re[j] = packetNumber(vfI64("rstart")), packetNumber(vfI64("rend"))
			vfAssume(vfAnd(0 <= rs[j], vfAnd(rs[j] < re[j], re[j] <= c25maxPnum)))
			if j > 0 {
				vfAssume(re[j] < rs[j-1])
			}
		}
		coversNeverSent := re[0] > next
		coversListedSkip, coversCleanedSkip := false, false
		for num := packetNumber(0); num < next; num++ {
			if kind[num] != 2 {
				continue
			}
			in := false
			for j := 0; j < nr; j++ {
				in = vfOr(in, vfAnd(rs[j] <= num, num < re[j]))
			}
			if num >= listStart {
				coversListedSkip = vfOr(coversListedSkip, in)
			} else {
				coversCleanedSkip = vfOr(coversCleanedSkip, in)
			}
		}
		expected := vfOr(coversNeverSent, vfOr(coversListedSkip, coversCleanedSkip))

		detected := false
		c.receiveAckStart()
		for j := 0; j < nr; j++ {
			if err := c.receiveAckRange(now, space, j, rs[j], re[j], ackf); err != nil {
				vfAssert(c25isViolation(err), "receiveAckRange errors are PROTOCOL_VIOLATION")
				detected = true
			}
		}
		c.receiveAckEnd(now, nil, space, 0, lossf)

		if detected {
			vfAssert(expected, "PROTOCOL_VIOLATION only for ACKs of never-sent or skipped numbers")
			vfReach("history-violation-detected")
			vfReach("end")
			return // the connection is aborted
		}
		// Known finding C25-skipped-number-cleaned: a skipped number whose placeholder has already been
		// dropped from the sent-packet list (sentPacketList.clean) is silently accepted.
		vfAssertKF(vfNot(expected), "ACK covering a never-sent or skipped number is a PROTOCOL_VIOLATION",
			"C25-skipped-number-cleaned",
			vfAnd(coversCleanedSkip, vfNot(vfOr(coversNeverSent, coversListedSkip))))
		for num := packetNumber(0); num < next; num++ {
			vfAssert(acked[num]+lost[num] <= 1, "a packet is acknowledged or declared lost at most once")
		}
		vfReach("history-honest-ack")
	}
	vfObserve("next", uint64(c.nextNumber(space)))
	vfReach("end")
}
