package quic

import "math"

// C24 — QUIC range sets behave exactly like integer sets.

func init() {
	vfRegister("VerifC24_add", VerifC24_add)
	vfRegister("VerifC24_sub", VerifC24_sub)
	vfRegister("VerifC24_queries", VerifC24_queries)
	vfRegister("VerifC24_history", VerifC24_history)
	vfRegister("VerifC24_pnum", VerifC24_pnum)
}

func c24maxR() int {
	if vfTier() > 0 {
		return 4
	}
	return 3
}

// c24state builds an arbitrary rangeset satisfying the representation invariant.
func c24state(maxR int) rangeset[int64] {
	n := vfLen("nranges", 0, maxR)
	var s rangeset[int64]
	prev := int64(math.MinInt64)
	for i := 0; i < n; i++ {
		a, b := vfI64("start"), vfI64("end")
		vfAssume(a < b)
		if i > 0 {
			vfAssume(prev < a)
		}
		s = append(s, i64range[int64]{a, b})
		prev = b
	}
	return s
}

// c24inv is the representation invariant: non-empty, sorted, disjoint, non-adjacent.
func c24inv(s rangeset[int64]) bool {
	ok := true
	for i := range s {
		ok = vfAnd(ok, s[i].start < s[i].end)
		if i > 0 {
			ok = vfAnd(ok, s[i-1].end < s[i].start)
		}
	}
	return ok
}

// c24member is the reference membership test (linear scan, no early exit).
func c24member(s rangeset[int64], w int64) bool {
	in := false
	for i := range s {
		in = vfOr(in, vfAnd(s[i].start <= w, w < s[i].end))
	}
	return in
}

func VerifC24_add() {
	s := c24state(c24maxR())
	x, y, w := vfI64("x"), vfI64("y"), vfI64("w")
	vfAssume(x <= y)
	before := c24member(s, w)
	s.add(x, y)
	vfAssert(c24inv(s), "Inv preserved by add")
	vfAssert(s.contains(w) == vfOr(before, vfAnd(x <= w, w < y)), "add: set semantics for every witness")
	vfAssert(s.contains(w) == c24member(s, w), "contains agrees with scan")
	vfReach("end")
}

func VerifC24_sub() {
	s := c24state(c24maxR())
	x, y, w := vfI64("x"), vfI64("y"), vfI64("w")
	vfAssume(x <= y)
	before := c24member(s, w)
	s.sub(x, y)
	vfAssert(c24inv(s), "Inv preserved by sub")
	vfAssert(s.contains(w) == vfAnd(before, vfNot(vfAnd(x <= w, w < y))), "sub: set semantics for every witness")
	vfReach("end")
}

func VerifC24_queries() {
	s := c24state(c24maxR())
	w := vfI64("w")
	n := len(s)
	vfAssert(s.numRanges() == n, "numRanges")
	if n == 0 {
		vfAssert(s.min() == 0 && s.max() == 0 && s.end() == 0 && s.size() == 0, "empty set answers")
		vfAssert(s.isrange(0, 0), "empty isrange(0,0)")
		vfReach("empty")
	} else {
		vfAssert(s.min() == s[0].start, "min")
		vfAssert(s.end() == s[n-1].end, "end")
		vfAssert(s.max() == s[n-1].end-1, "max")
		vfAssert(c24member(s, s.min()), "min is a member")
		vfAssert(c24member(s, s.max()), "max is a member")
		vfAssert(vfImplies(w < s.min(), !c24member(s, w)), "nothing below min")
		vfAssert(vfImplies(w >= s.end(), !c24member(s, w)), "nothing at or above end")
		var total int64
		for i := range s {
			total += s[i].end - s[i].start
		}
		vfAssert(s.size() == total, "size (mod 2^64)")
		vfReach("nonempty")
	}
	rc := s.rangeContaining(w)
	if c24member(s, w) {
		vfAssert(rc.start <= w && w < rc.end, "rangeContaining covers w")
		found := false
		for i := range s {
			found = vfOr(found, s[i] == rc)
		}
		vfAssert(found, "rangeContaining returns a stored range")
	} else {
		vfAssert(rc.start == 0 && rc.end == 0, "rangeContaining of non-member is [0,0)")
	}
	a, b := vfI64("a"), vfI64("b")
	want := false
	if n == 1 {
		want = vfAnd(s[0].start == a, s[0].end == b)
	} else if n == 0 {
		want = vfAnd(a == 0, b == 0)
	}
	vfAssert(s.isrange(a, b) == want, "isrange")
	vfReach("end")
}

// Bounded run from the empty set: Inv holds along real histories (so the (I) pre-states are not vacuous).
func VerifC24_history() {
	var s rangeset[int64]
	w := vfI64("w")
	ref := false
	k := 3
	for i := 0; i < k; i++ {
		x, y := vfI64("x"), vfI64("y")
		vfAssume(x <= y)
		if vfBool("isAdd") {
			s.add(x, y)
			ref = vfOr(ref, vfAnd(x <= w, w < y))
		} else {
			s.sub(x, y)
			ref = vfAnd(ref, vfNot(vfAnd(x <= w, w < y)))
		}
		vfAssert(c24inv(s), "Inv along history")
		vfAssert(s.contains(w) == ref, "history: membership of the witness")
	}
	vfReach("end")
}

// Same step for the packetNumber instantiation (as used by ackState/lossState).
func VerifC24_pnum() {
	n := vfLen("nranges", 0, 2)
	var s rangeset[packetNumber]
	prev := packetNumber(math.MinInt64)
	for i := 0; i < n; i++ {
		a, b := packetNumber(vfI64("start")), packetNumber(vfI64("end"))
		vfAssume(a < b)
		if i > 0 {
			vfAssume(prev < a)
		}
		s = append(s, i64range[packetNumber]{a, b})
		prev = b
	}
	x, y, w := packetNumber(vfI64("x")), packetNumber(vfI64("y")), packetNumber(vfI64("w"))
	vfAssume(x <= y)
	before := s.contains(w)
	if vfBool("isAdd") {
		s.add(x, y)
		vfAssert(s.contains(w) == vfOr(before, vfAnd(x <= w, w < y)), "pnum add semantics")
	} else {
		s.sub(x, y)
		vfAssert(s.contains(w) == vfAnd(before, vfNot(vfAnd(x <= w, w < y))), "pnum sub semantics")
	}
	for i := range s {
		vfAssert(s[i].start < s[i].end, "pnum non-empty")
		if i > 0 {
			vfAssert(s[i-1].end < s[i].start, "pnum sorted, non-adjacent")
		}
	}
	vfReach("end")
}
