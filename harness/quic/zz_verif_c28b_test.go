package quic

// C28 part (b): frame and packet-header parsers on arbitrary bytes never panic (every implicit run-time check is
// discharged by the engine), return n = -1 or 1 <= n <= len, and reject out-of-range values.

func init() {
	vfRegister("VerifC28_parse_frame", VerifC28_parse_frame)
	vfRegister("VerifC28_parse_packet", VerifC28_parse_packet)
	vfRegister("VerifC28_parse_ncid", VerifC28_parse_ncid)
}

func c28parseLen() int {
	if vfTier() > 0 {
		return 12
	}
	return 9 // type byte + one 8-byte varint
}

// c28varintAt decodes the varint starting at b[i] with the reference of RFC 9000 §16 (fork-free);
// ok=false if it does not fit. The length class of the first byte is concretised by the caller's parser anyway.
func c28varintAt(b []byte, i int) (v uint64, next int, ok bool) {
	if i >= len(b) {
		return 0, i, false
	}
	n := 1 << (b[i] >> 6)
	if i+n > len(b) {
		return 0, i, false
	}
	v = uint64(b[i] & 0x3f)
	for j := 1; j < n; j++ {
		v = v<<8 | uint64(b[i+j])
	}
	return v, i + n, true
}

func VerifC28_parse_frame() {
	n := vfLen("n", 1, c28parseLen())
	b := vfBytes("b", n)
	if n > 6 {
		// ACK frames with a second range need 64-bit wrap-around reasoning in every path (seconds per query):
		// arbitrary bytes up to 6 here, structured ACK encodings of any field width in VerifC28_ack_parse
		vfAssume(b[0] != frameTypeAck && b[0] != frameTypeAckECN)
	}
	f, k := parseDebugFrame(b)
	vfAssert(k == -1 || (k >= 1 && k <= n), "frame parser: n is -1 or within the input")
	if k == -1 {
		vfReach("rejected")
	} else {
		vfAssert(f != nil, "accepted frame is returned")
		vfReach("accepted")
	}
	vfObserve("consumed", uint64(int64(k)))
	// out-of-range values (RFC 9000 §19.11, §19.14, §19.15)
	switch b[0] {
	case frameTypeMaxStreamsBidi, frameTypeMaxStreamsUni:
		if v, _, ok := c28varintAt(b, 1); ok {
			vfAssert((k == -1) == (v > maxStreamsLimit), "MAX_STREAMS above 2^60 is rejected")
			if v > maxStreamsLimit {
				vfReach("MAX_STREAMS above 2^60")
			}
		} else {
			vfAssert(k == -1, "truncated MAX_STREAMS")
		}
	case frameTypeStreamsBlockedBidi, frameTypeStreamsBlockedUni:
		if v, _, ok := c28varintAt(b, 1); ok {
			// (paths on which the known finding fires end there: no reach marker for them)
			vfAssertKF(vfImplies(v > maxStreamsLimit, k == -1), "STREAMS_BLOCKED above 2^60 is rejected",
				"C28-streams-blocked-limit", vfAnd(v > maxStreamsLimit, k != -1))
		}
	case frameTypeNewConnectionID:
		vfAssert(k == -1, "NEW_CONNECTION_ID needs at least 20 bytes") // long inputs: VerifC28_parse_ncid
	case frameTypeNewToken:
		if v, _, ok := c28varintAt(b, 1); ok && v == 0 {
			vfAssert(k == -1, "empty NEW_TOKEN is rejected")
		}
	}
	vfReach("end")
}

// Packet-header parsers on arbitrary bytes (no keys: header parsing only).
func VerifC28_parse_packet() {
	n := vfLen("n", 0, 11)
	b := vfBytes("b", n)
	pt := getPacketType(b)
	vfObserve("ptype", uint64(pt))
	if n == 0 {
		vfAssert(pt == packetTypeInvalid, "empty input has no type")
	}

	p, k := parseLongHeaderPacket(b, fixedKeys{}, 0)
	vfAssert(k == -1 || (k >= 7 && k <= n), "parseLongHeaderPacket: -1 or within the input")
	if k >= 0 {
		vfAssert(p.version != 0, "version 0 is not a long header packet")
		vfAssert(len(p.dstConnID) <= maxConnIDLen && len(p.srcConnID) <= maxConnIDLen, "connection IDs at most 20 bytes")
		vfAssert(p.ptype == pt && pt != packetTypeInvalid && pt != packetType1RTT && pt != packetTypeVersionNegotiation, "type agrees with getPacketType")
		vfReach("long header accepted")
	}
	vfObserve("long.n", uint64(int64(k)))

	g, ok := parseGenericLongHeaderPacket(b)
	if ok {
		vfAssert(7+len(g.dstConnID)+len(g.srcConnID)+len(g.data) == n, "generic long header accounts for every byte")
		vfReach("generic accepted")
	} else {
		vfAssert(k == -1, "what the generic parser rejects the specific one rejects")
	}

	id, ok2 := dstConnIDForDatagram(b)
	if ok2 {
		if isLongHeader(b[0]) {
			vfAssert(len(id) == int(b[5]), "long header destination connection ID length")
			if ok {
				vfAssert(len(id) == len(g.dstConnID), "agrees with the generic parser")
			}
		} else {
			vfAssert(len(id) == connIDLen, "short header destination connection ID length")
		}
		vfReach("dstConnID found")
	} else if ok {
		vfAssert(false, "generic parser accepted but no destination connection ID")
	}

	d, s, vers := parseVersionNegotiation(b)
	if vers != nil || d != nil || s != nil {
		vfAssert(ok && len(vers)%4 == 0, "version list is a multiple of 4 bytes")
		vfReach("version negotiation parsed")
	}

	sk := skipLongHeaderPacket(b)
	vfAssert(sk == -1 || (sk >= 8 && sk <= n), "skipLongHeaderPacket: -1 or within the input")
	if k >= 0 && pt != packetTypeRetry {
		vfAssert(sk == k, "skip agrees with parse on well-formed packets")
		vfReach("skip agrees")
	}
	vfObserve("skip.n", uint64(int64(sk)))
	vfReach("end")
}

// NEW_CONNECTION_ID needs >= 20 bytes: type, seq and retire (1-byte varints here), then 2..5 arbitrary bytes that hold
// the length field and the connection ID, then 16 arbitrary bytes (reset token / overflow of a longer ID).
// RFC 9000 §19.15: Length is an 8-bit integer; values < 1 or > 20 are FRAME_ENCODING_ERRORs.
func VerifC28_parse_ncid() {
	seq, retire := vfU8("seq"), vfU8("retire")
	vfAssume(seq < 64 && retire < 64)
	nmid := vfLen("mid", 2, 5)
	mid := vfBytes("mid", nmid)
	tail := vfBytes("tail", 16)
	b := append(append([]byte{frameTypeNewConnectionID, seq, retire}, mid...), tail...)
	s2, r2, cid, tok, k := consumeNewConnectionIDFrame(b)
	vfAssert(k == -1 || (k >= 20 && k <= len(b)), "NEW_CONNECTION_ID: -1 or within the input")
	l := mid[0]
	if k >= 0 {
		vfAssert(s2 == int64(seq) && r2 == int64(retire) && retire <= seq, "sequence numbers, retire_prior_to <= seq")
		vfAssert(len(cid) >= 1 && len(cid) <= 20, "connection ID of 1..20 bytes")
		vfAssertKF(vfAnd(l >= 1, l <= 20), "NEW_CONNECTION_ID whose 8-bit Length is outside 1..20 is rejected",
			"C28-ncid-length-varint", l >= 0x40)
		if l <= 20 {
			vfAssert(len(cid) == int(l) && k == 3+1+int(l)+16, "connection ID length is the Length byte")
			vfAssert(c28eqBytes(cid, b[4:4+len(cid)]) && c28eqBytes(tok[:], b[4+len(cid):4+len(cid)+16]), "fields at their offsets")
			vfReach("accepted, 8-bit length")
		}
		vfObserve("cidlen", uint64(len(cid)))
	} else {
		vfReach("rejected")
	}
	vfObserve("consumed", uint64(int64(k)))
	vfReach("end")
}
