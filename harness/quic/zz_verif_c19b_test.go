package quic

// C19 (continued) — flow-control credit over a faulty RETURN path, and the reader's read pattern.
//
// The harnesses in zz_verif_c19_test.go let the data path (sender -> receiver) drop, duplicate and reorder
// datagrams, but hand the receiver's MAX_STREAM_DATA / MAX_DATA frames to the sender at once and acknowledge them at
// once, and they read with one buffer size through windows of at most 8 bytes (where inmaxbuf/8 <= 1: every Read
// that consumes a byte schedules a window update). The statement quantifies over ALL buffer-size configurations,
// ALL read patterns and a network that is faulty in BOTH directions. VerifC19_credit covers that part:
//
//   * stream receive window W = 16 (thorough: also 24), so that the "window update is worth sending" threshold
//     W/8 is 2 (3) bytes and Reads below, at and above the threshold exist; more data than one window (N = W+8
//     symbolic bytes), so that the transfer needs window updates; the connection window is out of the way (1<<20);
//   * the reader's calls are free: Read with a buffer below the threshold (1), at the threshold (W/8), "read until
//     2W bytes or nothing more is available" (io.ReadFull-like loop of Reads), thorough: ReadByte; Read/ReadByte use the
//     lock-free fast path (s.inbuf) whenever an earlier slow-path Read parked bytes there;
//   * the receiver's packets (real appendStreamFrames, MAX_STREAM_DATA parsed from the wire) are datagrams of a
//     faulty network: each may be delivered late, out of order, (thorough: again), or never; the receiver is told
//     "acked" only for packets that arrived - in any order - and "lost" for the oldest packet in flight at any time
//     (fault model "other" of VerifC19_connwin); PTO probes of the receiver while packets are in flight;
//   * VerifC19_creditconn: the same with the connection window (MAX_DATA) as the binding limit;
//   * the data path is perfect and eager here (after every event the sender emits what it may, the datagram arrives
//     and is acknowledged); the receiver's conn is never send-blocked (a scheduled frame goes out after the event).
//
// Oracle: as in the other C19 harnesses. Safety after every event (Read returns exactly the next bytes written, EOF
// only after FIN and all bytes, no connection error at the receiver, which includes "the sender respects the limit
// the receiver advertised"); then eventual delivery: rounds in which every datagram of both directions that is in
// flight or sent from then on arrives and is acknowledged (control datagrams already declared lost arrive late or
// never, forked) must end with every byte read followed by io.EOF, and Close returning nil.
//
//   seeded C19-C: Stream.Read `newWindow := s.in.start + len(s.inbuf) + s.inmaxbuf` -> without len(s.inbuf): a short
//     slow-path Read (below W/8) that parks the rest of a full window in the fast-path buffer schedules no update,
//     the fast path drains the buffer without looking at flow control, the peer stays blocked: reader and writer
//     wait for each other. Caught by VerifC19_credit "eventual delivery" (quick).
//   seeded C19-D: Stream.ackOrLoss MAX_STREAM_DATA `ackLatestOrLoss` -> `ackOrLoss`: the ack of an OLDER packet with a
//     smaller limit marks the value received, the loss of the newer packet is then ignored and the larger limit
//     is never retransmitted; the reader's remaining reads move the window by less than W/8. Caught by
//     VerifC19_credit "eventual delivery" (quick). Shortest history: Read(2) -> MAX_STREAM_DATA 18 (packet A); A arrives, 2
//     more bytes arrive; read everything -> MAX_STREAM_DATA 34 (packet B); late ack of A; B lost and never arrives.

import "io"

func init() {
	vfRegister("VerifC19_credit", VerifC19_credit)
	vfRegister("VerifC19_creditconn", VerifC19_creditconn)
}

// c19ctl is one datagram of the return path (receiver -> sender).
type c19ctl struct {
	pnum      packetNumber
	frames    []qsFrame
	delivered bool
	lost      bool // the receiver was told that this packet is lost
}

// c19ret is the return path and the coverage flags of VerifC19_credit.
type c19ret struct {
	x    *c19world
	pkts []*c19ctl
	full int   // buffer of the "read everything" call
	thr  int64 // a window update is scheduled when it adds at least thr bytes (binding window / 8)
	// coverage
	sawShortSlowRead  bool // a slow-path Read below the update threshold parked bytes in the fast-path buffer
	sawFastRead       bool // a Read/ReadByte was served by the fast path
	sawCtlLoss        bool
	sawOldAck         bool // an older control packet was acknowledged while a newer one was in flight
	sawOldAckThenLoss bool // ... and a packet was declared lost afterwards
	sawCtlReorder     bool // a control datagram arrived after a younger one
	sawCtlRetrans     bool // a control packet was emitted after a loss was declared
	sawProbe          bool
	sawBlocked        bool // the sender had flushed data beyond the limit it knew
	sawDrop           bool
}

func (t *c19ret) pkt(pnum packetNumber) *c19ctl {
	for _, p := range t.pkts {
		if p.pnum == pnum {
			return p
		}
	}
	return nil
}

// emit lets the receiver's conn fill one packet; what it carries becomes a datagram of the return path.
func (t *c19ret) emit(pto bool) bool {
	r := t.x.r
	pnum := r.em.pnum
	frames := r.emit(40, pto)
	qsDrain(r.c)
	if len(frames) == 0 {
		return false
	}
	t.pkts = append(t.pkts, &c19ctl{pnum: pnum, frames: frames})
	if t.sawCtlLoss {
		t.sawCtlRetrans = true
	}
	return true
}

// deliver hands the frames of one control datagram to the sender's conn.
func (t *c19ret) deliver(p *c19ctl) {
	x := t.x
	p.delivered = true
	for _, f := range p.frames {
		switch f.typ {
		case frameTypeMaxStreamData:
			x.sg.s.handleMaxStreamData(f.val)
			if f.val > x.sg.limit {
				x.sg.limit = f.val
			}
		case frameTypeMaxData:
			x.w.c.streams.outflow.setMaxData(f.val)
			if f.val > x.w.connMax {
				x.w.connMax = f.val
			}
		}
	}
	qsDrain(x.w.c)
}

// fate tells the receiver's conn the fate of its i'th packet in flight.
func (t *c19ret) fate(i int, fate packetFate) {
	r := t.x.r
	if fate == packetAcked && i+1 < len(r.em.inflight) {
		t.sawOldAck = true
	}
	pnum := r.em.fate(r.c, i, fate)
	qsDrain(r.c)
	p := t.pkt(pnum)
	if fate == packetAcked {
		vfAssert(p != nil && p.delivered, "harness: only control packets that arrived are acknowledged")
	} else {
		p.lost = true
		t.sawCtlLoss = true
		if t.sawOldAck {
			t.sawOldAckThenLoss = true
		}
	}
}

// pump is the perfect, eager data path: the sender emits what it may, the datagram arrives, the packet is acknowledged.
func (t *c19ret) pump() {
	x := t.x
	w := x.w
	if s := x.sg.s; s.outflushed > s.outmaxsent && (s.outmaxsent == s.outwin || w.c.streams.outflow.avail() == 0) {
		t.sawBlocked = true
	}
	for i := 0; i < 4; i++ {
		n := len(x.pkts)
		x.emit(qsOpEmit, len(w.avails)-1)
		if len(x.pkts) == n {
			return
		}
		x.deliver(x.pkts[len(x.pkts)-1])
		for len(w.em.inflight) > 0 {
			w.do(qsAlt{qsOpFate, 0, 0})
		}
	}
}

// read calls Read once with an n-byte buffer (checked by qsReadGhost.read) and reports whether it made progress.
func (t *c19ret) read(n int) bool {
	x := t.x
	s := x.r.s
	pos, eof := x.rg.readpos, x.rg.eof
	fast := len(s.inbuf) > s.inbufoff
	x.read(n)
	got := x.rg.readpos - pos
	if got > 0 && fast {
		t.sawFastRead = true
	}
	if got > 0 && !fast && got < t.thr && len(s.inbuf) > 0 {
		t.sawShortSlowRead = true
	}
	return got > 0 || x.rg.eof != eof
}

// readAll reads until n bytes were returned or a Read returns nothing (the loop of io.ReadFull / io.Copy).
func (t *c19ret) readAll(n int) bool {
	progress := false
	for n > 0 && !t.x.rg.eof {
		pos := t.x.rg.readpos
		if !t.read(n) {
			break
		}
		progress = true
		n -= int(t.x.rg.readpos - pos)
	}
	return progress
}

// readByte calls ReadByte and checks it like a one-byte Read.
func (t *c19ret) readByte() bool {
	x := t.x
	g := x.rg
	s := x.r.s
	fast := len(s.inbuf) > s.inbufoff
	c, err := s.ReadByte()
	qsDrain(x.r.c)
	switch {
	case err == nil:
		vfAssert(g.have[g.readpos], "C19: ReadByte returns only a byte that was received")
		vfAssert(c == x.sg.data[g.readpos], "C19: ReadByte returns the peer's next byte")
		g.readpos++
		if fast {
			t.sawFastRead = true
		}
		return true
	case err == io.EOF:
		vfAssert(g.viaFIN && x.r.final == g.readpos, "C19: EOF only after FIN and after all bytes were returned")
		was := g.eof
		g.eof = true
		return !was
	default:
		vfAssert(!g.have[g.readpos] && !(g.viaFIN && x.r.final == g.readpos), "C19: ReadByte fails only if no byte and no EOF is available")
		return false
	}
}

// step: one free event of the reader, the return path, or the receiver's loss detection; then the eager parts.
func (t *c19ret) step(sizes []int, dups bool) { // dups: thorough tier (duplicate control datagrams, ReadByte)
	x := t.x
	r := x.r
	type alt struct{ kind, a int }
	var menu []alt
	for _, n := range sizes {
		menu = append(menu, alt{0, n})
	}
	menu = append(menu, alt{1, t.full})
	if dups { // thorough tier; ReadByte behaves like Read with a 1-byte buffer on both paths
		menu = append(menu, alt{2, 0})
	}
	if len(r.em.inflight) > 0 { // the PTO timer runs only while ack-eliciting packets are in flight
		menu = append(menu, alt{3, 0})
	}
	for i, p := range t.pkts {
		if !p.delivered || dups {
			menu = append(menu, alt{4, i})
		}
	}
	for i, sp := range r.em.inflight {
		if t.pkt(sp.num).delivered {
			menu = append(menu, alt{5, 2 * i})
		}
		if i == 0 {
			menu = append(menu, alt{5, 1})
		}
	}
	m := menu[vfChoice("ev", len(menu))]
	switch m.kind {
	case 0:
		if !t.read(m.a) {
			vfAssume(false) // nothing available: the call left the stream unchanged, same state as the shorter history
		}
	case 1:
		if !t.readAll(m.a) {
			vfAssume(false)
		}
	case 2:
		if !t.readByte() {
			vfAssume(false)
		}
	case 3:
		if !t.emit(true) {
			vfAssume(false)
		}
		t.sawProbe = true
	case 4:
		p := t.pkts[m.a]
		if !p.delivered {
			for _, q := range t.pkts[m.a+1:] {
				if q.delivered {
					t.sawCtlReorder = true
				}
			}
		}
		t.deliver(p)
	case 5:
		if m.a&1 == 1 {
			t.fate(m.a/2, packetLost)
		} else {
			t.fate(m.a/2, packetAcked)
		}
	}
	t.emit(false)
	t.pump()
}

// finish: Close's verdict now (safety), then eventual delivery in both directions.
func (t *c19ret) finish(rounds int) {
	x := t.x
	w, s, r := x.w, x.sg.s, x.r
	err := s.Close()
	x.sg.closed = true
	qsDrain(w.c)
	if err == nil {
		vfAssert(x.allAcked(), "C19: Close returns nil only after every byte and the FIN were acknowledged")
		vfAssert(x.allReceived(), "C19: Close returns nil only after the peer received the whole stream")
		x.closeEarly = true
	}
	// Control datagrams the receiver already wrote off as lost and that have not arrived yet: the loss was spurious and
	// they arrive late, or the network really dropped them and they never arrive.
	dropped := false
	for _, p := range t.pkts {
		if p.lost && !p.delivered {
			dropped = true
		}
	}
	if dropped && vfBool("stragglers-arrive") {
		dropped = false
	}
	if dropped {
		t.sawDrop = true
	}
	for i := 0; i < rounds; i++ {
		t.pump()
		t.readAll(t.full)
		t.emit(false)
		for _, p := range t.pkts {
			if !p.delivered && !(dropped && p.lost) {
				t.deliver(p)
			}
		}
		for len(r.em.inflight) > 0 {
			t.fate(0, packetAcked)
		}
	}
	t.pump()
	vfAssertKF(x.allAcked() && x.allReceived(), "eventual delivery: everything written arrived and was acknowledged", c19KeyFin, x.finMismarked)
	vfAssertKF(s.Close() == nil, "C19: with eventual delivery Close returns nil", c19KeyFin, x.finMismarked)
	for i := 0; i < 3 && !x.rg.eof; i++ {
		t.readAll(t.full)
	}
	vfAssertKF(x.rg.eof, "C19: the reader reaches io.EOF", c19KeyFin, x.finMismarked)
	vfAssert(x.rg.readpos == int64(len(x.sg.data)), "C19: the reader got every byte written")
	vfObserveBytes("written", x.sg.data)
	vfObserve("limit", uint64(x.sg.limit))
}

// VerifC19_credit: see the head of this file. Script: Write(N = W+8 symbolic bytes); Flush; CloseWrite; the first
// window of data arrives; then k free events; then eventual delivery. The STREAM window (MAX_STREAM_DATA) binds.
func VerifC19_credit() {
	k, W, extras := 5, 16, false
	if vfTier() > 0 {
		if vfBool("deeper") {
			k = 6 // one more free event
		} else {
			W, extras = 24, true // threshold 3; duplicate control datagrams; ReadByte
		}
	}
	t := c19credit(k, W, W+8, int64(W), 1<<20, extras)
	if t.sawOldAckThenLoss {
		vfReach("older-acked-then-newer-lost")
	}
}

// VerifC19_creditconn: the same with the CONNECTION window (MAX_DATA, connInflow credit) as the binding limit: connection
// receive buffer W = 16, stream window 4W (a stream update needs Reads of W/2 bytes and is never necessary), N = 2W+8
// bytes (a slow-path Read returns connection credit for everything it moves to the fast-path buffer as well, so
// the first MAX_DATA usually opens a whole window).
//
//	sh mut.sh quic/conn_flow.go ackOrLossMaxData: `inflow.sent.ackLatestOrLoss` -> `ackOrLoss` (connection-level analogue of
//	  seeded C19-D): caught by "eventual delivery"
func VerifC19_creditconn() {
	t := c19credit(5, 16, 2*16+8, 64, 16, vfTier() > 0)
	if t.sawOldAckThenLoss {
		vfReach("older-acked-then-newer-lost")
	}
}

func c19credit(k, W, N int, streamWin, connWin int64, dups bool) *c19ret {
	x := c19new(int64(2*N), streamWin, connWin)
	x.acked = make([]bool, N+4)
	x.rg.have = make([]bool, N+12)
	t := &c19ret{x: x, full: 2 * W, thr: int64(W / 8)}
	w := x.w
	w.avails = []int{N + 16}
	w.do(qsAlt{qsOpWrite, 0, N})
	vfAssert(len(x.sg.data) == N, "the write buffer takes the bytes")
	w.do(qsAlt{qsOpFlush, 0, 0})
	w.do(qsAlt{qsOpClose, 0, 0})
	t.pump()
	vfAssert(x.r.hi == int64(W), "the first window of data arrived")
	sizes := []int{1, W / 8}
	for i := 0; i < k; i++ {
		t.step(sizes, dups)
	}
	t.finish(4)
	if t.sawShortSlowRead {
		vfReach("short-slow-path-read-parks-bytes-in-the-fast-path-buffer")
	}
	if t.sawFastRead {
		vfReach("fast-path-read")
	}
	if t.sawBlocked {
		vfReach("sender-blocked-at-the-limit")
	}
	if t.sawCtlLoss {
		vfReach("control-packet-lost")
	}
	if t.sawOldAck {
		vfReach("older-control-packet-acked-while-a-newer-one-is-in-flight")
	}
	if t.sawCtlReorder {
		vfReach("control-datagrams-reordered")
	}
	if t.sawCtlRetrans {
		vfReach("control-packet-after-a-loss")
	}
	if t.sawProbe {
		vfReach("receiver-pto-probe")
	}
	if t.sawDrop {
		vfReach("lost-control-datagram-never-arrives")
	}
	if x.sg.limit > streamWin || x.w.connMax > connWin {
		vfReach("window-extended-by-the-receiver")
	}
	vfReach("end")
	return t
}
