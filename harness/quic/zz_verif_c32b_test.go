package quic

// C32 (continued) — "the highest offset it ever sent" includes what PTO probes put on the wire.
//
// VerifC32_probe (shape B, stream kernel of zz_verif_c20_test.go): before the reset the history also contains PTO probe
// packets. A probe resends unacknowledged data starting at the start of the send buffer, which includes flushed bytes
// that no ordinary packet has carried yet (the conn was congestion- or pacing-blocked when they were flushed), so a
// probe can be the FIRST packet to carry an offset. After 0..4 such events the send side is reset (Reset or
// STOP_SENDING) and the next packet (ordinary or probe) must carry a RESET_STREAM whose final size is the highest
// offset any packet carried (asserted frame by frame in qsSender.observe, together with outmaxsent == highest offset
// on the wire and the connection-level flow-control ledger after every packet).
func init() {
	vfRegister("VerifC32_probe", VerifC32_probe)
}

func VerifC32_probe() {
	maxK1 := 4
	nstreams := 1
	if vfTier() > 0 {
		nstreams = 1 + vfChoice("streams", 2) // thorough: also two streams sharing MAX_DATA (the second one is reset)
	}
	w := qsNewSender(4, 3, 5, nstreams)
	w.prune = true
	w.maxLen = 2
	w.avails = []int{4, 20} // 4 = STREAM header (3) + 1 byte
	if vfTier() > 0 {
		w.avails = []int{4, 5, 20}
		w.maxLen = 3
	}
	g := w.gs[nstreams-1]
	probeFirst := false // some probe carried an offset for the first time
	inProbe := false
	k1 := vfLen("k1", 0, maxK1)
	mask := qsOpWrite | qsOpFlush | qsOpClose | qsOpEmit | qsOpEmitPTO | qsOpFate
	for i := 0; i < k1; i++ {
		var before int64
		for _, x := range w.gs {
			before += x.maxSent
		}
		kind := w.step(mask)
		inProbe = kind == qsOpEmitPTO
		var after int64
		for _, x := range w.gs {
			after += x.maxSent
		}
		if inProbe && after > before {
			probeFirst = true
		}
	}
	sentBefore := g.maxSent
	kind := qsOpReset
	if vfBool("stop_sending") {
		kind = qsOpStopSending
	}
	w.do(qsAlt{kind, nstreams - 1, 0})
	w.prune = false
	last := qsOpEmit
	if vfBool("reset-in-probe") {
		last = qsOpEmitPTO
	}
	w.do(qsAlt{last, 0, len(w.avails) - 1})
	if g.s.outclosed.isReceived() && g.s.outacked.isrange(0, g.s.out.end) {
		vfReach("reset-of-a-finished-stream")
	} else {
		vfAssert(g.nreset == 1, "RESET_STREAM is in the first packet with room after the reset")
	}
	vfAssert(g.maxSent == sentBefore, "the highest offset sent does not move after the reset")
	vfAssert(g.s.outmaxsent == sentBefore, "outmaxsent is the highest offset sent")
	if probeFirst {
		vfReach("probe-carried-never-sent-data")
	}
	if probeFirst && sentBefore > 0 && g.nreset == 1 {
		vfReach("reset-after-probe-data")
	}
	vfObserve("final", uint64(g.maxSent))
	vfReach("end")
}
