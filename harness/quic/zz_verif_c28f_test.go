package quic

import "crypto/tls"

// C28 part (f): FULL packets under LARGE datagram limits (ideal-crypto stubs of part (d)).
// The peer's max_udp_payload_size may be anything up to 65527, so packetWriter.reset(lim) can be far above 1200.
// A long-header packet has a hardcoded 2-byte Length field (at most 16383 = packet number + payload + AEAD tag): for
// large limits the writer must cap the packet so that Length never overflows. The harness puts the datagram limit
// on a boundary set AROUND the point where that cap becomes the binding limit (T = offset of the packet number +
// 16383; lim = T-1, T, T+1, T+4, thorough also T-2, T+2, T+3) and at the maximum 65527, fills the packet through the writer's own space accounting
// (symbolic bytes at both ends of the payload, PADDING via appendPaddingTo in between) up to avail()-slack,
// slack 0..1 (thorough 0..4), and requires the round trip of part (d): the emitted packet parses back to the same header fields,
// packet number and payload, is consumed completely, and respects the datagram limit and the Length field.

func init() {
	vfRegister("VerifC28_protect_long_full", VerifC28_protect_long_full)
	vfRegister("VerifC28_protect_short_full", VerifC28_protect_short_full)
}

const c28maxLength = 16383 // largest 2-byte varint

// c28pnumOfLen: (pnum, maxAcked) pairs with truncated packet number lengths 1, 2, 3, 4 (2^62-1 is avoided: known
// finding C28-keyupdate-sentinel-maxpnum, covered by VerifC28_protect_short).
func c28pnumOfLen() (pnum, maxAcked packetNumber) {
	c := [][2]packetNumber{{0x7e, -1}, {0x8000, 1}, {0x1000000, 0x7ffffe}, {1 << 40, 1<<40 - 0x7fffffff}}[vfChoice("pnum", 4)]
	return c[0], c[1]
}

// c28fill fills the started packet up to avail()-slack: 2 symbolic bytes, PADDING, 2 symbolic bytes.
func c28fill(w *packetWriter, slack int) (head, tail []byte, size int) {
	vfAssert(w.avail() >= 4+slack, "room in the packet")
	start := len(w.b)
	end := start + w.avail() - slack
	head = vfBytes("payload.head", 2)
	w.b = append(w.b, head...)
	w.appendPaddingTo(end - 2 + aeadOverhead)
	vfAssert(len(w.b) == end-2, "padded to the requested size")
	tail = vfBytes("payload.tail", 2)
	w.b = append(w.b, tail...)
	vfAssert(w.avail() == slack, "space accounting")
	return head, tail, end - start
}

func c28checkPayload(got, head, tail []byte, size int) {
	vfAssert(len(got) == size, "payload size")
	if len(got) != size {
		return
	}
	vfAssert(c28eqBytes(got[:2], head) && c28eqBytes(got[size-2:], tail), "payload ends")
	zero := true
	for _, c := range got[2 : size-2] {
		zero = vfAnd(zero, c == 0)
	}
	vfAssert(zero, "payload padding")
}

func VerifC28_protect_long_full() {
	k := fixedKeys{hdr: c28headerKey(), pkt: c28packetKey()}
	types := []packetType{packetTypeInitial, packetType0RTT, packetTypeHandshake}
	shapes := [][3]int{{20, 20, 2}, {1, 0, 64}} // dcid, scid, token lengths (64: 2-byte token length)
	shape := vfChoice("shape", 1+vfTier())
	sh := shapes[shape]
	p := longPacket{
		ptype:     types[vfChoice("ptype", 3)],
		version:   quicVersion1, // symbolic versions: VerifC28_protect_long (4 paths per packet: zero tests byte by byte)
		dstConnID: vfBytes("dcid", sh[0]),
		srcConnID: vfBytes("scid", sh[1]),
	}
	var maxAcked packetNumber
	p.num, maxAcked = c28pnumOfLen()
	pnumLen := packetNumberLength(p.num, maxAcked)
	if p.ptype == packetTypeInitial {
		p.extra = vfBytes("token", sh[2])
	}
	prefix := 5 // a previous packet in the datagram (coalescing); the second shape (thorough) starts the datagram
	if shape > 0 {
		prefix = 0
	}
	// offset of the packet number in the datagram, from the header layout of RFC 9000 §17.2
	pnumOff := prefix + 1 + 4 + 1 + sh[0] + 1 + sh[1] + 2
	if p.ptype == packetTypeInitial {
		pnumOff += 1 + sh[2]
		if sh[2] >= 64 {
			pnumOff++
		}
	}
	T := pnumOff + c28maxLength // datagram limit at which the Length cap and the datagram limit coincide
	deltas := []int{-1, 0, 1, 4, -2, 2, 3}
	nd := 4
	if vfTier() > 0 {
		nd = len(deltas)
	}
	lim := 65527
	if c := vfChoice("lim", nd+1); c < nd {
		lim = T + deltas[c]
	}
	slack := vfLen("slack", 0, 1+3*vfTier())

	var w packetWriter
	w.reset(lim)
	w.b = append(w.b, vfBytes("earlier", prefix)...)
	w.startProtectedLongHeaderPacket(maxAcked, p)
	vfAssert(w.payOff == pnumOff+pnumLen, "payload offset")
	head, tail, size := c28fill(&w, slack)
	sent := w.finishProtectedLongHeaderPacket(maxAcked, k, p)
	vfAssert(sent != nil && sent.num == p.num && sent.ptype == p.ptype, "sent packet record")
	dgram := w.datagram()
	vfAssert(len(dgram) <= lim, "within the datagram limit")
	vfAssert(sent.size == len(dgram)-prefix, "recorded size is the packet size")
	vfAssert(pnumLen+size+aeadOverhead <= c28maxLength, "packet number + payload + tag fit the 2-byte Length field")
	// the writer uses the space it has: a full packet is within 4 bytes of min(datagram limit, Length cap)
	vfAssert(len(dgram)+slack >= min(lim, T)-4, "a full packet uses the available space")
	if len(dgram) == T {
		vfReach("Length field at its maximum 16383")
	}
	if len(dgram) == lim {
		vfReach("datagram limit reached")
	}
	pkt := c28clone(dgram[prefix:])

	vfAssert(skipLongHeaderPacket(pkt) == len(pkt), "skipLongHeaderPacket: whole packet")
	q, n := parseLongHeaderPacket(pkt, k, maxAcked)
	vfAssert(n == len(pkt), "whole packet consumed")
	vfAssert(q.ptype == p.ptype && q.version == p.version && q.num == p.num, "type, version, packet number")
	vfAssert(c28eqBytes(q.dstConnID, p.dstConnID) && c28eqBytes(q.srcConnID, p.srcConnID), "connection IDs")
	vfAssert(c28eqBytes(q.extra, p.extra), "token")
	c28checkPayload(q.payload, head, tail, size)
	vfObserve("pktlen", uint64(len(pkt)))
	vfObserve("length.field", uint64(pkt[pnumOff-prefix-2]&0x3f)<<8|uint64(pkt[pnumOff-prefix-1]))
	vfReach("end")
}

// 1-RTT packets have no Length field: a full packet reaches the datagram limit exactly, whatever the limit.
func VerifC28_protect_short_full() {
	hdr := c28headerKey()
	uk := updatingKeys{suite: tls.TLS_AES_128_GCM_SHA256, hdr: hdr, pkt: [2]packetKey{c28packetKey(), c28packetKey()}}
	k := &updatingKeyPair{r: uk, w: uk}
	k.init()
	k.minSent, k.minReceived = maxPacketNumber, maxPacketNumber
	pnum, maxAcked := c28pnumOfLen()
	dcid := vfBytes("dcid", []int{8, 0, 20}[vfChoice("dcidlen", 1+2*vfTier())])
	lims := []int{1200, 16383, 16384, 16385 + len(dcid), 16420, 65527}
	lim := lims[vfChoice("lim", len(lims))]
	slack := vfLen("slack", 0, 1)

	var w packetWriter
	w.reset(lim)
	w.start1RTTPacket(pnum, maxAcked, dcid)
	head, tail, size := c28fill(&w, slack)
	sent := w.finish1RTTPacket(pnum, maxAcked, dcid, k)
	vfAssert(sent != nil && sent.num == pnum && sent.ptype == packetType1RTT, "sent packet record")
	pkt := c28clone(w.datagram())
	vfAssert(sent.size == len(pkt), "recorded size is the packet size")
	vfAssert(len(pkt) == lim-slack, "a full 1-RTT packet reaches the datagram limit")

	q, err := parse1RTTPacket(pkt, k, len(dcid), maxAcked)
	vfAssert(err == nil, "packet unprotects")
	vfAssert(q.num == pnum, "packet number")
	c28checkPayload(q.payload, head, tail, size)
	vfObserve("pktlen", uint64(len(pkt)))
	vfReach("end")
}
