package quic

import "sync"

import "errors"

// C30 — QUIC stream buffers (pipe) store exactly the bytes written.
//
// Configuration: pipebufPool.New is replaced by a constructor handing out chunks of c30chunk() bytes
// (pipe.go never uses the literal 4096, only len(pb.b)).
//
// Harnesses:
//   VerifC30_step     shape I: arbitrary valid pipe of <=3 chunks (symbolic contents, symbolic base offset),
//                     ONE operation with wide arguments; invariant + window contents vs. reference.
//   VerifC30_history  shape B: histories of k operations from the zero pipe, invariant + contents after every step,
//                     chunked read / peek / out-of-window panics at the end.
//
// Reference model: per stream offset (concrete delta to the base) a "known" flag and the byte most recently
// written there; bytes in gaps created by writing past the end are unspecified (never compared).
//
// Sensitivity (sh mut.sh quic/pipe.go '<old>' '<new>' C30):
//   writeAt        `trim := p.start - off`        -> `trim := p.start - off - 1`   CAUGHT (window holds the bytes most recently written; step + history)
//   discardBefore  `p.end = max(p.end, off)`      -> `p.end = p.end`               CAUGHT (representation invariant; step + history)
//   read           `if off >= pb.end() {`         -> `if off > pb.end() {`         CAUGHT (read passes non-empty pieces: f is called with an empty slice)
//   discardBefore  `p.head.end() < off`           -> `<=`                          survives: equivalent for this property (the exhausted head chunk is
//                                                                                  released one call earlier; window, invariant and all reads are unchanged)
//   writeAt        `if off >= p.tail.off {`       -> `if off > p.tail.off+1 {`     survives: equivalent (only the starting chunk of the walk changes)

func init() {
	vfRegister("VerifC30_step", VerifC30_step)
	vfRegister("VerifC30_history", VerifC30_history)
}

const c30N = 96 // size of the reference arrays (max delta offset)

type c30model struct {
	known [c30N]bool
	val   [c30N]byte
	start int // deltas relative to base
	end   int
}

func c30setChunk(c int) {
	// a fresh pool, not only a new constructor: natively the pool may still hold chunks of another size that an
	// earlier vector (of the other harness) released, and sync.Pool hands them out depending on GC timing
	pipebufPool = sync.Pool{New: func() any { return &pipebuf{b: make([]byte, c)} }}
}

// c30inv: representation invariant of a pipe whose offsets are base+delta with chunk size c.
// Everything here is concrete-shaped (pointer structure) plus arithmetic on offsets.
func c30inv(p *pipe, c int) bool {
	if p.head == nil || p.tail == nil {
		return p.head == nil && p.tail == nil && p.start == p.end
	}
	ok := p.start <= p.end
	ok = vfAnd(ok, p.head.off <= p.start)
	ok = vfAnd(ok, p.start <= p.head.end())
	n := 0
	var last *pipebuf
	for pb := p.head; pb != nil; pb = pb.next {
		ok = vfAnd(ok, len(pb.b) == c)
		if pb.next != nil {
			ok = vfAnd(ok, pb.next.off == pb.end())
		}
		last = pb
		n++
		if n > c30N {
			return false
		}
	}
	ok = vfAnd(ok, last == p.tail)
	ok = vfAnd(ok, p.tail.off <= p.end)
	ok = vfAnd(ok, p.end <= p.tail.end())
	return ok
}

// c30check compares the whole live window with the reference and exercises peek / availableBuffer.
func c30check(p *pipe, m *c30model, base int64, c int) {
	vfAssert(c30inv(p, c), "representation invariant")
	vfAssert(p.start == base+int64(m.start), "start as specified")
	vfAssert(p.end == base+int64(m.end), "end as specified")
	w := m.end - m.start
	buf := make([]byte, w)
	p.copy(p.start, buf)
	for i := 0; i < w; i++ {
		if m.known[m.start+i] {
			vfAssert(buf[i] == m.val[m.start+i], "window holds the bytes most recently written")
		}
	}
	// peek: for every n in 0..w+1 a prefix of the window of length <= n.
	for n := 0; n <= w+1; n++ {
		r := p.peek(int64(n))
		vfAssert(len(r) <= n, "peek length <= n")
		for i := 0; i < len(r) && i < w; i++ {
			if m.known[m.start+i] {
				vfAssert(r[i] == m.val[m.start+i], "peek returns window bytes")
			}
		}
		if n > 0 && p.head != nil && p.start < p.head.end() {
			vfAssert(len(r) > 0, "peek makes progress when the first chunk has bytes")
		}
	}
	ab := p.availableBuffer()
	if p.tail == nil {
		vfAssert(ab == nil, "no buffer without chunks")
	} else {
		vfAssert(int64(len(ab)) == p.tail.end()-p.end, "availableBuffer is the rest of the tail chunk")
	}
}

// c30op runs one operation (forked choice) on the pipe and on the reference.
func c30op(p *pipe, m *c30model, base int64, c, maxLen, gap int) {
	switch vfChoice("op", 3) {
	case 0: // writeAt
		n := vfLen("wlen", 0, maxLen)
		d := vfLen("woff", m.start-2, m.end+gap)
		vfAssume(d >= 0 || base >= 2) // stream offsets are never negative
		b := vfBytes("wdata", n)
		data := append([]byte(nil), b...)
		p.writeAt(data, base+int64(d))
		for i := 0; i < n; i++ {
			vfAssert(data[i] == b[i], "writeAt does not modify its argument")
		}
		if d > m.end {
			vfReach("write leaves a gap")
		}
		if d+n > m.end {
			m.end = d + n
			vfReach("write extends window")
		}
		for i := 0; i < n; i++ {
			if d+i >= m.start {
				m.known[d+i] = true
				m.val[d+i] = b[i]
			}
		}
		if d < m.start {
			vfReach("write straddles or precedes start")
		}
	case 1: // discardBefore
		d := vfLen("doff", m.start, m.end+2)
		p.discardBefore(base + int64(d))
		for i := m.start; i < d; i++ {
			m.known[i] = false // discarded bytes never come back
		}
		if d > m.end {
			m.end = d
			vfReach("discard past end")
		}
		m.start = d
	case 2: // stream fast path: fill availableBuffer, then advance p.end (stream.go flushFastOutputBuffer)
		ab := p.availableBuffer()
		k := vfLen("fastlen", 0, len(ab))
		b := vfBytes("fastdata", k)
		copy(ab, b)
		p.end += int64(k)
		for i := 0; i < k; i++ {
			m.known[m.end+i] = true
			m.val[m.end+i] = b[i]
		}
		m.end += k
		if k > 0 {
			vfReach("fast path write")
		}
	}
}

// c30read1 reads [start+lo, start+lo+n) through read() (chunked callback) and compares with the reference.
func c30read1(p *pipe, m *c30model, lo, n int) int {
	var got []byte
	calls := 0
	err := p.read(p.start+int64(lo), n, func(b []byte) error {
		vfAssert(len(b) > 0, "read passes non-empty pieces")
		got = append(got, b...)
		calls++
		return nil
	})
	vfAssert(err == nil, "read returns nil when f does")
	vfAssert(len(got) == n, "read delivers exactly n bytes")
	for i := 0; i < n; i++ {
		if m.known[m.start+lo+i] {
			vfAssert(got[i] == m.val[m.start+lo+i], "read returns the bytes written")
		}
	}
	return calls
}

// c30reads: sub-range reads (all loops are concrete: no forking), error propagation, and panics outside.
// all=true: every sub-range [lo,lo+n) of the window; otherwise every prefix-free suffix [lo,w) and [lo,lo+1).
func c30reads(p *pipe, m *c30model, canPrev, all bool) {
	w := m.end - m.start
	maxCalls := 0
	for lo := 0; lo <= w; lo++ {
		for n := 0; n <= w-lo; n++ {
			if !all && n != w-lo && n != 1 {
				continue
			}
			if c := c30read1(p, m, lo, n); c > maxCalls {
				maxCalls = c
			}
		}
	}
	vfObserve("read.maxcalls", uint64(maxCalls))
	if maxCalls > 2 {
		vfReach("read spans three chunks")
	}
	if w > 0 {
		stop := errors.New("stop")
		c2 := 0
		err := p.read(p.start, w, func(b []byte) error { c2++; return stop })
		vfAssert(err == stop && c2 == 1, "read stops at the first error")
	}
	// before the window start: always a panic (discarded bytes never reappear)
	if canPrev {
		vfAssert(vfExpectPanic(func() { p.read(p.start-1, 1, func([]byte) error { return nil }) }), "read before start panics")
	}
	// beyond the allocated chunks: panic
	tailEnd := p.end
	if p.tail != nil {
		tailEnd = p.tail.end()
	}
	vfAssert(vfExpectPanic(func() { p.copy(p.start, make([]byte, int(tailEnd-p.start)+1)) }), "read past the buffers panics")
}

func c30chunk() int { return 4 }

// Shape I: arbitrary valid pre-state.
func VerifC30_step() {
	c := c30chunk()
	c30setChunk(c)
	base := int64(1<<40 + 1) // concrete large base (a symbolic base only adds solver work: offsets are only added/compared)
	var p pipe
	var m c30model
	nch := vfLen("chunks", 0, 3)
	if nch == 0 {
		p.start, p.end = base, base
	} else {
		var prev *pipebuf
		for i := 0; i < nch; i++ {
			pb := &pipebuf{off: base + int64(i*c), b: vfBytes("content", c)}
			if prev == nil {
				p.head = pb
			} else {
				prev.next = pb
			}
			prev = pb
		}
		p.tail = prev
		s := vfLen("start", 0, c)
		lo := (nch - 1) * c
		if s > lo {
			lo = s
		}
		e := vfLen("end", lo, nch*c)
		p.start, p.end = base+int64(s), base+int64(e)
		m.start, m.end = s, e
		i := 0
		for pb := p.head; pb != nil; pb = pb.next {
			for j := 0; j < c; j++ {
				if i >= s && i < e {
					m.known[i] = true
					m.val[i] = pb.b[j]
				}
				i++
			}
		}
	}
	vfAssume(c30inv(&p, c))
	maxLen, gap := 6, 6
	if vfTier() > 0 {
		maxLen, gap = 9, 9
	}
	c30op(&p, &m, base, c, maxLen, gap)
	c30check(&p, &m, base, c)
	c30reads(&p, &m, true, true)
	vfReach("end")
}

// Shape B: real histories from the zero pipe.
func VerifC30_history() {
	c, k, maxLen, gap := 2, 3, 3, 2
	if vfTier() > 0 {
		c, k, maxLen, gap = 2, 3, 4, 3 // a 4-byte write at an odd offset spans three chunks
	}
	c30setChunk(c)
	var p pipe
	var m c30model
	c30check(&p, &m, 0, c)
	for step := 0; step < k; step++ {
		c30op(&p, &m, 0, c, maxLen, gap)
		c30check(&p, &m, 0, c)
	}
	c30reads(&p, &m, m.start > 0, false)
	vfObserve("start", uint64(p.start))
	vfObserve("end", uint64(p.end))
	vfReach("end")
}
