package bpf

// C49 — The BPF VM computes classic BPF semantics on every packet.
//
// Shape B (bounded run from the real constructor): a program of L typed instructions (kind of each chosen by
// vfChoice over the 16 kinds Run implements, i.e. everything except NegateA; all operand fields symbolic; the last one
// RetA/RetConstant) is handed to the real NewVM; if NewVM returns an error the path is dropped (the property is
// conditional). The real VM.Run is executed on a packet of 0..P symbolic bytes and compared with c49ref, a
// classic-BPF interpreter that runs over the *assembled* RawInstruction words (bpf.Assemble of the same program):
// u32 registers, shifts >= 32 give 0, big-endian loads, offsets k(+X) computed in 64 bits (no wrap), out-of-bounds
// load => verdict 0, div/mod by X==0 => verdict 0, forward jumps.
//
// Known finding C49-abs-extwindow: an absolute load whose K lies in the extension window (K >= 0xfffff000,
// SKF_AD_OFF) is an ancillary/extension load in classic BPF as assembled (the package's own Disassemble and String
// decode it as LoadExtension); its value is environment-defined, modelled as an arbitrary u32. The VM treats it as an
// out-of-bounds packet load and returns 0. NewVM accepts such programs (it only rejects typed LoadExtension).
//
// Sensitivity (sh mut.sh ... C49, all caught, replayed natively):
//   bpf/vm_instructions.go 'ok = regA >= value' -> 'ok = regA > value'                         VerifC49_jump (verdict)
//   bpf/vm_instructions.go 'return offset+size <= inLen' -> 'return offset+size < inLen'       VerifC49_load (verdict)
//   bpf/vm_instructions.go 'return regA >> value' -> 'return regA >> (value & 31)'             VerifC49_alu (verdict)
//   bpf/vm.go 'if check <= int(ins.SkipFalse) {' (JumpIf) -> 'if check < int(ins.SkipFalse) {'  VerifC49_jump (NewVM accepts a
//             jump to one past the end: Run falls off the program, reference reports "no ret reached")
//   bpf/vm.go Run 'i += int(ins.Skip)' -> 'i += int(uint8(ins.Skip))' (seed C49-D)              VerifC49_longjump (quick)
//   bpf/vm.go Run 'i += int(ins.Skip)' -> 'i += int(uint16(ins.Skip))'                         VerifC49_longjump (thorough)
// Native reproduction of the known finding: repro/C49 (sh repro/run.sh C49 bpf).

func init() {
	vfRegister("VerifC49_run", VerifC49_run)
	vfRegister("VerifC49_run4", VerifC49_run4)
	vfRegister("VerifC49_alu", VerifC49_alu)
	vfRegister("VerifC49_jump", VerifC49_jump)
	vfRegister("VerifC49_load", VerifC49_load)
	vfRegister("VerifC49_scratch", VerifC49_scratch)
	vfRegister("VerifC49_longjump", VerifC49_longjump)
}

var c49alu = [10]ALUOp{ALUOpAdd, ALUOpSub, ALUOpMul, ALUOpDiv, ALUOpOr, ALUOpAnd, ALUOpShiftLeft, ALUOpShiftRight, ALUOpMod, ALUOpXor}
var c49size = [3]int{1, 2, 4}

// c49ins builds one typed instruction of the given kind with symbolic operands. Enumerated fields (ALUOp, JumpTest,
// Register, Size) range over their declared constants; scratch slot, extension number, offsets, values and skips are
// unconstrained (NewVM/Assemble decide).
func c49ins(kind int, full bool) Instruction {
	switch kind {
	case 0:
		return RetConstant{Val: vfU32("val")}
	case 1:
		return RetA{}
	case 2:
		return ALUOpConstant{Op: c49aluop(full), Val: vfU32("val")}
	case 3:
		return ALUOpX{Op: c49aluop(full)}
	case 4:
		return Jump{Skip: vfU32("skip")}
	case 5:
		return JumpIf{Cond: c49cond(full), Val: vfU32("val"), SkipTrue: vfU8("st"), SkipFalse: vfU8("sf")}
	case 6:
		return JumpIfX{Cond: c49cond(full), SkipTrue: vfU8("st"), SkipFalse: vfU8("sf")}
	case 7:
		return LoadAbsolute{Off: vfU32("off"), Size: c49size[vfChoice("size", 3)]}
	case 8:
		return LoadConstant{Dst: Register(vfChoice("dst", 2)), Val: vfU32("val")}
	case 9:
		return LoadExtension{Num: Extension(vfInt("num"))}
	case 10:
		return LoadIndirect{Off: vfU32("off"), Size: c49size[vfChoice("size", 3)]}
	case 11:
		return LoadMemShift{Off: vfU32("off")}
	case 12:
		return LoadScratch{Dst: Register(vfChoice("dst", 2)), N: vfInt("n")}
	case 13:
		return StoreScratch{Src: Register(vfChoice("src", 2)), N: vfInt("n")}
	case 14:
		return TAX{}
	default:
		return TXA{}
	}
}

type c49out struct {
	verdict uint32
	ext     bool // an extension-window absolute load was executed (value arbitrary)
	bad     bool // word outside classic BPF / fell off the program
}

// c49be: big-endian load of size bytes at pkt[off:]. For multi-byte loads the offset is concretised first (the VM's
// slice expression has already forked on it) and the bytes are combined in the same shape encoding/binary uses, so
// that a following symbolic mul/div/mod sees syntactically equal operands in VM and reference.
func c49be(pkt []byte, off uint64, size int) uint32 {
	switch size {
	case 1:
		return uint32(pkt[off])
	case 2:
		o := vfConcretize(off)
		return uint32(uint16(pkt[o+1]) | uint16(pkt[o])<<8)
	default:
		o := vfConcretize(off)
		return uint32(pkt[o+3]) | uint32(pkt[o+2])<<8 | uint32(pkt[o+1])<<16 | uint32(pkt[o])<<24
	}
}

// c49ref: classic BPF over raw words.
func c49ref(prog []RawInstruction, pkt []byte) c49out {
	var A, X uint32
	var M [16]uint32
	var out c49out
	n := uint64(len(pkt))
	pc := 0
	for step := 0; step <= len(prog); step++ {
		if pc >= len(prog) {
			break
		}
		w := prog[pc]
		pc++
		op := w.Op
		k := w.K
		switch op & 0x07 {
		case 0x00, 0x01: // ld, ldx
			var size int
			switch op & 0x18 {
			case 0x00:
				size = 4
			case 0x08:
				size = 2
			case 0x10:
				size = 1
			default:
				out.bad = true
				return out
			}
			var v uint32
			switch op & 0xe0 {
			case 0x00: // imm
				v = k
			case 0x20, 0x40: // abs, ind
				off := uint64(k)
				if op&0xe0 == 0x40 {
					off += uint64(X)
				} else if k >= 0xfffff000 {
					out.ext = true
					v = vfU32("ext")
					break
				}
				if off+uint64(size) > n {
					return out // verdict 0
				}
				v = c49be(pkt, off, size)
			case 0x60: // mem
				if k > 15 {
					out.bad = true
					return out
				}
				v = M[k]
			case 0x80: // len
				v = uint32(n)
			case 0xa0: // msh
				if uint64(k) >= n {
					return out
				}
				v = uint32(pkt[k]&0x0f) << 2
			default:
				out.bad = true
				return out
			}
			if op&0x07 == 0 {
				A = v
			} else {
				X = v
			}
		case 0x02: // st
			if k > 15 {
				out.bad = true
				return out
			}
			M[k] = A
		case 0x03: // stx
			if k > 15 {
				out.bad = true
				return out
			}
			M[k] = X
		case 0x04: // alu
			src := k
			if op&0x08 != 0 {
				src = X
			}
			switch op & 0xf0 {
			case 0x00:
				A += src
			case 0x10:
				A -= src
			case 0x20:
				A *= src
			case 0x30:
				if src == 0 {
					return out
				}
				A /= src
			case 0x40:
				A |= src
			case 0x50:
				A &= src
			case 0x60:
				if src >= 32 {
					A = 0
				} else {
					A <<= src & 31
				}
			case 0x70:
				if src >= 32 {
					A = 0
				} else {
					A >>= src & 31
				}
			case 0x80:
				A = -A
			case 0x90:
				if src == 0 {
					return out
				}
				A %= src
			case 0xa0:
				A ^= src
			default:
				out.bad = true
				return out
			}
		case 0x05: // jmp
			src := k
			if op&0x08 != 0 {
				src = X
			}
			var c bool
			switch op & 0xf0 {
			case 0x00:
				pc += int(k)
				continue
			case 0x10:
				c = A == src
			case 0x20:
				c = A > src
			case 0x30:
				c = A >= src
			case 0x40:
				c = A&src != 0
			default:
				out.bad = true
				return out
			}
			if c {
				pc += int(w.Jt)
			} else {
				pc += int(w.Jf)
			}
		case 0x06: // ret
			switch op & 0x18 {
			case 0x00:
				out.verdict = k
			case 0x10:
				out.verdict = A
			default:
				out.bad = true
			}
			return out
		case 0x07: // misc
			switch op & 0xf8 {
			case 0x00:
				X = A
			case 0x80:
				A = X
			default:
				out.bad = true
				return out
			}
		}
	}
	out.bad = true // ran off the end
	return out
}

func c49check(prog []Instruction, pkt []byte) (accepted bool) {
	vm, err := NewVM(prog)
	if err != nil {
		return false
	}
	got, rerr := vm.Run(pkt)
	vfObserve("verdict", uint64(got))
	raws, aerr := Assemble(prog)
	vfAssert(aerr == nil, "accepted program assembles")
	want := c49ref(raws, pkt)
	vfAssert(rerr == nil, "Run reports no error on an accepted program")
	vfAssert(!want.bad, "assembled program is classic BPF and terminates at a ret")
	vfAssertKF(got == int(want.verdict), "Run verdict == reference verdict", "C49-abs-extwindow", want.ext)
	return true
}

// c49ops: operator subsets used by the generic programs. Quick: 4 of the 10 ALU operators and 3 of the 8 jump tests
// (every operator / test is covered from arbitrary register state by VerifC49_alu / VerifC49_jump); thorough: all.
var c49aluQuick = [4]ALUOp{ALUOpSub, ALUOpDiv, ALUOpAnd, ALUOpShiftRight}
var c49condQuick = [3]JumpTest{JumpEqual, JumpLessThan, JumpBitsNotSet}

func c49aluop(full bool) ALUOp {
	if full {
		return c49alu[vfChoice("aluop", 10)]
	}
	return c49aluQuick[vfChoice("aluop", 4)]
}

func c49cond(full bool) JumpTest {
	if full {
		return JumpTest(vfChoice("cond", 8))
	}
	return c49condQuick[vfChoice("cond", 3)]
}

// VerifC49_run: generic programs of L=3 instructions.
func VerifC49_run() {
	const L = 3
	full := vfTier() > 0
	prog := make([]Instruction, L)
	for i := 0; i < L-1; i++ {
		prog[i] = c49ins(vfChoice("kind", 16), full)
	}
	prog[L-1] = c49ins(vfChoice("ret", 2), full)
	var plen int
	if full {
		plen = vfLen("plen", 0, 6)
	} else {
		plen = [3]int{0, 2, 5}[vfChoice("plen", 3)]
	}
	pkt := vfBytes("pkt", plen)
	if c49check(prog, pkt) {
		vfReach("accepted")
	} else {
		vfReach("rejected")
	}
	vfReach("end")
}

// VerifC49_run4: programs of 4 instructions over a reduced instruction set (thorough: 12 shapes; quick: 6 of them).
func VerifC49_run4() {
	const L = 4
	full := vfTier() > 0
	quickKinds := [6]int{0, 1, 5, 7, 8, 13}                     // ret k, ret a, jgt k, ldb abs, ldh ind, tax
	fullKinds := [12]int{0, 1, 2, 3, 5, 6, 7, 8, 9, 11, 12, 13} // + and k, add x, jne x, msh, st, ldx M
	prog := make([]Instruction, L)
	for i := 0; i < L-1; i++ {
		if full {
			prog[i] = c49insSmall(fullKinds[vfChoice("kind", 12)])
		} else {
			prog[i] = c49insSmall(quickKinds[vfChoice("kind", 6)])
		}
	}
	prog[L-1] = c49insSmall(vfChoice("ret", 2))
	var plen int
	if full {
		plen = [4]int{0, 1, 4, 6}[vfChoice("plen", 4)]
	} else {
		plen = [2]int{1, 4}[vfChoice("plen", 2)]
	}
	pkt := vfBytes("pkt", plen)
	if c49check(prog, pkt) {
		vfReach("accepted")
	} else {
		vfReach("rejected")
	}
	vfReach("end")
}

// c49insSmall: one fixed shape per kind.
func c49insSmall(kind int) Instruction {
	switch kind {
	case 0:
		return RetConstant{Val: vfU32("val")}
	case 1:
		return RetA{}
	case 2:
		return ALUOpConstant{Op: ALUOpAnd, Val: vfU32("val")}
	case 3:
		return ALUOpX{Op: ALUOpAdd}
	case 4:
		return Jump{Skip: vfU32("skip")}
	case 5:
		return JumpIf{Cond: JumpGreaterThan, Val: vfU32("val"), SkipTrue: vfU8("st"), SkipFalse: vfU8("sf")}
	case 6:
		return JumpIfX{Cond: JumpNotEqual, SkipTrue: vfU8("st"), SkipFalse: vfU8("sf")}
	case 7:
		return LoadAbsolute{Off: vfU32("off"), Size: 1}
	case 8:
		return LoadIndirect{Off: vfU32("off"), Size: 2}
	case 9:
		return LoadMemShift{Off: vfU32("off")}
	case 10:
		return LoadConstant{Dst: RegX, Val: vfU32("val")}
	case 11:
		return StoreScratch{Src: RegA, N: vfInt("n")}
	case 12:
		return LoadScratch{Dst: RegX, N: vfInt("n")}
	default:
		return TAX{}
	}
}

// VerifC49_alu: every ALU operator (constant and X operand) on fully symbolic 32-bit A and operand
// (symbolic x symbolic mul/div/mod included), registers loaded by LoadConstant, then RetA.
func VerifC49_alu() {
	a, x := vfU32("a"), vfU32("x")
	var alu Instruction
	if vfChoice("operand", 2) == 0 {
		alu = ALUOpConstant{Op: c49alu[vfChoice("aluop", 10)], Val: x}
	} else {
		alu = ALUOpX{Op: c49alu[vfChoice("aluop", 10)]}
	}
	prog := []Instruction{LoadConstant{Dst: RegA, Val: a}, LoadConstant{Dst: RegX, Val: x}, alu, RetA{}}
	if c49check(prog, nil) {
		vfReach("accepted")
	} else {
		vfReach("rejected: constant div/mod by zero")
	}
	vfReach("end")
}

// VerifC49_jump: every jump test (constant and X operand) and the unconditional jump on fully symbolic A, X, K with
// symbolic skip counts; three distinct return instructions make the landing site observable.
func VerifC49_jump() {
	a, x := vfU32("a"), vfU32("x")
	var j Instruction
	switch vfChoice("form", 3) {
	case 0:
		j = JumpIf{Cond: JumpTest(vfChoice("cond", 8)), Val: vfU32("k"), SkipTrue: vfU8("st"), SkipFalse: vfU8("sf")}
	case 1:
		j = JumpIfX{Cond: JumpTest(vfChoice("cond", 8)), SkipTrue: vfU8("st"), SkipFalse: vfU8("sf")}
	default:
		j = Jump{Skip: vfU32("skip")}
	}
	prog := []Instruction{LoadConstant{Dst: RegA, Val: a}, LoadConstant{Dst: RegX, Val: x}, j,
		RetConstant{Val: 1}, RetConstant{Val: 2}, RetConstant{Val: 3}}
	if c49check(prog, nil) {
		vfReach("accepted")
	} else {
		vfReach("rejected: skip past the end")
	}
	vfReach("end")
}

// VerifC49_load: every packet load (abs/ind of 1,2,4 bytes, msh) with fully symbolic offset and X on packets of
// 0..6 (thorough 0..9) symbolic bytes.
func VerifC49_load() {
	P := 6
	if vfTier() > 0 {
		P = 9
	}
	x := vfU32("x")
	var prog []Instruction
	switch vfChoice("mode", 3) {
	case 0:
		prog = []Instruction{LoadConstant{Dst: RegX, Val: x}, LoadAbsolute{Off: vfU32("off"), Size: c49size[vfChoice("size", 3)]}, RetA{}}
	case 1:
		prog = []Instruction{LoadConstant{Dst: RegX, Val: x}, LoadIndirect{Off: vfU32("off"), Size: c49size[vfChoice("size", 3)]}, RetA{}}
	default:
		prog = []Instruction{LoadConstant{Dst: RegX, Val: x}, LoadMemShift{Off: vfU32("off")}, TXA{}, RetA{}}
	}
	pkt := vfBytes("pkt", vfLen("plen", 0, P))
	vfAssert(c49check(prog, pkt), "load programs are accepted")
	vfReach("end")
}

// VerifC49_scratch: store A or X into slot n, load slot m into A or X, return it; n, m arbitrary ints
// (NewVM must reject slots outside 0..15), A and X arbitrary.
func VerifC49_scratch() {
	a, x := vfU32("a"), vfU32("x")
	st := StoreScratch{Src: Register(vfChoice("src", 2)), N: vfInt("n")}
	ld := LoadScratch{Dst: Register(vfChoice("dst", 2)), N: vfInt("m")}
	prog := []Instruction{LoadConstant{Dst: RegA, Val: a}, LoadConstant{Dst: RegX, Val: x}, st, ld}
	if ld.Dst == RegX {
		prog = append(prog, TXA{})
	}
	prog = append(prog, RetA{})
	if c49check(prog, nil) {
		vfReach("accepted")
	} else {
		vfReach("rejected: slot outside 0..15")
	}
	vfReach("end")
}

func c49condLong(full bool, quick JumpTest) JumpTest {
	if full {
		return JumpTest(vfChoice("cond", 8))
	}
	return quick
}

// VerifC49_longjump: jump distances beyond what the short programs above can hold ("every jump offset" of the
// quantifier). NewVM only accepts a skip that stays inside the program, so the programs of <= 6 instructions never run a
// jump further than 3; here the jump is followed by F distinct landing sites (RetConstant{1..F}), F = 272 in quick
// (every Jump.Skip 0..271, i.e. across the 8-bit boundary of the 32-bit field, and every 8-bit SkipTrue/SkipFalse
// 0..255 of the conditional forms) and F = 65536+16 in thorough for the unconditional jump (Skip restricted to the
// windows around 0, 2^8 and 2^16 and the last landing sites; the conditional forms keep F = 272 with all 8 tests;
// quick runs one test per conditional form: every test is covered from arbitrary registers by VerifC49_jump).
// A, X, K and the skip counts are symbolic; the verdict identifies the landing site.
func VerifC49_longjump() {
	full := vfTier() > 0
	a, x := vfU32("a"), vfU32("x")
	F := 272
	var j Instruction
	switch vfChoice("form", 3) {
	case 0:
		j = JumpIf{Cond: c49condLong(full, JumpGreaterThan), Val: vfU32("k"), SkipTrue: vfU8("st"), SkipFalse: vfU8("sf")}
	case 1:
		j = JumpIfX{Cond: c49condLong(full, JumpBitsNotSet), SkipTrue: vfU8("st"), SkipFalse: vfU8("sf")}
	default:
		skip := vfU32("skip")
		if full {
			F = 65536 + 16
			vfAssume(vfOr(vfOr(skip < 3, vfAnd(skip >= 254, skip < 259)),
				vfOr(vfAnd(skip >= 65534, skip < 65539), skip >= uint32(F)-2)))
		}
		j = Jump{Skip: skip}
	}
	prog := make([]Instruction, 0, F+3)
	prog = append(prog, LoadConstant{Dst: RegA, Val: a}, LoadConstant{Dst: RegX, Val: x}, j)
	for i := 0; i < F; i++ {
		prog = append(prog, RetConstant{Val: uint32(i + 1)})
	}
	if c49check(prog, nil) {
		vfReach("accepted")
	} else {
		vfReach("rejected: skip past the end")
	}
	vfReach("end")
}
