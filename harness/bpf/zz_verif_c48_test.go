package bpf

// C48 — BPF assembly and disassembly are inverse.
//
// Shape: pure functions, full width (every field of every typed instruction / of the raw word is symbolic).
//   VerifC48_typed: for each of the 17 typed kinds, Assemble() error-free => Disassemble() gives back an equal value.
//   VerifC48_raw:   every RawInstruction{Op,Jt,Jf,K} (2^16 * 2^8 * 2^8 * 2^32): if Disassemble() returns a typed
//                   instruction, its Assemble() succeeds and reproduces the raw word exactly.
//
// The statement does not hold literally on golang/net; the failing classes are known findings (known_findings.txt),
// each with a witness predicate that pins down the input class AND the exact (wrong) output, so that anything else
// is still reported:
//   C48-jump-canon       typed conditional jumps are canonicalised by jumpOpToTest (positive test with SkipTrue==0,
//                        negated test with SkipFalse!=0 come back as the complementary test with swapped skips)
//   C48-abs-extwindow    LoadAbsolute{Off>=0xfffff000} disassembles as LoadExtension (typed); raw absolute loads in
//                        that window with width 1/2 or K==0xfffff001 re-assemble to a different word (raw)
//   C48-enum-unvalidated Assemble accepts ALUOpConstant/ALUOpX with an undeclared ALUOp and LoadExtension with Num
//                        outside [0,0xfff]; the word belongs to another instruction
//   C48-dontcare         Disassemble ignores bits the kind does not use (Jt/Jf, K, high byte of Op, operand bit of neg and ja)
//   C48-load-dest-width  Disassemble ignores the destination-register bit of abs/ind/len/msh loads and the width of msh
//                        (0x81 "ldx #len" is decoded as "ld #len")
//
// Sensitivity (sh mut.sh, all caught):
//   bpf/instructions.go  'case opLoadWidth2:\n\t\t\tsz = 2' -> 'sz = 1'           VIOLATION in VerifC48_typed and _raw
//   bpf/instructions.go  'if sz != 4 || ri.K > 15 {' -> '... ri.K > 16 {'          VIOLATION in VerifC48_raw (assemble error)
//   bpf/instructions.go  'cond, flip = opJumpGE, true' -> 'cond, flip = opJumpGT, true'   VIOLATION in VerifC48_typed and _raw
// Native reproductions of one instance per class: repro/C48 (sh repro/run.sh C48 bpf).

func init() {
	vfRegister("VerifC48_typed", VerifC48_typed)
	vfRegister("VerifC48_raw", VerifC48_raw)
}

const (
	c48KeyJump  = "C48-jump-canon"
	c48KeyExt   = "C48-abs-extwindow"
	c48KeyEnum  = "C48-enum-unvalidated"
	c48KeyDC    = "C48-dontcare"
	c48KeyLoadD = "C48-load-dest-width"
)

func c48aluDeclared(op ALUOp) bool {
	// the ten declared binary operators: 0x00..0x70, 0x90, 0xa0
	return vfAnd(op&0xf == 0, vfAnd(op <= 0xa0, op != 0x80))
}

// c48negate is the complementary JumpTest (declared tests come in pairs 2i / 2i+1 except GT/LE and LT/GE).
func c48negate(c JumpTest) JumpTest {
	switch c {
	case JumpEqual:
		return JumpNotEqual
	case JumpNotEqual:
		return JumpEqual
	case JumpGreaterThan:
		return JumpLessOrEqual
	case JumpLessOrEqual:
		return JumpGreaterThan
	case JumpGreaterOrEqual:
		return JumpLessThan
	case JumpLessThan:
		return JumpGreaterOrEqual
	case JumpBitsSet:
		return JumpBitsNotSet
	case JumpBitsNotSet:
		return JumpBitsSet
	}
	return 0xffff
}

func c48positive(c JumpTest) bool {
	return c == JumpEqual || c == JumpGreaterThan || c == JumpGreaterOrEqual || c == JumpBitsSet
}

func VerifC48_typed() {
	kind := vfChoice("kind", 17)
	var ins Instruction
	switch kind {
	case 0:
		ins = LoadConstant{Dst: Register(vfU16("dst")), Val: vfU32("val")}
	case 1:
		ins = LoadScratch{Dst: Register(vfU16("dst")), N: vfInt("n")}
	case 2:
		ins = LoadAbsolute{Off: vfU32("off"), Size: vfInt("size")}
	case 3:
		ins = LoadIndirect{Off: vfU32("off"), Size: vfInt("size")}
	case 4:
		ins = LoadMemShift{Off: vfU32("off")}
	case 5:
		ins = LoadExtension{Num: Extension(vfInt("num"))}
	case 6:
		ins = StoreScratch{Src: Register(vfU16("src")), N: vfInt("n")}
	case 7:
		ins = ALUOpConstant{Op: ALUOp(vfU16("op")), Val: vfU32("val")}
	case 8:
		ins = ALUOpX{Op: ALUOp(vfU16("op"))}
	case 9:
		ins = NegateA{}
	case 10:
		ins = Jump{Skip: vfU32("skip")}
	case 11:
		ins = JumpIf{Cond: JumpTest(vfU16("cond")), Val: vfU32("val"), SkipTrue: vfU8("st"), SkipFalse: vfU8("sf")}
	case 12:
		ins = JumpIfX{Cond: JumpTest(vfU16("cond")), SkipTrue: vfU8("st"), SkipFalse: vfU8("sf")}
	case 13:
		ins = RetA{}
	case 14:
		ins = RetConstant{Val: vfU32("val")}
	case 15:
		ins = TXA{}
	case 16:
		ins = TAX{}
	}
	raw, err := ins.Assemble()
	if err != nil {
		vfReach("rejected")
		vfReach("end")
		return
	}
	vfReach("assembled")
	vfObserve("op", uint64(raw.Op))
	vfObserve("k", uint64(raw.K))
	back := raw.Disassemble()

	// Assemble([]Instruction) is the same function element-wise.
	raws, err2 := Assemble([]Instruction{ins})
	vfAssert(err2 == nil && len(raws) == 1 && raws[0] == raw, "Assemble(slice) == element Assemble")
	backs, all := Disassemble(raws)
	_, backIsRaw := back.(RawInstruction)
	vfAssert(len(backs) == 1 && all == !backIsRaw, "Disassemble(slice) allDecoded flag")

	const label = "Disassemble(Assemble(ins)) == ins"
	switch o := ins.(type) {
	case LoadConstant:
		b, ok := back.(LoadConstant)
		vfAssert(ok && b == o, label)
	case LoadScratch:
		b, ok := back.(LoadScratch)
		vfAssert(ok && b == o, label)
	case LoadAbsolute:
		b, ok := back.(LoadAbsolute)
		e, isExt := back.(LoadExtension)
		vfAssertKF(ok && b == o, label, c48KeyExt,
			vfAnd(o.Off >= 0xfffff000, isExt && e.Num == Extension(o.Off-0xfffff000)))
		vfReach("typed-loadabs-ok")
	case LoadIndirect:
		b, ok := back.(LoadIndirect)
		vfAssert(ok && b == o, label)
	case LoadMemShift:
		b, ok := back.(LoadMemShift)
		vfAssert(ok && b == o, label)
	case LoadExtension:
		b, ok := back.(LoadExtension)
		vfAssertKF(ok && b == o, label, c48KeyEnum, vfOr(o.Num < 0, o.Num > 0xfff))
		vfReach("typed-loadext-ok")
	case StoreScratch:
		b, ok := back.(StoreScratch)
		vfAssert(ok && b == o, label)
	case ALUOpConstant:
		b, ok := back.(ALUOpConstant)
		vfAssertKF(ok && b == o, label, c48KeyEnum, vfNot(c48aluDeclared(o.Op)))
		vfReach("typed-alu-ok")
	case ALUOpX:
		b, ok := back.(ALUOpX)
		vfAssertKF(ok && b == o, label, c48KeyEnum, vfNot(c48aluDeclared(o.Op)))
	case NegateA:
		_, ok := back.(NegateA)
		vfAssert(ok, label)
	case Jump:
		b, ok := back.(Jump)
		vfAssert(ok && b == o, label)
	case JumpIf:
		// o.Cond is one declared test on this path (jumpToRaw forked on it)
		b, ok := back.(JumpIf)
		canon := vfIteBool(c48positive(o.Cond), o.SkipTrue == 0, o.SkipFalse != 0)
		swapped := ok && b == JumpIf{Cond: c48negate(o.Cond), Val: o.Val, SkipTrue: o.SkipFalse, SkipFalse: o.SkipTrue}
		vfAssertKF(ok && b == o, label, c48KeyJump, vfAnd(canon, swapped))
		vfReach("typed-jumpif-ok")
	case JumpIfX:
		b, ok := back.(JumpIfX)
		canon := vfIteBool(c48positive(o.Cond), o.SkipTrue == 0, o.SkipFalse != 0)
		swapped := ok && b == JumpIfX{Cond: c48negate(o.Cond), SkipTrue: o.SkipFalse, SkipFalse: o.SkipTrue}
		vfAssertKF(ok && b == o, label, c48KeyJump, vfAnd(canon, swapped))
	case RetA:
		_, ok := back.(RetA)
		vfAssert(ok, label)
	case RetConstant:
		b, ok := back.(RetConstant)
		vfAssert(ok && b == o, label)
	case TXA:
		_, ok := back.(TXA)
		vfAssert(ok, label)
	case TAX:
		_, ok := back.(TAX)
		vfAssert(ok, label)
	}
	vfReach("end")
}

func VerifC48_raw() {
	raw := RawInstruction{Op: vfU16("op"), Jt: vfU8("jt"), Jf: vfU8("jf"), K: vfU32("k")}
	ins := raw.Disassemble()
	if r, isRaw := ins.(RawInstruction); isRaw {
		vfAssert(r == raw, "unrecognised words are passed through unchanged")
		vfReach("unknown")
		vfReach("end")
		return
	}
	vfReach("typed")
	re, err := ins.Assemble()
	ok := err == nil
	if !ok {
		re = RawInstruction{}
	}
	vfObserve("re.op", uint64(re.Op))
	vfObserve("re.k", uint64(re.K))

	// m1 = raw with the bits this kind does not use cleared (the only word the kind's Assemble can produce for it)
	opMask, jMask, kMask := uint16(0x00ff), uint8(0), uint32(0xffffffff)
	// m2 = m1 with the destination/width bits of abs/ind/len/msh loads forced to the only encodable value
	op2and, op2or := uint16(0xffff), uint16(0)
	absLoad := false
	switch ins.(type) {
	case ALUOpX, TAX, TXA, RetA:
		kMask = 0
	case NegateA:
		kMask = 0
		opMask = 0x00f7
	case Jump:
		opMask = 0x00f7
	case JumpIf:
		jMask = 0xff
	case JumpIfX:
		jMask = 0xff
		kMask = 0
	case LoadAbsolute, LoadIndirect:
		op2and = 0xfffe
	case LoadMemShift:
		op2and, op2or = 0, 0xb1
	case LoadExtension:
		op2and = 0xfffe
		if raw.Op&opMaskLoadMode == opAddrModePacketLen {
			kMask = 0
		} else {
			absLoad = true
		}
	}
	m1 := RawInstruction{Op: raw.Op & opMask, Jt: raw.Jt & jMask, Jf: raw.Jf & jMask, K: raw.K & kMask}
	m2 := m1
	m2.Op = m2.Op&op2and | op2or
	// ext window: what LoadExtension{Num: K-0xfffff000}.Assemble() is specified to give
	m3 := m2
	if absLoad {
		if vfConcretizeBool(raw.K == 0xfffff001) {
			m3 = RawInstruction{Op: opClsLoadA | opLoadWidth4 | opAddrModePacketLen}
		} else {
			m3.Op = opClsLoadA | opLoadWidth4 | opAddrModeAbsolute
		}
	}

	const label = "Assemble(Disassemble(raw)) == raw"
	cond := vfAnd(ok, re == raw)
	kDC := vfAnd(ok, re == m1)
	kLD := vfAnd(ok, vfAnd(re == m2, m2 != m1))
	kEX := vfAnd(ok, vfAnd(absLoad, vfAnd(re == m3, m3 != m2)))
	vfAssertKF(vfOr(cond, vfOr(kLD, kEX)), label, c48KeyDC, kDC)
	vfAssertKF(vfOr(cond, kEX), label, c48KeyLoadD, kLD)
	vfAssertKF(cond, label, c48KeyExt, kEX)
	vfReach("exact")
	vfReach("end")
}
