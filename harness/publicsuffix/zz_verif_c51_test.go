package publicsuffix

// C51 — public-suffix lookups follow the public suffix list algorithm.
//
// Oracle: the PSL algorithm (https://publicsuffix.org/list/: match every rule, exception rules prevail, otherwise the
// rule with the most labels, default rule "*") evaluated by the harness over the rule list `rules` of table_test.go
// (the generator's own dump of the list, 10133 rules; the first numICANNRules are the ICANN section). It never looks
// at the packed nodes/children/text tables that the code under test walks.
//
//   VerifC51_lookup  (B) domain = [0..1 symbolic labels of 1..3 bytes from [a-z0-9-] (first byte not a digit); thorough: 0..2
//                    below za, ck, uk, jp, com, de, net]
//                    + a top-level label chosen concretely: every third top-level label of the rule list of at most 3 bytes
//                    plus za, ck, uk, jp, com, de, net (thorough: every one, about 1450) plus the unlisted "q", "qq", "qqq". Label lengths are concretised; the rules
//                    under that top-level label whose shape (label count / lengths / leading "*") can match are compared
//                    symbolically without forking (vfOr / vfIte accumulation over packed label bytes).
//   VerifC51_rules   (B) templates from the rule list itself: every exception rule, every 4th wildcard rule and every 64th
//                    other rule R (thorough: every wildcard rule, every 16th other rule): the domains R, x.R and y.x.R with
//                    symbolic labels x (3 or 4 bytes; thorough also 1) and y (2 bytes). This reaches long labels, deep rules, wildcards below and above, and exceptions.
//   VerifC51_tlds    (B) every top-level label t of the rule list in both tiers (the complete top-level search range,
//                    first and last node included): the domains t and x.t with x = 2 symbolic bytes (thorough 1..3).
//   VerifC51_allrules (B) EVERY rule R of the list in both tiers: the domains R (concrete) and x.R with x = 1 symbolic byte (quick: x.R for
//                    every wildcard / exception rule and every 4th other rule);
//                    so every listed label, of every length up to the longest, is searched for at its place in the tree.
//   VerifC51_sorted  concrete pass: every child range of the packed table is strictly increasing (precondition of find).
//
// Sensitivity (mut.sh):
//   list.go find `hi = mid` -> `hi = mid - 1`                                   caught (suffix)
//   list.go `suffix = 1 + len(s)` (exception) -> `suffix = len(s)`              caught (whole labels)
//   list.go `wildcard = u&(1<<childrenBitsWildcard-1) != 0` -> `wildcard = false` caught (ICANN flag / suffix)
//   list.go EffectiveTLDPlusOne `domain[:i]` -> `domain[:i+1]`                   caught (eTLD+1)
//   list.go candidate repair of the known finding (`icann = icannNode` only if the node is not parent-only):
//            package tests pass, check passes without KNOWN-FINDING
//
// Finding C51-icann-inner-node (fixed in /repo 65afae2): see known_findings.txt and repro/C51.

import "strings"

func init() {
	vfRegister("VerifC51_lookup", VerifC51_lookup)
	vfRegister("VerifC51_rules", VerifC51_rules)
	vfRegister("VerifC51_sorted", VerifC51_sorted)
	vfRegister("VerifC51_tlds", VerifC51_tlds)
	vfRegister("VerifC51_allrules", VerifC51_allrules)
}

type c51rule struct {
	labels []string // left to right, without the "!" and with "*" kept
	wild   bool     // leftmost label is "*"
	exc    bool
	icann  bool
	packed bool   // the non-wildcard labels fit into pk (at most 8 bytes in total)
	pk     uint64 // those bytes, big-endian, left to right
}

// c51idx: rules grouped by shape and top-level label: label lengths left to right, "*" for a wildcard label, then
// "|" and the last label, e.g. "*,3,2|uk". c51deep: for every rule and every proper suffix of it (1 <= d < number of
// labels, no "*" inside), the suffix grouped the same way: these are the inner nodes of the rule tree (used only by
// the witness predicate of the known finding). c51tlds: distinct last labels in order of first appearance.
// Built once per process by the package initialiser (rules is initialised before, by dependency order).
var c51idx, c51deep, c51tlds = c51build()

func c51itoa(n int) string {
	if n < 10 {
		return string([]byte{byte('0' + n)})
	}
	return string([]byte{byte('0' + n/10), byte('0' + n%10)})
}

func c51key(labels []string) string {
	return c51shape(labels) + "|" + labels[len(labels)-1]
}

func c51shape(labels []string) string {
	k := ""
	for i, l := range labels {
		if i > 0 {
			k += ","
		}
		if l == "*" {
			k += "*"
		} else {
			k += c51itoa(len(l))
		}
	}
	return k
}

func c51parse(i int) c51rule {
	s := rules[i]
	r := c51rule{icann: i < numICANNRules}
	if s[0] == '!' {
		r.exc = true
		s = s[1:]
	}
	r.labels = strings.Split(s, ".")
	r.wild = r.labels[0] == "*"
	ls := r.labels
	if r.wild {
		ls = ls[1:]
	}
	r.pk, r.packed = c51pack(ls)
	return r
}

// c51pack packs the bytes of the labels (lengths are fixed by the shape key, so no separators are needed) into one
// integer: one equality per rule instead of one per byte keeps the reference formula small.
func c51pack(labels []string) (uint64, bool) {
	n := 0
	for _, l := range labels {
		n += len(l)
	}
	if n > 8 {
		return 0, false
	}
	var v uint64
	for _, l := range labels {
		for i := 0; i < len(l); i++ {
			v = v<<8 | uint64(l[i])
		}
	}
	return v, true
}

func c51build() (map[string][]c51rule, map[string][]c51rule, []string) {
	m := map[string][]c51rule{}
	deep := map[string][]c51rule{}
	seenDeep := map[string]bool{}
	seenTLD := map[string]bool{}
	var tlds []string
	for i := range rules {
		r := c51parse(i)
		k := c51key(r.labels)
		m[k] = append(m[k], r)
		n := len(r.labels)
		if !seenTLD[r.labels[n-1]] {
			seenTLD[r.labels[n-1]] = true
			tlds = append(tlds, r.labels[n-1])
		}
		for d := 1; d < n; d++ {
			suf := r.labels[n-d:]
			if suf[0] == "*" {
				continue
			}
			js := strings.Join(suf, ".")
			if seenDeep[js] {
				continue
			}
			seenDeep[js] = true
			x := c51rule{labels: suf}
			x.pk, x.packed = c51pack(suf)
			dk := c51key(suf)
			deep[dk] = append(deep[dk], x)
		}
	}
	return m, deep, tlds
}

func c51eq(r c51rule, cmp []string, v uint64, packed bool) bool {
	if packed {
		return v == r.pk
	}
	m := true
	for j := range cmp {
		m = vfAnd(m, r.labels[len(r.labels)-len(cmp)+j] == cmp[j])
	}
	return m
}

// c51want evaluates the PSL algorithm for the domain given as labels (left to right; concrete lengths, possibly
// symbolic bytes): number of labels of the public suffix, ICANN flag of the prevailing rule, and whether that flag is
// well defined (a wildcard rule and a plain rule of the same length from different sections both matching is the
// only way it is not).
func c51want(labels []string) (n int, icann bool, flagDefined bool, innerBeyond bool) {
	L := len(labels)
	n, icann, flagDefined = 1, false, true
	excN, excHit, excIcann := 0, false, false
	matchedN := 0 // labels of the prevailing listed rule, 0 if only the default rule matches
	for k := 1; k <= L; k++ {
		suf := labels[L-k:]
		anyK, icAny, icAll := false, false, true
		for ki := 0; ki < 2; ki++ {
			cmp, key := suf, c51key(suf)
			if ki == 1 {
				if k == 1 {
					break
				}
				cmp = suf[1:] // "*" matches any one label
				key = "*," + c51key(cmp)
			}
			v, packed := c51pack(cmp)
			for _, r := range c51idx[key] {
				m := c51eq(r, cmp, v, packed)
				if r.exc {
					excHit = vfOr(excHit, m)
					excN = vfIteInt(m, k-1, excN)
					excIcann = vfIteBool(m, r.icann, excIcann)
					continue
				}
				anyK = vfOr(anyK, m)
				icAny = vfOr(icAny, vfAnd(m, r.icann))
				icAll = vfAnd(icAll, vfImplies(m, r.icann))
			}
		}
		n = vfIteInt(anyK, k, n)
		matchedN = vfIteInt(anyK, k, matchedN)
		icann = vfIteBool(anyK, icAny, icann)
		flagDefined = vfIteBool(anyK, icAny == icAll, flagDefined)
	}
	n = vfIteInt(excHit, excN, n)
	icann = vfIteBool(excHit, excIcann, icann)
	flagDefined = vfOr(excHit, flagDefined)
	// witness predicate of the known finding: the domain continues along inner nodes of the rule tree (proper suffixes of
	// longer rules) beyond its prevailing rule
	for d := 1; d <= L; d++ {
		suf := labels[L-d:]
		v, packed := c51pack(suf)
		isInner := false
		for _, r := range c51deep[c51key(suf)] {
			isInner = vfOr(isInner, c51eq(r, suf, v, packed))
		}
		innerBeyond = vfOr(innerBeyond, vfAnd(isInner, d > matchedN))
	}
	innerBeyond = vfAnd(innerBeyond, vfNot(excHit))
	return
}

// c51check runs the two public functions on the domain and compares them with the reference.
func c51check(labels []string) {
	L := len(labels)
	domain := strings.Join(labels, ".")
	sufLen := make([]int, L+2) // sufLen[k] = byte length of the last k labels
	for k := 1; k <= L; k++ {
		sufLen[k] = sufLen[k-1] + len(labels[L-k])
		if k > 1 {
			sufLen[k]++
		}
	}
	sufLen[L+1] = -1
	got, icann := PublicSuffix(domain)
	wantN, wantIcann, flagDefined, innerBeyond := c51want(labels)
	vfAssert(len(got) <= len(domain) && got == domain[len(domain)-len(got):], "the result is a suffix of the domain")
	gotN := 0 // number of labels of the returned suffix (lengths are concrete)
	for k := 1; k <= L; k++ {
		if len(got) == sufLen[k] {
			gotN = k
		}
	}
	vfAssert(gotN >= 1, "the result consists of whole labels")
	vfAssert(wantN == gotN, "public suffix = labels matched by the prevailing rule")
	// (fixed finding C51-icann-inner-node, /repo 65afae2: the flag of an inner (parent-only) tree node, always true in the
	// shipped table, replaced the flag of the prevailing rule)
	_ = innerBeyond
	vfAssert(vfImplies(flagDefined, icann == wantIcann), "ICANN flag of the prevailing rule")

	// from here on the suffix is known to be the reference's (asserted above for every value on this path)
	e1, err := EffectiveTLDPlusOne(domain)
	vfAssert((err != nil) == (gotN == L), "eTLD+1 fails exactly when the domain is itself a public suffix")
	if err == nil {
		vfAssert(len(e1) == sufLen[gotN+1] && e1 == domain[len(domain)-len(e1):], "eTLD+1 = public suffix plus one label")
		vfReach("etld1")
	} else {
		vfReach("is-suffix")
	}
	vfObserve("suffixlen", uint64(len(got)))
	vfObserveBool("icann", icann)
	vfObserveStr("domain", domain)
}

func c51label(name string, n int, first bool) string {
	bs := make([]byte, n)
	for i := range bs {
		c := vfU8(name)
		ok := vfOr(vfAnd(c >= 'a', c <= 'z'), c == '-')
		if !(first && i == 0) {
			ok = vfOr(ok, vfAnd(c >= '0', c <= '9'))
		}
		vfAssume(ok)
		bs[i] = c
	}
	return string(bs)
}

// c51lookupTLDs: the top-level labels offered by VerifC51_lookup: the unlisted "q", "qq", "qqq"; quick: every third
// listed top-level label of at most 3 bytes plus a few with wildcard/exception/inner-node structure; thorough: all.
func c51lookupTLDs(all bool) []string {
	out := []string{"q", "qq", "qqq", "za", "ck", "uk", "jp", "com", "de", "net"}
	for i, t := range c51tlds {
		if all || (len(t) <= 3 && i%3 == 0) {
			out = append(out, t)
		}
	}
	return out
}

// c51pick chooses an index below n with two small selectors (a single selector over n alternatives costs n decisions).
func c51pick(label string, n int) int {
	hi := vfChoice(label+"hi", (n+31)/32)
	lo := vfChoice(label+"lo", 32)
	vfAssume(hi*32+lo < n)
	return hi*32 + lo
}

func VerifC51_lookup() {
	tlds := c51lookupTLDs(vfTier() > 0)
	ti := c51pick("tld", len(tlds))
	tld := tlds[ti]
	maxL := 1
	if vfTier() > 0 && ti >= 3 && ti < 10 {
		maxL = 2 // thorough: two symbolic labels below za, ck, uk, jp, com, de, net
	}
	L := vfLen("labels", 0, maxL)
	labels := make([]string, L, L+1)
	for i := range labels {
		labels[i] = c51label("label", vfLen("len", 1, 3), i == 0)
	}
	labels = append(labels, tld)
	c51check(labels)
	vfReach("end")
}

// VerifC51_tlds (B): EVERY top-level label t of the rule list, in both tiers (VerifC51_lookup samples them in the quick
// tier): the whole top-level search range of PublicSuffix including its first and last node. Domains t (concrete) and
// x.t with one symbolic label x of 2 bytes (thorough: 1..3 bytes), compared with the reference as everywhere else.
func VerifC51_tlds() {
	ti := c51pick("tld", len(c51tlds))
	tld := c51tlds[ti]
	var labels []string
	if vfBool("sub") {
		n := 2
		if vfTier() > 0 {
			n = vfLen("len", 1, 3)
		}
		labels = []string{c51label("x", n, true), tld}
		vfReach("below-tld")
	} else {
		labels = []string{tld}
		vfReach("tld-alone")
	}
	c51check(labels)
	vfReach("end")
}

// c51templates: indices into rules used by VerifC51_rules: every exception rule, every wstep-th wildcard rule, every
// step-th other rule.
func c51templates(step, wstep int) []int {
	var idx []int
	nw := 0
	for i, s := range rules {
		switch {
		case s[0] == '!':
			idx = append(idx, i)
		case s[0] == '*':
			if nw%wstep == 0 {
				idx = append(idx, i)
			}
			nw++
		case i%step == 0:
			idx = append(idx, i)
		}
	}
	return idx
}

func VerifC51_rules() {
	step, wstep := 64, 4
	if vfTier() > 0 {
		step, wstep = 16, 1
	}
	t := c51templates(step, wstep)
	r := c51parse(t[c51pick("rule", len(t))])
	base := r.labels
	if r.wild {
		base = base[1:]
	}
	var labels []string
	switch vfChoice("form", 3) {
	case 0:
		labels = base
	case 1:
		x := c51label("x", []int{3, 4, 1}[vfChoice("xlen", 2+vfTier())], true)
		labels = append([]string{x}, base...)
	case 2:
		x := c51label("x", []int{3, 4, 1}[vfChoice("xlen", 2+vfTier())], false)
		y := c51label("y", 2, true)
		labels = append([]string{y, x}, base...)
	}
	if r.exc {
		vfReach("exception-template")
	}
	if r.wild {
		vfReach("wildcard-template")
	}
	c51check(labels)
	vfReach("end")
}

// VerifC51_allrules (B): EVERY rule R of the embedded list (about 10100; VerifC51_rules samples them), in both tiers: the
// domain R itself (without "!" / "*.") and the domain x.R with one symbolic byte x from [a-z-] (quick: x.R only for
// wildcard rules, exception rules and every 4th other rule). "Domains built from every
// embedded rule": every listed label of every length (the shortest and the longest of the list included) is looked up at
// its own place in the tree at least once, and the step below every rule (wildcard children, exceptions, deeper rules
// that share the suffix) is taken once with a symbolic label.
func VerifC51_allrules() {
	ri := c51pick("rule", len(rules))
	r := c51parse(ri)
	base := r.labels
	if r.wild {
		base = base[1:]
	}
	labels := base
	if vfBool("sub") {
		// quick: the step below the rule for every wildcard and exception rule and every 4th other rule; thorough: all
		vfAssume(vfTier() > 0 || r.wild || r.exc || ri%4 == 0)
		labels = append([]string{c51label("x", 1, true)}, base...)
		vfReach("below-rule")
	} else {
		vfReach("rule-itself")
	}
	if r.exc {
		vfReach("exception-rule")
	}
	if r.wild {
		vfReach("wildcard-rule")
	}
	c51check(labels)
	vfReach("end")
}

// VerifC51_sorted: find's precondition on the shipped table: every child range (and the TLD range) is strictly
// increasing in label order. Concrete.
func VerifC51_sorted() {
	checkRange := func(lo, hi uint32) {
		for i := lo + 1; i < hi; i++ {
			vfAssert(nodeLabel(i-1) < nodeLabel(i), "child range strictly increasing")
		}
	}
	checkRange(0, numTLD)
	nchildren := uint32(len(children) / 4)
	for c := uint32(0); c < nchildren; c++ {
		u := children.get(c)
		lo := u & (1<<childrenBitsLo - 1)
		hi := (u >> childrenBitsLo) & (1<<childrenBitsHi - 1)
		vfAssert(lo <= hi && hi <= uint32(len(nodes)/5), "child range within the node table")
		checkRange(lo, hi)
	}
	vfObserve("children", uint64(nchildren))
	vfReach("end")
}

