package httpproxy

// C52, IDN part — NO_PROXY domain entries and request hosts with internationalised (non-ASCII) labels.
//
// VerifC52_idn (B): NoProxy = ONE domain entry  [ "" | "." | "*." ] + D + [ "" | ":dd" ]  where the domain D is
// A or A.xx, A one of three concrete IDN labels (Latin with a diaeresis, CJK, Hebrew = right-to-left) spelled either as
// U-label (Unicode) or as A-label ("xn--…"), xx two symbolic lower-case letters, dd two symbolic digits. The request
// host is R, y.R (y one symbolic letter) with R built the same way from the same or another IDN label, its own
// spelling (U / A, independent of the entry's) and its own symbolic letters (one of them upper case in one shape);
// port explicit (two symbolic digits) or the default of http / https. Whether the entry covers the request is decided
// by the reference on the ASCII (A-label) forms: "a domain matches itself and its subdomains (a leading '.' or '*.'
// matches subdomains only), optionally restricted to a port" — the spelling (Unicode or Punycode) of either side, the
// prefix and the port restriction are independent dimensions, so every combination of them is explored.
//
// The U-label / A-label pairs are fixed reference values (RFC 3492 encodings, cross-checked with an independent
// Punycode implementation); the code under test computes them with idna.Lookup.ToASCII (x/text tables, executed by
// the engine on the concrete non-ASCII bytes; the ASCII sibling label and the port stay symbolic).

import "net/url"

func init() { vfRegister("VerifC52_idn", VerifC52_idn) }

// c52idnLabels: {U-label, A-label}
func c52idnLabels() [][2]string {
	return [][2]string{
		{"bücher", "xn--bcher-kva"},
		{"示例", "xn--fsq092h"},
		{"א", "xn--4db"},
	}
}

func VerifC52_idn() {
	labs := c52idnLabels()
	// entry
	ea := vfChoice("eatom", len(labs))
	eU := vfChoice("espelling", 2) == 0
	eName := labs[ea][1] // reference: ASCII form, lower case
	eText := labs[ea][1]
	if eU {
		eText = labs[ea][0]
	}
	eSib := vfChoice("eshape", 2) == 1
	if eSib {
		t, lo := c52text("esib", "xx")
		eText, eName = eText+"."+t, eName+"."+lo
	}
	pre := vfChoice("prefix", 3)
	ent := c52ent{kind: 3, name: eName, matchSelf: pre == 0}
	np := []string{"", ".", "*."}[pre] + eText
	if vfChoice("eport", 2) == 1 {
		ent.port = c52port("eportd")
		np += ":" + ent.port
		vfReach("entry-with-port")
	}
	// request
	ra := ea
	if vfChoice("ratom", 2) == 1 {
		ra = (ea + 1) % len(labs)
	}
	rU := vfChoice("rspelling", 2) == 0
	rLower := labs[ra][1]
	rText := labs[ra][1]
	if rU {
		rText = labs[ra][0]
	}
	switch vfChoice("rshape", 3) {
	case 1:
		t, lo := c52text("rsib", "xx")
		rText, rLower = rText+"."+t, rLower+"."+lo
	case 2:
		t, lo := c52text("rsib", "xX")
		rText, rLower = rText+"."+t, rLower+"."+lo
	}
	if vfChoice("rsub", 2) == 1 {
		t, lo := c52text("rsub", "x")
		rText, rLower = t+"."+rText, lo+"."+rLower
	}
	u := &url.URL{Scheme: "http", Host: rText}
	port := "80"
	switch vfChoice("rport", 3) {
	case 1:
		u.Scheme, port = "https", "443"
	case 2:
		port = c52port("rportd")
		u.Host = rText + ":" + port
	}
	cfg := &Config{HTTPProxy: c52httpProxy, HTTPSProxy: c52httpsProxy, NoProxy: np}
	got, err := cfg.ProxyFunc()(u)

	exclude := c52match(ent, false, 0, [16]byte{}, rLower, port)
	vfAssert(err == nil, "no error without CGI")
	vfAssert((got == nil) == exclude, "IDN: no proxy exactly when the NO_PROXY domain entry covers the host (and port)")
	if got == nil {
		vfReach("idn-direct")
		if eU != rU {
			vfReach("idn-direct-across-spellings")
		}
	} else {
		vfReach("idn-proxied")
	}
	vfObserveBool("direct", got == nil)
	vfObserveStr("host", u.Host)
	vfObserveStr("noproxy", np)
	vfReach("end")
}
