package httpproxy

// C52 — proxy selection follows the documented NO_PROXY rules.
//
// Shape B: Config{HTTPProxy, HTTPSProxy concrete; NoProxy = one entry built from a typed template with symbolic
// contents, alone or before/after a fixed list of concrete entries; CGI}.ProxyFunc()(reqURL) with the request host
// built from a template as well (name / localhost / IPv4 / bracketed IPv6, optional port). The reference matcher
// follows the documentation of Config.NoProxy and of ProxyFunc and works on what the harness knows about the
// templates (address bytes, prefix length, lower-cased name, port digits).
//
// IDN entries and hosts: VerifC52_idn in zz_verif_c52_idn_test.go (seed C52-D: idnaASCII applied to the raw entry; caught, quick).
//
// Cost note (as in C53): template shapes (digit counts, dots, colons, letter case per position) are concrete,
// contents symbolic; each symbolic character has one character class so that parsers do not fork on it.
//
// Sensitivity (mut.sh):
//   proxy.go `strings.HasSuffix(host, m.host)` -> `HasSuffix(host, m.host[1:])` (suffix without the dot)  caught
//   proxy.go ipMatch.match `return m.port == "" || m.port == port` -> `return true`                    caught
//   proxy.go `if ip.IsLoopback() {` -> `if !ip.IsLoopback() {`                                           caught
//   proxy.go `matchHost = true` -> `matchHost = false`                                                   caught
//   proxy.go `if host == "localhost" {` -> `"localhost."`                                               caught
//   proxy.go `HasPrefix(phost, "*.")` -> `HasPrefix(phost, "*")`   not caught (differs only for entries like "*ab",
//            which the documentation does not define; outside the templates)

import (
	"net/url"
)

func init() {
	vfRegister("VerifC52_noproxy", VerifC52_noproxy)
	vfRegister("VerifC52_select", VerifC52_select)
}

type c52ent struct {
	kind      int // 0 ignored, 1 ip, 2 cidr, 3 domain, 4 all
	fam       int
	b         [16]byte
	plen      int
	port      string // "" = any
	name      string // lower-case, no leading dot
	matchSelf bool
}

func c52digit(label string) byte {
	d := vfU8(label)
	vfAssume(vfAnd(d >= '0', d <= '9'))
	return d
}

// c52text instantiates a pattern: 'x' = symbolic lower-case letter, 'X' = symbolic upper-case letter, other bytes
// literal. Returns the text and its lower-case form.
func c52text(label, pat string) (string, string) {
	bs := []byte(pat)
	lo := []byte(pat)
	for i := range bs {
		switch pat[i] {
		case 'x':
			c := vfU8(label)
			vfAssume(vfAnd(c >= 'a', c <= 'z'))
			bs[i], lo[i] = c, c
		case 'X':
			c := vfU8(label)
			vfAssume(vfAnd(c >= 'A', c <= 'Z'))
			bs[i], lo[i] = c, c+('a'-'A')
		}
	}
	return string(bs), string(lo)
}

// c52v4: "d.d.d.d" (shape 0) or "1dd.d.d.2d" (shape 1; reaches 127.x.x.x) with symbolic digits.
func c52v4(label string, shape int) (string, [4]byte) {
	d := func() (byte, byte) { c := c52digit(label); return c, c - '0' }
	c0, v0 := d()
	c1, v1 := d()
	c2, v2 := d()
	c3, v3 := d()
	if shape == 0 {
		return string([]byte{c0, '.', c1, '.', c2, '.', c3}), [4]byte{v0, v1, v2, v3}
	}
	c4, v4 := d()
	return string([]byte{'1', c0, c1, '.', c2, '.', c3, '.', '2', c4}), [4]byte{100 + 10*v0 + v1, v2, v3, 20 + v4}
}

func c52hex(label string, class int) (byte, byte) {
	c := vfU8(label)
	switch class {
	case 0:
		vfAssume(vfAnd(c >= '0', c <= '9'))
		return c, c - '0'
	case 1:
		vfAssume(vfAnd(c >= 'a', c <= 'f'))
		return c, c - 'a' + 10
	}
	vfAssume(vfAnd(c >= 'A', c <= 'F'))
	return c, c - 'A' + 10
}

// c52v6: "hh::h" (shape 0), "::h" (shape 1; reaches ::1), "::ffff:d.d.d.d" (shape 2).
func c52v6(label string, shape int) (string, [16]byte) {
	var b [16]byte
	switch shape {
	case 0:
		c1, v1 := c52hex(label, 1)
		c2, v2 := c52hex(label, 0)
		c3, v3 := c52hex(label, 2)
		b[1], b[15] = v1<<4|v2, v3
		return string([]byte{c1, c2, ':', ':', c3}), b
	case 1:
		c3, v3 := c52hex(label, 0)
		b[15] = v3
		return string([]byte{':', ':', c3}), b
	}
	s, q := c52v4(label, 0)
	copy(b[12:], q[:])
	return "::ffff:" + s, b
}

func c52port(label string) string {
	return string([]byte{c52digit(label), c52digit(label)})
}

func c52declen(label string, nd int) (string, int) {
	f := make([]byte, nd)
	v := 0
	for i := range f {
		f[i] = c52digit(label)
		v = v*10 + int(f[i]-'0')
	}
	return string(f), v
}

// c52entry builds one NO_PROXY entry and its reference view.
func c52entry(rich bool) (string, c52ent) {
	pick := func(label string, k int) int {
		if !rich {
			return 0
		}
		return vfChoice(label, k)
	}
	switch vfChoice("entrykind", 11) {
	case 0:
		return "*", c52ent{kind: 4}
	case 1: // "A domain name matches that name and all subdomains."
		t, lo := c52text("dom", []string{"xx", "xX", "xx.xx", "x"}[pick("domshape", 4)])
		return t, c52ent{kind: 3, name: lo, matchSelf: true}
	case 2: // "A domain name with a leading "." matches subdomains only."
		t, lo := c52text("dotdom", []string{"xx", "Xx"}[pick("dotshape", 2)])
		return "." + t, c52ent{kind: 3, name: lo}
	case 3: // "*.domain" is the same as ".domain"
		t, lo := c52text("stardom", "xx")
		return "*." + t, c52ent{kind: 3, name: lo}
	case 4: // domain with a literal port
		t, lo := c52text("domport", "xx")
		p := c52port("domportp")
		return t + ":" + p, c52ent{kind: 3, name: lo, matchSelf: true, port: p}
	case 5:
		s, q := c52v4("e4", pick("e4shape", 2))
		e := c52ent{kind: 1, fam: 4}
		copy(e.b[12:], q[:])
		return s, e
	case 6:
		s, q := c52v4("e4p", 0)
		p := c52port("e4pp")
		e := c52ent{kind: 1, fam: 4, port: p}
		copy(e.b[12:], q[:])
		return s + ":" + p, e
	case 7:
		s, q := c52v4("n4", pick("n4shape", 2))
		f, plen := c52declen("n4len", 2-pick("n4digits", 2))
		e := c52ent{kind: 2, fam: 4, plen: plen}
		copy(e.b[12:], q[:])
		if plen > 32 {
			// not a CIDR: falls through to "domain name" by the best-effort rule; such a name can never equal a
			// request host made of an IP literal or of letters, so it is modelled as ignored
			e.kind = 0
			vfReach("bad-prefix")
		}
		return s + "/" + f, e
	case 8:
		shape := pick("e6shape", 3)
		s, b := c52v6("e6", shape)
		e := c52ent{kind: 1, fam: 6, b: b}
		if shape == 2 {
			e.fam = 4
		}
		return s, e
	case 9:
		s, b := c52v6("e6p", pick("e6pshape", 2))
		p := c52port("e6pp")
		return "[" + s + "]:" + p, c52ent{kind: 1, fam: 6, b: b, port: p}
	}
	c1, v1 := c52hex("n6", 0)
	c2, v2 := c52hex("n6", 1)
	f, plen := c52declen("n6len", 3-pick("n6digits", 3))
	e := c52ent{kind: 2, fam: 6, plen: plen}
	e.b[1] = v1<<4 | v2
	if plen > 128 {
		e.kind = 0
	}
	return string([]byte{c1, c2}) + "::/" + f, e
}

func c52hasSuffix(s, suf string) bool {
	if len(s) < len(suf) {
		return false
	}
	return s[len(s)-len(suf):] == suf
}

func c52maskByte(k int) byte {
	return vfIteU8(k >= 8, 0xff, vfIteU8(k <= 0, 0, ^byte(0xff>>uint(k&7))))
}

// c52match: does entry e exclude the request (host lower-cased, port = explicit or scheme default)?
func c52match(e c52ent, isIP bool, fam int, hb [16]byte, host, port string) bool {
	portOK := true
	if e.port != "" {
		portOK = e.port == port
	}
	switch e.kind {
	case 4:
		return true
	case 1, 2:
		if !isIP || fam != e.fam {
			return false
		}
		off, plen := 0, e.plen
		if fam == 4 {
			off = 12
		}
		if e.kind == 1 {
			plen = 128
		}
		ok := true
		for j := off; j < 16; j++ {
			m := c52maskByte(plen - 8*(j-off))
			ok = vfAnd(ok, e.b[j]&m == hb[j]&m)
		}
		return vfAnd(ok, portOK)
	case 3:
		if isIP {
			return false
		}
		m := c52hasSuffix(host, "."+e.name)
		if e.matchSelf {
			m = vfOr(m, host == e.name)
		}
		return vfAnd(m, portOK)
	}
	return false
}

const (
	c52httpProxy  = "http://p1:3128"
	c52httpsProxy = "p2:8443" // no scheme: documented to mean http://p2:8443
)

func VerifC52_noproxy() {
	// request
	var hostText, hostLower string
	var isIP, loopback, localhost bool
	var fam int
	var hb [16]byte
	rk := vfChoice("reqkind", 4)
	place := vfChoice("place", 3)
	rich := place == 0 || vfTier() > 0 // thorough: every shape in every placement
	switch rk {
	case 0:
		if rich {
			hostText, hostLower = c52text("rname", []string{"xx", "x.xx", "xxx", "Xx", "x.xX", "xx.xx", "x.xx.xx", "x"}[vfChoice("rshape", 8)])
		} else {
			hostText, hostLower = c52text("rname", []string{"xx", "x.xx", "xxx"}[vfChoice("rshape", 3)])
		}
	case 1:
		hostText = []string{"localhost", "x.localhost"}[vfChoice("lh", 2)]
		hostLower = hostText
		localhost = hostText == "localhost"
	case 2:
		var q [4]byte
		shape := 0
		if rich {
			shape = vfChoice("r4shape", 2)
		}
		hostText, q = c52v4("r4", shape)
		isIP, fam = true, 4
		copy(hb[12:], q[:])
		loopback = q[0] == 127
	case 3:
		shape := vfChoice("r6shape", 3)
		hostText, hb = c52v6("r6", shape)
		isIP, fam = true, 6
		if shape == 2 {
			fam = 4
			loopback = hb[12] == 127
		} else {
			loopback = true
			for j := 0; j < 15; j++ {
				loopback = vfAnd(loopback, hb[j] == 0)
			}
			loopback = vfAnd(loopback, hb[15] == 1)
		}
		hostText = "[" + hostText + "]"
	}
	scheme, port := "http", ""
	u := &url.URL{Scheme: "http", Host: hostText}
	if vfChoice("explicitport", 2) == 1 {
		port = c52port("rport")
		u.Host = hostText + ":" + port
	} else if vfChoice("scheme", 2) == 1 {
		scheme, port = "https", "443"
	} else {
		port = "80"
	}
	u.Scheme = scheme

	// configuration
	text, e := c52entry(rich)
	ents := []c52ent{e}
	np := text
	if place != 0 {
		// concrete companions: 1.2.0.0/16, domain .ab (subdomains only), cd on port 81, [::2] on port 82
		ents = append(ents, c52ent{kind: 2, fam: 4, plen: 16, b: [16]byte{12: 1, 13: 2}}, c52ent{kind: 3, name: "ab"},
			c52ent{kind: 3, name: "cd", matchSelf: true, port: "81"}, c52ent{kind: 1, fam: 6, b: [16]byte{15: 2}, port: "82"})
		if place == 1 {
			np = " 1.2.0.0/16, .AB ,cd:81,[::2]:82," + np + ", ,"
		} else {
			np = np + " ,\t1.2.0.0/16, .AB ,cd:81,[::2]:82"
		}
		if e.kind == 4 && place == 2 {
			vfReach("star-first")
		}
	}
	cfg := &Config{HTTPProxy: c52httpProxy, HTTPSProxy: c52httpsProxy, NoProxy: np}
	got, err := cfg.ProxyFunc()(u)

	exclude := vfOr(localhost, loopback)
	for _, e := range ents {
		exclude = vfOr(exclude, c52match(e, isIP, fam, hb, hostLower, port))
	}
	vfAssert(err == nil, "no error without CGI")
	vfAssert((got == nil) == exclude, "no proxy exactly when localhost, loopback or a NO_PROXY entry matches")
	if got != nil {
		if scheme == "https" {
			vfAssert(got.Scheme == "http" && got.Host == "p2:8443", "https requests use HTTPS_PROXY")
		} else {
			vfAssert(got.Scheme == "http" && got.Host == "p1:3128", "http requests use HTTP_PROXY")
		}
		vfReach("proxied")
	} else {
		vfReach("direct")
	}
	vfObserveBool("direct", got == nil)
	vfObserveStr("host", u.Host)
	vfReach("end")
}

// VerifC52_select: which proxy is chosen, by scheme / configured proxies / CGI, for a host that does or does not
// match NO_PROXY (all concrete except the two symbolic letters of the host).
func VerifC52_select() {
	httpP := []string{"", c52httpProxy, "socks5://p3"}[vfChoice("httpproxy", 3)]
	httpsP := []string{"", c52httpsProxy, "https://p4:1/"}[vfChoice("httpsproxy", 3)]
	cgi := vfBool("cgi")
	scheme := []string{"http", "https", "ftp", ""}[vfChoice("scheme", 4)]
	host, lower := c52text("host", "xX.ab")
	np := []string{"", "yy.ab", "ab:443"}[vfChoice("noproxy", 3)]
	cfg := &Config{HTTPProxy: httpP, HTTPSProxy: httpsP, NoProxy: np, CGI: cgi}
	u := &url.URL{Scheme: scheme, Host: host}
	got, err := cfg.ProxyFunc()(u)

	want := ""
	wantErr := false
	switch scheme {
	case "https":
		want = httpsP
	case "http":
		want = httpP
		wantErr = cgi && httpP != ""
	}
	excluded := false
	switch np {
	case "yy.ab":
		excluded = lower == "yy.ab"
	case "ab:443":
		excluded = scheme == "https"
	}
	if wantErr {
		vfAssert(err != nil && got == nil, "HTTP_PROXY refused under CGI")
		vfReach("cgi-refused")
	} else {
		vfAssert(err == nil, "no error")
		if want == "" {
			vfAssert(got == nil, "no proxy configured for this scheme")
		} else {
			vfAssert((got == nil) == excluded, "NO_PROXY decides")
			if got != nil {
				wantHost := map[string]string{c52httpProxy: "p1:3128", "socks5://p3": "p3", c52httpsProxy: "p2:8443", "https://p4:1/": "p4:1"}[want]
				vfAssert(got.Host == wantHost, "the proxy of the request's scheme")
				vfReach("proxied")
			}
		}
	}
	vfObserveBool("direct", got == nil)
	vfReach("end")
}
