package httpguts

// C55 — HTTP header validity checks match the RFC grammar.
//
// Shape: pure functions on symbolic strings (lengths concretised by vfLen, every byte arbitrary 0..255).
//   VerifC55_name:   ValidHeaderFieldName(s)  <=> s non-empty and every byte an RFC 9110 tchar
//   VerifC55_rune:   IsTokenRune(r)           <=> r is a tchar, for every int32 r
//   VerifC55_value:  ValidHeaderFieldValue(s) <=> no byte < 0x20 other than HT and no 0x7f
//   VerifC55_token:  HeaderValuesContainsToken(values, tok) <=> some comma-separated element of some value, with
//                    surrounding SP/HT trimmed, equals tok ASCII-case-insensitively (reference: c55contains)
// The references are written from the RFC text (explicit character list, split/trim/fold) and do not use the
// package's tables.
//
// Known finding C55-tokenrune-negative: IsTokenRune(r) indexes isTokenTable[byte(r)] after checking only
// r < utf8.RuneSelf, so a negative rune whose low byte is a tchar (e.g. -223 -> '!') is reported as a token rune.
//
// Non-ASCII bytes: tokenEqual deliberately never matches an element containing a byte >= 0x80 ("No UTF-8 or
// non-ASCII allowed in tokens"); RFC tokens are ASCII, so the reference requires matching bytes to be ASCII as well
// (for an ASCII token this is exactly the statement; for a non-ASCII "token" the result is always false).
//
// Sensitivity (sh mut.sh, all caught):
//   http/httpguts/httplex.go  "'|':  true,"  -> "'|':  false,"                        VerifC55_name, _rune
//   http/httpguts/httplex.go  'return b < \' \' || b == del' -> 'return b < \' \''      VerifC55_value
//   http/httpguts/httplex.go  'for len(x) > 0 && isOWS(x[len(x)-1]) {' -> '... isOWS(x[0]) {'   VerifC55_token

func init() {
	vfRegister("VerifC55_name", VerifC55_name)
	vfRegister("VerifC55_rune", VerifC55_rune)
	vfRegister("VerifC55_value", VerifC55_value)
	vfRegister("VerifC55_token", VerifC55_token)
}

// c55tchar: RFC 9110 §5.6.2  tchar = "!" / "#" / "$" / "%" / "&" / "'" / "*" / "+" / "-" / "." / "^" / "_" / "`" /
// "|" / "~" / DIGIT / ALPHA.  Fork-free.
func c55tchar(b byte) bool {
	ok := vfAnd(b >= '0', b <= '9')
	ok = vfOr(ok, vfAnd(b >= 'a', b <= 'z'))
	ok = vfOr(ok, vfAnd(b >= 'A', b <= 'Z'))
	for _, c := range []byte("!#$%&'*+-.^_`|~") {
		ok = vfOr(ok, b == c)
	}
	return ok
}

func VerifC55_name() {
	nmax := 6
	if vfTier() > 0 {
		nmax = 10
	}
	n := vfLen("n", 0, nmax)
	s := vfString("s", n)
	want := n > 0
	for i := 0; i < n; i++ {
		want = vfAnd(want, c55tchar(s[i]))
	}
	got := ValidHeaderFieldName(s)
	vfObserveBool("valid", got)
	vfAssert(got == want, "ValidHeaderFieldName(s) <=> s is a non-empty token")
	if got {
		vfReach("valid")
	} else {
		vfReach("invalid")
	}
	vfReach("end")
}

func VerifC55_rune() {
	r := rune(vfI32("r"))
	want := vfAnd(vfAnd(r >= 0, r < 0x80), c55tchar(byte(r)))
	got := IsTokenRune(r)
	vfObserveBool("token", got)
	vfAssertKF(got == want, "IsTokenRune(r) <=> r is a tchar", "C55-tokenrune-negative", r < 0)
	if got {
		vfReach("tchar")
	} else {
		vfReach("not tchar")
	}
	vfReach("end")
}

func VerifC55_value() {
	nmax := 6
	if vfTier() > 0 {
		nmax = 10
	}
	n := vfLen("n", 0, nmax)
	s := vfString("s", n)
	want := true
	for i := 0; i < n; i++ {
		b := s[i]
		ctl := vfOr(b < 0x20, b == 0x7f)
		want = vfAnd(want, vfOr(vfNot(ctl), b == '\t'))
	}
	got := ValidHeaderFieldValue(s)
	vfObserveBool("valid", got)
	vfAssert(got == want, "ValidHeaderFieldValue(s) <=> no control byte other than HT")
	// spelled out: CR, LF, NUL always rejected
	for i := 0; i < n; i++ {
		b := s[i]
		vfAssert(vfImplies(vfOr(b == '\r', vfOr(b == '\n', b == 0)), !got), "CR, LF and NUL are rejected")
	}
	if got {
		vfReach("valid")
	} else {
		vfReach("invalid")
	}
	vfReach("end")
}

func c55lower(b byte) byte {
	return vfIteU8(vfAnd(b >= 'A', b <= 'Z'), b+32, b)
}

// c55elemEq: element v[lo:hi) (hi exclusive, both concrete) after trimming SP/HT on both sides equals tok,
// ASCII-case-insensitively. Fork-free: the trimmed element is v[a:b) for the unique (a,b) such that everything in
// [lo,a) and [b,hi) is SP/HT and v[a], v[b-1] are not (or a==b==hi for an all-blank element: then we take a=b).
func c55elemEq(v string, lo, hi int, tok string) bool {
	isWS := func(c byte) bool { return vfOr(c == ' ', c == '\t') }
	res := false
	for a := lo; a <= hi; a++ {
		for b := a; b <= hi; b++ {
			if b-a != len(tok) {
				continue
			}
			// [lo,a) blank, [b,hi) blank
			c := true
			for i := lo; i < a; i++ {
				c = vfAnd(c, isWS(v[i]))
			}
			for i := b; i < hi; i++ {
				c = vfAnd(c, isWS(v[i]))
			}
			if a < b {
				// maximal trim: the ends of the kept part are not blank
				c = vfAnd(c, vfNot(isWS(v[a])))
				c = vfAnd(c, vfNot(isWS(v[b-1])))
			} else if a != hi {
				// empty kept part: the whole element is blank; count it once (a == b == hi)
				continue
			}
			for i := 0; i < len(tok); i++ {
				x, y := v[a+i], tok[i]
				c = vfAnd(c, vfAnd(x < 0x80, y < 0x80))
				c = vfAnd(c, c55lower(x) == c55lower(y))
			}
			res = vfOr(res, c)
		}
	}
	return res
}

// c55contains: reference for one value. Elements are delimited by commas; since comma positions are symbolic the
// reference enumerates every candidate element [lo,hi) and requires that it is delimited by commas/ends and
// contains no comma.
func c55contains(v string, tok string) bool {
	n := len(v)
	res := false
	for lo := 0; lo <= n; lo++ {
		for hi := lo; hi <= n; hi++ {
			c := true
			if lo > 0 {
				c = vfAnd(c, v[lo-1] == ',')
			}
			if hi < n {
				c = vfAnd(c, v[hi] == ',')
			}
			for i := lo; i < hi; i++ {
				c = vfAnd(c, v[i] != ',')
			}
			res = vfOr(res, vfAnd(c, c55elemEq(v, lo, hi, tok)))
		}
	}
	return res
}

func VerifC55_token() {
	// shapes (value lengths..., token length): one long value, or two short ones (every value is searched)
	vmax, tmax := 4, 2
	if vfTier() > 0 {
		vmax, tmax = 5, 2
	}
	var values []string
	var tok string
	switch vfChoice("shape", 3) {
	case 0:
		tok = vfString("tok", vfLen("ntok", 0, tmax))
		values = []string{vfString("v", vfLen("vlen", 0, vmax))}
	case 1:
		tok = vfString("tok", vfLen("ntok", 0, 1))
		values = []string{vfString("v", vfLen("vlen", 0, 2)), vfString("v", vfLen("vlen", 0, 2))}
	default:
		tok = vfString("tok", vfLen("ntok", 0, 1))
		values = nil
	}
	want := false
	for _, v := range values {
		want = vfOr(want, c55contains(v, tok))
	}
	got := HeaderValuesContainsToken(values, tok)
	vfObserveBool("found", got)
	vfAssert(got == want, "HeaderValuesContainsToken <=> some trimmed comma-separated element equals the token (ASCII case-insensitive)")
	if got {
		vfReach("found")
	} else {
		vfReach("not found")
	}
	vfReach("end")
}
