package timeseries

import "time"

// C61 — time series keep an exact total of all observations; bucket-aligned ranges report exactly the
// observations added in them.
//
// Set-up: timeSeries.init (the in-package constructor behind NewTimeSeries/NewMinuteHourSeries) with harness
// resolutions {4,16} ns (powers of two so that the divisions by level.size are shifts for
// the solver; the production lists are package variables of the same shape), numBuckets N = 2 (thorough 3),
// an exact integer Observable (wrapping int64 sum) and a harness Clock.
//
// Proof shape I (one inductive step from an arbitrary valid state) + B (bounded real histories).
// The structure never inspects observation values and only combines them with Add/CopyFrom/Clear, so every
// stored value is the sum of the contributions of the individual observations (paper step: linearity).
// The harnesses therefore follow ONE arbitrary witness observation (vw at instant tw) through an arbitrary
// state in which all other observations contribute 0, and prove the invariant c61inv:
//   status 0 (not added yet): contributes nowhere;
//   status 1 (pending): dirty, pending == vw, and the pending bucket (P-S0, P] contains tw;
//   status 2 (merged): total == vw, and on every level whose retained window (end-N*size, end] contains tw
//     exactly the bucket (lo, lo+size] containing tw holds vw, every other bucket 0;
//   plus the shape facts (ends aligned and nested, newest == oldest-1 mod N, P aligned, P/lastAdd <= end0 ...).
// Steps from an arbitrary state satisfying c61inv: AddWithTime of the witness, AddWithTime of another
// observation, Latest (clock tick, advances levels), Total. Queries from an arbitrary state: Total() == vw iff
// added; Range(start, finish) with start/finish aligned to the level that serves it and start inside that
// level's window == vw iff start < tw <= finish (the (start, finish] convention is the one timeseries_test.go
// pins down: an observation at tu(1) is reported by Range(tu(0), tu(1))); Latest(level, num) == vw iff tw is
// inside the num newest buckets. By linearity: Total == sum of all v, aligned Range == sum of the v in it.
// VerifC61_history (B): real histories from the real initial state satisfy c61inv (so the (I) pre-states are
// not vacuous) and the first operations from the zero state establish it.
//
// FINDING on the unchanged tree (known_findings.txt key C61-add-behind-clock-misplaced, repro/C61): the step
// "add the witness" breaks the invariant exactly when pendingTime < t <= levels[0].end - resolution, a state
// reachable after Latest/LatestBuckets advanced the levels to the clock: AddWithTime then parks the observation
// with pendingTime = levels[0].end, so it is merged into a LATER bucket on every level; bucket-aligned Range and
// Latest misreport it (Total stays exact). VerifC61_addWitness and VerifC61_history assert through vfAssertKF
// with that predicate, so any other violation is still reported.
//
// Sensitivity (mut.sh, each caught by this check):
//   timeseries.go mergeValue  `(ts.numBuckets - 1) - int(`  ->  `ts.numBuckets - int(`   (VerifC61_total: invariant)
//   timeseries.go AddWithTime `ts.pending.Add(observation)` ->  `ts.pending.CopyFrom(observation)`
//                                                     (VerifC61_addOther: invariant; VerifC61_totals: Total != sum)

func init() {
	vfRegister("VerifC61_addWitness", VerifC61_addWitness)
	vfRegister("VerifC61_addOther", VerifC61_addOther)
	vfRegister("VerifC61_tick", VerifC61_tick)
	vfRegister("VerifC61_total", VerifC61_total)
	vfRegister("VerifC61_range", VerifC61_range)
	vfRegister("VerifC61_latest", VerifC61_latest)
	vfRegister("VerifC61_history", VerifC61_history)
	vfRegister("VerifC61_totals", VerifC61_totals)
}

type c61obs struct{ v int64 }

func (o *c61obs) Multiply(ratio float64)    { panic("c61: Multiply is outside the claim") }
func (o *c61obs) Add(other Observable)      { o.v += other.(*c61obs).v }
func (o *c61obs) Clear()                    { o.v = 0 }
func (o *c61obs) CopyFrom(other Observable) { o.v = other.(*c61obs).v }
func c61new() Observable                    { return &c61obs{} }

type c61clock struct{ now time.Time }

func (c *c61clock) Time() time.Time { return c.now }

func c61nb() int {
	if vfTier() > 0 {
		return 3
	}
	return 2
}

func c61res() []time.Duration { return []time.Duration{4, 16} }

// Instants are c61lo + a 16-bit offset: the coarsest retained window is N*64 ns <= 256 ns, so offsets up to
// 65535 ns include in-order, out-of-order, far-past and far-future (reset branch) cases; the narrow symbolic
// part keeps the 64-bit comparisons cheap for the solver (full-width instants take seconds per query).
const (
	c61lo = int64(1) << 40
	c61hi = c61lo + 1<<16
)

func c61time(label string) (time.Time, int64) {
	n := c61lo + int64(vfU16(label))
	return time.Unix(0, n), n
}

// c61input: instants passed to the API (observation times, clock readings) stay 1024 ns below the top of the
// state range so that a level end rounded up past them is still inside it (keeps c61inv closed under steps).
func c61input(label string) (time.Time, int64) {
	t, n := c61time(label)
	vfAssume(n < c61hi-1024)
	return t, n
}

// ghost: the witness observation
type c61ghost struct {
	status int // 0 not added, 1 pending, 2 merged
	tw, vw int64
}

func c61val(o Observable) int64 {
	if o == nil {
		return 0
	}
	return o.(*c61obs).v
}

// c61inv: the invariant (fork-free formula; oldest may be symbolic).
func c61inv(ts *timeSeries, g *c61ghost) bool {
	n := ts.numBuckets
	N := int64(n)
	ok := true
	e0 := ts.levels[0].end.UnixNano()
	s0 := int64(ts.levels[0].size)
	P := ts.pendingTime.UnixNano()
	la := ts.lastAdd.UnixNano()
	for i, l := range ts.levels {
		e := l.end.UnixNano()
		sz := int64(l.size)
		ok = vfAnd(ok, vfAnd(e >= c61lo, e < c61hi))
		ok = vfAnd(ok, e&(sz-1) == 0)
		ok = vfAnd(ok, vfAnd(l.oldest >= 0, l.oldest < n))
		ok = vfAnd(ok, l.newest == (l.oldest+n-1)%n)
		if i > 0 {
			p := ts.levels[i-1].end.UnixNano()
			ok = vfAnd(ok, vfAnd(e-sz < p, p <= e)) // the newest bucket of level i contains the end of level i-1
		}
		for j := 0; j < n; j++ {
			pos := int64((j - l.oldest + n) % n)
			hi := e - (N-1-pos)*sz
			covers := vfAnd(hi-sz < g.tw, g.tw <= hi)
			want := vfIteI64(vfAnd(g.status == 2, covers), g.vw, 0)
			ok = vfAnd(ok, c61val(l.buckets[j]) == want)
		}
	}
	ok = vfAnd(ok, vfAnd(P >= c61lo, P <= e0))
	ok = vfAnd(ok, P&(s0-1) == 0)
	ok = vfAnd(ok, vfAnd(la >= c61lo, la <= e0))
	ok = vfAnd(ok, c61val(ts.total) == vfIteI64(g.status == 2, g.vw, 0))
	ok = vfAnd(ok, c61val(ts.pending) == vfIteI64(g.status == 1, g.vw, 0))
	if g.status == 1 {
		ok = vfAnd(ok, ts.dirty)
		ok = vfAnd(ok, vfAnd(P-s0 < g.tw, g.tw <= P))
	}
	if g.status >= 1 {
		ok = vfAnd(ok, g.tw <= la)
	}
	return ok
}

// c61state builds an arbitrary state satisfying c61inv for an arbitrary witness. mode selects the
// (witness status, dirty) combinations: 0 = witness not added yet; 1 = witness added (pending, or merged with
// dirty free); 2 = witness merged and nothing pending. A state in which the witness was never added equals
// a state with a merged witness of value 0, so modes 1 and 2 also cover "not added" for the other operations.
func c61state(mode int) (*timeSeries, *c61clock, *c61ghost) {
	clk := &c61clock{}
	ts := new(timeSeries)
	res := c61res()
	n := c61nb()
	ts.init(res, c61new, n, clk)
	g := &c61ghost{vw: vfI64("vw")}
	switch mode {
	case 0:
		ts.dirty = vfBool("dirty")
	case 1:
		switch vfChoice("status/dirty", 3) {
		case 0:
			g.status, ts.dirty = 1, true
		case 1:
			g.status, ts.dirty = 2, true
		case 2:
			g.status, ts.dirty = 2, false
		}
	case 2:
		g.status = 2
	}
	_, g.tw = c61input("tw")
	// allocation pattern (same for every level; a nil bucket is an empty bucket): all allocated / none.
	alloc := vfChoice("allocation pattern", 2)
	for _, l := range ts.levels {
		e, _ := c61time("end")
		l.end = e
		l.oldest = vfChoice("oldest", n)
		l.newest = (l.oldest + n - 1) % n
		for j := range l.buckets {
			if alloc == 0 {
				l.buckets[j] = &c61obs{vfI64("bucket")}
			}
		}
	}
	ts.pendingTime, _ = c61time("pendingTime")
	ts.lastAdd, _ = c61time("lastAdd")
	ts.total.(*c61obs).v = vfI64("total")
	ts.pending.(*c61obs).v = vfI64("pending")
	vfAssume(c61inv(ts, g))
	return ts, clk, g
}

// known finding: an observation added with P < t <= end0-S0 (possible only after Latest/LatestBuckets advanced
// the levels past the pending time) is parked in the pending slot with pendingTime = end0, i.e. in a later bucket.
const c61key = "C61-add-behind-clock-misplaced"

// Step: the witness itself is added.
func VerifC61_addWitness() {
	ts, _, g := c61state(0)
	P, e0, s0 := ts.pendingTime.UnixNano(), ts.levels[0].end.UnixNano(), int64(ts.levels[0].size)
	behind := vfAnd(P < g.tw, g.tw <= e0-s0)
	ts.AddWithTime(&c61obs{g.vw}, time.Unix(0, g.tw))
	// deliberate case split: the witness belongs into the pending slot iff it falls into the pending bucket
	// (P-s0, P], or is newer than P and lands in (or opens) the newest finest bucket; otherwise it must be merged
	// into the past. (The unchanged code also parks it when P < tw <= e0-s0: the known finding.)
	if g.tw > P-s0 && (g.tw <= P || g.tw > e0-s0) {
		g.status = 1
		vfReach("witness pending")
	} else {
		g.status = 2
		vfReach("witness merged into the past")
	}
	vfAssertKF(c61inv(ts, g), "invariant after adding the witness", c61key, behind)
	vfReach("end")
}

// Step: another observation (contributing 0, see the linearity argument) is added.
func VerifC61_addOther() {
	ts, _, g := c61state(1)
	t, tn := c61input("t")
	P := ts.pendingTime.UnixNano()
	ts.AddWithTime(&c61obs{0}, t)
	if g.status == 1 && tn > P {
		g.status = 2
		vfReach("witness flushed")
	}
	vfAssert(c61inv(ts, g), "invariant after adding another observation")
	vfReach("end")
}

// Step: the clock is read by Latest (Latest = advance to the clock, flush, then a pure read: see VerifC61_latest).
func VerifC61_tick() {
	ts, clk, g := c61state(1)
	now, nn := c61input("now")
	clk.now = now
	got := ts.Latest(0, 0).(*c61obs).v
	if g.status == 1 {
		g.status = 2
	}
	vfAssert(got == 0, "Latest(0,0) is empty")
	vfAssert(c61inv(ts, g), "invariant after Latest")
	vfAssert(ts.levels[0].end.UnixNano() >= nn, "Latest advanced the levels to the clock")
	vfReach("end")
}

// Step + query: Total flushes the pending observation and reports every added observation exactly once.
func VerifC61_total() {
	ts, _, g := c61state(1)
	got := ts.Total().(*c61obs).v
	g.status = 2
	vfObserve("total", uint64(got))
	vfAssert(got == g.vw, "Total() counts every added observation exactly once")
	vfAssert(!ts.dirty, "nothing pending after Total")
	vfAssert(c61inv(ts, g), "invariant after Total")
	vfReach("end")
}

// Query from a flushed state (Range/extract starts with the same mergePendingUpdates as Total: VerifC61_total).
func VerifC61_range() {
	ts, _, g := c61state(2)
	L := vfChoice("level", len(ts.levels))
	start, sn := c61time("start")
	finish, fn := c61time("finish")
	vfAssume(sn <= fn)
	sz := int64(ts.levels[L].size)
	vfAssume(sn&(sz-1) == 0)
	vfAssume(fn&(sz-1) == 0)
	for l := 0; l <= L; l++ {
		ws := ts.levels[l].end.UnixNano() - int64(ts.levels[l].size)*int64(ts.numBuckets)
		if l < L {
			vfAssume(sn < ws) // not served from a finer level
		} else {
			vfAssume(sn >= ws) // start inside the retained window of level L
		}
	}
	got := ts.Range(start, finish).(*c61obs).v
	want := vfIteI64(vfAnd(sn < g.tw, g.tw <= fn), g.vw, 0)
	vfObserve("range", uint64(got))
	vfAssert(got == want, "aligned Range reports exactly the observations in (start, finish]")
	vfAssert(c61inv(ts, g), "invariant after Range")
	if L == 0 {
		vfReach("range served from level 0")
	} else {
		vfReach("range served from a coarser level")
	}
	vfReach("end")
}

// Query from a flushed state whose levels already reach the clock (the advancing part is VerifC61_tick).
func VerifC61_latest() {
	ts, clk, g := c61state(2)
	now, nn := c61input("now")
	vfAssume(nn <= ts.levels[0].end.UnixNano())
	clk.now = now
	L := vfChoice("level", len(ts.levels))
	num := vfLen("num", 0, ts.numBuckets)
	got := ts.Latest(L, num).(*c61obs).v
	e := ts.levels[L].end.UnixNano()
	lo := e - int64(num)*int64(ts.levels[L].size)
	want := vfIteI64(vfAnd(lo < g.tw, g.tw <= e), g.vw, 0)
	vfObserve("latest", uint64(got))
	vfAssert(got == want, "Latest(level, num) reports exactly the observations of the num newest buckets")
	vfAssert(c61inv(ts, g), "invariant after Latest")
	vfReach("end")
}

// B: real histories from the real initial state satisfy the invariant (witness followed, all other
// observations 0 as in the (I) harnesses), including the first operations from the zero state.
func VerifC61_history() {
	k := 2
	clk := &c61clock{}
	ts := new(timeSeries)
	ts.init(c61res(), c61new, c61nb(), clk)
	g := &c61ghost{vw: vfI64("vw")}
	_, g.tw = c61input("tw")
	wstep := vfChoice("witness step", k)
	adds := 0
	behind := false
	s0 := int64(ts.levels[0].size)
	for step := 0; step < k; step++ {
		op := 0
		if step != wstep {
			op = vfChoice("op", 3)
		}
		switch op {
		case 0:
			P := ts.pendingTime.UnixNano()
			e0 := ts.levels[0].end.UnixNano()
			if step == wstep {
				behind = vfAnd(P < g.tw, g.tw <= e0-s0) // zero P/e0 (no add / no tick yet): false unless a tick came first
				ts.AddWithTime(&c61obs{g.vw}, time.Unix(0, g.tw))
				if g.tw > P-s0 && (g.tw <= P || g.tw > e0-s0) { // as in VerifC61_addWitness (zero P/e0 before the first add/tick)
					g.status = 1
				} else {
					g.status = 2
				}
			} else {
				t, tn := c61input("t")
				ts.AddWithTime(&c61obs{0}, t)
				if g.status == 1 && tn > P {
					g.status = 2
				}
			}
			adds++
		case 1:
			now, _ := c61input("now")
			clk.now = now
			ts.Latest(0, 1)
			if g.status == 1 {
				g.status = 2
			}
			vfReach("tick")
		case 2:
			got := ts.Total().(*c61obs).v
			if g.status >= 1 {
				g.status = 2
				vfAssert(got == g.vw, "Total mid-history (witness added)")
			} else {
				vfAssert(got == 0, "Total mid-history (witness not added)")
			}
		}
		if adds > 0 {
			vfAssertKF(c61inv(ts, g), "invariant along a real history", c61key, behind)
		}
	}
	vfReach("end")
}

// B, direct statement: Total() == sum of all observations (arbitrary values, no linearity argument).
func VerifC61_totals() {
	k := 2
	clk := &c61clock{}
	ts := new(timeSeries)
	ts.init(c61res(), c61new, c61nb(), clk)
	var sum int64
	for step := 0; step < k; step++ {
		op := 0
		if step > 0 {
			op = vfChoice("op", 3)
		}
		switch op {
		case 0:
			v := vfI64("v")
			t, _ := c61input("t")
			ts.AddWithTime(&c61obs{v}, t)
			sum += v
		case 1:
			now, _ := c61input("now")
			clk.now = now
			ts.Latest(0, 1)
		case 2:
			vfAssert(ts.Total().(*c61obs).v == sum, "Total mid-history")
		}
	}
	tot := ts.Total().(*c61obs).v
	vfObserve("total", uint64(tot))
	vfAssert(tot == sum, "Total() == sum of all observations")
	vfReach("end")
}
