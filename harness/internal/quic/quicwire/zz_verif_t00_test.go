package quicwire

// T00 — engine self-test (not a property of golang/net): small functions with known verdicts.
// VerifT00_ok_*  must hold; VerifT00_bad_* must produce a violation that replays natively.
// Run by `symgo selftest` (part of setup_cmd).

import (
	"errors"
	"sort"
	"strings"
)

func init() {
	for name, f := range map[string]func(){
		"VerifT00_ok_arith": VerifT00_ok_arith, "VerifT00_ok_shift": VerifT00_ok_shift, "VerifT00_ok_conv": VerifT00_ok_conv,
		"VerifT00_ok_slices": VerifT00_ok_slices, "VerifT00_ok_strings": VerifT00_ok_strings, "VerifT00_ok_maps": VerifT00_ok_maps,
		"VerifT00_ok_defer": VerifT00_ok_defer, "VerifT00_ok_iface": VerifT00_ok_iface, "VerifT00_ok_generic": VerifT00_ok_generic,
		"VerifT00_ok_table": VerifT00_ok_table, "VerifT00_ok_goroutines": VerifT00_ok_goroutines, "VerifT00_ok_muldiv": VerifT00_ok_muldiv,
		"VerifT00_ok_sort": VerifT00_ok_sort, "VerifT00_ok_errors": VerifT00_ok_errors,
		"VerifT00_bad_offbyone": VerifT00_bad_offbyone, "VerifT00_bad_index": VerifT00_bad_index, "VerifT00_bad_overflow": VerifT00_bad_overflow,
		"VerifT00_bad_divzero": VerifT00_bad_divzero, "VerifT00_bad_nilmap": VerifT00_bad_nilmap, "VerifT00_bad_rare": VerifT00_bad_rare,
	} {
		vfRegister(name, f)
	}
}

func VerifT00_ok_arith() {
	a, b := vfU32("a"), vfU32("b")
	vfAssert(a+b == b+a, "commutative")
	vfAssert((a^b)^b == a, "xor involution")
	vfAssert(a&^b == a&(^b), "andnot")
	x := vfI64("x")
	vfAssume(x > -1000 && x < 1000)
	vfAssert(x*2/2 == x, "small mul/div")
	vfAssert((x%7 < 7) && (x%7 > -7), "rem range")
	vfObserve("sum", uint64(a+b))
	vfReach("end")
}

func VerifT00_ok_shift() {
	a := vfU32("a")
	s := vfU8("s")
	r := a << s
	if s >= 32 {
		vfAssert(r == 0, "shift count >= width gives 0")
	} else {
		vfAssert(r>>s == a&(0xffffffff>>s), "shift round trip")
	}
	i := vfI32("i")
	vfAssert(i>>31 == 0 || i>>31 == -1, "arithmetic shift sign fill")
	vfObserve("r", uint64(r))
	vfReach("end")
}

func VerifT00_ok_conv() {
	b := vfU8("b")
	vfAssert(int8(b) < 0 == (b >= 128), "uint8->int8")
	vfAssert(uint64(int64(int8(b))) == uint64(int64(int8(b))), "sign extension stable")
	x := vfI64("x")
	vfAssert(int64(uint32(x)) == x&0xffffffff, "truncate+zero extend")
	vfAssert(int64(int32(x)) == x<<32>>32, "truncate+sign extend")
	vfObserve("c", uint64(int64(int8(b))))
	vfReach("end")
}

func VerifT00_ok_slices() {
	n := vfLen("n", 0, 3)
	b := vfBytes("b", n)
	c := append([]byte{0xff}, b...)
	vfAssert(len(c) == n+1, "append length")
	d := make([]byte, 2, 8)
	e := append(d[:1], c...)
	vfAssert(len(e) == n+2 && e[1] == 0xff, "append in place")
	copy(e, e[1:])
	vfAssert(e[0] == 0xff, "overlapping copy")
	i := vfU8("i")
	if int(i) < len(c) {
		vfAssert(c[i] == append([]byte{0xff}, b...)[i], "symbolic index read")
	}
	var arr [4]uint16
	j := vfU8("j")
	vfAssume(j < 4)
	arr[j] = 7
	sum := arr[0] + arr[1] + arr[2] + arr[3]
	vfAssert(sum == 7, "symbolic index write")
	vfObserveBytes("c", c)
	vfReach("end")
}

func VerifT00_ok_strings() {
	s := vfString("s", 3)
	t := "x" + s + "y"
	vfAssert(len(t) == 5 && t[0] == 'x' && t[4] == 'y', "concat")
	vfAssert(strings.HasPrefix(t, "x"), "HasPrefix")
	vfAssert(strings.IndexByte(t, 'x') == 0, "IndexByte")
	vfAssert(strings.Contains(t, "y"), "Contains")
	vfAssert(strings.TrimSuffix(t, "y") == "x"+s, "TrimSuffix")
	vfAssert((s == "abc") == (s[0] == 'a' && s[1] == 'b' && s[2] == 'c'), "string equality")
	vfObserveStr("t", t)
	vfReach("end")
}

func VerifT00_ok_maps() {
	m := map[string]int{"a": 1, "bb": 2}
	k := vfString("k", 1)
	v, ok := m[k]
	vfAssert(ok == (k == "a"), "symbolic key lookup")
	vfAssert(!ok || v == 1, "value")
	m[k] = 5
	vfAssert(m[k] == 5, "update")
	vfAssert(len(m) == 2 || len(m) == 3, "size")
	delete(m, "bb")
	_, ok2 := m["bb"]
	vfAssert(!ok2, "delete")
	n := 0
	for range m {
		n++
	}
	vfAssert(n == len(m), "range count")
	vfObserve("len", uint64(len(m)))
	vfReach("end")
}

func t00safe(f func()) (err error) {
	defer func() {
		if r := recover(); r != nil {
			err = errors.New("recovered")
		}
	}()
	f()
	return nil
}

func VerifT00_ok_defer() {
	i := vfU8("i")
	arr := []int{1, 2, 3}
	err := t00safe(func() { _ = arr[i] })
	vfAssert((err != nil) == (i >= 3), "recovered index panic iff out of range")
	order := ""
	func() {
		defer func() { order += "a" }()
		defer func() { order += "b" }()
	}()
	vfAssert(order == "ba", "defer LIFO")
	vfReach("end")
}

type t00shape interface{ area() uint32 }
type t00sq struct{ s uint32 }
type t00rect struct{ w, h uint32 }

func (s t00sq) area() uint32   { return s.s * s.s }
func (r t00rect) area() uint32 { return r.w * r.h }

func VerifT00_ok_iface() {
	a := vfU32("a")
	vfAssume(a < 1000)
	var sh t00shape
	if vfBool("sq") {
		sh = t00sq{a}
	} else {
		sh = t00rect{a, a}
	}
	vfAssert(sh.area() == a*a, "dynamic dispatch")
	_, isSq := sh.(t00sq)
	switch sh.(type) {
	case t00sq:
		vfAssert(isSq, "type switch")
	case t00rect:
		vfAssert(!isSq, "type switch 2")
	}
	vfReach("end")
}

func t00max[T ~int | ~uint8](a, b T) T {
	if a > b {
		return a
	}
	return b
}

func VerifT00_ok_generic() {
	a, b := vfU8("a"), vfU8("b")
	m := t00max(a, b)
	vfAssert(m >= a && m >= b && (m == a || m == b), "generic max")
	vfAssert(min(a, b) <= max(a, b), "builtin min/max")
	vfReach("end")
}

var t00tab = [16]uint16{3, 1, 4, 1, 5, 9, 2, 6, 5, 3, 5, 8, 9, 7, 9, 3}

func VerifT00_ok_table() {
	i := vfU8("i")
	vfAssume(i < 16)
	v := t00tab[i]
	vfAssert(v >= 1 && v <= 9, "table range")
	vfAssert((v == 4) == (i == 2), "unique entry")
	vfReach("end")
}

func VerifT00_ok_goroutines() {
	vfNoDeadlock()
	ch := make(chan int, 1)
	done := make(chan bool)
	total := 0
	go func() {
		for v := range ch {
			total += v
		}
		done <- true
	}()
	ch <- 1
	ch <- 2
	close(ch)
	<-done
	vfAssert(total == 3, "all values received before done")
	vfReach("end")
}

func VerifT00_ok_muldiv() {
	// needs real solver work (not enumeration): 64-bit, division by a constant
	x := vfU64("x")
	vfAssume(x < 1<<40)
	vfAssert((x*1000)/1000 == x, "mul/div by constant")
	vfAssert(x/10*10+x%10 == x, "div/mod identity")
	vfReach("end")
}

func VerifT00_ok_sort() {
	a := []int{int(vfU8("a")), int(vfU8("b")), int(vfU8("c"))}
	sort.Ints(a)
	vfAssert(a[0] <= a[1] && a[1] <= a[2], "sorted")
	vfReach("end")
}

var t00sentinel = errors.New("sentinel")

type t00wrap struct{ err error }

func (w *t00wrap) Error() string { return "wrap" }
func (w *t00wrap) Unwrap() error { return w.err }

func VerifT00_ok_errors() {
	var err error = &t00wrap{t00sentinel}
	vfAssert(errors.Is(err, t00sentinel), "errors.Is through Unwrap")
	var w *t00wrap
	vfAssert(errors.As(err, &w) && w.err == t00sentinel, "errors.As")
	vfReach("end")
}

func VerifT00_bad_offbyone() {
	v := vfU64("v")
	vfAssume(v <= MaxVarint)
	// wrong on purpose: claims 2-byte encodings reach 16384
	want := 8
	if v <= 63 {
		want = 1
	} else if v <= 16384 {
		want = 2
	} else if v <= 1073741823 {
		want = 4
	}
	vfAssert(SizeVarint(v) == want, "deliberately wrong boundary")
}

func VerifT00_bad_index() {
	b := vfBytes("b", 3)
	i := vfU8("i")
	vfAssume(i <= 3) // one too many
	_ = b[i]
}

func VerifT00_bad_overflow() {
	a, b := vfI32("a"), vfI32("b")
	vfAssume(a > 0 && b > 0)
	vfAssert(a+b > 0, "int32 addition cannot wrap (false)")
}

func VerifT00_bad_divzero() {
	a := vfU16("a")
	_ = 1000 / (a - 77)
}

func VerifT00_bad_nilmap() {
	var m map[int]int
	if vfU8("k") == 200 {
		m[1] = 2
	}
}

func VerifT00_bad_rare() {
	x := vfU64("x")
	vfAssert(x*3 != 0x123456789abcdef0*3, "a single failing 64-bit value")
}
