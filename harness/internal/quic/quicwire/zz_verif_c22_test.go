package quicwire

// C22 — QUIC variable-length integers round-trip for all 62-bit values.

func init() {
	vfRegister("VerifC22_roundtrip", VerifC22_roundtrip)
	vfRegister("VerifC22_toolarge", VerifC22_toolarge)
	vfRegister("VerifC22_consume", VerifC22_consume)
	vfRegister("VerifC22_bytes", VerifC22_bytes)
	vfRegister("VerifC22_bytesBoundary", VerifC22_bytesBoundary)
}

// Every v < 2^62: shortest encoding, size agreement, prefix preserved, decode returns v with any tail (0, 1, 2, 7 or
// 8 arbitrary bytes after the encoding).
func VerifC22_roundtrip() {
	v := vfU64("v")
	vfAssume(v <= MaxVarint)
	np := vfLen("prefixlen", 0, 2)
	prefix := vfBytes("prefix", np)
	nt := vfChoice("taillen", 5) // 0, 1, 2 bytes, or enough for the buffer to reach 8 / 9 bytes in every size class
	if nt >= 3 {
		nt += 4 // 7, 8
	}
	tail := vfBytes("tail", nt)

	enc := AppendVarint(append([]byte(nil), prefix...), v)
	size := SizeVarint(v)
	vfAssert(len(enc) == np+size, "len == prefix + SizeVarint")
	for i := 0; i < np; i++ {
		vfAssert(enc[i] == prefix[i], "prefix preserved")
	}
	// shortest form
	want := 8
	if v <= 63 {
		want = 1
	} else if v <= 16383 {
		want = 2
	} else if v <= 1073741823 {
		want = 4
	}
	vfAssert(size == want, "shortest form")
	vfObserve("size", uint64(size))
	buf := append(enc[np:], tail...)
	got, n := ConsumeVarint(buf)
	vfAssert(n == size, "consumed size")
	vfAssert(got == v, "decoded value")
	gi, n2 := ConsumeVarintInt64(buf)
	vfAssert(n2 == size && gi == int64(v), "int64 variant")
	vfObserve("decoded", got)
	vfReach("end")
}

// v >= 2^62: both AppendVarint and SizeVarint panic.
func VerifC22_toolarge() {
	v := vfU64("v")
	vfAssume(v > MaxVarint)
	p1 := vfExpectPanic(func() { AppendVarint(nil, v) })
	p2 := vfExpectPanic(func() { SizeVarint(v) })
	vfAssert(p1, "AppendVarint panics above 2^62-1")
	vfAssert(p2, "SizeVarint panics above 2^62-1")
	vfReach("end")
}

// Arbitrary 0..9 bytes: never out of range, -1 iff too short, re-encoding decodes to the same value.
func VerifC22_consume() {
	n := vfLen("n", 0, 9)
	b := vfBytes("b", n)
	v, k := ConsumeVarint(b)
	need := 0
	if n > 0 {
		need = 1 << (b[0] >> 6)
	}
	if n == 0 || n < need {
		vfAssert(k == -1, "short input gives -1")
		vfReach("short")
	} else {
		vfAssert(k == need, "consumed = length class")
		vfAssert(k <= n, "consumed <= len")
		vfAssert(v <= MaxVarint, "value < 2^62")
		// RFC 9000 §16: the value is the big-endian integer of the `need` bytes without the two length bits,
		// whatever follows them (added after seeded change C22-D: a fast path for buffers of 8 or more bytes)
		want := uint64(b[0] & 0x3f)
		for i := 1; i < need; i++ {
			want = want<<8 | uint64(b[i])
		}
		vfAssert(v == want, "value = big-endian integer of the encoding's bytes")
		re := AppendVarint(nil, v)
		v2, k2 := ConsumeVarint(re)
		vfAssert(v2 == v && k2 == len(re), "re-encode decodes to same value")
		vfAssert(len(re) <= k, "canonical re-encoding is not longer")
		vfObserve("v", v)
		vfReach("ok")
	}
	u32, k32 := ConsumeUint32(b)
	if n < 4 {
		vfAssert(k32 == -1, "uint32 short")
	} else {
		vfAssert(k32 == 4 && u32 == uint32(b[0])<<24|uint32(b[1])<<16|uint32(b[2])<<8|uint32(b[3]), "uint32 big endian")
	}
	u64, k64 := ConsumeUint64(b)
	if n < 8 {
		vfAssert(k64 == -1, "uint64 short")
	} else {
		var want uint64
		for i := 0; i < 8; i++ {
			want = want<<8 | uint64(b[i])
		}
		vfAssert(k64 == 8 && u64 == want, "uint64 big endian")
	}
	vfReach("end")
}

// Length-prefixed byte strings.
func VerifC22_bytes() {
	n := vfLen("n", 0, 4)
	v := vfBytes("v", n)
	nt := vfLen("taillen", 0, 2)
	tail := vfBytes("tail", nt)
	e1 := append(AppendUint8Bytes(nil, v), tail...)
	g1, k1 := ConsumeUint8Bytes(e1)
	vfAssert(k1 == 1+n && len(g1) == n, "uint8bytes length")
	for i := 0; i < n; i++ {
		vfAssert(g1[i] == v[i], "uint8bytes content")
	}
	e2 := append(AppendVarintBytes(nil, v), tail...)
	g2, k2 := ConsumeVarintBytes(e2)
	vfAssert(k2 == 1+n && len(g2) == n, "varintbytes length")
	for i := 0; i < n; i++ {
		vfAssert(g2[i] == v[i], "varintbytes content")
	}
	// arbitrary input
	m := vfLen("m", 0, 5)
	b := vfBytes("b", m)
	r1, j1 := ConsumeUint8Bytes(b)
	vfAssert(j1 == -1 || (j1 <= m && len(r1) == j1-1 && j1 == 1+int(b[0])), "ConsumeUint8Bytes bounds")
	r2, j2 := ConsumeVarintBytes(b)
	vfAssert(j2 == -1 || (j2 <= m && len(r2) <= j2), "ConsumeVarintBytes bounds")
	vfReach("end")
}

// Length-prefixed helpers at the size boundaries of the prefix: payloads of 62..64 (1/2-byte varint prefix) and
// 253..255 bytes (largest uint8 prefix; AppendUint8Bytes panics above 255). Contents concrete except 3 symbolic bytes.
// Added after seeded change C22-B (uint8 arithmetic wrapping at a 255-byte payload).
func VerifC22_bytesBoundary() {
	sizes := []int{62, 63, 64, 253, 254, 255, 256}
	n := sizes[vfChoice("size", len(sizes))]
	v := make([]byte, n)
	for i := range v {
		v[i] = byte(i)
	}
	v[0], v[n/2], v[n-1] = vfU8("first"), vfU8("mid"), vfU8("last")
	nt := vfLen("taillen", 0, 1)
	tail := vfBytes("tail", nt)
	if n <= 255 {
		e1 := append(AppendUint8Bytes(nil, v), tail...)
		g1, k1 := ConsumeUint8Bytes(e1)
		vfAssert(k1 == 1+n, "uint8bytes: consumed = 1 + payload length")
		vfAssert(len(g1) == n && g1[0] == v[0] && g1[n/2] == v[n/2] && g1[n-1] == v[n-1], "uint8bytes: payload")
		_, kshort := ConsumeUint8Bytes(e1[:n]) // one byte short
		vfAssert(kshort == -1, "uint8bytes: truncated input reported")
	} else {
		vfAssert(vfExpectPanic(func() { AppendUint8Bytes(nil, v) }), "uint8bytes: payload above 255 bytes panics")
		vfReach("too-long")
	}
	e2 := append(AppendVarintBytes(nil, v), tail...)
	g2, k2 := ConsumeVarintBytes(e2)
	vfAssert(k2 == SizeVarint(uint64(n))+n, "varintbytes: consumed = prefix + payload length")
	vfAssert(len(g2) == n && g2[0] == v[0] && g2[n-1] == v[n-1], "varintbytes: payload")
	_, k2short := ConsumeVarintBytes(e2[:len(e2)-nt-1])
	vfAssert(k2short == -1, "varintbytes: truncated input reported")
	vfObserve("k2", uint64(k2))
	vfReach("end")
}
