package httpsfv

// C56 — Structured-field parsing follows RFC 9651.
//
// Shape: differential, pure functions. The input is a symbolic string (length concretised); the real Parse* function
// runs on it, then c56ref — a transliteration of the RFC 9651 §4.2 parsing algorithms, step by step, working on
// positions in the same string — runs on it, and acceptance plus everything reported through the callbacks (member /
// key, bare-item text, parameter text, in order) resp. the typed value are compared.
//
// "Accepts" for an entry point means: the RFC algorithm for that structure (§4.2.1 list, §4.2.2 dictionary, §4.2.3
// item, §4.2.1.2 inner list up to and including ")", §4.2.3.2 parameters, §4.2.4–§4.2.10 for the bare-item types)
// succeeds and consumes the whole input. The field-level step of §4.2 (strip leading/trailing SP) belongs to the
// caller; inputs of Item/List/Dictionary are assumed not to begin or end with SP.
//
// Typed values are compared for ParseInteger, ParseBoolean, ParseToken, ParseDate, ParseDisplayString (statement);
// ParseDecimal: acceptance only on symbolic inputs (float), exact value on the concrete templates;
// ParseString / ParseByteSequence return the raw (un-unescaped / un-decoded) text by design: acceptance and raw text.
// Base64 decodability of byte sequences (§4.2.7 step 7, left to the decoder's leniency by the RFC) is not modelled.
// Duplicate keys: the package reports every occurrence in order; the RFC's "last value wins" map is what a caller gets
// by applying the callbacks in order, so sequences are compared.
//
// Known findings (the reference can emulate each deviation; a mismatch with the strict reference is "known" only if
// the code equals the emulating reference AND that deviation was exercised on the input):
//   C56-dict-missing-comma   ParseDictionary does not require "," between members ("a b", "u=1 i")
//   C56-htab-as-sp           inner lists and parameters skip HTAB where the RFC discards SP only ("(\ta)", "a;\tb")
//   C56-display-fffd         a correctly encoded U+FFFD (%ef%bf%bd) in a display string is rejected
//   C56-innerlist-unclosed   an inner list that ends right after "(" is accepted ("(", "a=(", "a, (")
//
// Sensitivity (sh mut.sh ... C56, all caught):
//   internal/httpsfv/httpsfv.go 'if i-signOffset > 12 {' -> '> 13 {'                      VerifC56_long
//   internal/httpsfv/httpsfv.go 'if i-periodIndex-1 > 3 {' -> '> 4 {'                     VerifC56_long (missed before shapes 1.4 / 11.4 were added)
//   internal/httpsfv/httpsfv.go 'if ch = s[i]; ch != \'"\' && ch != \'\\\\\' {' -> only '"'     VerifC56_prim
//   internal/httpsfv/httpsfv.go 'if s[0] != \',\' {\n\t\t\treturn false' (ParseList) -> 'if false {'   VerifC56_list

func init() {
	vfRegister("VerifC56_item", VerifC56_item)
	vfRegister("VerifC56_list", VerifC56_list)
	vfRegister("VerifC56_dict", VerifC56_dict)
	vfRegister("VerifC56_inner", VerifC56_inner)
	vfRegister("VerifC56_param", VerifC56_param)
	vfRegister("VerifC56_params", VerifC56_params)
	vfRegister("VerifC56_prim", VerifC56_prim)
	vfRegister("VerifC56_long", VerifC56_long)
	vfRegister("VerifC56_display", VerifC56_display)
	vfRegister("VerifC56_priority", VerifC56_priority)
}

const (
	c56KDict  = "C56-dict-missing-comma"
	c56KHtab  = "C56-htab-as-sp"
	c56KFFFD  = "C56-display-fffd"
	c56KOpen  = "C56-innerlist-unclosed"
	c56DDict  = 0
	c56DHtab  = 1
	c56DFFFD  = 2
	c56DOpen  = 3
	c56NumDev = 4
)

// ---------------------------------------------------------------------------------------------------------------
// Reference: RFC 9651 §4.2, transliterated. All functions take a start position and return the position after what
// the algorithm consumed, and ok=false for "fail parsing".

type c56ref struct {
	s    string
	lax  bool            // emulate the known deviations of the package
	trig [c56NumDev]bool // which deviations were exercised (lax mode only)
	val  int64           // last Integer parsed
	disp []byte          // last Display String byte_array
}

func c56digit(b byte) bool   { return b >= '0' && b <= '9' }
func c56lcalpha(b byte) bool { return b >= 'a' && b <= 'z' }
func c56alpha(b byte) bool   { return c56lcalpha(b) || (b >= 'A' && b <= 'Z') }
func c56vcharsp(b byte) bool { return b >= 0x20 && b <= 0x7e }

func c56in(b byte, set string) bool {
	for i := 0; i < len(set); i++ {
		if b == set[i] {
			return true
		}
	}
	return false
}

// tchar per RFC 9110 §5.6.2
func c56tchar(b byte) bool {
	return c56digit(b) || c56alpha(b) || c56in(b, "!#$%&'*+-.^_`|~")
}

// "Discard any leading OWS characters"
func (r *c56ref) ows(i int) int {
	for i < len(r.s) && (r.s[i] == ' ' || r.s[i] == '\t') {
		i++
	}
	return i
}

// "Discard any leading SP characters" (lax: the package also discards HTAB here)
func (r *c56ref) sp(i int) int {
	for i < len(r.s) {
		if r.s[i] == ' ' {
			i++
		} else if r.lax && r.s[i] == '\t' {
			r.trig[c56DHtab] = true
			i++
		} else {
			break
		}
	}
	return i
}

// §4.2.3.3 Parsing a Key
func (r *c56ref) key(i int) (int, bool) {
	s := r.s
	if i >= len(s) || !(c56lcalpha(s[i]) || s[i] == '*') {
		return i, false
	}
	for i < len(s) && (c56lcalpha(s[i]) || c56digit(s[i]) || c56in(s[i], "_-.*")) {
		i++
	}
	return i, true
}

// §4.2.4 Parsing an Integer or Decimal
func (r *c56ref) number(i int) (end int, ok bool, decimal bool) {
	s := r.s
	sign := int64(1)
	num := 0 // characters in input_number
	var v int64
	dot := -1
	if i < len(s) && s[i] == '-' {
		i++
		sign = -1
	}
	if i >= len(s) {
		return i, false, false
	}
	if !c56digit(s[i]) {
		return i, false, false
	}
	for i < len(s) {
		c := s[i]
		if c56digit(c) {
			num++
			if !decimal {
				v = v*10 + int64(c-'0')
			}
			i++
		} else if !decimal && c == '.' {
			if num > 12 {
				return i, false, false
			}
			num++
			decimal = true
			dot = i
			i++
		} else {
			break
		}
		if !decimal && num > 15 {
			return i, false, false
		}
		if decimal && num > 16 {
			return i, false, false
		}
	}
	if decimal {
		if s[i-1] == '.' {
			return i, false, true
		}
		if i-dot-1 > 3 {
			return i, false, true
		}
	} else {
		r.val = v * sign
	}
	return i, true, decimal
}

// §4.2.5 Parsing a String
func (r *c56ref) str(i int) (int, bool) {
	s := r.s
	if i >= len(s) || s[i] != '"' {
		return i, false
	}
	i++
	for i < len(s) {
		c := s[i]
		i++
		if c == '\\' {
			if i >= len(s) {
				return i, false
			}
			nc := s[i]
			i++
			if nc != '"' && nc != '\\' {
				return i, false
			}
		} else if c == '"' {
			return i, true
		} else if !c56vcharsp(c) {
			return i, false
		}
	}
	return i, false
}

// §4.2.6 Parsing a Token
func (r *c56ref) token(i int) (int, bool) {
	s := r.s
	if i >= len(s) || !(c56alpha(s[i]) || s[i] == '*') {
		return i, false
	}
	for i < len(s) && (c56tchar(s[i]) || s[i] == ':' || s[i] == '/') {
		i++
	}
	return i, true
}

// §4.2.7 Parsing a Byte Sequence (steps 1-6; base64 decoding not modelled)
func (r *c56ref) byteseq(i int) (int, bool) {
	s := r.s
	if i >= len(s) || s[i] != ':' {
		return i, false
	}
	i++
	e := i
	for e < len(s) && s[e] != ':' {
		e++
	}
	if e >= len(s) {
		return i, false
	}
	for k := i; k < e; k++ {
		if !(c56alpha(s[k]) || c56digit(s[k]) || c56in(s[k], "+/=")) {
			return i, false
		}
	}
	return e + 1, true
}

// §4.2.8 Parsing a Boolean
func (r *c56ref) boolean(i int) (int, bool) {
	s := r.s
	if i >= len(s) || s[i] != '?' {
		return i, false
	}
	i++
	if i < len(s) && (s[i] == '1' || s[i] == '0') {
		return i + 1, true
	}
	return i, false
}

// §4.2.9 Parsing a Date
func (r *c56ref) date(i int) (int, bool) {
	s := r.s
	if i >= len(s) || s[i] != '@' {
		return i, false
	}
	e, ok, dec := r.number(i + 1)
	if !ok || dec {
		return i, false
	}
	return e, true
}

// c56utf8 decodes b as UTF-8 per RFC 3629 §4 (well-formed byte sequences table); ok=false if b is not UTF-8.
// fffd reports whether a (correctly encoded) U+FFFD occurs.
func c56utf8(b []byte) (ok bool, fffd bool) {
	cont := func(x byte, lo, hi byte) bool { return x >= lo && x <= hi }
	for i := 0; i < len(b); {
		c := b[i]
		switch {
		case c <= 0x7f:
			i++
		case c >= 0xc2 && c <= 0xdf:
			if i+1 >= len(b) || !cont(b[i+1], 0x80, 0xbf) {
				return false, false
			}
			i += 2
		case c >= 0xe0 && c <= 0xef:
			lo, hi := byte(0x80), byte(0xbf)
			if c == 0xe0 {
				lo = 0xa0
			}
			if c == 0xed {
				hi = 0x9f
			}
			if i+2 >= len(b) || !cont(b[i+1], lo, hi) || !cont(b[i+2], 0x80, 0xbf) {
				return false, false
			}
			if c == 0xef && b[i+1] == 0xbf && b[i+2] == 0xbd {
				fffd = true
			}
			i += 3
		case c >= 0xf0 && c <= 0xf4:
			lo, hi := byte(0x80), byte(0xbf)
			if c == 0xf0 {
				lo = 0x90
			}
			if c == 0xf4 {
				hi = 0x8f
			}
			if i+3 >= len(b) || !cont(b[i+1], lo, hi) || !cont(b[i+2], 0x80, 0xbf) || !cont(b[i+3], 0x80, 0xbf) {
				return false, false
			}
			i += 4
		default:
			return false, false
		}
	}
	return true, fffd
}

func c56hex(c byte) (byte, bool) {
	if c >= '0' && c <= '9' {
		return c - '0', true
	}
	if c >= 'a' && c <= 'f' {
		return c - 'a' + 10, true
	}
	return 0, false
}

// §4.2.10 Parsing a Display String
func (r *c56ref) display(i int) (int, bool) {
	s := r.s
	if i+1 >= len(s) || s[i] != '%' || s[i+1] != '"' {
		return i, false
	}
	i += 2
	var arr []byte
	for i < len(s) {
		c := s[i]
		i++
		if !c56vcharsp(c) {
			return i, false
		}
		if c == '%' {
			if i+1 >= len(s) {
				return i, false
			}
			h, ok1 := c56hex(s[i])
			l, ok2 := c56hex(s[i+1])
			i += 2
			if !ok1 || !ok2 {
				return i, false
			}
			arr = append(arr, h<<4|l)
		} else if c == '"' {
			ok, fffd := c56utf8(arr)
			if !ok {
				return i, false
			}
			if fffd && r.lax {
				r.trig[c56DFFFD] = true
				return i, false
			}
			r.disp = arr
			return i, true
		} else {
			arr = append(arr, c)
		}
	}
	return i, false
}

// §4.2.3.1 Parsing a Bare Item
func (r *c56ref) bare(i int) (int, bool) {
	s := r.s
	if i >= len(s) {
		return i, false
	}
	c := s[i]
	switch {
	case c == '-' || c56digit(c):
		e, ok, _ := r.number(i)
		return e, ok
	case c == '"':
		return r.str(i)
	case c == '*' || c56alpha(c):
		return r.token(i)
	case c == ':':
		return r.byteseq(i)
	case c == '?':
		return r.boolean(i)
	case c == '@':
		return r.date(i)
	case c == '%':
		return r.display(i)
	}
	return i, false
}

// §4.2.3.2 Parsing Parameters. emit(key, value) with value "" meaning Boolean true by default.
func (r *c56ref) params(i int, emit func(key, val string, dflt bool)) (int, bool) {
	s := r.s
	for i < len(s) {
		if s[i] != ';' {
			break
		}
		i++
		i = r.sp(i)
		ke, ok := r.key(i)
		if !ok {
			return i, false
		}
		key := s[i:ke]
		i = ke
		val, dflt := "", true
		if i < len(s) && s[i] == '=' {
			i++
			ve, ok := r.bare(i)
			if !ok {
				return i, false
			}
			val, dflt = s[i:ve], false
			i = ve
		}
		if emit != nil {
			emit(key, val, dflt)
		}
	}
	return i, true
}

// §4.2.3 Parsing an Item: returns end of bare item and end of parameters
func (r *c56ref) item(i int) (be, pe int, ok bool) {
	be, ok = r.bare(i)
	if !ok {
		return i, i, false
	}
	pe, ok = r.params(be, nil)
	return be, pe, ok
}

// §4.2.1.2 Parsing an Inner List, up to and including ")" (the list's own parameters are parsed by the caller).
func (r *c56ref) inner(i int, emit func(bare, param string)) (int, bool) {
	s := r.s
	if i >= len(s) || s[i] != '(' {
		return i, false
	}
	i++
	for i < len(s) {
		i = r.sp(i)
		if i < len(s) && s[i] == ')' {
			return i + 1, true
		}
		be, pe, ok := r.item(i)
		if !ok {
			return i, false
		}
		if emit != nil {
			emit(s[i:be], s[be:pe])
		}
		i = pe
		if !(i < len(s) && (s[i] == ' ' || s[i] == ')')) {
			return i, false
		}
	}
	// "The end of the Inner List was not found; fail parsing."
	if r.lax {
		// the package's loop condition is only tested at the loop head: empty input right after "(" is accepted
		r.trig[c56DOpen] = true
		return i, true
	}
	return i, false
}

// §4.2.1.1 Parsing an Item or Inner List: member text and parameter text
func (r *c56ref) itemOrInner(i int) (me, pe int, ok bool) {
	s := r.s
	if i < len(s) && s[i] == '(' {
		me, ok = r.inner(i, nil)
		if !ok {
			return i, i, false
		}
		pe, ok = r.params(me, nil)
		return me, pe, ok
	}
	return r.item(i)
}

// §4.2.1 Parsing a List
func (r *c56ref) list(emit func(member, param string)) bool {
	s := r.s
	i := 0
	for i < len(s) {
		me, pe, ok := r.itemOrInner(i)
		if !ok {
			return false
		}
		emit(s[i:me], s[me:pe])
		i = r.ows(pe)
		if i >= len(s) {
			return true
		}
		if s[i] != ',' {
			return false
		}
		i++
		i = r.ows(i)
		if i >= len(s) {
			return false
		}
	}
	return true
}

// §4.2.2 Parsing a Dictionary
func (r *c56ref) dict(emit func(key, val, param string, dflt bool)) bool {
	s := r.s
	i := 0
	for i < len(s) {
		ke, ok := r.key(i)
		if !ok {
			return false
		}
		key := s[i:ke]
		i = ke
		if i < len(s) && s[i] == '=' {
			i++
			me, pe, ok := r.itemOrInner(i)
			if !ok {
				return false
			}
			emit(key, s[i:me], s[me:pe], false)
			i = pe
		} else {
			pe, ok := r.params(i, nil)
			if !ok {
				return false
			}
			emit(key, "", s[i:pe], true)
			i = pe
		}
		i = r.ows(i)
		if i >= len(s) {
			return true
		}
		if s[i] != ',' {
			if !r.lax {
				return false
			}
			// the package goes on with the next member without a comma
			r.trig[c56DDict] = true
		} else {
			i++
		}
		i = r.ows(i)
		if i >= len(s) {
			return false
		}
	}
	return true
}

// ---------------------------------------------------------------------------------------------------------------
// Inputs

// c56byte: bytes of "long" inputs range over a reduced alphabet: all digits, all letters (range tests do not fork per
// letter) and one or two representatives of every set the grammar tests by equality, plus three bytes outside
// VCHAR/SP. Short inputs use arbitrary bytes, so every individual character of every class is covered there.
func c56byte(b byte) bool {
	ok := vfOr(vfAnd(b >= '0', b <= '9'), vfOr(vfAnd(b >= 'a', b <= 'z'), vfAnd(b >= 'A', b <= 'Z')))
	for _, c := range []byte("-.\"\\*:?@%();=, \t_/+!\x1f\x7f\x80") {
		ok = vfOr(ok, b == c)
	}
	return ok
}

// c56input: a string of 0..full arbitrary bytes, or full+1..long bytes over the reduced alphabet.
func c56input(full, long int, noEdgeSP bool) string {
	n := vfLen("n", 0, long)
	s := vfString("s", n)
	if n > full {
		for i := 0; i < n; i++ {
			vfAssume(c56byte(s[i]))
		}
	}
	if noEdgeSP && n > 0 {
		vfAssume(s[0] != ' ')
		vfAssume(s[n-1] != ' ')
	}
	return s
}

func c56bounds() (full, long int) {
	if vfTier() > 0 {
		return 4, 5
	}
	return 3, 4
}

// c56verdict asserts got == strict reference, with the known-finding escapes. same(l) tells whether the package's
// result (acceptance and reported values) equals that of reference run l (0 strict, 1 emulating the deviations).
func c56verdict(label string, sameStrict, sameLax bool, lax *c56ref) {
	k := [c56NumDev]bool{}
	for d := 0; d < c56NumDev; d++ {
		k[d] = sameLax && lax.trig[d]
	}
	vfAssertKF(sameStrict || k[c56DHtab] || k[c56DFFFD] || k[c56DOpen], label, c56KDict, k[c56DDict])
	vfAssertKF(sameStrict || k[c56DFFFD] || k[c56DOpen], label, c56KHtab, k[c56DHtab])
	vfAssertKF(sameStrict || k[c56DOpen], label, c56KFFFD, k[c56DFFFD])
	vfAssertKF(sameStrict, label, c56KOpen, k[c56DOpen])
}

type c56pair struct{ a, b string }

func c56samePairs(ok1 bool, p1 []c56pair, ok2 bool, p2 []c56pair) bool {
	if ok1 != ok2 {
		return false
	}
	if !ok1 {
		return true // both fail: nothing is yielded
	}
	if len(p1) != len(p2) {
		return false
	}
	same := true
	for i := range p1 {
		same = vfAnd(same, vfAnd(p1[i].a == p2[i].a, p1[i].b == p2[i].b))
	}
	return vfConcretizeBool(same)
}

// ---------------------------------------------------------------------------------------------------------------
// Structures

func VerifC56_item() {
	full, long := c56bounds()
	s := c56input(full, long, true)
	var got []c56pair
	ok := ParseItem(s, func(b, p string) { got = append(got, c56pair{b, p}) })
	vfObserveBool("ok", ok)
	run := func(lax bool) (*c56ref, bool, []c56pair) {
		r := &c56ref{s: s, lax: lax}
		be, pe, rok := r.item(0)
		rok = rok && pe == len(s)
		if !rok {
			return r, false, nil
		}
		return r, true, []c56pair{{s[:be], s[be:pe]}}
	}
	_, ok0, w0 := run(false)
	r1, ok1, w1 := run(true)
	c56verdict("ParseItem == RFC 9651 item", c56samePairs(ok, got, ok0, w0), c56samePairs(ok, got, ok1, w1), r1)
	if ok {
		vfReach("accepted")
	} else {
		vfReach("rejected")
	}
	vfReach("end")
}

func VerifC56_list() {
	full, long := c56bounds()
	s := c56input(full, long, true)
	var got []c56pair
	ok := ParseList(s, func(m, p string) { got = append(got, c56pair{m, p}) })
	vfObserveBool("ok", ok)
	vfObserve("members", uint64(len(got)))
	run := func(lax bool) (*c56ref, bool, []c56pair) {
		r := &c56ref{s: s, lax: lax}
		var w []c56pair
		rok := r.list(func(m, p string) { w = append(w, c56pair{m, p}) })
		return r, rok, w
	}
	_, ok0, w0 := run(false)
	r1, ok1, w1 := run(true)
	c56verdict("ParseList == RFC 9651 list", c56samePairs(ok, got, ok0, w0), c56samePairs(ok, got, ok1, w1), r1)
	if ok {
		vfReach("accepted")
	} else {
		vfReach("rejected")
	}
	vfReach("end")
}

func VerifC56_dict() {
	full, long := c56bounds()
	s := c56input(full, long+1, true)
	var got []c56pair
	ok := ParseDictionary(s, func(k, v, p string) { got = append(got, c56pair{k, v}, c56pair{"", p}) })
	vfObserveBool("ok", ok)
	vfObserve("members", uint64(len(got)/2))
	run := func(lax bool) (*c56ref, bool, []c56pair) {
		r := &c56ref{s: s, lax: lax}
		var w []c56pair
		rok := r.dict(func(k, v, p string, dflt bool) {
			if dflt {
				v = "?1" // Boolean true
			}
			w = append(w, c56pair{k, v}, c56pair{"", p})
		})
		return r, rok, w
	}
	_, ok0, w0 := run(false)
	r1, ok1, w1 := run(true)
	c56verdict("ParseDictionary == RFC 9651 dictionary", c56samePairs(ok, got, ok0, w0), c56samePairs(ok, got, ok1, w1), r1)
	if ok {
		vfReach("accepted")
	} else {
		vfReach("rejected")
	}
	vfReach("end")
}

func VerifC56_inner() {
	full, long := c56bounds()
	s := c56input(full, long+1, false)
	var got []c56pair
	ok := ParseBareInnerList(s, func(b, p string) { got = append(got, c56pair{b, p}) })
	vfObserveBool("ok", ok)
	run := func(lax bool) (*c56ref, bool, []c56pair) {
		r := &c56ref{s: s, lax: lax}
		var w []c56pair
		e, rok := r.inner(0, func(b, p string) { w = append(w, c56pair{b, p}) })
		return r, rok && e == len(s), w
	}
	_, ok0, w0 := run(false)
	r1, ok1, w1 := run(true)
	c56verdict("ParseBareInnerList == RFC 9651 inner list", c56samePairs(ok, got, ok0, w0), c56samePairs(ok, got, ok1, w1), r1)
	if ok {
		vfReach("accepted")
	} else {
		vfReach("rejected")
	}
	vfReach("end")
}

func VerifC56_param() {
	full, long := c56bounds()
	s := c56input(full, long+1, false)
	c56paramCheck(s)
}

func c56paramCheck(s string) {
	var got []c56pair
	ok := ParseParameter(s, func(k, v string) { got = append(got, c56pair{k, v}) })
	vfObserveBool("ok", ok)
	run := func(lax bool) (*c56ref, bool, []c56pair) {
		r := &c56ref{s: s, lax: lax}
		var w []c56pair
		e, rok := r.params(0, func(k, v string, dflt bool) {
			if dflt {
				v = "?1"
			}
			w = append(w, c56pair{k, v})
		})
		return r, rok && e == len(s), w
	}
	_, ok0, w0 := run(false)
	r1, ok1, w1 := run(true)
	c56verdict("ParseParameter == RFC 9651 parameters", c56samePairs(ok, got, ok0, w0), c56samePairs(ok, got, ok1, w1), r1)
	if ok {
		vfReach("accepted")
	} else {
		vfReach("rejected")
	}
	vfReach("end")
}

// VerifC56_params: parameter LISTS, which the byte-bounded harnesses above are too short for: 2..3 parameters
// ";" key ["=" value], key = 1 symbolic byte, value = 1 symbolic byte (thorough: 1..2 in lists of two parameters), every combination of
// with/without value (so a valueless parameter after a valued one, repeated keys, ...). Bytes over the reduced
// alphabet of c56byte. Same oracle as VerifC56_param (members, values incl. the default Boolean true, order).
func VerifC56_params() {
	n := vfLen("nparams", 2, 3)
	b := []byte{}
	for i := 0; i < n; i++ {
		b = append(b, ';')
		k := vfU8("key")
		vfAssume(c56byte(k))
		b = append(b, k)
		if vfChoice("hasval", 2) == 1 {
			b = append(b, '=')
			nv := 1
			if vfTier() > 0 && n == 2 {
				nv = vfLen("nval", 1, 2) // (with 3 parameters and 2-byte values the thorough run exceeded the 2 M path cap)
			}
			for j := 0; j < nv; j++ {
				v := vfU8("val")
				vfAssume(c56byte(v))
				b = append(b, v)
			}
		}
	}
	c56paramCheck(string(b))
}

// ---------------------------------------------------------------------------------------------------------------
// Bare-item types

// c56prim runs one typed Parse* function against the reference on s.
func c56prim(kind int, s string) (accepted bool) {
	n := len(s)
	r0 := &c56ref{s: s}
	r1 := &c56ref{s: s, lax: true}
	switch kind {
	case 0: // Integer
		v, ok := ParseInteger(s)
		e, rok, dec := r0.number(0)
		rok = rok && !dec && e == n
		vfAssert(ok == rok, "ParseInteger accepts exactly RFC 9651 integers")
		if ok {
			vfAssert(v == r0.val, "ParseInteger value")
			vfObserve("int", uint64(v))
		}
		return ok
	case 1: // Decimal
		v, ok := ParseDecimal(s)
		e, rok, dec := r0.number(0)
		rok = rok && dec && e == n
		vfAssert(ok == rok, "ParseDecimal accepts exactly RFC 9651 decimals")
		_ = v
		return ok
	case 2: // Boolean
		v, ok := ParseBoolean(s)
		e, rok := r0.boolean(0)
		rok = rok && e == n
		vfAssert(ok == rok, "ParseBoolean accepts exactly ?0 / ?1")
		if ok {
			vfAssert(v == (s[1] == '1'), "ParseBoolean value")
		}
		return ok
	case 3: // Token
		v, ok := ParseToken(s)
		e, rok := r0.token(0)
		rok = rok && e == n
		vfAssert(ok == rok, "ParseToken accepts exactly RFC 9651 tokens")
		if ok {
			vfAssert(v == s, "ParseToken value")
		}
		return ok
	case 4: // String (raw text)
		v, ok := ParseString(s)
		e, rok := r0.str(0)
		rok = rok && e == n
		vfAssert(ok == rok, "ParseString accepts exactly RFC 9651 strings")
		if ok {
			vfAssert(v == s[1:n-1], "ParseString raw text")
		}
		return ok
	case 5: // Byte sequence (raw text)
		v, ok := ParseByteSequence(s)
		e, rok := r0.byteseq(0)
		rok = rok && e == n
		vfAssert(ok == rok, "ParseByteSequence accepts exactly :base64 alphabet:")
		if ok {
			vfAssert(string(v) == s[1:n-1], "ParseByteSequence raw text")
		}
		return ok
	case 6: // Date
		v, ok := ParseDate(s)
		e, rok := r0.date(0)
		rok = rok && e == n
		vfAssert(ok == rok, "ParseDate accepts exactly @integer")
		if ok {
			// the engine's clock is int64 nanoseconds: the instant is representable for |seconds| < 9e9 only
			small := vfAnd(r0.val > -9000000000, r0.val < 9000000000)
			vfAssert(vfImplies(small, v.Unix() == r0.val), "ParseDate value (seconds since the epoch)")
		}
		return ok
	default: // Display string
		v, ok := ParseDisplayString(s)
		e, rok := r0.display(0)
		rok = rok && e == n
		e1, lok := r1.display(0)
		lok = lok && e1 == n
		same := func(refok bool, disp []byte) bool {
			if ok != refok {
				return false
			}
			if !ok {
				return true
			}
			return vfConcretizeBool(v == string(disp))
		}
		c56verdict("ParseDisplayString == RFC 9651 display string", same(rok, r0.disp), same(lok, r1.disp), r1)
		if ok {
			vfObserveStr("display", v)
		}
		return ok
	}
}

func VerifC56_prim() {
	full, long := c56bounds()
	kind := vfChoice("kind", 8)
	s := c56input(full-1, long, false)
	if c56prim(kind, s) {
		vfReach("accepted")
	} else {
		vfReach("rejected")
	}
	vfReach("end")
}

// VerifC56_long: numbers around the RFC's length limits (14/15/16 digits; 12/13 integer digits before ".", 0/3/4 after;
// 16/17 characters), as Integer, Decimal, Date, and as a bare item inside an Item. The first, middle and last integer
// digit and the last fraction digit are symbolic, the others fixed.
func VerifC56_long() {
	neg := vfChoice("neg", 2) == 1
	shape := vfChoice("shape", 10)
	var ni, nf int // integer digits, fraction digits (-1: no dot)
	switch shape {
	case 0:
		ni, nf = 15, -1
	case 1:
		ni, nf = 16, -1
	case 2:
		ni, nf = 12, 3
	case 3:
		ni, nf = 13, 1
	case 4:
		ni, nf = 12, 4
	case 5:
		ni, nf = 12, 0
	case 6:
		ni, nf = 1, 3
	case 7:
		ni, nf = 1, 4
	case 8:
		ni, nf = 11, 4
	default:
		ni, nf = 14, -1
	}
	b := []byte{}
	if neg {
		b = append(b, '-')
	}
	for i := 0; i < ni; i++ {
		if i == 0 || i == ni/2 || i == ni-1 {
			d := vfU8("d")
			vfAssume(d >= '0' && d <= '9')
			b = append(b, d)
		} else {
			b = append(b, "9182736450"[i%10])
		}
	}
	if nf >= 0 {
		b = append(b, '.')
		for i := 0; i < nf; i++ {
			if i == nf-1 {
				d := vfU8("f")
				vfAssume(d >= '0' && d <= '9')
				b = append(b, d)
			} else {
				b = append(b, '5')
			}
		}
	}
	s := string(b)
	acc := false
	switch vfChoice("as", 4) {
	case 0:
		acc = c56prim(0, s)
	case 1:
		acc = c56prim(1, s)
	case 2:
		acc = c56prim(6, "@"+s)
	default:
		s2 := s + ";a"
		var got []c56pair
		ok := ParseItem(s2, func(b, p string) { got = append(got, c56pair{b, p}) })
		r := &c56ref{s: s2}
		be, pe, rok := r.item(0)
		rok = rok && pe == len(s2)
		var w []c56pair
		if rok {
			w = []c56pair{{s2[:be], s2[be:pe]}}
		}
		vfAssert(c56samePairs(ok, got, rok, w), "ParseItem == RFC 9651 item (long number)")
		acc = ok
	}
	if acc {
		vfReach("accepted")
	} else {
		vfReach("rejected")
	}
	vfReach("end")
}

// VerifC56_display: display strings %"…" whose content is 1..3 units, each either one arbitrary raw byte or %XY with
// two arbitrary bytes in the hex positions (so: every 1-, 2- and 3-byte UTF-8 sequence incl. U+FFFD, surrogates,
// overlongs, truncated sequences, upper-case hex, raw non-ASCII); thorough adds a 4th escaped unit.
func VerifC56_display() {
	maxUnits := 3
	if vfTier() > 0 {
		maxUnits = 4
	}
	units := vfLen("units", 0, maxUnits)
	b := []byte{'%', '"'}
	for u := 0; u < units; u++ {
		if u == 3 || vfChoice("escaped", 2) == 1 {
			b = append(b, '%', vfU8("h"), vfU8("l"))
		} else {
			b = append(b, vfU8("raw"))
		}
	}
	if vfChoice("closed", 2) == 1 {
		b = append(b, '"')
	}
	if c56prim(7, string(b)) {
		vfReach("accepted")
	} else {
		vfReach("rejected")
	}
	vfReach("end")
}

// VerifC56_priority: the consumer in http2/frame.go (parseRFC9218Priority) applies ParseDictionary with this callback
// (copied here: the http2 package cannot be imported from this package's tests). Compared with the RFC 9218 reading
// of the RFC 9651 dictionary: last "u" that is an Integer in 0..7, last "i" that is a Boolean.
func VerifC56_priority() {
	full, long := c56bounds()
	s := c56input(full-1, long, true)
	u, inc := int64(3), false
	ok := ParseDictionary(s, func(key, val, _ string) {
		switch key {
		case "u":
			if x, ok := ParseInteger(val); ok && x >= 0 && x <= 7 {
				u = x
			}
		case "i":
			if x, ok := ParseBoolean(val); ok {
				inc = x
			}
		}
	})
	run := func(lax bool) (*c56ref, bool, int64, bool) {
		r := &c56ref{s: s, lax: lax}
		ru, rinc := int64(3), false
		rok := r.dict(func(k, v, p string, dflt bool) {
			if k == "u" && !dflt {
				vr := &c56ref{s: v}
				if e, ok, dec := vr.number(0); ok && !dec && e == len(v) && vr.val >= 0 && vr.val <= 7 {
					ru = vr.val
				}
			}
			if k == "i" {
				if dflt {
					rinc = true
				} else if v == "?1" {
					rinc = true
				} else if v == "?0" {
					rinc = false
				}
			}
		})
		return r, rok, ru, rinc
	}
	same := func(rok bool, ru int64, rinc bool) bool {
		if ok != rok {
			return false
		}
		return !ok || (u == ru && inc == rinc)
	}
	_, ok0, u0, i0 := run(false)
	r1, ok1, u1, i1 := run(true)
	c56verdict("priority field read through ParseDictionary == RFC 9651/9218 reading", same(ok0, u0, i0), same(ok1, u1, i1), r1)
	if ok {
		vfObserve("u", uint64(u))
		vfObserveBool("i", inc)
		vfReach("accepted")
	} else {
		vfReach("rejected")
	}
	vfReach("end")
}
