package socks

// C54 — SOCKS5 client requests name exactly the requested destination.
//
// Shape B, two harnesses over a stub net.Conn that records every Write and serves a scripted reply:
//   VerifC54_request: destination (IPv4 / IPv6 / name of length 1, 3, 255, 256 with symbolic bytes) and port (decimal
//     string of 1..5 symbolic digits), with and without username/password authentication, through the public
//     DialWithConn (the symbolic name bytes range over every byte value except ':', '[', ']'); a reference RFC 1928 server-side decoder in the harness parses the recorded CONNECT request and must
//     obtain exactly the requested destination. The server's replies are concrete successes here.
//   VerifC54_reply: fixed destination; the server's replies are symbolic byte strings (method selection, optional
//     username/password status, CONNECT reply with every address type), truncated at every length and delivered whole
//     or one byte per Read. A reference parser decides whether the reply is a complete success; the client must then
//     return exactly the bound address of the reply, otherwise an error (never a panic: any panic is a violation).
//
//   VerifC54_boundname: the bound address of a successful reply is a name of EVERY length 0..255 (length byte forked over
//     all 256 values, name and port bytes symbolic), for destinations of several kinds and lengths (the client reuses its
//     request buffer for the reply when it is large enough, so the reply-length/request-length combination matters):
//     IPv4 literals of 7 and 15 bytes, an IPv6 literal, names of 1, 12 and 255 bytes; the reply complete or cut 1..3
//     bytes before its end; delivered whole or 7 bytes per Read.
//
// Sensitivity (mut.sh):
//   client.go `byte(port>>8), byte(port)` -> `byte(port), byte(port>>8)`      caught (request: port)
//   client.go `if len(host) > 255 {` -> `> 256`                               caught (request: 256-byte name)
//   client.go `l := 2` -> `l := 1`                                            caught (bound address / truncation)
//   client.go `if b[2] != 0 {` -> `if b[2] > 1 {`                             caught (reply: reserved byte)
//   client.go `byte(len(host))` -> `byte(len(host)-1)`                        caught (request: well-formed)

import (
	"context"
	"io"
	"net"
	"time"
)

func init() {
	vfRegister("VerifC54_request", VerifC54_request)
	vfRegister("VerifC54_reply", VerifC54_reply)
	vfRegister("VerifC54_boundname", VerifC54_boundname)
}

type c54conn struct {
	writes [][]byte
	script []byte
	pos    int
	chunk  int // 0 = as much as fits, otherwise at most chunk bytes per Read
	reads  int
}

func (c *c54conn) Write(p []byte) (int, error) {
	c.writes = append(c.writes, append([]byte(nil), p...))
	return len(p), nil
}

func (c *c54conn) Read(p []byte) (int, error) {
	c.reads++
	if c.pos >= len(c.script) {
		return 0, io.EOF
	}
	n := len(c.script) - c.pos
	if n > len(p) {
		n = len(p)
	}
	if c.chunk > 0 && n > c.chunk {
		n = c.chunk
	}
	copy(p, c.script[c.pos:c.pos+n])
	c.pos += n
	return n, nil
}
func (c *c54conn) Close() error                       { return nil }
func (c *c54conn) LocalAddr() net.Addr                { return nil }
func (c *c54conn) RemoteAddr() net.Addr               { return nil }
func (c *c54conn) SetDeadline(t time.Time) error      { return nil }
func (c *c54conn) SetReadDeadline(t time.Time) error  { return nil }
func (c *c54conn) SetWriteDeadline(t time.Time) error { return nil }

func c54digit(label string) byte {
	d := vfU8(label)
	vfAssume(vfAnd(d >= '0', d <= '9'))
	return d
}

// c54decoded is what a conforming server reads from a CONNECT request (RFC 1928 §4).
type c54decoded struct {
	ok   bool
	atyp byte
	addr []byte
	port int
}

func c54decode(m []byte) c54decoded {
	if len(m) < 4 || m[0] != 5 || m[1] != 1 || m[2] != 0 {
		return c54decoded{}
	}
	var n, off int
	switch m[3] {
	case 1:
		n, off = 4, 4
	case 4:
		n, off = 16, 4
	case 3:
		if len(m) < 5 {
			return c54decoded{}
		}
		n, off = int(m[4]), 5
	default:
		return c54decoded{}
	}
	if len(m) != off+n+2 {
		return c54decoded{}
	}
	return c54decoded{ok: true, atyp: m[3], addr: m[off : off+n], port: int(m[off+n])<<8 | int(m[off+n+1])}
}

func c54bytesEq(a, b []byte) bool {
	if len(a) != len(b) {
		return false
	}
	ok := true
	for i := range a {
		ok = vfAnd(ok, a[i] == b[i])
	}
	return ok
}

func VerifC54_request() {
	// destination
	var host string
	var wantAtyp byte
	var wantAddr []byte
	tooLong := false
	switch vfChoice("destkind", 3) {
	case 0: // IPv4 "d.d.d.d" or "1dd.d.d.2d"
		d := func() (byte, byte) { c := c54digit("v4"); return c, c - '0' }
		c0, v0 := d()
		c1, v1 := d()
		c2, v2 := d()
		c3, v3 := d()
		if vfChoice("v4shape", 2) == 0 {
			host, wantAddr = string([]byte{c0, '.', c1, '.', c2, '.', c3}), []byte{v0, v1, v2, v3}
		} else {
			c4, v4 := d()
			host, wantAddr = string([]byte{'1', c0, c1, '.', c2, '.', c3, '.', '2', c4}), []byte{100 + 10*v0 + v1, v2, v3, 20 + v4}
		}
		wantAtyp = 1
	case 1: // IPv6 "hh::h" (lower-case hex, digit, upper-case hex)
		c1, c2, c3 := vfU8("v6"), vfU8("v6"), vfU8("v6")
		vfAssume(vfAnd(c1 >= 'a', c1 <= 'f'))
		vfAssume(vfAnd(c2 >= '0', c2 <= '9'))
		vfAssume(vfAnd(c3 >= 'A', c3 <= 'F'))
		host = string([]byte{c1, c2, ':', ':', c3})
		wantAddr = make([]byte, 16)
		wantAddr[1] = (c1-'a'+10)<<4 | (c2 - '0')
		wantAddr[15] = c3 - 'A' + 10
		wantAtyp = 4
	case 2: // name: lengths 1, 3 (all bytes symbolic), 254, 255, 256 (three symbolic bytes, rest 'n')
		n := []int{1, 3, 254, 255, 256}[vfChoice("namelen", 5)]
		bs := make([]byte, n)
		for i := range bs {
			bs[i] = 'n'
		}
		for _, i := range []int{0, n / 2, n - 1} {
			// ANY byte value a host may hold in "host:port" form: everything but ':', '[' and ']' (net.SplitHostPort
			// refuses those outside a bracketed literal). Such a host is never an IP literal: without ':' it is not
			// IPv6 (a zone '%' needs an IPv6 literal in front of it), and it is not IPv4 because it is shorter than
			// "d.d.d.d" (n = 1, 3) or contains the letter 'n' (n >= 254). So it is a name and must be sent verbatim:
			// dots, digits, '%', '-', '_', blanks, NUL and bytes >= 0x80 included.
			c := vfU8("name")
			vfAssume(vfAnd(vfAnd(c != ':', c != '['), c != ']'))
			bs[i] = c
		}
		host = string(bs)
		wantAtyp, wantAddr = 3, bs
		tooLong = n > 255
	}
	// port: 1..5 symbolic digits
	nd := vfLen("portdigits", 1, 5)
	pd := make([]byte, nd)
	port := 0
	for i := range pd {
		pd[i] = c54digit("port")
		port = port*10 + int(pd[i]-'0')
	}
	address := host + ":" + string(pd)
	if wantAtyp == 4 {
		address = "[" + host + "]:" + string(pd)
	}

	d := NewDialer("tcp", "proxy.example:1080")
	auth := vfChoice("auth", 2) == 1
	conn := &c54conn{}
	if auth {
		up := &UsernamePassword{Username: "us", Password: "pw"}
		d.AuthMethods = []AuthMethod{AuthMethodNotRequired, AuthMethodUsernamePassword}
		d.Authenticate = up.Authenticate
		conn.script = []byte{5, 2, 1, 0, 5, 0, 0, 1, 9, 8, 7, 6, 0x12, 0x34}
	} else {
		conn.script = []byte{5, 0, 5, 0, 0, 1, 9, 8, 7, 6, 0x12, 0x34}
	}

	a, err := d.DialWithConn(context.Background(), conn, "tcp", address)

	portBad := vfOr(port < 1, port > 0xffff)
	if vfConcretizeBool(portBad) {
		vfAssert(err != nil, "port outside 1..65535 is refused")
		vfAssert(len(conn.writes) == 0, "nothing is sent for an invalid port")
		vfReach("bad-port")
	} else if tooLong {
		vfAssert(err != nil, "a 256-byte name is refused")
		for _, w := range conn.writes {
			vfAssert(!(len(w) >= 2 && w[0] == 5 && w[1] == 1 && len(w) > 3), "no CONNECT request for a 256-byte name")
		}
		vfReach("name-too-long")
	} else {
		vfAssert(err == nil, "valid destination, successful replies: no error")
		nw := 2
		if auth {
			nw = 3
			vfAssert(len(conn.writes) == 3 && string(conn.writes[1]) == "\x01\x02us\x02pw", "RFC 1929 sub-negotiation")
			vfAssert(string(conn.writes[0]) == "\x05\x02\x00\x02", "method selection offers the configured methods")
		} else {
			vfAssert(len(conn.writes) == 2 && string(conn.writes[0]) == "\x05\x01\x00", "method selection: no authentication")
		}
		req := c54decode(conn.writes[nw-1])
		vfAssert(req.ok, "the request is a well-formed RFC 1928 CONNECT")
		vfAssert(req.atyp == wantAtyp, "address type")
		vfAssert(c54bytesEq(req.addr, wantAddr), "address decodes to the requested host")
		vfAssert(req.port == port, "port decodes to the requested port")
		ba, _ := a.(*Addr)
		vfAssert(ba != nil && ba.Port == 0x1234 && len(ba.IP) == 4 && ba.IP[0] == 9 && ba.IP[3] == 6, "bound address of the reply")
		vfObserveBytes("request", conn.writes[nw-1])
		vfReach("sent")
	}
	vfObserveBool("err", err != nil)
	vfReach("end")
}

// c54parseReply is the reference reader of the server side of the dialogue; ok = the dialogue is a complete success.
func c54parseReply(s []byte, auth bool) (ok bool, ip []byte, name []byte, port int) {
	need := func(n int) bool { return len(s) >= n }
	if !need(2) || s[0] != 5 || s[1] == 0xff {
		return
	}
	method := s[1]
	s = s[2:]
	if auth {
		// the harness's dialer authenticates with username/password
		if method == 2 {
			if !need(2) || s[0] != 1 || s[1] != 0 {
				return
			}
			s = s[2:]
		} else if method != 0 {
			return // method the client cannot perform
		}
	}
	if !need(4) || s[0] != 5 || s[1] != 0 || s[2] != 0 {
		return
	}
	atyp := s[3]
	s = s[4:]
	var n int
	switch atyp {
	case 1:
		n = 4
	case 4:
		n = 16
	case 3:
		if !need(1) {
			return
		}
		n = int(s[0])
		s = s[1:]
	default:
		return
	}
	if !need(n + 2) {
		return
	}
	if atyp == 3 {
		name = s[:n]
	} else {
		ip = s[:n]
	}
	return true, ip, name, int(s[n])<<8 | int(s[n+1])
}

func VerifC54_reply() {
	auth := vfChoice("auth", 2) == 1
	d := NewDialer("tcp", "proxy.example:1080")
	if auth {
		up := &UsernamePassword{Username: "us", Password: "pw"}
		d.AuthMethods = []AuthMethod{AuthMethodNotRequired, AuthMethodUsernamePassword}
		d.Authenticate = up.Authenticate
	}
	// server script: method selection (2 symbolic bytes) [+ auth status 2 symbolic bytes when the method byte is 2
	// and the client authenticates] + CONNECT reply head (4 symbolic bytes; the address type is chosen concretely or
	// left symbolic-but-unknown) + address + port, all symbolic
	var script []byte
	ver, method := vfU8("ver"), vfU8("method")
	switch vfChoice("methodclass", 3) {
	case 0:
		vfAssume(method == 0)
	case 1:
		vfAssume(method == 2)
		if auth {
			script = append(script, vfBytes("authstatus", 2)...)
		}
	case 2:
		vfAssume(vfAnd(method != 0, method != 2))
	}
	script = append([]byte{ver, method}, script...)
	head := vfBytes("replyhead", 3)
	atyp := vfU8("atyp")
	var alen int
	maxName := 3 + 5*vfTier() // names in ordinary replies: at most 3 bytes (thorough 8); the length byte is concretised
	longName := false
	switch vfChoice("atypclass", 4+vfTier()) {
	case 4: // thorough only: a 255-byte name (longest possible), cut only near the end
		vfAssume(atyp == 3)
		alen = 256
		longName = true
	case 0:
		vfAssume(atyp == 1)
		alen = 4
	case 1:
		vfAssume(atyp == 4)
		alen = 16
	case 2:
		vfAssume(atyp == 3)
		alen = 1 + maxName // length byte + name bytes
	case 3:
		vfAssume(vfAnd(vfAnd(atyp != 1, atyp != 3), atyp != 4))
		alen = 1
	}
	script = append(script, head...)
	script = append(script, atyp)
	addr := vfBytes("replyaddr", alen+2)
	if longName {
		vfAssume(addr[0] == 255)
	} else if atyp == 3 {
		vfAssume(int(addr[0]) <= maxName)
	}
	script = append(script, addr...)
	full := len(script)
	var cut int // truncation point: the server closes after cut bytes
	if longName {
		cut = full - vfChoice("cutlong", 3)
	} else {
		cut = vfLen("cut", 0, full)
	}
	conn := &c54conn{script: script[:cut], chunk: []int{0, 1, 3}[vfChoice("chunk", 2+vfTier())]}

	a, err := d.DialWithConn(context.Background(), conn, "tcp", "dest.example:443")

	ok, ip, name, port := c54parseReply(script[:cut], auth)
	if ok {
		vfAssert(err == nil, "a complete successful reply is accepted")
		ba, _ := a.(*Addr)
		vfAssert(ba != nil, "bound address returned")
		vfAssert(ba.Port == port, "bound port is the reply's")
		if name != nil || ip == nil {
			vfAssert(ba.IP == nil && c54bytesEq([]byte(ba.Name), name), "bound name is the reply's")
			vfReach("bound-name")
		} else {
			vfAssert(ba.Name == "" && c54bytesEq(ba.IP, ip), "bound IP is the reply's")
			vfReach("bound-ip")
		}
		vfReach("accepted")
	} else {
		vfAssert(err != nil && a == nil, "malformed, failed or truncated replies produce an error")
		vfReach("rejected")
	}
	vfObserveBool("err", err != nil)
	vfObserve("reads", uint64(conn.reads))
	vfReach("end")
}

// VerifC54_boundname (B): every bound-name length against request buffers of several sizes. The method selection and
// the reply head are concrete successes (their symbolic forms are VerifC54_reply's business).
func VerifC54_boundname() {
	dest := []string{"1.2.3.4:80", "192.168.100.200:65535", "[2001:db8::1]:443", "d:1", "dest.example:443", ""}[vfChoice("dest", 6)]
	if dest == "" {
		bs := make([]byte, 255)
		for i := range bs {
			bs[i] = 'n'
		}
		dest = string(bs) + ":8080"
	}
	n := vfLen("namelen", 0, 255)
	name := vfBytes("boundname", n)
	port := vfBytes("boundport", 2)
	script := []byte{5, 0, 5, 0, 0, 3, byte(n)}
	script = append(script, name...)
	script = append(script, port...)
	cut := len(script) - vfChoice("cut", 4)
	conn := &c54conn{script: script[:cut], chunk: []int{0, 7}[vfChoice("chunk", 2)]}
	d := NewDialer("tcp", "proxy.example:1080")

	a, err := d.DialWithConn(context.Background(), conn, "tcp", dest)

	ok, _, rname, rport := c54parseReply(script[:cut], false)
	vfAssert(ok == (cut == len(script)), "harness: the reference accepts exactly the complete reply")
	if ok {
		vfAssert(err == nil, "a complete successful reply is accepted")
		ba, _ := a.(*Addr)
		vfAssert(ba != nil, "bound address returned")
		vfAssert(ba.Port == rport && rport == int(port[0])<<8|int(port[1]), "bound port is the reply's")
		vfAssert(ba.IP == nil && len(ba.Name) == n && c54bytesEq([]byte(ba.Name), rname), "bound name is the reply's")
		vfReach("bound-name-any-length")
	} else {
		vfAssert(err != nil && a == nil, "truncated replies produce an error")
		vfReach("truncated")
	}
	vfAssert(len(conn.writes) == 2, "method selection and one request were sent")
	vfObserveBool("err", err != nil)
	vfObserve("reads", uint64(conn.reads))
	vfReach("end")
}
