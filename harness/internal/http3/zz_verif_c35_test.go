package http3

import (
	"io"

	"golang.org/x/net/quic"
)

// C35 — HTTP/3 stream framing never leaks bytes across frame boundaries.
//
// Harnesses (all shape B, over a pre-loaded quic stream with FIN, see harness/quic/zz_verif_export_http3.go):
// _varint (stream.readVarint), _frames (readFrameHeader / ReadByte / Read / discardFrame / endFrame accounting),
// _body (bodyReader.Read against a reference frame splitter), _settings (readSettings), _framedata
// (readFrameData), _request (known finding C35-overread-nil-stream).
// _length: the same consumers behind a frame header whose length field uses any of the four varint encodings and
// any declared value up to 2^62-1 (the peer chooses it; nothing has to arrive): discardUnknownFrame, the real
// client/server control-stream loops, bodyReader.Read and readSettings must neither panic nor size anything by
// the declared length, and report the truncated frame as H3_FRAME_ERROR.
//
// Sensitivity (sh mut.sh, all caught):
//   body.go Read `p = p[:r.st.lim]` dropped                      : VerifC35_body "terminal error class" / "complete DATA frames delivered..."
//   stream.go endFrame `st.lim != 0` -> `st.lim > 0`             : VerifC35_frames "endFrame outside a frame refused"
//   stream.go recordBytesRead `st.lim < 0` -> `st.lim < -64`     : VerifC35_frames "ReadByte past the frame: connection error H3_FRAME_ERROR"
//   stream.go discardFrame loop -> `st.readFrameData()` (seed C35-D): VerifC35_length panic "makeslice: len out of range" (consumers discard, control, body)
//   stream.go discardFrame `for range st.lim` -> `for range int32(st.lim)` : VerifC35_length "truncated unknown frame: H3_FRAME_ERROR"

func init() {
	vfRegister("VerifC35_varint", VerifC35_varint)
	vfRegister("VerifC35_frames", VerifC35_frames)
	vfRegister("VerifC35_body", VerifC35_body)
	vfRegister("VerifC35_settings", VerifC35_settings)
	vfRegister("VerifC35_framedata", VerifC35_framedata)
	vfRegister("VerifC35_request", VerifC35_request)
	vfRegister("VerifC35_length", VerifC35_length)
}

func c35stream(data []byte) *stream {
	return newStream(quic.VerifLoadedStream(data, true))
}

func c35unread(st *stream) int64 { return quic.VerifStreamUnread(st.stream) }

// c35varint is the reference QUIC varint reader (RFC 9000 §16): value, encoded size, and how much of it is present.
// ok: complete; size 0: no byte at all.
func c35varint(b []byte) (v int64, size int, ok bool) {
	if len(b) == 0 {
		return 0, 0, false
	}
	size = 1 << (b[0] >> 6)
	if len(b) < size {
		return 0, size, false
	}
	v = int64(b[0] & 0x3f)
	for i := 1; i < size; i++ {
		v = v<<8 | int64(b[i])
	}
	return v, size, true
}

// error classes observed and compared
const (
	c35nil        = iota
	c35eof        // io.EOF
	c35frame      // errH3FrameError, or a *connectionError / *streamError carrying it
	c35message    // *streamError{errH3MessageError}
	c35unexpected // *connectionError{errH3FrameUnexpected}
	c35other
)

func c35class(err error) int {
	switch e := err.(type) {
	case nil:
		return c35nil
	case *connectionError:
		switch e.code {
		case errH3FrameError:
			return c35frame
		case errH3FrameUnexpected:
			return c35unexpected
		}
		return c35other
	case *streamError:
		switch e.code {
		case errH3FrameError:
			return c35frame
		case errH3MessageError:
			return c35message
		}
		return c35other
	case http3Error:
		if e == errH3FrameError {
			return c35frame
		}
		return c35other
	}
	if err == io.EOF {
		return c35eof
	}
	return c35other
}

// stream.readVarint over 0..9 arbitrary bytes, outside a frame or inside one with any limit 0..9: value and
// consumption agree with the reference; nothing -> io.EOF; partial -> errH3FrameError; crossing the frame limit ->
// connection error H3_FRAME_ERROR.
func VerifC35_varint() {
	n := vfLen("n", 0, 9)
	b := vfBytes("b", n)
	st := c35stream(b)
	lim := int64(-1)
	if vfChoice("inframe", 2) == 1 {
		lim = int64(vfLen("lim", 0, 9))
		st.lim = lim
	}
	got, err := st.readVarint()
	want, size, ok := c35varint(b)
	vfObserve("class", uint64(c35class(err)))
	switch {
	case size == 0:
		vfAssert(err == io.EOF, "no byte: io.EOF")
		vfReach("empty")
	case !ok:
		vfAssert(err == errH3FrameError, "partial varint: H3_FRAME_ERROR")
		vfReach("partial")
	case lim >= 0 && int64(size) > lim:
		ce, isConn := err.(*connectionError)
		vfAssert(isConn && ce.code == errH3FrameError, "varint crossing the frame limit: connection error H3_FRAME_ERROR")
		vfReach("crosses limit")
	default:
		vfAssert(err == nil, "complete varint accepted")
		vfAssert(got == want, "value")
		vfAssert(got >= 0 && got < 1<<62, "62-bit range")
		vfAssert(c35unread(st) == int64(n-size), "consumed exactly the encoding")
		if lim >= 0 {
			vfAssert(st.lim == lim-int64(size), "limit accounting")
		}
		vfObserve("v", uint64(got))
		vfReach("ok")
	}
	vfReach("end")
}

// One frame with a 1-byte type and a 1-byte length L (both symbolic) followed by 0..4 payload bytes and, when
// the payload is complete, a second frame header. After readFrameHeader the harness consumes k bytes with ReadByte,
// Read or discardFrame and ends the frame: endFrame succeeds iff exactly L bytes were consumed; reading more than L
// is a connection error H3_FRAME_ERROR and hands out no byte from behind the frame; reading into FIN inside the frame
// is H3_FRAME_ERROR; after a successful endFrame the next header is read from the first byte behind the frame.
func VerifC35_frames() {
	ftype := vfU8("type")
	flen := vfU8("len")
	vfAssume(ftype < 64 && flen < 64)
	n := vfLen("payload", 0, 4)
	payload := vfBytes("p", n)
	next := vfBytes("next", 2)
	vfAssume(next[0] < 64 && next[1] < 64)
	data := append([]byte{ftype, flen}, payload...)
	data = append(data, next...)
	total := int64(n + 2) // bytes behind the first frame header
	st := c35stream(data)

	got, err := st.readFrameHeader()
	vfAssert(err == nil && got == frameType(ftype) && st.lim == int64(flen), "frame header")
	_, err = st.readFrameHeader()
	vfAssert(err == errH3FrameError && st.lim == int64(flen), "second readFrameHeader inside a frame refused, nothing consumed")
	vfAssert(c35unread(st) == total, "nothing consumed")

	l := int64(flen)
	switch vfChoice("consumer", 3) {
	case 0: // k single-byte reads
		k := int64(vfLen("k", 0, 5))
		for i := int64(0); i < k; i++ {
			c, err := st.ReadByte()
			switch {
			case i >= l:
				ce, isConn := err.(*connectionError)
				vfAssert(isConn && ce.code == errH3FrameError, "ReadByte past the frame: connection error H3_FRAME_ERROR")
				vfAssert(st.stream == nil || c35unread(st) == total-l, "byte behind the frame not consumed")
				vfReach("ReadByte over-read")
				vfReach("end")
				return
			case i >= total:
				vfAssert(err == errH3FrameError, "FIN inside the frame: H3_FRAME_ERROR")
				vfReach("ReadByte truncated")
				vfReach("end")
				return
			default:
				vfAssert(err == nil && c == data[2+i], "ReadByte returns the payload byte")
			}
		}
		err := st.endFrame()
		if k == l {
			vfAssert(err == nil && st.lim == -1, "endFrame after exactly L bytes")
		} else {
			ce, isConn := err.(*connectionError)
			vfAssert(isConn && ce.code == errH3FrameError, "endFrame with unread payload: connection error H3_FRAME_ERROR")
			vfReach("endFrame early")
			vfReach("end")
			return
		}
	case 1: // one Read of up to 3 bytes, limited to the frame by the caller as bodyReader does
		p := make([]byte, 3)
		if int64(len(p)) > st.lim {
			p = p[:st.lim]
		}
		m, err := st.Read(p)
		avail := total
		if l < avail {
			avail = l
		}
		if int64(len(p)) < avail {
			avail = int64(len(p))
		}
		if total < l && int64(len(p)) >= total {
			// FIN inside the frame: either this Read fails, or it returns what is there and the next one fails
			if err == nil {
				vfAssert(int64(m) == total, "Read returns the available payload")
				m, err = st.Read(p)
			}
			vfAssert(m == 0 && err == errH3FrameError, "Read reaching FIN inside the frame: H3_FRAME_ERROR, no data")
			vfReach("Read truncated")
			vfReach("end")
			return
		}
		vfAssert(err == nil && int64(m) == avail, "Read returns the available payload")
		for i := 0; i < m; i++ {
			vfAssert(p[i] == data[2+i], "Read returns payload bytes")
		}
		vfAssert(st.lim == l-int64(m), "limit accounting")
		if st.lim != 0 {
			vfReach("Read partial")
			vfReach("end")
			return
		}
		vfAssert(st.endFrame() == nil, "endFrame after reading the whole frame")
	case 2:
		err := st.discardFrame()
		if l > total {
			se, isStream := err.(*streamError)
			vfAssert(isStream && se.code == errH3FrameError, "discardFrame into FIN: H3_FRAME_ERROR")
			vfReach("discard truncated")
			vfReach("end")
			return
		}
		vfAssert(err == nil && st.lim == -1, "discardFrame")
	}
	// the frame was consumed exactly: the next header starts right behind it
	vfAssert(c35unread(st) == total-l, "stream position is the end of the frame")
	vfAssert(c35class(st.endFrame()) == c35frame && st.lim == -1, "endFrame outside a frame refused")
	rest := data[2+int(vfConcretize(uint64(l))):]
	t2, err := st.readFrameHeader()
	wt, ts, ok1 := c35varint(rest)
	switch {
	case ts == 0:
		vfAssert(err == io.EOF, "clean end of stream")
	case !ok1:
		vfAssert(err == errH3FrameError, "FIN inside the type field")
	default:
		wl, ls, ok2 := c35varint(rest[ts:])
		switch {
		case ls == 0:
			vfAssert(err == io.EOF, "(lenient) FIN between type and length is reported as io.EOF")
		case !ok2:
			vfAssert(err == errH3FrameError, "FIN inside the length field")
		default:
			vfAssert(err == nil && int64(t2) == wt && st.lim == wl, "next frame header read from behind the frame")
			vfReach("second frame")
		}
	}
	vfReach("end")
}

// ---------------------------------------------------------------------------------------------------------
// bodyReader.Read against a reference frame splitter.

type c35ref struct {
	min, max []byte // body bytes that must / may have been delivered when the terminal event is reported
	final    int    // terminal class
	frames   int
}

// c35split parses b (followed by FIN) as a sequence of frames the way a body reader must: DATA payloads are body
// bytes, unknown types are skipped, HEADERS ends the body (trailers), other known types are unexpected; remain is
// the Content-Length still expected (-1: none).
func c35split(b []byte, remain int64) *c35ref {
	r := &c35ref{}
	pos := 0
	for {
		r.frames++
		ftype, ts, ok := c35varint(b[pos:])
		if ts == 0 { // clean end of stream
			r.final = c35eof
			if remain > 0 {
				r.final = c35message
			}
			return r
		}
		if !ok {
			r.final = c35frame
			return r
		}
		pos += ts
		flen, ls, ok := c35varint(b[pos:])
		if ls == 0 { // (lenient) FIN between type and length: the implementation reports io.EOF
			r.final = c35eof
			if remain > 0 {
				r.final = c35message
			}
			return r
		}
		if !ok {
			r.final = c35frame
			return r
		}
		pos += ls
		avail := int64(len(b) - pos)
		switch frameType(ftype) {
		case frameTypeData:
			if remain >= 0 && flen > remain {
				r.final = c35message
				return r
			}
			if flen > avail {
				r.max = append(r.max, b[pos:]...)
				r.final = c35frame
				return r
			}
			k := int(vfConcretize(uint64(flen)))
			r.min = append(r.min, b[pos:pos+k]...)
			r.max = append(r.max, b[pos:pos+k]...)
			pos += k
			if remain > 0 {
				remain -= flen
			}
		case frameTypeHeaders:
			if remain > 0 {
				r.final = c35message
				return r
			}
			present := b[pos:]
			if flen < avail {
				present = present[:int(vfConcretize(uint64(flen)))]
			}
			q := &c33ref{b: present, truncated: flen > avail, restrict: true}
			if q.decode() == c33ok {
				r.final = c35eof
			} else {
				r.final = c35other // any error but io.EOF; never more body
			}
			return r
		case frameTypeCancelPush, frameTypeSettings, frameTypePushPromise, frameTypeGoaway, frameTypeMaxPushID:
			r.final = c35unexpected
			return r
		default:
			if flen > avail {
				r.final = c35frame
				return r
			}
			pos += int(vfConcretize(uint64(flen)))
			vfReach("unknown frame skipped")
		}
	}
}

func c35prefix(a, b []byte) bool { // a is a prefix of b
	if len(a) > len(b) {
		return false
	}
	ok := true
	for i := range a {
		ok = vfAnd(ok, a[i] == b[i])
	}
	return ok
}

// N symbolic bytes + FIN on a request stream behind the headers; Content-Length absent or 0..2; Read with a
// buffer of 1, 2 or 8 bytes (fixed per run) until it fails. Never panics; every byte returned is a DATA payload
// byte, in order; at the terminal event everything from complete DATA frames has been delivered; the terminal
// error has the class the reference computes (EOF / H3_FRAME_ERROR / H3_MESSAGE_ERROR / H3_FRAME_UNEXPECTED /
// trailer decoding error); the error is sticky.
func VerifC35_body() {
	nmax := 5
	if vfTier() > 0 {
		nmax = 6
	}
	n := vfLen("n", 0, nmax)
	b := vfBytes("b", n)
	remain := int64(vfLen("contentlength", 0, 3)) - 1
	bufsz := []int{1, 2, 8}[vfChoice("buf", 3)]
	c35bodyCheck(b, remain, bufsz)
	vfReach("end")
}

// c35bodyCheck runs a bodyReader over b + FIN against the reference splitter (see VerifC35_body).
func c35bodyCheck(b []byte, remain int64, bufsz int) {
	n := len(b)
	ref := c35split(b, remain)

	st := c35stream(b)
	r := &bodyReader{st: st, remain: remain}
	var got []byte
	var err error
	for i := 0; i < n+3 && err == nil; i++ {
		p := make([]byte, bufsz)
		var m int
		m, err = r.Read(p)
		vfAssert(m >= 0 && m <= bufsz, "read count in range")
		vfAssert(err == nil || err == io.EOF || m == 0, "no data together with a failure")
		got = append(got, p[:m]...)
		vfAssert(c35prefix(got, ref.max), "only DATA payload bytes, in order")
	}
	vfAssert(err != nil, "terminates within n+3 reads")
	vfObserve("class", uint64(c35class(err)))
	vfObserveBytes("body", got)
	vfAssert(c35prefix(ref.min, got), "complete DATA frames delivered before the terminal event")
	cl := c35class(err)
	if ref.final == c35other {
		vfAssert(cl != c35nil && cl != c35eof, "invalid trailers reported as an error")
	} else {
		vfAssert(cl == ref.final, "terminal error class")
	}
	_, err2 := r.Read(make([]byte, 1))
	vfAssert(err2 == err, "sticky error")
	switch ref.final {
	case c35eof:
		vfAssert(len(got) == len(ref.max), "whole body delivered at EOF")
		if len(got) > 0 {
			vfReach("body delivered")
		}
		if ref.frames > 2 {
			vfReach("two frames then EOF")
		}
	case c35frame:
		vfReach("frame error")
	case c35message:
		vfReach("content-length mismatch")
	case c35unexpected:
		vfReach("unexpected frame")
	case c35other:
		vfReach("bad trailers")
	}
}

// readSettings over N symbolic bytes + FIN: first frame must be SETTINGS (else H3_MISSING_SETTINGS); the callback
// sees exactly the (id, value) varint pairs inside the frame, in order; reserved HTTP/2 ids 2..5 are
// H3_SETTINGS_ERROR; a pair crossing the frame end is a connection error H3_FRAME_ERROR; a frame cut by FIN is an
// error; on success the frame is consumed exactly.
func VerifC35_settings() {
	nmax := 7
	if vfTier() > 0 {
		nmax = 9
	}
	n := vfLen("n", 0, nmax)
	b := vfBytes("b", n)
	c35settingsCheck(b)
	vfReach("end")
}

// c35settingsCheck runs readSettings over b + FIN against the reference (see VerifC35_settings).
func c35settingsCheck(b []byte) {
	n := len(b)
	st := c35stream(b)
	var ids, vals []int64
	err := st.readSettings(func(id, v int64) error {
		ids = append(ids, id)
		vals = append(vals, v)
		return nil
	})
	vfObserve("class", uint64(c35class(err)))
	vfObserve("pairs", uint64(len(ids)))

	ftype, ts, ok1 := c35varint(b)
	var flen int64
	var ls int
	ok2 := false
	if ok1 {
		flen, ls, ok2 = c35varint(b[ts:])
	}
	if !ok1 || !ok2 || frameType(ftype) != frameTypeSettings {
		ce, isConn := err.(*connectionError)
		vfAssert(isConn && ce.code == errH3MissingSettings, "no SETTINGS frame: H3_MISSING_SETTINGS")
		vfAssert(len(ids) == 0, "no setting reported")
		vfReach("missing settings")
		return
	}
	pos := ts + ls
	end := int64(pos) + flen // may lie behind FIN
	k := 0
	for int64(pos) < end {
		id, s1, ok := c35varint(b[pos:])
		if !ok {
			vfAssert(err != nil, "frame cut by FIN rejected")
			vfReach("truncated")
			break
		}
		if int64(pos+s1) > end {
			vfAssert(c35class(err) == c35frame, "identifier crossing the frame end: H3_FRAME_ERROR")
			vfReach("over-read")
			break
		}
		v, s2, ok := c35varint(b[pos+s1:])
		if !ok {
			vfAssert(err != nil, "frame cut by FIN rejected")
			vfReach("truncated")
			break
		}
		if int64(pos+s1+s2) > end {
			vfAssert(c35class(err) == c35frame, "value crossing the frame end: H3_FRAME_ERROR")
			vfReach("over-read")
			break
		}
		if id >= 2 && id <= 5 {
			ce, isConn := err.(*connectionError)
			vfAssert(isConn && ce.code == errH3SettingsError, "reserved HTTP/2 setting: H3_SETTINGS_ERROR")
			vfReach("reserved")
			break
		}
		vfAssert(k < len(ids) && ids[k] == id && vals[k] == v, "setting reported")
		k++
		pos += s1 + s2
	}
	vfAssert(len(ids) == k, "no further setting reported")
	if int64(pos) == end {
		vfAssert(err == nil, "well-formed SETTINGS accepted")
		vfAssert(st.lim == -1 && c35unread(st) == int64(n-pos), "frame consumed exactly")
		if k > 0 {
			vfReach("accepted with settings")
		}
	} else {
		vfAssert(err != nil, "malformed SETTINGS rejected")
	}
}

// readFrameData (no production caller at this commit) with a frame length 0..5 and 0..5 bytes present: returns
// exactly the payload, or H3_FRAME_ERROR when FIN comes first; leaves st.lim == 0. The frame length is kept small:
// make([]byte, st.lim) is sized by the peer-declared length (see known finding C33-peer-sized-alloc, same pattern).
func VerifC35_framedata() {
	l := vfLen("len", 0, 5)
	n := vfLen("n", 0, 5)
	b := vfBytes("b", n)
	st := c35stream(append([]byte{0x21, byte(l)}, b...))
	_, err := st.readFrameHeader()
	vfAssert(err == nil, "header")
	d, err := st.readFrameData()
	if n < l {
		vfAssert(err == errH3FrameError || err == io.ErrUnexpectedEOF || err == io.EOF, "truncated frame data rejected")
		vfObserve("class", uint64(c35class(err)))
		vfReach("truncated")
	} else {
		vfAssert(err == nil && len(d) == l, "frame data")
		for i := range d {
			vfAssert(d[i] == b[i], "payload bytes")
		}
		vfAssert(st.endFrame() == nil, "frame consumed")
		vfAssert(c35unread(st) == int64(n-l), "bytes behind the frame untouched")
		vfReach("ok")
	}
	_, err = newStream(nil).readFrameData()
	vfAssert(err == errH3FrameError, "readFrameData outside a frame refused")
	vfReach("end")
}

// ---------------------------------------------------------------------------------------------------------
// Known finding C35-overread-nil-stream.
//
// stream.recordBytesRead sets st.stream = nil when a read passes the frame limit and returns a *connectionError.
// The QPACK readers (readPrefixedInt, readPrefixedString) replace that error by the plain http3Error
// errQPACKDecompressionFailed; genericConn.handleStreamError (conn.go) handles every error that is not a
// *connectionError by calling st.stream.CloseRead(): nil pointer dereference in the stream's goroutine, which
// nothing recovers. Shortest trigger on a request stream: 01 00 (an empty HEADERS frame). Reproduced natively
// through the real server: repro/C35.
// The harness runs what serverConn.handleRequestStream does first (parseHeader: readFrameHeader, decode, endFrame)
// on a HEADERS frame with any length 0..3 and 0..3 payload bytes, then the real handleStreamError.

type c35handler struct{ aborted error }

func (h *c35handler) handleControlStream(*stream) error { return nil }
func (h *c35handler) handlePushStream(*stream) error    { return nil }
func (h *c35handler) handleEncoderStream(*stream) error { return nil }
func (h *c35handler) handleDecoderStream(*stream) error { return nil }
func (h *c35handler) handleRequestStream(st *stream) error {
	if _, err := st.readFrameHeader(); err != nil {
		return err
	}
	var dec qpackDecoder
	if err := dec.decode(st, func(indexType, string, string) error { return nil }); err != nil {
		return err
	}
	return st.endFrame()
}
func (h *c35handler) abort(err error) { h.aborted = err }

func VerifC35_request() {
	l := vfLen("len", 0, 3)
	n := vfLen("n", 0, 3)
	b := vfBytes("b", n)
	st := c35stream(append([]byte{byte(frameTypeHeaders), byte(l)}, b...))
	h := &c35handler{}
	err := h.handleRequestStream(st)
	_, isConn := err.(*connectionError)
	overread := st.stream == nil
	vfObserve("class", uint64(c35class(err)))
	vfObserveBool("overread", overread)
	var c genericConn
	panicked := vfExpectPanic(func() { c.handleStreamError(st, h, err) })
	vfAssertKF(!panicked, "stream error handling does not panic", "C35-overread-nil-stream", vfAnd(panicked, vfAnd(overread, !isConn)))
	if err == nil {
		vfReach("accepted")
	} else if isConn {
		vfAssert(h.aborted == err, "connection error aborts the connection") // (not produced by this flow at these sizes)
	} else {
		vfReach("stream error")
	}
	vfReach("end")
}

// ---------------------------------------------------------------------------------------------------------
// Frame headers over the whole range of the length field.
//
// The harnesses above keep declared frame lengths below 64 (or the whole input below 7 bytes, so that an 8-byte
// length field never fits). The length field is a 62-bit varint chosen by the peer, in any of the four encodings
// (non-minimal ones included), and a frame header can be followed by FIN at once: whatever handles the frame
// must not panic, must not size anything by the declared length, and must report the missing payload as an
// H3_FRAME_ERROR-class failure. The harnesses below put one such header (1-byte symbolic type, symbolic length
// in a chosen encoding) in front of 0..3 symbolic bytes + FIN and run the consumers of the harnesses above.

// c35length returns a frame length and its encoding in a chosen varint size (1, 2, 4 or 8 bytes, non-minimal
// encodings included). Values: below small (thorough: below smallThorough) or from 2^48 up to 2^62-1, symbolic;
// with concreteSmall the small values are chosen concretely (one path each) and only the large ones are symbolic.
// The gap is left out for the sake of defective trees only: there a declared length that reaches make() is
// reported by the engine as an input-sized allocation for 2^26..2^47 (a native replay would really ask the
// runtime for that much), and is forked over value by value below that (which is also why the harnesses with many
// paths take their small lengths concretely); from 2^48 on the Go runtime refuses the allocation outright (a
// panic that replays natively).
func c35length(small, smallThorough uint64, concreteSmall bool) (uint64, []byte) {
	e := 3 - vfChoice("lenenc", 4) // 8-byte encoding first
	size := 1 << e
	if vfTier() > 0 {
		small = smallThorough
	}
	var v uint64
	if concreteSmall && (e < 3 || vfChoice("lenregion", 2) == 1) {
		v = uint64(vfLen("smalllen", 0, int(small)-1))
	} else {
		v = vfU64("len")
		vfAssume(v < uint64(1)<<(8*size-2))
		if concreteSmall {
			vfAssume(v >= 1<<48)
		} else {
			vfAssume(vfOr(v < small, v >= 1<<48))
		}
	}
	enc := make([]byte, size)
	for i := range enc {
		enc[i] = byte(v >> (8 * (size - 1 - i)))
	}
	enc[0] |= byte(e << 6)
	return v, enc
}

// c35frameInput: 1-byte symbolic frame type (< 64), symbolic length (c35length), 0..3 symbolic bytes.
// (With at most 3 bytes behind the header every length above 3 is a truncated frame: the consumers that parse the
// bytes behind the frame take small lengths 0..4 concretely, thorough 0..7; the plain skip takes them symbolically
// below 64, thorough 2^14.)
func c35frameInput(small, smallThorough uint64, concreteSmall bool) (ftype byte, flen uint64, n int, data []byte) {
	ftype = vfU8("type")
	vfAssume(ftype < 64)
	flen, lf := c35length(small, smallThorough, concreteSmall)
	n = vfLen("payload", 0, 3)
	data = append([]byte{ftype}, lf...)
	data = append(data, vfBytes("p", n)...)
	return
}

func c35known(t frameType) bool {
	switch t {
	case frameTypeData, frameTypeHeaders, frameTypeCancelPush, frameTypeSettings, frameTypePushPromise, frameTypeGoaway, frameTypeMaxPushID:
		return true
	}
	return false
}

// One entry point for the four consumers (one exploration budget; the cheapest consumer and, in c35length, the
// largest lengths are explored first: the explorer is depth-first and takes choice 0 first).
func VerifC35_length() {
	switch vfChoice("consumer", 4) {
	case 0:
		c35lenDiscard()
	case 1:
		c35lenControl()
	case 2:
		c35lenBody()
	case 3:
		c35lenSettings()
	}
	vfReach("end")
}

// readFrameHeader + discardUnknownFrame: the header is decoded exactly in every encoding; a known type is
// H3_FRAME_UNEXPECTED with nothing consumed; an unknown frame is skipped exactly when its payload is there, and is
// an H3_FRAME_ERROR stream error when FIN comes first, however large the declared length.
func c35lenDiscard() {
	ftype, flen, n, data := c35frameInput(64, 1<<14, false)
	st := c35stream(data)
	got, err := st.readFrameHeader()
	vfAssert(err == nil && got == frameType(ftype) && st.lim == int64(flen), "frame header in any length encoding")
	vfAssert(c35unread(st) == int64(n), "header consumed exactly")
	err = st.discardUnknownFrame(got)
	vfObserve("class", uint64(c35class(err)))
	switch {
	case c35known(got):
		vfAssert(c35class(err) == c35unexpected, "known frame type: H3_FRAME_UNEXPECTED")
		vfAssert(c35unread(st) == int64(n), "nothing consumed")
		vfReach("known type")
	case flen > uint64(n):
		vfAssert(c35class(err) == c35frame, "truncated unknown frame: H3_FRAME_ERROR")
		if flen >= 1<<48 {
			vfReach("huge declared length")
		}
		vfReach("truncated")
	default:
		vfAssert(err == nil && st.lim == -1, "unknown frame skipped")
		vfAssert(c35unread(st) == int64(n)-int64(flen), "skipped exactly the frame")
		vfReach("skipped")
	}
}

// c35controlRef: how a control-stream loop must end on b + FIN (behind the SETTINGS frame): unknown frames are
// skipped; the first known frame type ends the loop with some error (c35other here: CANCEL_PUSH, GOAWAY and
// the frames that are not allowed on a control stream all end it); FIN between frames is io.EOF (closing a
// critical stream is handled by the caller); FIN inside a frame is H3_FRAME_ERROR.
func c35controlRef(b []byte) (final int, skipped int) {
	pos := 0
	for {
		ftype, ts, ok := c35varint(b[pos:])
		if ts == 0 {
			return c35eof, skipped
		}
		if !ok {
			return c35frame, skipped
		}
		pos += ts
		flen, ls, ok := c35varint(b[pos:])
		if ls == 0 { // (lenient) FIN between type and length, as in c35split
			return c35eof, skipped
		}
		if !ok {
			return c35frame, skipped
		}
		pos += ls
		if c35known(frameType(ftype)) {
			return c35other, skipped
		}
		if flen > int64(len(b)-pos) {
			return c35frame, skipped
		}
		pos += int(vfConcretize(uint64(flen)))
		skipped++
	}
}

// The real control-stream loops of the server and the client ((*serverConn).handleControlStream,
// (*clientConn).handleControlStream; neither touches its receiver) over an empty SETTINGS frame, one frame header
// as above, 0..3 symbolic bytes and FIN.
func c35lenControl() {
	_, flen, _, data := c35frameInput(5, 8, true)
	st := c35stream(append([]byte{byte(frameTypeSettings), 0}, data...))
	var err error
	if vfChoice("side", 2) == 0 {
		err = (&serverConn{}).handleControlStream(st)
	} else {
		err = (&clientConn{}).handleControlStream(st)
	}
	want, skipped := c35controlRef(data)
	cl := c35class(err)
	vfObserve("class", uint64(cl))
	if want == c35other {
		vfAssert(cl != c35nil && cl != c35eof && cl != c35frame, "known frame type ends the control stream loop")
		vfReach("known type")
	} else {
		vfAssert(cl == want, "control stream: terminal error class")
	}
	if want == c35frame && flen >= 1<<48 {
		vfReach("huge declared length")
	}
	if want == c35eof && skipped > 0 {
		vfReach("unknown frame skipped, then FIN")
	}
	if skipped > 1 {
		vfReach("two frames skipped")
	}
}

// bodyReader.Read (as VerifC35_body) over one frame header as above + 0..3 symbolic bytes + FIN: a DATA frame that
// declares up to 2^62-1 bytes delivers what is there and then fails with H3_FRAME_ERROR (or H3_MESSAGE_ERROR
// against a Content-Length); an unknown frame of that size is H3_FRAME_ERROR; a HEADERS frame of that size is a
// trailer decoding error.
func c35lenBody() {
	_, flen, _, data := c35frameInput(5, 8, true)
	remain := int64(vfLen("contentlength", 0, 3)) - 1
	bufsz := []int{1, 8}[vfChoice("buf", 2)]
	c35bodyCheck(data, remain, bufsz)
	if flen >= 1<<48 {
		vfReach("huge declared length")
	}
}

// readSettings (as VerifC35_settings) over one frame header as above + 0..3 symbolic bytes + FIN.
func c35lenSettings() {
	_, flen, _, data := c35frameInput(5, 8, true)
	c35settingsCheck(data)
	if flen >= 1<<48 {
		vfReach("huge declared length")
	}
}
