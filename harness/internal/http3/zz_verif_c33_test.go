package http3

import (
	"encoding/binary"

	"golang.org/x/net/http2/hpack"
	"golang.org/x/net/quic"
)

// C33 — QPACK field sections round-trip and the decoder rejects bad input safely.
//
// Harnesses (all shape B): _int / _intdec (prefixed integers, encoder and decoder against a reference), _string
// (string literals incl. Huffman selection), _static / _staticidx (static table), _decode (arbitrary HEADERS frame
// payloads against the reference decoder c33ref), _roundtrip (real encoder -> reference decoder and real decoder),
// _alloc (known finding C33-peer-sized-alloc: peer-declared sizes reach make([]byte, size)).
//
// Sensitivity (sh mut.sh, all caught):
//   qpack.go appendPrefixedInt `u < prefixMask` -> `u <= prefixMask`            : VerifC33_int "continuation length"
//   qpack_decode.go `if sawNonPseudo {` -> never true                           : VerifC33_decode "accepts exactly what the reference accepts"
//   qpack.go decodeLiteralFieldLineWithNameReference nbit 0b0010_0000 -> 0b0001_0000 : VerifC33_roundtrip "real decoder: fields"

func init() {
	vfRegister("VerifC33_int", VerifC33_int)
	vfRegister("VerifC33_intdec", VerifC33_intdec)
	vfRegister("VerifC33_string", VerifC33_string)
	vfRegister("VerifC33_static", VerifC33_static)
	vfRegister("VerifC33_staticidx", VerifC33_staticidx)
	vfRegister("VerifC33_decode", VerifC33_decode)
	vfRegister("VerifC33_roundtrip", VerifC33_roundtrip)
	vfRegister("VerifC33_alloc", VerifC33_alloc)
}

// c33stream wraps data as a pre-loaded quic stream (FIN set) read through the real http3 stream type.
// lim is the current frame limit (-1 = outside a frame).
func c33stream(data []byte, lim int64) *stream {
	st := newStream(quic.VerifLoadedStream(data, true))
	st.lim = lim
	return st
}

// Shape B. appendPrefixedInt -> readPrefixedIntWithByte is the identity for every i >= 0 and prefix 1..8,
// keeps the non-integer bits of the first byte, uses the minimal RFC 7541 form and consumes exactly the encoding.
func VerifC33_int() {
	i := vfI64("i")
	vfAssume(i >= 0)
	pl := uint8(vfLen("prefixLen", 1, 8))
	hi := vfU8("firstByteHigh")
	mask := byte(1)<<pl - 1
	vfAssume(hi&mask == 0)
	enc := appendPrefixedInt(nil, hi, pl, i)
	vfAssert(enc[0]&^mask == hi, "non-integer bits preserved")
	if uint64(i) < uint64(mask) {
		vfAssert(len(enc) == 1, "short form")
		vfAssert(enc[0]&mask == byte(i), "short form value")
		vfReach("short")
	} else {
		vfAssert(enc[0]&mask == mask, "prefix saturated")
		vfAssert(len(enc) >= 2 && len(enc) <= 11, "continuation length")
		vfAssert(enc[len(enc)-1] < 0x80, "last continuation byte")
		vfReach("long")
	}
	vfObserveBytes("enc", enc)
	tail := vfBytes("tail", 1)
	st := c33stream(append(append([]byte(nil), enc[1:]...), tail...), -1)
	got, err := st.readPrefixedIntWithByte(enc[0], pl)
	vfAssert(err == nil, "decodes")
	vfAssert(got == i, "round trip")
	vfAssert(quic.VerifStreamUnread(st.stream) == 1, "consumed exactly the encoding")
	vfReach("end")
}

// c33refInt is the reference RFC 7541 §5.1 decoder: first byte fb with an n-bit prefix followed by rest.
// It returns the value, the number of bytes of rest consumed and ok=false when the encoding is truncated,
// longer than 10 continuation bytes, or its value exceeds math.MaxInt64 (the implementation's int64 domain).
func c33refInt(fb byte, n uint8, rest []byte) (v uint64, used int, ok bool) {
	mask := byte(1)<<n - 1
	if fb&mask != mask {
		return uint64(fb & mask), 0, true
	}
	var acc uint64
	for k := 0; ; k++ {
		if k >= len(rest) || k >= 10 {
			return 0, k, false
		}
		b := rest[k]
		if k == 9 && b > 1 {
			return 0, k + 1, false // does not fit 64 bits
		}
		acc |= uint64(b&0x7f) << (7 * uint(k))
		if b < 0x80 {
			used = k + 1
			break
		}
	}
	if acc > uint64(1<<63-1)-uint64(mask) {
		return 0, used, false
	}
	return acc + uint64(mask), used, true
}

// Shape B. Arbitrary first byte and 0..11 following bytes, optional frame limit: readPrefixedIntWithByte never
// panics, never returns a negative value, agrees with the reference decoder, and fails when the encoding is
// truncated by the end of the stream or by the frame limit.
func VerifC33_intdec() {
	pl := uint8(vfLen("prefixLen", 1, 8))
	fb := vfU8("firstByte")
	n := vfLen("n", 0, 11)
	rest := vfBytes("rest", n)
	lim := int64(-1)
	if vfChoice("limited", 2) == 1 {
		lim = int64(vfLen("lim", 0, n))
	}
	st := c33stream(rest, lim)
	got, err := st.readPrefixedIntWithByte(fb, pl)
	avail := rest
	if lim >= 0 {
		avail = rest[:lim]
	}
	want, used, ok := c33refInt(fb, pl, avail)
	vfAssert((err == nil) == ok, "accepts exactly the well-formed in-range encodings")
	if err == nil {
		vfAssert(got >= 0, "non-negative")
		vfAssert(uint64(got) == want, "value")
		vfAssert(c33unread(st) == int64(n-used), "consumed exactly the encoding")
		if lim >= 0 {
			vfAssert(st.lim == lim-int64(used), "limit accounting")
		}
		vfObserve("v", uint64(got))
		if used > 0 {
			vfReach("long ok")
		}
		if used == 10 {
			vfReach("ten continuation bytes")
		}
	} else {
		// reading past the frame limit is a connection error (H3_FRAME_ERROR) since /repo commit ca44526;
		// every other rejection is QPACK_DECOMPRESSION_FAILED
		ce, isConn := err.(*connectionError)
		if isConn {
			vfAssert(lim >= 0 && ce.code == errH3FrameError, "connection error only for a frame-limit overrun")
			vfReach("frame overrun")
		} else {
			vfAssert(err == errQPACKDecompressionFailed, "error kind")
		}
		vfReach("rejected")
	}
	vfReach("end")
}

func c33unread(st *stream) int64 { return quic.VerifStreamUnread(st.stream) }

// c33alphabet is an 8-letter alphabet that covers Huffman code lengths 5,5,6,6,7,8,10 and 20 bits, lower and
// upper case, the pseudo-header marker and a non-ASCII byte. Strings that can be Huffman-coded are built from it
// with concrete choices: the hpack Huffman coder itself is the subject of C04; symbolic bytes through its
// shift/mux arithmetic make every solver query expensive and every Huffman leaf a separate path.
var c33alphabet = [8]byte{'a', 'e', '-', 'A', ':', 'Z', '!', 0x80}

// c33long are concrete strings whose length prefixes need continuation bytes (3- and 7-bit prefixes).
func c33long(k int) string {
	switch k {
	case 0:
		return "ZZZZZZZZ" // literal, length 8 >= 7
	case 1:
		return "content-type" // Huffman, 9 bytes >= 7
	case 2:
		return string(make([]byte, 130)) // literal (13-bit codes), length 130 >= 127
	}
	b := make([]byte, 210) // Huffman, 132 bytes >= 127
	for i := range b {
		b[i] = 'a'
	}
	return string(b)
}

// Shape B. appendPrefixedString -> readPrefixedStringWithByte is the identity; the H bit is set exactly when the
// Huffman form is strictly shorter; the literal form is length||bytes; the Huffman form decodes (hpack reference
// decoder) to s; bits above the H bit are preserved; exactly the encoding is consumed.
// Strings of 0..2 bytes range over all byte values (Huffman needs >= 3 bytes to win); strings of 3..4 bytes
// (thorough 5) range over c33alphabet; plus the four c33long strings.
func VerifC33_string() {
	nmax := 4
	if vfTier() > 0 {
		nmax = 5
	}
	n := vfLen("n", 0, nmax+1)
	var sb []byte
	if n <= 2 {
		sb = vfBytes("s", n)
	} else if n <= nmax {
		for i := 0; i < n; i++ {
			sb = append(sb, c33alphabet[vfChoice("letter", 8)])
		}
	} else {
		sb = []byte(c33long(vfChoice("long", 4)))
		n = len(sb)
	}
	s := string(sb)
	pl := uint8(3)
	if vfChoice("prefix", 2) == 1 {
		pl = 7
	}
	hbit := byte(1) << pl
	hi := ^(hbit | (hbit - 1)) // all bits above the H bit set
	if len(sb) <= 2 {
		hi = vfU8("firstByteHigh") // symbolic for the short, fully symbolic strings
		vfAssume(hi&(hbit|(hbit-1)) == 0)
	}
	enc := appendPrefixedString(nil, hi, pl, s)
	vfObserveBytes("enc", enc)
	vfAssert(enc[0]&^(hbit|(hbit-1)) == hi, "high bits preserved")
	size, used, ok := c33refInt(enc[0], pl, enc[1:])
	vfAssert(ok, "length prefix well-formed")
	vfAssert(int(size) == len(enc)-1-used, "length prefix covers the rest")
	body := enc[1+used:]
	if enc[0]&hbit != 0 {
		vfAssert(len(body) < n, "Huffman only when strictly shorter")
		dec, err := hpack.HuffmanDecodeToString(body)
		vfAssert(err == nil, "valid Huffman")
		vfAssert(dec == s, "Huffman payload decodes to s")
		vfReach("huffman")
	} else {
		vfAssert(hpack.HuffmanEncodeLength(s) >= uint64(n), "literal only when Huffman is not shorter")
		vfAssert(string(body) == s, "literal payload")
		vfReach("literal")
	}
	tail := vfBytes("tail", 1)
	st := c33stream(append(append([]byte(nil), enc[1:]...), tail...), int64(len(enc)-1))
	got, err := st.readPrefixedStringWithByte(enc[0], pl)
	vfAssert(err == nil, "decodes")
	vfAssert(got == s, "round trip")
	vfAssert(st.lim == 0, "frame limit consumed exactly")
	vfAssert(c33unread(st) == 1, "consumed exactly the encoding")
	vfReach("end")
}

// The static table maps agree with the table (a concrete, single-path consistency check).
func VerifC33_static() {
	var qe qpackEncoder
	qe.init()
	vfAssert(len(staticTableEntries) == 99, "99 entries (RFC 9204 appendix A)")
	for i, ent := range staticTableEntries {
		vfAssert(len(ent.name) > 0, "no empty names")
		j, ok := staticTableByNameValue[ent]
		vfAssert(ok && j == i, "name+value map is the inverse of the table")
		k, ok := staticTableByName[ent.name]
		vfAssert(ok && k <= i && staticTableEntries[k].name == ent.name, "name map points at an entry with that name")
		for m := 0; m < k; m++ {
			vfAssert(staticTableEntries[m].name != ent.name, "name map points at the first such entry")
		}
		// pseudo-header entries have valid wire names after the colon; all names are lower case
		nm := ent.name
		if nm[0] == ':' {
			nm = nm[1:]
		}
		vfAssert(validWireHeaderFieldName(nm), "valid lower-case wire name")
	}
	vfAssert(len(staticTableByNameValue) == 99, "no duplicate entries")
	vfReach("end")
}

// staticTableEntry accepts exactly the indices 0..98, for every int64.
func VerifC33_staticidx() {
	idx := vfI64("index")
	ent, err := staticTableEntry(idx)
	if idx < 0 || idx > 98 {
		vfAssert(err == errQPACKDecompressionFailed, "out of range index rejected")
		vfReach("out of range")
	} else {
		vfAssert(err == nil, "in range index accepted")
		vfAssert(ent.name == staticTableEntries[int(vfConcretize(uint64(idx)))].name, "entry")
		vfReach("in range")
	}
	vfReach("end")
}

// ---------------------------------------------------------------------------------------------------------
// Reference field-section decoder (RFC 9204 §4.5 with an empty dynamic table), written over a byte slice.

type c33field struct {
	itype       indexType
	name, value string
}

const (
	c33ok      = iota // whole section decoded
	c33reject         // malformed or unsupported encoding: any error
	c33message        // well-formed encoding of a malformed message: errH3MessageError
)

type c33ref struct {
	b         []byte // the part of the frame payload that is present on the stream
	pos       int
	truncated bool // the frame claims more bytes than the stream holds
	restrict  bool // keep table indices and Huffman payload bytes to boundary/representative values
	fields    []c33field
}

func (r *c33ref) next() (byte, bool) {
	if r.pos >= len(r.b) {
		return 0, false
	}
	c := r.b[r.pos]
	r.pos++
	return c, true
}

func (r *c33ref) int(fb byte, n uint8) (uint64, bool) {
	v, used, ok := c33refInt(fb, n, r.b[r.pos:])
	r.pos += used
	return v, ok
}

// c33huff: representative Huffman payload bytes: "0", "a", ":" with valid padding, 'a' with invalid padding, EOS prefix.
func c33huff(b byte) bool {
	return vfOr(vfOr(b == 0x07, b == 0x1f), vfOr(b == 0xb9, vfOr(b == 0x18, b == 0xff)))
}

// c33index: boundary static-table indices (pseudo-headers 0, 1, 15; regular 63, 98; first invalid 99; far out).
func c33index(i uint64) bool {
	return vfOr(vfOr(i <= 1, i == 15), vfOr(vfOr(i == 63, i == 98), vfOr(i == 99, i > 1000)))
}

func (r *c33ref) str(fb byte, n uint8) (string, bool) {
	size, ok := r.int(fb, n)
	if !ok || size > uint64(len(r.b)-r.pos) {
		return "", false
	}
	k := int(vfConcretize(size))
	data := r.b[r.pos : r.pos+k]
	r.pos += k
	if fb&(1<<n) != 0 {
		if r.restrict {
			for _, c := range data {
				vfAssume(c33huff(c))
			}
		}
		s, err := hpack.HuffmanDecodeToString(data)
		return s, err == nil
	}
	return string(data), true
}

func (r *c33ref) static(idx uint64, isStatic bool) (tableEntry, bool) {
	if r.restrict {
		vfAssume(c33index(idx))
	}
	if !isStatic || idx > 98 {
		return tableEntry{}, false
	}
	return staticTableEntries[int(vfConcretize(idx))], true
}

func (r *c33ref) decode() int {
	fb, ok := r.next()
	if !ok {
		return c33reject
	}
	ric, ok := r.int(fb, 8)
	if !ok || ric != 0 {
		return c33reject
	}
	if fb, ok = r.next(); !ok {
		return c33reject
	}
	if _, ok = r.int(fb, 7); !ok { // sign and delta base: irrelevant without a dynamic table
		return c33reject
	}
	sawRegular := false
	for r.pos < len(r.b) {
		fb, _ = r.next()
		var f c33field
		switch {
		case fb&0x80 != 0: // indexed field line
			idx, ok := r.int(fb, 6)
			if !ok {
				return c33reject
			}
			ent, ok := r.static(idx, fb&0x40 != 0)
			if !ok {
				return c33reject
			}
			f = c33field{mayIndex, ent.name, ent.value}
		case fb&0x40 != 0: // literal field line with name reference
			idx, ok := r.int(fb, 4)
			if !ok {
				return c33reject
			}
			ent, ok := r.static(idx, fb&0x10 != 0)
			if !ok {
				return c33reject
			}
			vb, ok := r.next()
			if !ok {
				return c33reject
			}
			v, ok := r.str(vb, 7)
			if !ok {
				return c33reject
			}
			f = c33field{indexTypeForNBit(fb & 0x20), ent.name, v}
		case fb&0x20 != 0: // literal field line with literal name
			nm, ok := r.str(fb, 3)
			if !ok {
				return c33reject
			}
			vb, ok := r.next()
			if !ok {
				return c33reject
			}
			v, ok := r.str(vb, 7)
			if !ok {
				return c33reject
			}
			f = c33field{indexTypeForNBit(fb & 0x10), nm, v}
		default: // post-base index / post-base name reference: dynamic table
			return c33reject
		}
		if len(f.name) == 0 {
			return c33message
		}
		if f.name[0] == ':' {
			if sawRegular {
				return c33message
			}
		} else {
			sawRegular = true
		}
		r.fields = append(r.fields, f)
	}
	if r.truncated {
		return c33reject
	}
	return c33ok
}

func c33sameFields(a, b []c33field) bool {
	if len(a) != len(b) {
		return false
	}
	ok := true
	for i := range a {
		ok = vfAnd(ok, a[i].itype == b[i].itype)
		ok = vfAnd(ok, a[i].name == b[i].name)
		ok = vfAnd(ok, a[i].value == b[i].value)
	}
	return ok
}

// c33run reads one frame header from st, requires HEADERS, runs the real decoder and returns the delivered fields.
func c33run(st *stream) (fields []c33field, err error) {
	ftype, err := st.readFrameHeader()
	vfAssert(err == nil && ftype == frameTypeHeaders, "frame header")
	var dec qpackDecoder
	err = dec.decode(st, func(itype indexType, name, value string) error {
		fields = append(fields, c33field{itype, name, value})
		return nil
	})
	return fields, err
}

func c33errClass(err error) uint64 {
	switch err {
	case nil:
		return 0
	case errQPACKDecompressionFailed:
		return 1
	case errH3MessageError:
		return 2
	case errH3FrameError:
		return 3
	}
	return 4
}

// Shape B. A HEADERS frame whose declared length L and whose N payload bytes are chosen independently
// (L == N consistent; L < N: the rest belongs to the next frame; L > N: truncated by FIN). The real decoder
// never panics, accepts exactly what the reference decoder accepts, delivers the same fields in the same order
// (also before a rejection), reports malformed messages as errH3MessageError, consumes exactly the frame
// (st.lim == 0, endFrame succeeds) and never touches bytes behind the frame.
func VerifC33_decode() {
	nmax := 5
	if vfTier() > 0 {
		nmax = 6
	}
	n := vfLen("n", 0, nmax)
	payload := vfBytes("payload", n)
	l := n
	switch vfChoice("framelen", 3) {
	case 1:
		vfAssume(n > 0)
		l = n - 1
		if n <= 4 {
			l = vfLen("shorter", 0, n-1)
		}
	case 2:
		l = n + 1 + vfChoice("longer", 2)*40 // n+1 or n+41 (one-byte varint)
	}
	present := payload
	if l < n {
		present = payload[:l]
	}
	ref := &c33ref{b: present, truncated: l > n, restrict: n > 3}
	want := ref.decode()

	data := append([]byte{byte(frameTypeHeaders), byte(l)}, payload...)
	st := c33stream(data, -1)
	got, err := c33run(st)
	vfObserve("err", c33errClass(err))
	vfObserve("nfields", uint64(len(got)))
	vfAssert((err == nil) == (want == c33ok), "accepts exactly what the reference accepts")
	if want == c33message {
		vfAssert(err == errH3MessageError, "malformed message reported as H3_MESSAGE_ERROR")
		vfReach("message error")
	}
	vfAssert(c33sameFields(got, ref.fields), "fields delivered")
	if err == nil {
		vfAssert(st.lim == 0, "frame consumed exactly")
		vfAssert(st.endFrame() == nil, "endFrame")
		vfAssert(c33unread(st) == int64(n-l), "bytes behind the frame untouched")
		if len(got) > 0 {
			vfReach("accepted with fields")
		}
		if len(got) > 1 {
			vfReach("accepted with two fields")
		}
	} else {
		vfAssert(st.stream == nil || c33unread(st) >= int64(n-l) || l > n, "no read past the frame")
		vfReach("rejected")
	}
	vfReach("end")
}

// ---------------------------------------------------------------------------------------------------------
// Round trip through the real encoder and the real decoder.

// c33lower is the reference for httpcommon.LowerHeader: ok iff every byte is printable ASCII (0x20..0x7e);
// A..Z mapped to lower case.
func c33lower(s string) (string, bool) {
	b := []byte(s)
	ok := true
	for i, c := range b {
		ok = vfAnd(ok, vfAnd(c >= ' ', c <= '~'))
		b[i] = vfIteU8(vfAnd(c >= 'A', c <= 'Z'), c+('a'-'A'), c)
	}
	return string(b), ok
}

// c33sym is a string of 0..2 bytes with exactly one symbolic byte (all 256 values) when non-empty; a 2-byte string
// gets the concrete first byte lead. (One symbolic byte per string keeps every solver query that goes through
// hpack.HuffmanEncodeLength's table sums within 8 free bits; with two symbolic bytes each costs 0.2-5 s.)
func c33sym(label string, lead byte) string {
	switch vfLen(label+"len", 0, 2) {
	case 0:
		return ""
	case 1:
		return vfString(label, 1)
	}
	return string([]byte{lead}) + vfString(label, 1)
}

// c33pick chooses one field. Kinds: 0 a name of 0..2 bytes with one symbolic byte (all byte values: upper case,
// ':', control and non-ASCII bytes; 2-byte names start with ':' or 'X') and a value of 0..1 symbolic bytes; 1 an
// exact static-table pair (given with canonical or upper-case spelling); 2 a static-table name with a value of
// 0..2 bytes, one symbolic (miss, or hit of the short values "0", "1", "*", "/"); 3 longer concrete names/values
// that are Huffman-coded or need continuation bytes. The never-index flag is an independent choice for kinds 1
// and 2 (where it changes the representation) and tied to another choice for kinds 0 and 3.
// reduced (third field in thorough): 1-byte symbolic name with empty value, or one of three static cases.
func c33pick(reduced bool) (name, value string, itype indexType) {
	flag := func(never bool) indexType {
		if never {
			return neverIndex
		}
		return mayIndex
	}
	if reduced {
		switch vfChoice("kind3", 4) {
		case 0:
			return vfString("name", 1), "", mayIndex
		case 1:
			return ":status", "200", mayIndex
		case 2:
			return "Age", "0", neverIndex
		}
		return "early-data", "x", mayIndex
	}
	switch vfChoice("kind", 4) {
	case 0:
		lead := byte(':')
		never := vfChoice("lead", 2) == 1
		if never {
			lead = 'X'
		}
		name = c33sym("name", lead)
		value = vfString("value", vfLen("valuelen", 0, 1))
		return name, value, flag(never)
	case 1:
		itype = flag(vfChoice("never", 2) == 1)
		switch vfChoice("pair", 5) {
		case 0:
			return ":method", "GET", itype // 17
		case 1:
			return ":status", "200", itype // 25
		case 2:
			return "Content-Type", "text/plain", itype // 53, through commonLowerHeader
		case 3:
			return "X-FRAME-OPTIONS", "sameorigin", itype // 98 (last entry), through asciiToLower
		}
		return ":authority", "", itype // 0
	case 2:
		itype = flag(vfChoice("never", 2) == 1)
		switch vfChoice("sname", 4) {
		case 0:
			name = "Age" // 2 ("age", "0")
		case 1:
			name = ":path" // 1 (":path", "/")
		case 2:
			name = "early-data" // 86 ("early-data", "1"): name index needs a continuation byte
		case 3:
			name = "timing-allow-origin" // 93 ("*")
		}
		return name, c33sym("value", 'v'), itype
	}
	switch vfChoice("long", 3) {
	case 0:
		return "x-custom-header", "some value that huffman shortens", neverIndex
	case 1:
		return "ZZZZZZZZ", "ZZZZZZZZ", mayIndex // name becomes zzzzzzzz (Huffman), value stays literal
	}
	return "user-agent", c33long(3), neverIndex // static name reference, 210-byte value: Huffman with continuation
}

// c33frame prepends an HTTP/3 frame header (type < 64, length < 16384) to payload.
func c33frame(ftype frameType, payload []byte) []byte {
	b := []byte{byte(ftype)}
	if len(payload) < 64 {
		b = append(b, byte(len(payload)))
	} else {
		b = append(b, 0x40|byte(len(payload)>>8), byte(len(payload)))
	}
	return append(b, payload...)
}

// Shape B. A list of 1..2 fields (thorough 3) with never-index flags -> qpackEncoder.encode -> (a) the reference
// decoder over the bytes, (b) one HEADERS frame on a quic stream -> qpackDecoder.decode. Expected: the fields whose
// names are printable ASCII, lower-cased, same values, same flags, same order; the decoder stops with
// errH3MessageError at the first empty name or pseudo-header after a regular field (fields before it delivered).
func VerifC33_roundtrip() {
	kmax := 2
	if vfTier() > 0 {
		kmax = 3
	}
	k := vfLen("fields", 1, kmax)
	var in, want []c33field
	wantClass := c33ok
	sawRegular := false
	for i := 0; i < k; i++ {
		name, value, itype := c33pick(i >= 2)
		in = append(in, c33field{itype, name, value})
		lname, ascii := c33lower(name)
		if !ascii {
			vfReach("non-ASCII name skipped")
			continue
		}
		if wantClass != c33ok {
			continue
		}
		if len(lname) == 0 {
			wantClass = c33message
			continue
		}
		if lname[0] == ':' {
			if sawRegular {
				wantClass = c33message
				continue
			}
		} else {
			sawRegular = true
		}
		want = append(want, c33field{itype, lname, value})
	}
	var qe qpackEncoder
	qe.init()
	enc := qe.encode(func(f func(itype indexType, name, value string)) {
		for _, x := range in {
			f(x.itype, x.name, x.value)
		}
	})
	vfObserveBytes("enc", enc)
	vfAssert(len(enc) >= 2 && enc[0] == 0 && enc[1] == 0, "section prefix: required insert count 0, base 0")

	ref := &c33ref{b: enc}
	refClass := ref.decode()
	vfAssert(refClass == wantClass, "reference decoder: class")
	vfAssert(c33sameFields(ref.fields, want), "reference decoder: fields")

	data := append(c33frame(frameTypeHeaders, enc), 0x21) // 0x21: first byte of a following frame
	st := c33stream(data, -1)
	got, err := c33run(st)
	vfObserve("err", c33errClass(err))
	vfAssert(c33sameFields(got, want), "real decoder: fields")
	if wantClass == c33ok {
		vfAssert(err == nil, "real decoder accepts")
		vfAssert(st.endFrame() == nil, "frame consumed exactly")
		vfAssert(c33unread(st) == 1, "next frame untouched")
		if len(want) == k && k > 1 {
			vfReach("all fields round-tripped")
		}
	} else {
		vfAssert(err == errH3MessageError, "malformed message rejected")
		vfReach("malformed message")
	}
	vfReach("end")
}

// ---------------------------------------------------------------------------------------------------------
// Finding C33-peer-sized-alloc (DESIGN.md §7 item 4), repaired in /repo; the text below describes the defect.
//
// readPrefixedStringWithByte bounds a declared string size only by st.lim, and st.lim is the frame length the
// peer declared in the frame header (any value < 2^62; neither server.go nor roundtrip.go caps it): a 20-byte
// stream "HEADERS, length L >= 2^48, 00 00, literal name of S bytes" with 2^48 <= S <= remaining frame makes
// make([]byte, S) panic with "makeslice: len out of range" before a single payload byte is read (smaller S ask
// the runtime for S bytes: up to 2^47 per request stream). Nothing on the request path recovers, so the panic
// takes the process down. The main harnesses above keep frame lengths below 64 and therefore never reach this.
// This harness states the property for the oversized case: the decoder must reject such a string without
// panicking.
func VerifC33_alloc() {
	l := vfU64("framelen")
	size := vfU64("stringsize")
	vfAssume(l >= 16 && l < 1<<62)
	// the region where the Go runtime refuses the allocation outright (so that the replay does not try to
	// allocate terabytes); sizes above the declared frame are included: those are rejected properly
	vfAssume(size >= 1<<48 && size < 1<<62)
	data := []byte{byte(frameTypeHeaders)}
	data = binary.BigEndian.AppendUint64(data, l|3<<62) // 8-byte QUIC varint
	data = append(data, 0x00, 0x00)                     // required insert count 0, base 0
	data = append(data, 0x27)                           // literal field line with literal name, length prefix saturated
	data = binary.AppendUvarint(data, size-7)
	inFrame := size <= l-3-uint64(len(data)-12) // what is left of the frame after the length prefix
	st := c33stream(data, -1)
	var err error
	panicked := vfExpectPanic(func() { _, err = c33run(st) })
	vfObserveBool("panicked", panicked)
	// (fixed finding C33-peer-sized-alloc: make([]byte, size) with the peer-declared size panicked for in-frame
	// sizes >= 2^48; the repaired reader lets its buffer grow with the bytes that actually arrive)
	vfAssert(!panicked, "oversized string rejected without panicking")
	vfAssert(err == errQPACKDecompressionFailed, "oversized string rejected")
	if inFrame {
		vfReach("in-frame")
	}
	vfReach("end")
}
