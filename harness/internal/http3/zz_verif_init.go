package http3

import (
	"golang.org/x/net/http2/hpack"
	"golang.org/x/net/internal/httpcommon"
)

// Overlay-only (never part of /repo). Builds the lazily initialised tables used by the QPACK code once, at package
// initialisation, instead of on first use: the QPACK static-table maps, httpcommon's header-name maps and hpack's
// Huffman decoding tree. Behaviour is unchanged (each is guarded by a sync.Once); the engine then does not have
// to re-execute the builders on every explored path.
func init() {
	staticTableOnce.Do(initStaticTableMaps)
	httpcommon.LowerHeader("x")
	hpack.HuffmanDecodeToString(nil)
}
