package websocket

import (
	"bufio"
	"bytes"
	"io"
	"net/http"
)

// C59 (partial) — WebSocket messages cross the connection intact.
//
// Shape B. Oracles: the frame reader as the inverse of the frame writer + an RFC 6455 section 5.2 reference
// encoder/decoder written in the harness.
//   codec     hybiFrameWriter.Write(msg) -> bytes == reference encoding; NewFrameReader + ReadAll gives the same
//             opcode/FIN/payload. Lengths from the boundary set {0,1,4,125,126,127,65535,65536} (concrete), payload
//             concrete except symbolic bytes at positions 0,3,4,len-1; mask off / 4 symbolic mask bytes
//   header    NewFrameReader on 0..14 arbitrary bytes: no panic; Length >= 0 and equal to the reference decoding;
//             masking key as on the wire; incomplete headers give an error
//   handle    hybiFrameHandler.HandleFrame on a server and on a client Conn: unmasked client frame / masked server
//             frame => connection is closed with a protocol-error close frame (1002) and io.EOF; PING with payload
//             0..3 or 125 bytes => exactly one PONG with the same payload; text/binary frames pass through
//   receive   Message.Send on a client Conn -> wire -> Message.Receive on a server Conn (and the reverse direction):
//             two messages (text/binary, 0..3 symbolic bytes each) arrive intact and in order; with a small
//             MaxPayloadBytes an oversized first message gives ErrFrameTooLarge and the next message is intact
// Outside the claim: message lengths between the boundary values, handshake, fragmentation, hixie, Conn.Read.
//
// Sensitivity (mut.sh, each caught by this check):
//   hybi.go Write          `case length < 65536:` -> `case length <= 65536:`
//   hybi.go NewFrameReader `b &= 0x7f` (first one, length octet) -> `b &= 0x3f`
//   hybi.go HandleFrame    server side `== nil` -> `!= nil`
//   websocket.go Receive   oversized frame: `ws.frameReader = frame` dropped (leftover not drained)

func init() {
	vfRegister("VerifC59_codec", VerifC59_codec)
	vfRegister("VerifC59_header", VerifC59_header)
	vfRegister("VerifC59_handle", VerifC59_handle)
	vfRegister("VerifC59_receive", VerifC59_receive)
}

// c59encode: RFC 6455 5.2 reference encoder.
func c59encode(fin bool, opcode byte, key []byte, payload []byte) []byte {
	var b []byte
	b0 := opcode
	if fin {
		b0 |= 0x80
	}
	b = append(b, b0)
	m := byte(0)
	if key != nil {
		m = 0x80
	}
	n := len(payload)
	switch {
	case n <= 125:
		b = append(b, m|byte(n))
	case n <= 0xffff:
		b = append(b, m|126, byte(n>>8), byte(n))
	default:
		b = append(b, m|127, 0, 0, 0, 0, byte(n>>24), byte(n>>16), byte(n>>8), byte(n))
	}
	if key != nil {
		b = append(b, key...)
		for i, c := range payload {
			b = append(b, c^key[i&3])
		}
	} else {
		b = append(b, payload...)
	}
	return b
}

func c59eq(a, b []byte) bool {
	if len(a) != len(b) {
		return false
	}
	ok := true
	for i := range a {
		if a[i] != b[i] { // concrete for almost every position; symbolic positions are decided by the solver
			ok = false
		}
	}
	return ok
}

func c59payload(n int) []byte {
	p := make([]byte, n)
	for i := range p {
		p[i] = byte(i*7 + 1)
	}
	for _, pos := range []int{0, 3, 4, n - 1} {
		if pos >= 0 && pos < n {
			p[pos] = vfU8("payload byte")
		}
	}
	return p
}

var c59lengths = []int{0, 1, 4, 125, 126, 127, 65535, 65536}

func VerifC59_codec() {
	n := c59lengths[vfChoice("length", len(c59lengths))]
	msg := c59payload(n)
	var key []byte
	maskKind := vfChoice("mask kind", 3) // none / 4 symbolic bytes / concrete key
	switch maskKind {
	case 1:
		key = vfBytes("mask", 4)
	case 2:
		key = []byte{0xa1, 0xb2, 0xc3, 0xd4}
	}
	opcode := byte(TextFrame)
	if vfBool("binary") {
		opcode = BinaryFrame
	}
	var wire bytes.Buffer
	w := &hybiFrameWriter{writer: bufio.NewWriter(&wire), header: &hybiFrameHeader{Fin: true, OpCode: opcode, MaskingKey: key}}
	k, err := w.Write(msg)
	vfAssert(err == nil && k == n, "write ok")
	want := c59encode(true, opcode, key, msg)
	got := wire.Bytes()
	vfAssert(len(got) == len(want), "wire length")
	hl := len(want) - n
	for i := 0; i < hl; i++ {
		vfAssert(got[i] == want[i], "wire header equals the RFC 6455 reference")
	}
	for _, pos := range []int{0, 3, 4, 5, n - 1} {
		if pos >= 0 && pos < n {
			vfAssert(got[hl+pos] == want[hl+pos], "wire payload equals the RFC 6455 reference")
		}
	}
	vfObserve("wirelen", uint64(len(got)))
	fr, err := hybiFrameReaderFactory{bufio.NewReader(&wire)}.NewFrameReader()
	vfAssert(err == nil, "frame header parsed")
	h := fr.(*hybiFrameReader)
	vfAssert(h.header.Fin && h.header.OpCode == opcode && fr.PayloadType() == opcode, "FIN/opcode survive")
	vfAssert(h.header.Length == int64(n), "length survives")
	vfAssert((h.header.MaskingKey != nil) == (key != nil), "mask flag survives")
	vfAssert(fr.Len() == len(want), "Len() is header + payload")
	data, err := io.ReadAll(fr)
	vfAssert(err == nil, "payload read")
	vfAssert(len(data) == n, "payload length")
	same := true
	for i := range data {
		if i == 0 || i == 3 || i == 4 || i == n-1 {
			same = vfAnd(same, data[i] == msg[i])
		} else if maskKind == 1 {
			// symbolic key: x^k^k is a solver question; sampled at both ends (every position is compared
			// for the concrete key and for unmasked frames)
			if i < 12 || i >= n-12 {
				same = vfAnd(same, data[i] == msg[i])
			}
		} else if data[i] != msg[i] {
			same = false
		}
	}
	vfAssert(same, "payload survives")
	switch n {
	case 125:
		vfReach("7-bit length boundary")
	case 126:
		vfReach("16-bit length lower boundary")
	case 65535:
		vfReach("16-bit length upper boundary")
	case 65536:
		vfReach("64-bit length lower boundary")
	}
	vfReach("end")
}

func VerifC59_header() {
	n := vfLen("n", 0, 14)
	b := vfBytes("b", n)
	fr, err := hybiFrameReaderFactory{bufio.NewReader(bytes.NewReader(b))}.NewFrameReader()
	need := 2
	masked := false
	var want int64
	if n >= 2 {
		masked = b[1]&0x80 != 0
		l7 := b[1] & 0x7f
		ext := 0
		if l7 == 126 {
			ext = 2
		} else if l7 == 127 {
			ext = 8
		} else {
			want = int64(l7)
		}
		need += ext
		if masked {
			need += 4
		}
		if n >= 2+ext {
			for i := 0; i < ext; i++ {
				c := b[2+i]
				if ext == 8 && i == 0 {
					c &= 0x7f // RFC 6455: the most significant bit MUST be 0
				}
				want = want<<8 | int64(c)
			}
		}
	}
	if n < need {
		vfAssert(err != nil, "incomplete header is an error")
		vfReach("incomplete")
		vfReach("end")
		return
	}
	vfAssert(err == nil, "complete header parses")
	h := fr.(*hybiFrameReader)
	vfAssert(h.header.Length >= 0, "Length is never negative")
	vfAssert(h.header.Length == want, "Length equals the RFC 6455 reference decoding")
	vfAssert(h.header.Fin == (b[0]&0x80 != 0) && h.header.OpCode == b[0]&0x0f, "FIN/opcode")
	vfAssert(h.header.Rsv[0] == (b[0]&0x40 != 0) && h.header.Rsv[1] == (b[0]&0x20 != 0) && h.header.Rsv[2] == (b[0]&0x10 != 0), "RSV bits")
	if masked {
		vfAssert(len(h.header.MaskingKey) == 4, "masking key present")
		for i := 0; i < 4; i++ {
			vfAssert(h.header.MaskingKey[i] == b[need-4+i], "masking key as on the wire")
		}
		vfReach("masked")
	} else {
		vfAssert(h.header.MaskingKey == nil, "no masking key")
	}
	if want < 1<<62 {
		vfAssert(fr.Len() == need+int(want), "Len() is header + payload length")
	}
	// the payload reader never yields more than Length bytes and unmasks what is there
	// (Length restricted here to 0..4 or >= 512: io.ReadAll slices its 512-byte buffer by a symbolic Length)
	vfAssume(vfOr(want <= 4, want >= 512))
	rest := b[need:]
	data, rerr := io.ReadAll(fr)
	vfAssert(rerr == nil, "reading the available payload")
	exp := len(rest)
	if int64(exp) > want {
		exp = int(want)
	}
	vfAssert(len(data) == exp, "payload limited to Length")
	for i := range data {
		c := rest[i]
		if masked {
			c ^= b[need-4+i&3]
		}
		vfAssert(data[i] == c, "payload unmasked with key[i mod 4]")
	}
	vfReach("end")
}

type c59rwc struct {
	in  *bytes.Reader
	out bytes.Buffer
}

func (c *c59rwc) Read(p []byte) (int, error)  { return c.in.Read(p) }
func (c *c59rwc) Write(p []byte) (int, error) { return c.out.Write(p) }
func (c *c59rwc) Close() error                { return nil }

func c59conn(server bool, input []byte) (*Conn, *c59rwc) {
	rwc := &c59rwc{in: bytes.NewReader(input)}
	var req *http.Request
	if server {
		req = &http.Request{}
	}
	return newHybiConn(&Config{}, nil, rwc, req), rwc
}

func VerifC59_handle() {
	server := vfBool("server conn")
	masked := vfBool("masked frame")
	var key []byte
	if masked {
		key = vfBytes("mask", 4)
	}
	kind := vfChoice("kind", 4)
	var opcode byte
	var payload []byte
	switch kind {
	case 0:
		opcode, payload = TextFrame, vfBytes("payload", vfLen("n", 0, 2))
	case 1:
		opcode, payload = BinaryFrame, vfBytes("payload", vfLen("n", 0, 2))
	case 2:
		opcode = PingFrame
		n := vfLen("n", 0, 4)
		if n == 4 {
			n = 125
		}
		payload = make([]byte, n)
		for i := range payload {
			payload[i] = byte(i)
		}
		for _, pos := range []int{0, 2, n - 1} {
			if pos >= 0 && pos < n {
				payload[pos] = vfU8("ping byte")
			}
		}
	case 3:
		opcode, payload = PongFrame, vfBytes("payload", vfLen("n", 0, 2))
	}
	ws, rwc := c59conn(server, c59encode(true, opcode, key, payload))
	fr, err := ws.frameReaderFactory.NewFrameReader()
	vfAssert(err == nil, "frame header parsed")
	out, err := ws.frameHandler.HandleFrame(fr)
	ws.buf.Writer.Flush()
	wire := rwc.out.Bytes()
	legal := masked == server // clients mask, servers do not
	if !legal {
		vfAssert(out == nil && err == io.EOF, "peer violating the masking rule is disconnected")
		if server {
			vfAssert(c59eq(wire, []byte{0x88, 0x02, 0x03, 0xea}), "server sends close 1002, unmasked")
			vfReach("unmasked client frame rejected")
		} else {
			vfAssert(len(wire) == 8 && wire[0] == 0x88 && wire[1] == 0x82, "client sends a masked close frame")
			vfAssert(wire[6]^wire[2] == 0x03 && wire[7]^wire[3] == 0xea, "client close status is 1002")
			vfReach("masked server frame rejected")
		}
		vfReach("end")
		return
	}
	switch kind {
	case 0, 1:
		vfAssert(err == nil && out != nil, "data frame passes")
		vfAssert(out.PayloadType() == opcode, "payload type")
		data, rerr := io.ReadAll(out)
		vfAssert(rerr == nil && len(data) == len(payload), "payload length")
		for i := range data {
			vfAssert(data[i] == payload[i], "payload")
		}
		vfAssert(len(wire) == 0, "nothing written for a data frame")
		vfReach("data frame")
	case 2:
		vfAssert(err == nil && out == nil, "ping consumed")
		n := len(payload)
		if server {
			vfAssert(len(wire) == 2+n && wire[0] == 0x8a && wire[1] == byte(n), "one unmasked PONG")
			for i := 0; i < n; i++ {
				vfAssert(wire[2+i] == payload[i], "PONG carries the PING payload")
			}
			vfReach("server answers ping")
		} else {
			vfAssert(len(wire) == 6+n && wire[0] == 0x8a && wire[1] == 0x80|byte(n), "one masked PONG")
			for i := 0; i < n; i++ {
				vfAssert(wire[6+i]^wire[2+i&3] == payload[i], "PONG carries the PING payload")
			}
			vfReach("client answers ping")
		}
		if n == 125 {
			vfReach("ping with 125 bytes")
		}
	case 3:
		vfAssert(err == nil && out == nil, "pong consumed")
		vfAssert(len(wire) == 0, "no answer to a PONG")
	}
	vfReach("end")
}

func VerifC59_receive() {
	toServer := vfBool("client to server")
	// sender side
	snd, sndrwc := c59conn(!toServer, nil)
	maxn := 3 + 2*vfTier()
	n1 := vfLen("n1", 0, maxn)
	n2 := vfLen("n2", 0, maxn)
	m1 := vfBytes("m1", n1)
	m2 := vfBytes("m2", n2)
	text1, text2 := vfBool("m1 is text"), vfBool("m2 is text")
	var gotType byte
	codec := Codec{marshal, func(data []byte, payloadType byte, v interface{}) error {
		gotType = payloadType
		return unmarshal(data, payloadType, v)
	}}
	send := func(text bool, m []byte) {
		var err error
		if text {
			err = codec.Send(snd, string(m))
		} else {
			err = codec.Send(snd, m)
		}
		vfAssert(err == nil, "send ok")
	}
	send(text1, m1)
	send(text2, m2)
	wire := append([]byte(nil), sndrwc.out.Bytes()...)
	if toServer {
		vfAssert(wire[1]&0x80 != 0, "client frames are masked")
	} else {
		vfAssert(wire[1]&0x80 == 0, "server frames are not masked")
	}
	rcv, _ := c59conn(toServer, wire)
	max := vfLen("MaxPayloadBytes", 0, 2+2*vfTier())
	rcv.MaxPayloadBytes = max
	recv := func(text bool, want []byte) {
		if text {
			var s string
			err := codec.Receive(rcv, &s)
			vfAssert(err == nil, "receive ok")
			vfAssert(gotType == TextFrame, "payload type text")
			vfAssert(s == string(want), "text message intact")
		} else {
			var d []byte
			err := codec.Receive(rcv, &d)
			vfAssert(err == nil, "receive ok")
			vfAssert(gotType == BinaryFrame, "payload type binary")
			vfAssert(len(d) == len(want), "binary message length")
			for i := range d {
				vfAssert(d[i] == want[i], "binary message intact")
			}
		}
	}
	if max != 0 && n1 > max {
		var s string
		err := codec.Receive(rcv, &s)
		vfAssert(err == ErrFrameTooLarge, "oversized message refused")
		vfReach("oversized refused")
	} else {
		recv(text1, m1)
	}
	if max != 0 && n2 > max {
		var d []byte
		vfAssert(codec.Receive(rcv, &d) == ErrFrameTooLarge, "oversized second message refused")
	} else {
		recv(text2, m2)
		vfReach("second message intact")
	}
	vfReach("end")
}
