package webdav

// C44 — WebDAV memory filesystem behaves like a hierarchical filesystem.  PARTIAL CLAIM (see checks/C44.json "kernel").
//
// The oracle is not the native file system (syscalls cannot be executed symbolically) but a small model restricted
// to behaviour on which POSIX and the os package documentation are unambiguous. Shape B (bounded runs from
// NewMemFS()). Only success/failure, names, kinds and contents are compared; error identities are not.
//
//   VerifC44_file     one file, k operations from {Write 1..2 symbolic bytes, Read into 1..3 bytes, Seek(offset
//                     symbolic in [-2,3], whence 0..3)} against a byte-slice reference, contents read back through a
//                     second handle after every step; plus one far Seek (offset symbolic >= 2^49) followed by Read
//                     or a 1-byte Write, which must fail or succeed but not panic (DESIGN §7 item 8).
//   VerifC44_readdir  directory with 0..3 children, 3 calls Readdir(count symbolic in [-1,4]) against the os.File
//                     contract (each call returns entries not returned before).
//   VerifC44_tree     tree {dir /a, file /a/b}, k operations from {Mkdir, OpenFile(6 flag sets)+1-byte Write,
//                     RemoveAll, Rename} over the names {/, /a, /a/b, /ab, /a/b/c}; after every operation the whole
//                     tree (walked with OpenFile/Readdir/Stat/Read) is compared with the model.
//
// Known findings reached on the unchanged tree (see known_findings.txt, repro/C44):
//   C44-far-seek-write-panics, C44-rename-same-name, C44-open-dir-for-writing, C44-removeall-missing-parent,
//   C44-readdir-all-after-partial.
//
// Sensitivity (mut.sh): file.go Rename `if strings.HasPrefix(newName, oldName+"/") {` -> `if false {` caught by
// VerifC44_tree ("Rename into own subtree fails"); Seek `npos = len(f.n.data) + int(offset)` -> `- int(offset)` caught
// by VerifC44_file ("Seek result").

import (
	"context"
	"io"
	"os"
	"path"
	"strings"
)

func init() {
	vfRegister("VerifC44_file", VerifC44_file)
	vfRegister("VerifC44_truncHole", VerifC44_truncHole)
	vfRegister("VerifC44_readdir", VerifC44_readdir)
	vfRegister("VerifC44_tree", VerifC44_tree)
}

// c44readAll reads a file through a fresh read-only handle.
func c44readAll(ctx context.Context, fs FileSystem, name string, max int) []byte {
	g, err := fs.OpenFile(ctx, name, os.O_RDONLY, 0)
	vfAssert(err == nil, "open for read-back")
	buf := make([]byte, max+1)
	var out []byte
	for i := 0; i < max+2; i++ {
		n, err := g.Read(buf)
		out = append(out, buf[:n]...)
		if err != nil {
			vfAssert(err == io.EOF && n == 0, "Read ends with (0, io.EOF)")
			break
		}
		vfAssert(n > 0, "Read makes progress")
	}
	g.Close()
	return out
}

func c44sameBytes(a, b []byte) bool {
	if len(a) != len(b) {
		return false
	}
	ok := true
	for i := range a {
		ok = vfAnd(ok, a[i] == b[i])
	}
	return ok
}

func VerifC44_file() {
	ctx := context.Background()
	fs := NewMemFS()
	f, err := fs.OpenFile(ctx, "/f", os.O_RDWR|os.O_CREATE, 0666)
	vfAssert(err == nil, "create /f")
	var data []byte // reference contents: concrete length, symbolic bytes
	pos := 0        // reference position: concrete (concretised after every Seek)
	k, wmax, rmax, olo, ohi := 3, 2, 3, int64(-2), int64(3)
	if vfTier() > 0 {
		wmax, rmax, olo, ohi = 3, 4, -3, 4
	}
	for step := 0; step < k; step++ {
		switch vfChoice("op", 4) {
		case 0: // Write
			n := vfLen("wn", 1, wmax)
			p := vfBytes("w", n)
			got, err := f.Write(p)
			vfAssert(err == nil && got == n, "Write returns (len(p), nil)")
			for len(data) < pos {
				data = append(data, 0) // hole
				vfReach("hole")
			}
			for i := 0; i < n; i++ {
				if pos+i < len(data) {
					data[pos+i] = p[i]
				} else {
					data = append(data, p[i])
				}
			}
			pos += n
		case 1: // Read
			m := vfLen("rn", 1, rmax)
			buf := make([]byte, m)
			got, err := f.Read(buf)
			if pos >= len(data) {
				vfAssert(got == 0 && err == io.EOF, "Read at or past the end returns (0, io.EOF)")
				vfReach("read-eof")
			} else {
				want := len(data) - pos
				if want > m {
					want = m
				}
				vfAssert(err == nil && got == want, "Read count")
				vfAssert(c44sameBytes(buf[:got], data[pos:pos+want]), "Read data")
				pos += want
			}
		case 2: // Seek within a small window around the file
			offset := vfI64("offset")
			vfAssume(offset >= olo)
			vfAssume(offset <= ohi)
			whence := vfChoice("whence", 4)
			base := int64(-100) // invalid whence
			switch whence {
			case io.SeekStart:
				base = 0
			case io.SeekCurrent:
				base = int64(pos)
			case io.SeekEnd:
				base = int64(len(data))
			}
			ret, err := f.Seek(offset, whence)
			npos := base + offset
			if whence == 3 || npos < 0 {
				vfAssert(err != nil && ret == 0, "Seek to a negative position or with a bad whence fails")
				vfReach("seek-invalid")
			} else {
				vfAssert(err == nil && ret == npos, "Seek result")
				pos = int(int64(vfConcretize(uint64(npos))))
			}
		case 3: // far Seek, then one Read or Write, then stop
			offset := vfI64("faroffset")
			vfAssume(offset >= 1<<49)
			vfAssume(offset <= 1<<62)
			whence := vfChoice("farwhence", 3)
			ret, err := f.Seek(offset, whence)
			vfAssert(err == nil && ret >= 1<<49, "far Seek succeeds (any non-negative position is accepted)")
			if vfBool("farwrite") {
				var werr error
				x := vfU8("x")
				panicked := vfExpectPanic(func() { _, werr = f.Write([]byte{x}) })
				// The native file system returns an error (EFBIG/ENOSPC) or succeeds with a sparse file: it never
				// crashes. memFile.Write does make([]byte, pos, pos+1).
				vfAssertKF(!panicked, "Write after a far Seek fails or succeeds but does not panic",
					"C44-far-seek-write-panics", true)
				_ = werr
			} else {
				buf := make([]byte, 1)
				got, err := f.Read(buf)
				vfAssert(got == 0 && err == io.EOF, "Read after a far Seek returns (0, io.EOF)")
				vfReach("far-read")
			}
			vfReach("end")
			return
		}
		// contents and size as seen through the API
		back := c44readAll(ctx, fs, "/f", len(data))
		vfAssert(c44sameBytes(back, data), "file contents agree with the reference")
		fi, err := fs.Stat(ctx, "/f")
		vfAssert(err == nil && fi.Size() == int64(len(data)) && !fi.IsDir(), "Stat size")
		vfObserveBytes("data", back)
	}
	vfReach("end")
}

func VerifC44_readdir() {
	ctx := context.Background()
	fs := NewMemFS()
	vfAssert(fs.Mkdir(ctx, "/d", 0777) == nil, "mkdir /d")
	names := []string{"/d/x", "/d/y", "/d/z"}
	c := vfLen("children", 0, 3)
	for i := 0; i < c; i++ {
		vfAssert(fs.Mkdir(ctx, names[i], 0777) == nil, "mkdir child")
	}
	d, err := fs.OpenFile(ctx, "/d", os.O_RDONLY, 0)
	vfAssert(err == nil, "open /d")
	seen := map[string]bool{}
	pos := 0 // number of entries returned so far
	for call := 0; call < 3; call++ {
		count := vfRange("count", -1, 4)
		fis, err := d.Readdir(count)
		remaining := c - pos
		if count > 0 {
			want := remaining
			if want > count {
				want = count
			}
			if remaining == 0 {
				vfAssert(len(fis) == 0 && err == io.EOF, "Readdir(n>0) at the end returns io.EOF")
				vfReach("readdir-eof")
			} else {
				vfAssert(err == nil && len(fis) == want, "Readdir(n>0) returns min(n, remaining) entries")
			}
		} else {
			vfAssert(err == nil, "Readdir(n<=0) returns no error")
			// os.File.Readdir: "returns all the FileInfo from the directory" still unread, i.e. the remaining ones
			vfAssertKF(len(fis) == remaining, "Readdir(n<=0) returns the remaining entries",
				"C44-readdir-all-after-partial", pos > 0 && pos < c)
		}
		for _, fi := range fis {
			vfAssert(!seen[fi.Name()], "no entry is returned twice")
			seen[fi.Name()] = true
			vfAssert(fi.IsDir() && (fi.Name() == "x" || fi.Name() == "y" || fi.Name() == "z"), "entries are the children")
		}
		pos += len(fis)
		vfObserve("returned", uint64(len(fis)))
	}
	vfReach("end")
}

// ---- namespace model ----

type c44ent struct {
	dir  bool
	data []byte
}

type c44tree map[string]*c44ent

func (t c44tree) parentOK(p string) bool {
	e := t[path.Dir(p)]
	return e != nil && e.dir
}

func c44below(x, root string) bool {
	if root == "/" {
		return x != "/"
	}
	return strings.HasPrefix(x, root+"/")
}

func (t c44tree) removeSubtree(p string) {
	var del []string
	for q := range t {
		if q == p || c44below(q, p) {
			del = append(del, q)
		}
	}
	for _, q := range del {
		delete(t, q)
	}
}

func (t c44tree) moveSubtree(a, b string) {
	moved := map[string]*c44ent{}
	for q, e := range t {
		if q == a {
			moved[b] = e
		} else if c44below(q, a) {
			moved[b+q[len(a):]] = e
		}
	}
	t.removeSubtree(a)
	for q, e := range moved {
		t[q] = e
	}
}

// c44walk collects the real tree through the FileSystem API.
func c44walk(ctx context.Context, fs FileSystem, name string, depth int, out c44tree) {
	vfAssert(depth < 8, "walk depth")
	fi, err := fs.Stat(ctx, name)
	vfAssert(err == nil, "Stat of a listed entry")
	f, err := fs.OpenFile(ctx, name, os.O_RDONLY, 0)
	vfAssert(err == nil, "open of a listed entry")
	fi2, err := f.Stat()
	vfAssert(err == nil && fi2.IsDir() == fi.IsDir() && fi2.Size() == fi.Size(), "File.Stat agrees with Stat")
	vfAssert(out[name] == nil, "entry listed once")
	if fi.IsDir() {
		out[name] = &c44ent{dir: true}
		children, err := f.Readdir(-1)
		vfAssert(err == nil, "Readdir")
		f.Close()
		for _, c := range children {
			c44walk(ctx, fs, path.Join(name, c.Name()), depth+1, out)
		}
		return
	}
	f.Close()
	data := c44readAll(ctx, fs, name, int(fi.Size()))
	vfAssert(int64(len(data)) == fi.Size(), "Stat size == readable bytes")
	out[name] = &c44ent{data: data}
}

func c44compare(ctx context.Context, fs FileSystem, model c44tree) {
	real := c44tree{}
	c44walk(ctx, fs, "/", 0, real)
	vfAssert(len(real) == len(model), "same number of entries")
	for p, e := range model {
		r := real[p]
		vfAssert(r != nil, "model entry exists")
		vfAssert(r.dir == e.dir, "same kind")
		if !e.dir {
			vfAssert(c44sameBytes(r.data, e.data), "same contents")
		}
	}
	for _, p := range c44names {
		_, err := fs.Stat(ctx, p)
		vfAssert((err == nil) == (model[p] != nil), "Stat succeeds exactly for existing names")
	}
}

var c44names = []string{"/", "/a", "/a/b", "/ab", "/a/b/c"}

// spellings handed to the FileSystem (it must clean them)
var c44spell = []string{"/", "/a/", "a/b", "/a/../ab", "/a//b/c"}

var c44flags = []int{
	os.O_RDONLY,
	os.O_RDWR,
	os.O_WRONLY | os.O_CREATE,
	os.O_RDWR | os.O_CREATE | os.O_EXCL,
	os.O_WRONLY | os.O_TRUNC,
	os.O_RDWR | os.O_CREATE | os.O_TRUNC,
}

func VerifC44_tree() {
	ctx := context.Background()
	fs := NewMemFS()
	model := c44tree{"/": {dir: true}}
	// initial tree: dir /a, file /a/b with two symbolic bytes
	vfAssert(fs.Mkdir(ctx, "/a", 0777) == nil, "mkdir /a")
	model["/a"] = &c44ent{dir: true}
	f0, err := fs.OpenFile(ctx, "/a/b", os.O_RDWR|os.O_CREATE, 0666)
	vfAssert(err == nil, "create /a/b")
	init := vfBytes("init", 2)
	f0.Write(init)
	f0.Close()
	model["/a/b"] = &c44ent{data: []byte{init[0], init[1]}}
	c44compare(ctx, fs, model)

	k := 2
	if vfTier() > 0 {
		k = 3
	}
	for step := 0; step < k; step++ {
		// thorough: a third operation; operations 2 and 3 are then RemoveAll/Rename over the first four names
		op, nnames := 0, len(c44names)
		if k == 3 && step > 0 {
			op, nnames = 2+vfChoice("op", 2), 4
		} else {
			op = vfChoice("op", 4)
		}
		ni := vfChoice("name", nnames)
		p, sp := c44names[ni], c44spell[ni]
		switch op {
		case 0: // Mkdir
			err := fs.Mkdir(ctx, sp, 0777)
			want := p != "/" && model[p] == nil && model.parentOK(p)
			vfAssert((err == nil) == want, "Mkdir succeeds iff the name is free and its parent is a directory")
			if want {
				model[p] = &c44ent{dir: true}
				vfReach("mkdir-ok")
			}
		case 1: // OpenFile (+ 1-byte Write when opened for writing)
			flag := c44flags[vfChoice("flag", len(c44flags))]
			writable := flag&(os.O_WRONLY|os.O_RDWR) != 0
			f, err := fs.OpenFile(ctx, sp, flag, 0666)
			e := model[p]
			switch {
			case p != "/" && !model.parentOK(p):
				vfAssert(err != nil, "OpenFile below a missing or non-directory parent fails")
			case e != nil && flag&os.O_CREATE != 0 && flag&os.O_EXCL != 0:
				vfAssert(err != nil, "O_CREATE|O_EXCL on an existing name fails")
				vfReach("excl-exists")
			case e != nil && e.dir && writable:
				// POSIX open(2): EISDIR
				vfAssertKF(err != nil, "opening a directory for writing fails", "C44-open-dir-for-writing", p != "/")
				vfReach("open-root-for-writing-refused")
			case e == nil && flag&os.O_CREATE == 0:
				vfAssert(err != nil, "opening a missing name without O_CREATE fails")
			default:
				vfAssert(err == nil, "OpenFile succeeds")
				if e == nil {
					e = &c44ent{}
					model[p] = e
					vfReach("created")
				}
				if !e.dir && writable && flag&os.O_TRUNC != 0 {
					e.data = nil
					vfReach("truncated")
				}
				if !e.dir && writable {
					x := vfU8("x")
					n, err := f.Write([]byte{x})
					vfAssert(n == 1 && err == nil, "Write through the new handle")
					if len(e.data) == 0 {
						e.data = []byte{x}
					} else {
						e.data[0] = x
					}
				}
				vfAssert(f.Close() == nil, "Close")
			}
		case 2: // RemoveAll
			err := fs.RemoveAll(ctx, sp)
			switch {
			case p == "/":
				vfAssert(err != nil, "RemoveAll of the root fails")
				vfReach("removeall-root")
			case model[p] != nil:
				vfAssert(err == nil, "RemoveAll of an existing entry succeeds")
				model.removeSubtree(p)
				vfReach("removeall-subtree")
			case model[path.Dir(p)] != nil && !model[path.Dir(p)].dir:
				// below a regular file: the os package reports ENOTDIR on some systems; not asserted
			default:
				// os.RemoveAll: "If the path does not exist, RemoveAll returns nil (no error)."
				vfAssertKF(err == nil, "RemoveAll of a missing path returns nil", "C44-removeall-missing-parent",
					model[path.Dir(p)] == nil)
				vfReach("removeall-missing")
			}
		case 3: // Rename
			nj := vfChoice("name2", nnames)
			q, sq := c44names[nj], c44spell[nj]
			err := fs.Rename(ctx, sp, sq)
			switch {
			case p == "/" || q == "/":
				vfAssertKF(err != nil, "Rename from or to the root fails", "C44-rename-same-name", p == q)
				vfReach("rename-root")
			case p == q:
				// rename(2) of an existing name onto itself is a no-op; of a missing name it is ENOENT
				vfAssertKF((err == nil) == (model[p] != nil), "Rename of a name onto itself succeeds iff it exists",
					"C44-rename-same-name", model[p] == nil)
				vfReach("rename-self")
			case c44below(q, p):
				vfAssert(err != nil, "Rename into own subtree fails")
				vfReach("rename-into-subtree")
			case model[p] == nil || !model.parentOK(q):
				vfAssert(err != nil, "Rename of a missing source or below a missing parent fails")
			case model[q] != nil:
				// renaming over an existing entry is OS-specific (the contract says so): outcome not asserted,
				// and the model cannot follow it
				vfReach("rename-over-existing")
				vfReach("end")
				return
			default:
				vfAssert(err == nil, "Rename succeeds")
				model.moveSubtree(p, q)
				vfReach("rename-ok")
			}
		}
		c44compare(ctx, fs, model)
	}
	vfReach("end")
}

// Reopen with O_TRUNC, then write past the new end: the hole reads back as zeros, never as bytes of the old
// contents (added after seeded change C44-A: truncation that keeps the backing array + a Write that reslices
// instead of zero-filling the hole). Shape B: write n0 bytes, close, reopen with O_TRUNC (symbolic flag set),
// optional short write, seek to a symbolic offset within the old length, write 1 byte, read everything back.
func VerifC44_truncHole() {
	ctx := context.Background()
	fs := NewMemFS()
	f, err := fs.OpenFile(ctx, "/f", os.O_RDWR|os.O_CREATE, 0666)
	vfAssert(err == nil, "create /f")
	n0 := vfLen("n0", 1, 4)
	old := vfBytes("old", n0)
	for i := range old {
		vfAssume(old[i] != 0) // make stale bytes distinguishable from hole zeros
	}
	_, err = f.Write(old)
	vfAssert(err == nil, "initial write")
	f.Close()
	flag := os.O_RDWR | os.O_TRUNC
	if vfChoice("wronly", 2) == 1 {
		flag = os.O_WRONLY | os.O_TRUNC
	}
	g, err := fs.OpenFile(ctx, "/f", flag, 0666)
	vfAssert(err == nil, "reopen with O_TRUNC")
	fi, err := fs.Stat(ctx, "/f")
	vfAssert(err == nil && fi.Size() == 0, "O_TRUNC empties the file")
	off := vfLen("off", 0, n0+1)
	_, err = g.Seek(int64(off), io.SeekStart)
	vfAssert(err == nil, "seek")
	b := vfU8("b")
	_, err = g.Write([]byte{b})
	vfAssert(err == nil, "write past the new end")
	g.Close()
	h, err := fs.OpenFile(ctx, "/f", os.O_RDONLY, 0)
	vfAssert(err == nil, "reopen for reading")
	buf := make([]byte, off+4)
	got, _ := h.Read(buf)
	vfAssert(got == off+1, "size is offset+1")
	ok := true
	for i := 0; i < off; i++ {
		ok = vfAnd(ok, buf[i] == 0)
	}
	vfAssert(ok, "the hole reads as zeros, not as old contents")
	vfAssert(buf[off] == b, "written byte")
	if off > 0 {
		vfReach("hole-after-truncate")
	}
	vfReach("end")
}
