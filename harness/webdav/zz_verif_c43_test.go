package webdav

// C43 — WebDAV in-memory locks are mutually exclusive and expire correctly.
//
// Shape B (bounded runs from NewMemLS()), black-box reference model executed in lock-step. The model is a list
// of locks (root, zeroDepth, infinite?, expiry, alive, held) whose time-dependent fields are *formulas* over the
// symbolic clock readings and durations (built with vfAnd/vfOr/vfIte, no forks); every result of the real
// LockSystem (nil / ErrLocked / ErrNoSuchLock / ErrConfirmationFailed, returned LockDetails) is asserted equal to
// the model's prediction for all clock values and durations on the path. Clock readings are arbitrary (not
// even monotone). In addition the internal maps/heap/refcounts are checked after every call (c43consistent: the
// suite's consistency conditions with an exact descendant test, plus the heap order).
//
//   VerifC43_history  k operations from {Create, Refresh, Unlock} over 4 names (prefix trap "/a" vs "/ab").
//   VerifC43_confirm  curated lock sets (1-2 locks, durations symbolic), then Confirm(name0, name1, conditions) with
//                     every combination of names and condition lists, a second Confirm while held, releases.
//   VerifC43_held     curated lock sets, Confirm, one operation while held (Refresh/Unlock/Create/Confirm),
//                     release, one operation after release.
//
// Sensitivity (mut.sh): lock.go canCreate `} else if n.token != "" && !n.details.ZeroDepth {` ->
// `} else if n.token != "" {` caught by VerifC43_history/_held ("Create succeeds exactly when no live lock
// conflicts"); collectExpiredNodes `if now.Before(m.byExpiry[0].expiry) {` -> `if now.After(...)` caught by
// VerifC43_history ("Refresh/Unlock: no such lock iff unlocked or expired"); hold: heap removal disabled
// (`if n.details.Duration >= 0 && n.byExpiryIndex >= 0 {` -> `if false {`) caught by VerifC43_confirm/_held
// ("held locks are not in byExpiry").

import (
	"strings"
	"time"
)

func init() {
	vfRegister("VerifC43_history", VerifC43_history)
	vfRegister("VerifC43_confirm", VerifC43_confirm)
	vfRegister("VerifC43_held", VerifC43_held)
}

// spellings handed to the LockSystem (it must clean them) and their clean form used by the model
var c43spell = []string{"/", "/a", "/a/b/", "ab"}
var c43names = []string{"/", "/a", "/a/b", "/ab"}

type c43lock struct {
	root   string // clean, concrete
	zero   bool   // concrete
	token  string // concrete
	inf    bool   // formula
	expiry int64  // formula (ns)
	alive  bool   // formula: created and neither unlocked nor expired-and-collected
	held   bool   // formula
}

type c43hist struct {
	ls     LockSystem
	m      *memLS
	locks  []*c43lock
	issued []string
}

func c43new() *c43hist {
	ls := NewMemLS()
	m := ls.(*memLS)
	m.gen = 1000 // NewMemLS seeds gen from the wall clock; tokens must be concrete strings here
	return &c43hist{ls: ls, m: m}
}

// c43under: x is a strict descendant of root (both clean).
func c43under(x, root string) bool {
	if root == "/" {
		return x != "/"
	}
	return strings.HasPrefix(x, root+"/")
}

// covers: lock l covers resource name.
func (l *c43lock) covers(name string) bool {
	return name == l.root || (!l.zero && c43under(name, l.root))
}

// conflicts: a new lock (root, zero) would cover a resource that l covers.
func (l *c43lock) conflicts(root string, zero bool) bool {
	return l.covers(root) || (!zero && c43under(l.root, root))
}

func c43clock(label string) (time.Time, int64) {
	now := vfTime(label)
	ns := now.UnixNano()
	vfAssume(ns >= 1<<40)
	vfAssume(ns < 1<<60)
	return now, ns
}

func c43duration() (time.Duration, bool) {
	d := vfI64("dur")
	vfAssume(d >= -2)
	vfAssume(d <= 1<<40)
	return time.Duration(d), d < 0
}

// tick applies the passage of time to the model: unheld finite locks whose expiry is not after now are gone.
func (h *c43hist) tick(ns int64) {
	for _, l := range h.locks {
		l.alive = vfAnd(l.alive, vfOr(l.held, vfOr(l.inf, ns < l.expiry)))
	}
}

func (h *c43hist) find(token string) *c43lock {
	for _, l := range h.locks {
		if l.token == token {
			return l
		}
	}
	return nil
}

func (h *c43hist) create(ni int, zero bool) bool {
	now, ns := c43clock("now")
	d, inf := c43duration()
	h.tick(ns)
	root := c43names[ni]
	conflict := false
	for _, l := range h.locks {
		if l.conflicts(root, zero) {
			conflict = vfOr(conflict, l.alive)
		}
	}
	token, err := h.ls.Create(now, LockDetails{Root: c43spell[ni], Duration: d, ZeroDepth: zero})
	vfAssert(err == nil || err == ErrLocked, "Create error class")
	vfAssert((err == nil) == vfNot(conflict), "Create succeeds exactly when no live lock conflicts")
	vfObserveBool("create", err == nil)
	if err == nil {
		vfAssert(token != "", "token non-empty")
		for _, t := range h.issued {
			vfAssert(t != token, "token unique")
		}
		h.issued = append(h.issued, token)
		h.locks = append(h.locks, &c43lock{root: root, zero: zero, token: token, inf: inf, expiry: ns + int64(d), alive: true})
	} else {
		vfAssert(token == "", "no token on failure")
	}
	return err == nil
}

func (h *c43hist) token(ti int) string {
	if ti < len(h.issued) {
		return h.issued[ti]
	}
	return "bogus"
}

func (h *c43hist) refresh(ti int) error {
	now, ns := c43clock("now")
	d, inf := c43duration()
	h.tick(ns)
	tok := h.token(ti)
	l := h.find(tok)
	det, err := h.ls.Refresh(now, tok, d)
	vfAssert(err == nil || err == ErrNoSuchLock || err == ErrLocked, "Refresh error class")
	if l == nil {
		vfAssert(err == ErrNoSuchLock, "Refresh of an unknown token")
		return err
	}
	vfAssert((err == ErrNoSuchLock) == vfNot(l.alive), "Refresh: no such lock iff unlocked or expired")
	vfAssert((err == ErrLocked) == vfAnd(l.alive, l.held), "Refresh: locked iff held")
	vfObserveBool("refresh", err == nil)
	if err == nil {
		vfAssert(det.Root == l.root && det.ZeroDepth == l.zero, "Refresh returns the lock's details")
		vfAssert(det.Duration == d, "Refresh returns the new duration")
		// err == nil has been proved equivalent to alive && !held
		l.inf, l.expiry = inf, ns+int64(d)
		vfReach("refresh-ok")
	} else if err == ErrNoSuchLock {
		vfReach("refresh-gone")
	}
	return err
}

func (h *c43hist) unlock(ti int) error {
	now, ns := c43clock("now")
	h.tick(ns)
	tok := h.token(ti)
	l := h.find(tok)
	err := h.ls.Unlock(now, tok)
	vfAssert(err == nil || err == ErrNoSuchLock || err == ErrLocked, "Unlock error class")
	if l == nil {
		vfAssert(err == ErrNoSuchLock, "Unlock of an unknown token")
		return err
	}
	vfAssert((err == ErrNoSuchLock) == vfNot(l.alive), "Unlock: no such lock iff unlocked or expired")
	vfAssert((err == ErrLocked) == vfAnd(l.alive, l.held), "Unlock: locked iff held")
	vfObserveBool("unlock", err == nil)
	if err == nil {
		l.alive = false
		vfReach("unlock-ok")
	}
	return err
}

type c43release struct {
	f      func()
	heldBy []bool // per model lock: held by this confirmation (formula)
}

// confirm: names are clean names or ""; conds are indices into issued (len(issued) = bogus token).
func (h *c43hist) confirm(name0, name1 string, conds []int) *c43release {
	now, ns := c43clock("now")
	h.tick(ns)
	var cs []Condition
	inConds := make([]bool, len(h.locks))
	for _, ci := range conds {
		tok := h.token(ci)
		cs = append(cs, Condition{Token: tok})
		for i, l := range h.locks {
			if l.token == tok {
				inConds[i] = true
			}
		}
	}
	// a name is confirmed iff one of the presented tokens names a live, unheld lock covering it
	ok0, ok1 := name0 == "", name1 == ""
	heldBy := make([]bool, len(h.locks))
	for i, l := range h.locks {
		if !inConds[i] {
			continue
		}
		usable := vfAnd(l.alive, vfNot(l.held))
		if name0 != "" && l.covers(name0) {
			ok0 = vfOr(ok0, usable)
			heldBy[i] = vfOr(heldBy[i], usable)
		}
		if name1 != "" && l.covers(name1) {
			ok1 = vfOr(ok1, usable)
			heldBy[i] = vfOr(heldBy[i], usable)
		}
	}
	release, err := h.ls.Confirm(now, name0, name1, cs...)
	vfAssert(err == nil || err == ErrConfirmationFailed, "Confirm error class")
	vfAssert((release == nil) != (err == nil), "exactly one of release and err is non-nil")
	vfAssert((err == nil) == vfAnd(ok0, ok1), "Confirm succeeds iff every named resource is covered by a presented live unheld lock")
	vfObserveBool("confirm", err == nil)
	if err != nil {
		vfReach("confirm-failed")
		return nil
	}
	any := false
	for i, l := range h.locks {
		l.held = vfOr(l.held, heldBy[i])
		any = vfOr(any, heldBy[i])
	}
	if any {
		vfReach("confirm-holds")
	}
	return &c43release{f: release, heldBy: heldBy}
}

func (h *c43hist) release(r *c43release) {
	r.f()
	for i, l := range h.locks {
		if i < len(r.heldBy) {
			l.held = vfAnd(l.held, vfNot(r.heldBy[i]))
		}
	}
	vfReach("released")
}

// check: after every call — internal consistency, model/implementation agreement on which tokens exist, and
// mutual exclusion of the live locks.
func (h *c43hist) check(afterClockedCall bool) {
	c43consistent(h.m)
	agree, excl := true, true // one formula each (one solver query per call instead of one per lock)
	for _, l := range h.locks {
		n := h.m.byToken[l.token]
		if afterClockedCall {
			agree = vfAnd(agree, (n != nil) == l.alive)
		}
		if n != nil {
			agree = vfAnd(agree, n.held == l.held)
		}
	}
	for i, a := range h.locks {
		for j, b := range h.locks {
			if i < j && (a.conflicts(b.root, b.zero) || b.conflicts(a.root, a.zero)) {
				excl = vfAnd(excl, vfNot(vfAnd(a.alive, b.alive)))
			}
		}
	}
	vfAssert(agree, "byToken holds exactly the model's live locks and held flags agree with the model")
	vfAssert(excl, "no two live locks cover the same resource")
}

// c43consistent: representation invariant of memLS (concrete structure; expiry order is a formula).
func c43consistent(m *memLS) {
	if len(m.byName) > 0 {
		n := m.byName["/"]
		vfAssert(n != nil, "byName has the root when non-empty")
		vfAssert(n.refCount == len(m.byToken), "root refCount == number of locks")
	}
	for name, n := range m.byName {
		vfAssert(n.details.Root == name, "node name == key")
		vfAssert(name == slashClean(name), "node name clean")
		cnt := 0
		for name0, n0 := range m.byName {
			if n0.token != "" && (name0 == name || c43under(name0, name)) {
				cnt++
			}
		}
		vfAssert(n.refCount == cnt && cnt > 0, "refCount == locked self-or-descendants > 0")
		if n.token != "" {
			vfAssert(m.byToken[n.token] == n, "locked node is in byToken")
		}
		if n.byExpiryIndex >= 0 {
			vfAssert(n.byExpiryIndex < len(m.byExpiry) && m.byExpiry[n.byExpiryIndex] == n, "byExpiryIndex valid")
			vfAssert(n.token != "", "only locked nodes expire")
		}
	}
	for token, n := range m.byToken {
		vfAssert(n.token == token && token != "", "token == key")
		vfAssert(m.byName[n.details.Root] == n, "byToken node is in byName")
		// every finite unheld lock is scheduled for expiry
		if !n.held {
			vfAssert((n.details.Duration >= 0) == (n.byExpiryIndex >= 0), "finite unheld locks are in byExpiry")
		}
	}
	order := true
	for i, n := range m.byExpiry {
		vfAssert(n.byExpiryIndex == i, "heap index")
		vfAssert(!n.held, "held locks are not in byExpiry")
		vfAssert(m.byToken[n.token] == n, "byExpiry node is locked")
		if i > 0 {
			order = vfAnd(order, vfNot(n.expiry.Before(m.byExpiry[(i-1)/2].expiry)))
		}
	}
	vfAssert(order, "heap order")
}

func VerifC43_history() {
	h := c43new()
	k := 3
	if vfTier() > 0 {
		k = 4
	}
	for step := 0; step < k; step++ {
		nops := 3
		if len(h.issued) == 0 {
			nops = 1 // nothing to refresh/unlock yet (the bogus token is exercised once tokens exist)
		}
		switch vfChoice("op", nops) {
		case 0:
			// thorough: 4 operations, the first one a Create of "/a", the later Creates over {"/a", "/a/b"}
			ni := 1
			if k == 3 {
				ni = vfChoice("name", len(c43names))
			} else if step > 0 {
				ni = 1 + vfChoice("name", 2)
			}
			if h.create(ni, vfChoice("zero", 2) == 1) {
				vfReach("create-ok")
			} else {
				vfReach("create-locked")
			}
		case 1:
			h.refresh(vfChoice("token", len(h.issued)+1))
		case 2:
			h.unlock(vfChoice("token", len(h.issued)+1))
		}
		h.check(true)
	}
	vfReach("end")
}

// curated lock sets for the Confirm scenarios: (name index, zeroDepth)
var c43pre = [][]struct {
	ni   int
	zero bool
}{
	{{1, false}},            // "/a" infinite depth
	{{1, true}, {2, false}}, // "/a" zero depth, "/a/b" infinite depth
	{{0, false}},            // "/" infinite depth
	{{2, true}, {3, true}},  // "/a/b", "/ab" zero depth
}

var c43confNames = []string{"", "/", "/a", "/a/b", "/ab"}
var c43condLists = [][]int{{0}, {1}, {0, 1}, {2}, {}, {1, 0}}

// c43other: one operation from a small menu (used while a confirmation is outstanding and after release).
func (h *c43hist) other(label string, menu int) {
	switch vfChoice(label, menu) {
	case 0:
		if h.refresh(vfChoice("token", len(h.issued))) == ErrLocked {
			vfReach("refresh-held")
		}
	case 1:
		if h.unlock(vfChoice("token", len(h.issued))) == ErrLocked {
			vfReach("unlock-held")
		}
	case 2:
		if !h.create(2, true) { // "/a/b" zero depth
			vfReach("create-blocked-by-held-or-live-lock")
		}
	case 3:
		if r := h.confirm(c43confNames[2+vfChoice("name0", 2)], "", []int{0, 1}); r != nil {
			h.check(true)
			h.release(r)
		} else {
			vfReach("second-confirm-failed")
		}
	case 4:
		h.create(1, false) // "/a" infinite depth
	}
}

// Confirm outcome for every combination of names and condition lists, on every curated lock set.
func VerifC43_confirm() {
	h := c43new()
	for _, p := range c43pre[vfChoice("pre", len(c43pre))] {
		h.create(p.ni, p.zero)
	}
	h.check(true)
	name0 := c43confNames[vfChoice("name0", len(c43confNames))]
	name1 := c43confNames[vfChoice("name1", len(c43confNames))]
	r := h.confirm(name0, name1, c43condLists[vfChoice("conds", len(c43condLists))])
	h.check(true)
	if r != nil {
		// a second, overlapping confirmation while the first is outstanding
		r2 := h.confirm(c43confNames[2+vfChoice("again", 2)], "", []int{0, 1})
		h.check(true)
		if r2 != nil {
			vfReach("second-confirm-ok")
			h.release(r2)
		}
		h.release(r)
		h.check(false)
	}
	vfReach("end")
}

// Held locks: immune to expiry, refuse Refresh/Unlock/Confirm, still block Create; normal again after release.
func VerifC43_held() {
	h := c43new()
	for _, p := range c43pre[vfChoice("pre", len(c43pre))] {
		h.create(p.ni, p.zero)
	}
	r := h.confirm(c43confNames[2+vfChoice("name0", 2)], "", []int{0, 1})
	h.check(true)
	h.other("while-held", 5)
	h.check(true)
	if r != nil {
		h.release(r)
		h.check(false)
	}
	h.other("after-release", 5)
	h.check(true)
	vfReach("end")
}
