package webdav

// C45 — Dir keeps every request path inside its root.
//
// Shape: pure function, all inputs within the bounds (B with one step).
//   VerifC45_resolve: Dir(root).resolve(name) for root in {"", ".", "/r", "/r/s", "/r/", "r"} and name = 0..N
//     symbolic bytes over the full byte range: "" iff the name contains NUL; otherwise the result is lexically
//     inside the root (equal to the cleaned root, or cleaned-root + "/" + non-empty elements none of which is
//     "." or ".."), i.e. it is filepath.Clean-ed and confined.
//   VerifC45_ops: Dir methods with the os package stubbed (engine: symgo/extern_webdav.go; natively the root does
//     not exist, so the real os calls fail with the same *PathError / *LinkError{ENOENT} carrying the path they
//     were given): every path handed to os.Mkdir/OpenFile/Stat/Rename is confined; RemoveAll and Rename on a
//     name resolving to the root return os.ErrInvalid and never reach the os package; NUL names give
//     os.ErrNotExist.
//
// Sensitivity (mut.sh): file.go `filepath.FromSlash(slashClean(name))` -> `filepath.FromSlash(name)` caught by
// VerifC45_resolve ("confined") ; `if name == filepath.Clean(string(d)) {` -> `if name == string(d) {` caught by
// VerifC45_ops ("RemoveAll of the root refused") with root "/vf-c45-nonexistent/r/".

import (
	"context"
	"os"
)

func init() {
	vfRegister("VerifC45_resolve", VerifC45_resolve)
	vfRegister("VerifC45_ops", VerifC45_ops)
}

func c45maxN() int {
	if vfTier() > 0 {
		return 9
	}
	return 7
}

// c45hasNUL: fork-free "name contains a NUL byte".
func c45hasNUL(name []byte) bool {
	has := false
	for _, c := range name {
		has = vfOr(has, c == 0)
	}
	return has
}

// c45cleanRel reports (fork-free) that s — the part of the result below the root — is a sequence of
// "/"-separated elements each of which is non-empty, not "." and not "..". s is either empty (result is the
// root itself) or starts with the separator when lead is true / with an element when lead is false.
func c45cleanRel(s string, lead bool) bool {
	n := len(s)
	if n == 0 {
		return true
	}
	ok := true
	if lead {
		ok = s[0] == '/'
	} else {
		ok = s[0] != '/'
	}
	// no trailing separator, no empty element
	ok = vfAnd(ok, s[n-1] != '/')
	for i := 0; i+1 < n; i++ {
		ok = vfAnd(ok, vfNot(vfAnd(s[i] == '/', s[i+1] == '/')))
	}
	// no "." / ".." element: an element starts at i when i==0 (and !lead) or s[i-1]=='/'.
	for i := 0; i < n; i++ {
		var start bool
		if i == 0 {
			start = !lead
		} else {
			start = s[i-1] == '/'
		}
		// "." element
		endsAfter1 := true
		if i+1 < n {
			endsAfter1 = s[i+1] == '/'
		}
		ok = vfAnd(ok, vfNot(vfAnd(start, vfAnd(s[i] == '.', endsAfter1))))
		// ".." element
		if i+1 < n {
			endsAfter2 := true
			if i+2 < n {
				endsAfter2 = s[i+2] == '/'
			}
			ok = vfAnd(ok, vfNot(vfAnd(start, vfAnd(vfAnd(s[i] == '.', s[i+1] == '.'), endsAfter2))))
		}
	}
	return ok
}

// c45confined: res is lexically inside croot (the filepath.Clean-ed root) and clean.
func c45confined(croot, res string) bool {
	if croot == "." {
		// relative to the current directory: "." itself, or a clean relative path without ".." elements
		if res == "." {
			return true
		}
		return vfAnd(len(res) > 0, c45cleanRel(res, false))
	}
	if len(res) < len(croot) {
		return false
	}
	if res[:len(croot)] != croot {
		return false
	}
	return c45cleanRel(res[len(croot):], true)
}

var c45roots = []struct{ root, clean string }{
	{"", "."},
	{".", "."},
	{"/r", "/r"},
	{"/r/s", "/r/s"},
	{"/r/", "/r"},
	{"r", "r"},
}

func VerifC45_resolve() {
	ri := vfChoice("root", len(c45roots))
	n := vfLen("n", 0, c45maxN())
	name := vfBytes("name", n)
	res := Dir(c45roots[ri].root).resolve(string(name))
	vfObserveStr("res", res)
	if c45hasNUL(name) {
		vfAssert(res == "", "NUL name rejected")
		vfReach("nul")
	} else {
		vfAssert(res != "", "NUL-free name accepted")
		vfAssert(c45confined(c45roots[ri].clean, res), "confined")
		if res == c45roots[ri].clean {
			vfReach("root")
		} else {
			vfReach("below-root")
		}
	}
	vfReach("end")
}

// The root of the ops harness must not exist natively: the real os calls then fail without touching anything.
const c45opsRootClean = "/vf-c45-nonexistent/r"

var c45opsRoots = []string{c45opsRootClean, c45opsRootClean + "/"}

// c45osPath extracts the path(s) the os package was called with from the error it returned.
func c45osPaths(err error) (paths []string, reached bool) {
	switch e := err.(type) {
	case *os.PathError:
		return []string{e.Path}, true
	case *os.LinkError:
		return []string{e.Old, e.New}, true
	}
	return nil, false
}

func VerifC45_ops() {
	ctx := context.Background()
	d := Dir(c45opsRoots[vfChoice("root", len(c45opsRoots))])
	nmax := 4
	if vfTier() > 0 {
		nmax = 5
	}
	n := vfLen("n", 0, nmax)
	name := vfBytes("name", n)
	isRoot := d.resolve(string(name)) == c45opsRootClean
	nul := c45hasNUL(name)
	var err error
	op := vfChoice("op", 5)
	switch op {
	case 0:
		err = d.Mkdir(ctx, string(name), 0777)
	case 1:
		_, err = d.OpenFile(ctx, string(name), os.O_RDONLY, 0)
	case 2:
		_, err = d.Stat(ctx, string(name))
	case 3:
		err = d.RemoveAll(ctx, string(name))
		if nul {
			vfAssert(err == os.ErrNotExist, "RemoveAll NUL")
		} else if isRoot {
			vfAssert(err == os.ErrInvalid, "RemoveAll of the root refused")
			vfReach("removeall-root")
		} else {
			// os.RemoveAll of a non-existent path (stub and native): nil; the path itself is not observable.
			vfAssert(err == nil, "RemoveAll below root reaches os.RemoveAll")
			vfReach("removeall-below")
		}
		vfReach("end")
		return
	case 4:
		// Rename(name, name2) with a short second name; both directions of the root check.
		m := vfLen("n2", 0, 2)
		name2 := vfBytes("name2", m)
		a, b := string(name), string(name2)
		if vfBool("swap") {
			a, b = b, a
		}
		isRoot2 := d.resolve(string(name2)) == c45opsRootClean
		err = d.Rename(ctx, a, b)
		if vfOr(nul, c45hasNUL(name2)) {
			vfAssert(err == os.ErrNotExist, "Rename NUL")
			vfReach("end")
			return
		}
		if vfOr(isRoot, isRoot2) {
			vfAssert(err == os.ErrInvalid, "Rename from/to the root refused")
			vfReach("rename-root")
			vfReach("end")
			return
		}
	}
	if nul {
		vfAssert(err == os.ErrNotExist, "NUL name: ErrNotExist")
		vfReach("ops-nul")
	} else {
		paths, reached := c45osPaths(err)
		vfAssert(reached, "os package reached")
		for _, p := range paths {
			vfObserveStr("ospath", p)
			vfAssert(c45confined(c45opsRootClean, p), "path handed to os is confined")
		}
		vfReach("ops-os")
	}
	vfReach("end")
}
