package webdav

// C46 — WebDAV COPY and MOVE never destroy their source.
//
// Shape B: Handler{FileSystem: NewMemFS(), LockSystem: NewMemLS()} over the tree {file /a, dir /d with file /d/c,
// empty dir /e} (file contents symbolic), ONE hand-built COPY or MOVE request, then the whole tree is walked through
// the FileSystem API and compared with the snapshot. net/http, net/url, path, textproto and the If-header parser are
// executed from source.
//
//   VerifC46_enum     h.handleCopyMove directly. Method x source {/a, /d, /d/, /d/c} x Destination = every string of
//                     0..3 letters (thorough 0..4 for the sources /d and /d/c) over {'/', '.', 'd', 'c', 'e', 'x'} x Overwrite {T, F} x Depth
//                     {absent, 0} (COPY only) x lock state {no If header, source tree locked by the client and its token
//                     submitted in If}.
//   VerifC46_curated  through h.ServeHTTP with a stub ResponseWriter. Curated Destination spellings (scheme/host
//                     variants, percent-encoding, "..", unparsable, empty), Overwrite {absent, T, F, other}, Depth
//                     {absent, 0, 1, infinity}, lock states {none, source locked + token, source locked without
//                     token, destination locked by someone else}.
//
//   VerifC46_deep     h.handleCopyMove directly over the deeper tree {/a, /d, /d/k, /d/s, /d/s/c, /d/s/t, /d/s/t/f}:
//                     method x source = every resource x Destination = every resource, the root and one fresh name
//                     in every collection, each in 4 spellings x Overwrite {T, F} x Depth {absent, 0} (COPY) x lock
//                     state as in enum. Destinations are thus the source, its parent, higher ancestors (non-root
//                     grandparent, great-grandparent, root), descendants at distance 1..3, siblings/cousins, new names.
//
// Oracle (the statement): with S = slashClean(source) and D = slashClean(path of the parsed Destination), every
// entry of the snapshot at or below S — except entries at or below D when D lies strictly inside the source, which
// are the destination the client asked to replace — is still there with the same kind and contents after a COPY; after a MOVE either that
// holds, or S is gone and every such entry is found unchanged at D + (its path relative to S).
//
// Findings of this check, repaired in /repo since (known_findings.txt `fixed:` entry, repro/C46; the keys are no
// longer listed, so the vfAssertKF below are plain assertions):
//   C46-destination-spelling-of-source   Destination that cleans to the source ("/d/", "//d", "d", "/d/.", ...)
//   C46-destination-is-ancestor-of-source  e.g. /d/c -> /d with overwrite: the DELETE of the destination removes
//                                        the source before it is copied/moved
//
// Sensitivity (mut.sh): webdav.go `if dst == src {` -> `if false {` caught by both harnesses (COPY /d -> /d, outside
// the known-finding predicate because the raw paths are equal); file.go copyFiles `fs.RemoveAll(ctx, dst); err != nil
// && !os.IsNotExist(err)` -> `fs.RemoveAll(ctx, src)...` caught ("COPY leaves the source ... unchanged").

import (
	"context"
	"net/http"
	"net/url"
	"os"
	"path"
)

func init() {
	vfRegister("VerifC46_enum", VerifC46_enum)
	vfRegister("VerifC46_curated", VerifC46_curated)
	vfRegister("VerifC46_deep", VerifC46_deep)
}

type c46world struct {
	h    *Handler
	fs   FileSystem
	ls   LockSystem
	snap c44tree // path -> kind/contents before the request
}

func c46setup() *c46world { return c46setupTree(false) }

// c46setupTree builds the shallow tree {/a, /d, /d/c, /e} or, with deep, a tree whose sources can lie up to three
// levels below an existing non-root collection: {/a, /d, /d/k, /d/s, /d/s/c, /d/s/t, /d/s/t/f}.
func c46setupTree(deep bool) *c46world {
	ctx := context.Background()
	w := &c46world{fs: NewMemFS(), ls: NewMemLS(), snap: c44tree{"/": {dir: true}}}
	w.ls.(*memLS).gen = 1000 // NewMemLS seeds the token generator from the wall clock; tokens must be concrete here
	w.h = &Handler{FileSystem: w.fs, LockSystem: w.ls}
	mkfile := func(name string, b byte) {
		f, err := w.fs.OpenFile(ctx, name, os.O_RDWR|os.O_CREATE, 0666)
		vfAssert(err == nil, "setup: create file")
		f.Write([]byte{b})
		f.Close()
		w.snap[name] = &c44ent{data: []byte{b}}
	}
	mkdir := func(name string) {
		vfAssert(w.fs.Mkdir(ctx, name, 0777) == nil, "setup: mkdir")
		w.snap[name] = &c44ent{dir: true}
	}
	mkfile("/a", vfU8("content-a"))
	mkdir("/d")
	if deep {
		mkfile("/d/k", vfU8("content-k"))
		mkdir("/d/s")
		mkfile("/d/s/c", vfU8("content-c"))
		mkdir("/d/s/t")
		mkfile("/d/s/t/f", vfU8("content-f"))
		return w
	}
	mkfile("/d/c", vfU8("content-c"))
	mkdir("/e")
	return w
}

func c46atOrBelow(x, root string) bool { return x == root || c44below(x, root) }

// c46same: entry want is present in tree at name with the same kind and contents.
func c46same(tree c44tree, name string, want *c44ent) bool {
	got := tree[name]
	if got == nil || got.dir != want.dir {
		return false
	}
	if want.dir {
		return true
	}
	return c44sameBytes(got.data, want.data)
}

type c46req struct {
	method, src, dest string
	overwrite, depth  string // "" = header absent
	ifHeader          string
}

func (q c46req) build() *http.Request {
	hdr := http.Header{}
	hdr["Destination"] = []string{q.dest}
	if q.overwrite != "" {
		hdr["Overwrite"] = []string{q.overwrite}
	}
	if q.depth != "" {
		hdr["Depth"] = []string{q.depth}
	}
	if q.ifHeader != "" {
		hdr["If"] = []string{q.ifHeader}
	}
	return &http.Request{Method: q.method, URL: &url.URL{Path: q.src}, Header: hdr, Host: "h"}
}

// check applies the oracle after the request.
func (w *c46world) check(q c46req, status int) {
	ctx := context.Background()
	after := c44tree{}
	c44walk(ctx, w.fs, "/", 0, after)
	S := slashClean(q.src)
	// the destination as the handler resolves it: path of the parsed URL, cleaned by the file system
	D, haveD, rawEqual := "", false, false
	if u, err := url.Parse(q.dest); err == nil && u.Path != "" {
		D, haveD, rawEqual = slashClean(u.Path), true, u.Path == q.src
	}
	intact := true   // every source entry still in place
	moved := haveD   // every source entry found at the destination
	for name, e := range w.snap {
		if !c46atOrBelow(name, S) {
			continue
		}
		if haveD {
			moved = vfAnd(moved, c46same(after, path.Join(D, name[len(S):]), e))
		}
		if haveD && !c46atOrBelow(S, D) && c46atOrBelow(name, D) {
			continue // part of a destination inside the source, which the client asked to replace
		}
		intact = vfAnd(intact, c46same(after, name, e))
	}
	sameSpelling := haveD && D == S && !rawEqual // the handler refuses a Destination path identical to the source
	dstAboveSrc := haveD && c44below(S, D)
	kcond, key := sameSpelling, "C46-destination-spelling-of-source"
	if dstAboveSrc {
		kcond, key = true, "C46-destination-is-ancestor-of-source"
	}
	if q.method == "COPY" {
		vfAssertKF(intact, "COPY leaves the source and its descendants unchanged", key, kcond)
	} else {
		gone := after[S] == nil
		vfAssertKF(vfOr(intact, vfAnd(gone, moved)), "MOVE moves the source intact or leaves it intact", key, kcond)
		if gone {
			vfReach("moved")
		}
	}
	if status == http.StatusCreated || status == http.StatusNoContent {
		vfReach("success")
	}
	vfObserve("status", uint64(status))
}

var c46sources = []string{"/a", "/d", "/d/", "/d/c"}
var c46alphabet = []byte{'/', '.', 'd', 'c', 'e', 'x'}

// c46lockSource: a client lock (infinite depth, no timeout) on the cleaned source; returns the If header value.
func (w *c46world) lockSource(src string) string {
	tok, err := w.ls.Create(vfTime("locktime"), LockDetails{Root: slashClean(src), Duration: infiniteTimeout})
	vfAssert(err == nil, "setup: lock")
	return "(<" + tok + ">)"
}

func VerifC46_enum() {
	w := c46setup()
	q := c46req{}
	q.method = []string{"COPY", "MOVE"}[vfChoice("method", 2)]
	q.src = c46sources[vfChoice("src", len(c46sources))]
	nmax := 3
	if vfTier() > 0 && (q.src == "/d" || q.src == "/d/c") {
		nmax = 4
	}
	n := vfLen("n", 0, nmax)
	b := make([]byte, n)
	for i := range b {
		b[i] = c46alphabet[vfChoice("letter", len(c46alphabet))]
	}
	q.dest = string(b)
	q.overwrite = []string{"T", "F"}[vfChoice("overwrite", 2)]
	if q.method == "COPY" { // MOVE rejects every Depth but infinity before touching anything (curated run)
		q.depth = []string{"", "0"}[vfChoice("depth", 2)]
	}
	if vfChoice("locked", 2) == 1 {
		q.ifHeader = w.lockSource(q.src)
	}
	status, _ := w.h.handleCopyMove(nil, q.build())
	w.check(q, status)
	vfReach("end")
}

// Deep tree: every resource is a source, every resource (root included) and one fresh name in every collection is a
// destination, each in four spellings. This covers destinations that are the source, its parent, a higher ancestor,
// a descendant at any distance, a sibling/cousin, and a name that does not exist yet, at every level of the tree.
var c46deepNodes = []string{"/a", "/d", "/d/k", "/d/s", "/d/s/c", "/d/s/t", "/d/s/t/f"}
var c46deepDests = []string{"/", "/a", "/d", "/d/k", "/d/s", "/d/s/c", "/d/s/t", "/d/s/t/f", "/x", "/d/x", "/d/s/x", "/d/s/t/x"}

// c46spell: spelling number v of the canonical path p (all four clean to p).
func c46spell(p string, v int) string {
	if p == "/" {
		return []string{"/", "/.", "/./", "/d/.."}[v]
	}
	switch v {
	case 1:
		return p + "/"
	case 2:
		return p + "/."
	case 3:
		return "/." + p
	}
	return p
}

func VerifC46_deep() {
	w := c46setupTree(true)
	q := c46req{}
	q.method = []string{"COPY", "MOVE"}[vfChoice("method", 2)]
	q.src = c46deepNodes[vfChoice("src", len(c46deepNodes))]
	D := c46deepDests[vfChoice("dest", len(c46deepDests))]
	q.dest = c46spell(D, vfChoice("spelling", 4))
	q.overwrite = []string{"T", "F"}[vfChoice("overwrite", 2)]
	if q.method == "COPY" {
		q.depth = []string{"", "0"}[vfChoice("depth", 2)]
	}
	if vfChoice("locked", 2) == 1 {
		q.ifHeader = w.lockSource(q.src)
	}
	if c44below(q.src, D) {
		vfReach("destination-is-ancestor")
		if D != "/" && D != path.Dir(q.src) {
			vfReach("destination-is-non-root-grandparent-or-higher")
		}
	}
	if c44below(D, q.src) && path.Dir(D) != q.src {
		vfReach("destination-deep-inside-source")
		if q.method == "COPY" && q.depth == "" {
			// An infinite-depth COPY of a collection to a place two or more levels inside itself keeps finding its
			// own output (the TODO about RFC 4918 section 9.8.3 in copyFiles) until the recursion limit of 1000
			// answers 500: everything it creates lies below the destination, but 1000 nested collections are beyond
			// the engine's instruction bound and the walk of the oracle. Explored with Depth: 0 only.
			vfReach("excluded-self-nesting-copy")
			return
		}
	}
	status, _ := w.h.handleCopyMove(nil, q.build())
	w.check(q, status)
	vfReach("end")
}

type c46writer struct {
	hdr    http.Header
	status int
	body   []byte
}

func (r *c46writer) Header() http.Header         { return r.hdr }
func (r *c46writer) Write(b []byte) (int, error) { r.body = append(r.body, b...); return len(b), nil }
func (r *c46writer) WriteHeader(status int)      { r.status = status }

var c46curated = []string{
	"http://h/d/", "//h/d/", "http://other/d/", "http://h/x", "/d%2F", "/%64", "/d/.", "/d/../d", "/e/../d/",
	"/d/c/..", "/d/c/", "/a/", "/a", "/d", "/e", "/d/x", "/d/c/x", "/", "", "http://h", "/%zz", "/x y", "/x/y",
}

func VerifC46_curated() {
	w := c46setup()
	q := c46req{}
	q.method = []string{"COPY", "MOVE"}[vfChoice("method", 2)]
	q.src = c46sources[vfChoice("src", len(c46sources))]
	q.dest = c46curated[vfChoice("dest", len(c46curated))]
	q.overwrite = []string{"", "T", "F", "t"}[vfChoice("overwrite", 4)]
	switch vfChoice("locks", 4) {
	case 0:
	case 1: // source locked by this client, token submitted
		q.ifHeader = w.lockSource(q.src)
	case 2: // source locked by someone else (no If header)
		w.lockSource(q.src)
	case 3: // the destination /d locked by someone else
		w.lockSource("/d")
		q.ifHeader = "(<no-such-token>)"
	}
	// Depth values only matter for parsing; vary them on a subset to keep the product small
	q.depth = ""
	if q.overwrite == "T" {
		q.depth = []string{"", "0", "1", "infinity"}[vfChoice("depth", 4)]
	}
	rw := &c46writer{hdr: http.Header{}}
	w.h.ServeHTTP(rw, q.build())
	vfAssert(rw.status != 0, "a status is written")
	w.check(q, rw.status)
	vfReach("end")
}
