package dnsmessage

// C36 — DNS messages round-trip through Pack/Unpack and the Builder.
// Shape B (generated well-formed Messages, real Message.Pack / Message.Unpack / Builder with and without compression).
//
//   VerifC36_header    message with empty sections, every Header field symbolic (all 7 flags, 4-bit OpCode/RCode)
//   VerifC36_types     question + one resource of each of the 13 body kinds (all numeric fields symbolic, names
//                      from the pool below, TXT/OPT/SVCB/unknown payloads of 0..2 items x 0..2 bytes)
//   VerifC36_compress  question + NS + MX (thorough: + SOA) whose 5 name slots are chosen from the pool (quick: question
//                      2 choices, MX owner 3, others all 5; thorough: all 5 each): the patterns of suffix sharing /
//                      compression pointers between the names, 2 (thorough 3) section layouts
//   VerifC36_long      63-byte labels and names of 253/254 decoded bytes (accepted, round trip, compressed suffix)
//                      and 255 bytes / 64-byte label / empty label / missing final dot (Pack refuses)
// Name pool (symbolic non-dot bytes a x y z p q): "."  "a."  "x.a."  "y.z."  "pq.a."  — "y.z." equals "x.a." for
// some inputs (the solver splits on it), "x.a." and "pq.a." always share the suffix "a.".
// Oracles: Unpack(Pack(m)) == m; Builder without and with EnableCompression produce bytes that unpack to m; the
// compressed Builder output equals Message.Pack byte for byte (observation of the same code path, asserted);
// equality as in DESIGN.md §5 (c37eqMsg in zz_verif_c37_test.go: ResourceHeader.Length ignored, nil == empty).
//
// Sensitivity (mut.sh with --harness VerifC36_types; all four confirmed natively as VIOLATION):
//   M1 message.go Name.pack `byte(ptr>>8|0xC0)` -> `byte(ptr>>8|0x80)` (pointer mask)             "packed message unpacks"
//   M2 message.go Name.pack `compression[nameAsStr[i:]] = uint16(newPtr)` -> `uint16(newPtr+1)`   "Unpack(Pack(m)) == m" / "packed message unpacks"
//   M3 message.go unpackTXTResource `n += uint16(len(t)) + 1` -> `n += uint16(len(t))`            "packed message unpacks"
//   M4 svcb.go pack `msg = packUint16(msg, uint16(len(param.Value)))` -> `uint16(len(param.Value)+1)`  "packed message unpacks"

func init() {
	vfRegister("VerifC36_header", VerifC36_header)
	vfRegister("VerifC36_types", VerifC36_types)
	vfRegister("VerifC36_compress", VerifC36_compress)
	vfRegister("VerifC36_long", VerifC36_long)
	vfRegister("VerifC36_ptrlimit", VerifC36_ptrlimit)
	vfRegister("VerifC36_chain", VerifC36_chain)
}

func c36nondot(label string) byte {
	b := vfU8(label)
	vfAssume(b != '.')
	return b
}

func c36name(labels ...[]byte) Name {
	var n Name
	k := 0
	for _, l := range labels {
		for _, b := range l {
			n.Data[k] = b
			k++
		}
		n.Data[k] = '.'
		k++
	}
	if k == 0 {
		n.Data[0] = '.'
		k = 1
	}
	n.Length = uint8(k)
	return n
}

type c36pool struct{ names []Name }

func c36newPool() *c36pool {
	a, x, y, z, p, q := c36nondot("a"), c36nondot("x"), c36nondot("y"), c36nondot("z"), c36nondot("p"), c36nondot("q")
	return &c36pool{names: []Name{
		c36name(),
		c36name([]byte{a}),
		c36name([]byte{x}, []byte{a}),
		c36name([]byte{y}, []byte{z}),
		c36name([]byte{p, q}, []byte{a}),
	}}
}

func (p *c36pool) pick(label string) Name { return p.names[vfChoice(label, len(p.names))] }

// c36payload: 0..2 (thorough 3) symbolic bytes.
func c36payload(label string) []byte {
	return vfBytes(label, vfLen(label+" len", 0, 2+vfTier()))
}

// c36body builds a body of the given kind (index into c36kindNames) with symbolic contents.
var c36kindNames = []string{"A", "AAAA", "NS", "CNAME", "PTR", "MX", "SOA", "SRV", "TXT", "OPT", "SVCB", "HTTPS", "unknown"}

func c36svcb(pool *c36pool) SVCBResource {
	r := SVCBResource{Priority: vfU16("svcb priority"), Target: pool.pick("svcb target")}
	n := vfLen("svcb params", 0, 2)
	var prev SVCParamKey
	for i := 0; i < n; i++ {
		k := SVCParamKey(vfU16("svcb key"))
		if i > 0 {
			vfAssume(k > prev) // strictly increasing keys (documented requirement)
		}
		prev = k
		r.Params = append(r.Params, SVCParam{Key: k, Value: c36payload("svcb value")})
	}
	return r
}

func c36body(kind int, pool *c36pool) ResourceBody {
	switch kind {
	case 0:
		var r AResource
		copy(r.A[:], vfBytes("a", 4))
		return &r
	case 1:
		var r AAAAResource
		copy(r.AAAA[:], vfBytes("aaaa", 16))
		return &r
	case 2:
		return &NSResource{NS: pool.pick("ns")}
	case 3:
		return &CNAMEResource{CNAME: pool.pick("cname")}
	case 4:
		return &PTRResource{PTR: pool.pick("ptr")}
	case 5:
		return &MXResource{Pref: vfU16("pref"), MX: pool.pick("mx")}
	case 6:
		return &SOAResource{NS: pool.pick("soa ns"), MBox: pool.pick("soa mbox"), Serial: vfU32("serial"), Refresh: vfU32("refresh"),
			Retry: vfU32("retry"), Expire: vfU32("expire"), MinTTL: vfU32("minttl")}
	case 7:
		return &SRVResource{Priority: vfU16("prio"), Weight: vfU16("weight"), Port: vfU16("port"), Target: pool.pick("srv target")}
	case 8:
		r := &TXTResource{}
		n := vfLen("txt strings", 0, 2)
		for i := 0; i < n; i++ {
			r.TXT = append(r.TXT, string(c36payload("txt")))
		}
		return r
	case 9:
		r := &OPTResource{}
		n := vfLen("options", 0, 2)
		for i := 0; i < n; i++ {
			r.Options = append(r.Options, Option{Code: vfU16("option code"), Data: c36payload("option data")})
		}
		return r
	case 10:
		r := c36svcb(pool)
		return &r
	case 11:
		return &HTTPSResource{SVCBResource: c36svcb(pool)}
	}
	t := Type(vfU16("unknown type"))
	for _, known := range []Type{TypeA, TypeNS, TypeCNAME, TypeSOA, TypePTR, TypeMX, TypeTXT, TypeAAAA, TypeSRV, TypeOPT, TypeSVCB, TypeHTTPS} {
		vfAssume(t != known)
	}
	return &UnknownResource{Type: t, Data: c36payload("unknown data")}
}

func c36resource(owner Name, body ResourceBody) Resource {
	return Resource{
		Header: ResourceHeader{Name: owner, Type: body.realType(), Class: Class(vfU16("class")), TTL: vfU32("ttl")},
		Body:   body,
	}
}

// c36addResource feeds one resource to the Builder through the typed method.
func c36addResource(b *Builder, r *Resource) error {
	h := r.Header
	switch x := r.Body.(type) {
	case *AResource:
		return b.AResource(h, *x)
	case *AAAAResource:
		return b.AAAAResource(h, *x)
	case *NSResource:
		return b.NSResource(h, *x)
	case *CNAMEResource:
		return b.CNAMEResource(h, *x)
	case *PTRResource:
		return b.PTRResource(h, *x)
	case *MXResource:
		return b.MXResource(h, *x)
	case *SOAResource:
		return b.SOAResource(h, *x)
	case *SRVResource:
		return b.SRVResource(h, *x)
	case *TXTResource:
		return b.TXTResource(h, *x)
	case *OPTResource:
		return b.OPTResource(h, *x)
	case *SVCBResource:
		return b.SVCBResource(h, *x)
	case *HTTPSResource:
		return b.HTTPSResource(h, *x)
	case *UnknownResource:
		return b.UnknownResource(h, *x)
	}
	return errNilResouceBody
}

// c36build builds m with a Builder (prefix = bytes already in the buffer handed to NewBuilder).
func c36build(m *Message, compress bool, prefix int) ([]byte, error) {
	buf := make([]byte, prefix, prefix+64)
	b := NewBuilder(buf, m.Header)
	if compress {
		b.EnableCompression()
	}
	if err := b.StartQuestions(); err != nil {
		return nil, err
	}
	for i := range m.Questions {
		if err := b.Question(m.Questions[i]); err != nil {
			return nil, err
		}
	}
	if err := b.StartAnswers(); err != nil {
		return nil, err
	}
	for i := range m.Answers {
		if err := c36addResource(&b, &m.Answers[i]); err != nil {
			return nil, err
		}
	}
	if err := b.StartAuthorities(); err != nil {
		return nil, err
	}
	for i := range m.Authorities {
		if err := c36addResource(&b, &m.Authorities[i]); err != nil {
			return nil, err
		}
	}
	if err := b.StartAdditionals(); err != nil {
		return nil, err
	}
	for i := range m.Additionals {
		if err := c36addResource(&b, &m.Additionals[i]); err != nil {
			return nil, err
		}
	}
	out, err := b.Finish()
	if err != nil {
		return nil, err
	}
	return out[prefix:], nil
}

// c36roundtrip runs every oracle of C36 on m; returns the packed bytes and the plain (uncompressed) Builder bytes.
func c36roundtrip(m *Message) (packed, plain []byte) { return c36roundtripFrom(m, 0) }

// c36roundtripFrom: as c36roundtrip, but only packed[from:] is recorded as an observation (large concrete padding in
// front of the interesting part need not be stored with every sampled path).
func c36roundtripFrom(m *Message, from int) (packed, plain []byte) {
	packed, err := m.Pack()
	vfAssert(err == nil, "well-formed message packs")
	var u Message
	err = u.Unpack(packed)
	vfAssert(err == nil, "packed message unpacks")
	vfAssert(c37eqMsg(&u, m), "Unpack(Pack(m)) == m")

	plain, err = c36build(m, false, 0)
	vfAssert(err == nil, "Builder (no compression) accepts the message")
	var u1 Message
	err = u1.Unpack(plain)
	vfAssert(err == nil, "Builder (no compression) output unpacks")
	vfAssert(c37eqMsg(&u1, m), "Builder (no compression) output decodes to m")

	comp, err := c36build(m, true, 2) // 2-byte prefix as for DNS over TCP: offsets are relative to the message start
	vfAssert(err == nil, "Builder (compression) accepts the message")
	var u2 Message
	err = u2.Unpack(comp)
	vfAssert(err == nil, "Builder (compression) output unpacks")
	vfAssert(c37eqMsg(&u2, m), "Builder (compression) output decodes to m")

	vfAssert(len(comp) <= len(plain), "compression never makes the message longer")
	vfAssert(c37eqBytes(comp, packed), "Builder with compression and Message.Pack produce the same bytes")
	if from <= len(packed) {
		vfObserveBytes("packed", packed[from:])
	}
	vfObserve("packed len", uint64(len(packed)))
	vfObserve("plain len", uint64(len(plain)))
	return packed, plain
}

func c36header() Header {
	h := Header{ID: vfU16("id"), OpCode: OpCode(vfU16("opcode")), RCode: RCode(vfU16("rcode"))}
	vfAssume(h.OpCode < 16)
	vfAssume(h.RCode < 16)
	return h
}

func VerifC36_header() {
	h := c36header()
	h.Response = vfBool("qr")
	h.Authoritative = vfBool("aa")
	h.Truncated = vfBool("tc")
	h.RecursionDesired = vfBool("rd")
	h.RecursionAvailable = vfBool("ra")
	h.AuthenticData = vfBool("ad")
	h.CheckingDisabled = vfBool("cd")
	m := Message{Header: h}
	packed, _ := c36roundtrip(&m)
	vfAssert(len(packed) == 12, "header only")
	vfReach("end")
}

// c36place puts r into section sec (0 answers, 1 authorities, 2 additionals).
func c36place(m *Message, sec int, r Resource) {
	switch sec {
	case 0:
		m.Answers = append(m.Answers, r)
	case 1:
		m.Authorities = append(m.Authorities, r)
	default:
		m.Additionals = append(m.Additionals, r)
	}
}

func VerifC36_types() {
	pool := c36newPool()
	m := Message{Header: c36header()}
	m.Header.Response = true
	m.Header.RecursionDesired = true
	m.Questions = []Question{{Name: pool.names[2], Type: Type(vfU16("qtype")), Class: Class(vfU16("qclass"))}}
	kind := vfChoice("kind", len(c36kindNames))
	body := c36body(kind, pool)
	owner := pool.names[vfChoice("owner", 3)*2] // ".", "x.a." (same as the question: full pointer), "pq.a." (suffix pointer)
	if vfTier() > 0 {
		owner = pool.pick("owner (thorough)")
	}
	c36place(&m, vfChoice("section", 3), c36resource(owner, body))
	packed, plain := c36roundtrip(&m)
	if len(packed) < len(plain) {
		vfReach("compression pointer emitted")
	}
	vfReach("end")
}

func VerifC36_compress() {
	pool := c36newPool()
	thorough := vfTier() > 0
	m := Message{Header: c36header()}
	var qname, mxOwner Name
	if thorough {
		qname, mxOwner = pool.pick("qname"), pool.pick("mx owner")
	} else {
		qname = pool.names[2+vfChoice("qname", 2)]     // "x.a." or "y.z."
		mxOwner = pool.names[vfChoice("mx owner", 3)*2] // ".", "x.a.", "pq.a."
	}
	m.Questions = []Question{{Name: qname, Type: TypeNS, Class: ClassINET}}
	ns := c36resource(pool.pick("ns owner"), &NSResource{NS: pool.pick("ns target")})
	mx := c36resource(mxOwner, &MXResource{Pref: vfU16("pref"), MX: pool.pick("mx target")})
	switch vfChoice("layout", 3) { // (all three layouts in both tiers since seeded change C36-H: "MX first" is the one in which a later record reuses a name first written inside an MX body)
	case 0: // same section
		c36place(&m, 0, ns)
		c36place(&m, 0, mx)
	case 1: // consecutive sections
		c36place(&m, 1, ns)
		c36place(&m, 2, mx)
	case 2: // MX first
		c36place(&m, 0, mx)
		c36place(&m, 2, ns)
	}
	if thorough {
		soa := c36resource(pool.names[0], &SOAResource{NS: pool.names[3], MBox: pool.names[0], Serial: vfU32("serial")})
		c36place(&m, 2, soa)
	}
	packed, plain := c36roundtrip(&m)
	if len(packed) < len(plain) {
		vfReach("compression pointer emitted")
	}
	if len(packed) == len(plain) {
		vfReach("nothing to compress")
	}
	vfReach("end")
}

// Long labels and names. total = decoded length of the long name = 3*64 + (k+1), k = last label length.
func VerifC36_long() {
	s0, s1 := c36nondot("label byte"), c36nondot("label byte")
	mk := func(k int) Name {
		l := func(n int, fill, first byte) []byte {
			b := make([]byte, n)
			for i := range b {
				b[i] = fill
			}
			if n > 0 {
				b[0] = first
			}
			return b
		}
		return c36name(l(63, 'a', s0), l(63, 'b', 'b'), l(63, 'c', 'c'), l(k, 'd', s1))
	}
	variant := vfChoice("variant", 6)
	m := Message{Header: c36header()}
	switch variant {
	case 0, 1: // 253 / 254 decoded bytes: accepted; a second name shares the 3 long labels => compressed
		long := mk(60 + variant)
		var suffix Name
		copy(suffix.Data[:], long.Data[64:long.Length])
		suffix.Length = long.Length - 64
		m.Questions = []Question{{Name: long, Type: TypeA, Class: ClassINET}}
		m.Answers = []Resource{c36resource(suffix, &CNAMEResource{CNAME: long})}
		packed, plain := c36roundtrip(&m)
		vfAssert(len(packed) < len(plain), "long shared suffixes are compressed")
		if variant == 1 {
			vfReach("254-byte name round trip")
		}
	case 2: // 255 decoded bytes: Pack refuses
		long := mk(62)
		m.Questions = []Question{{Name: long, Type: TypeA, Class: ClassINET}}
		_, err := m.Pack()
		vfAssert(err != nil, "255-byte name refused")
		_, err = c36build(&m, true, 0)
		vfAssert(err != nil, "Builder refuses a 255-byte name")
		vfReach("too long refused")
	case 3: // 64-byte label
		b := make([]byte, 64)
		for i := range b {
			b[i] = 'e'
		}
		b[5] = s0
		m.Questions = []Question{{Name: c36name(b), Type: TypeA, Class: ClassINET}}
		_, err := m.Pack()
		vfAssert(err != nil, "64-byte label refused")
		vfReach("long label refused")
	case 4: // empty label
		m.Questions = []Question{{Name: c36name([]byte{s0}, nil, []byte{s1}), Type: TypeA, Class: ClassINET}}
		_, err := m.Pack()
		vfAssert(err != nil, "empty label refused")
		vfReach("empty label refused")
	case 5: // no trailing dot
		n := c36name([]byte{s0})
		n.Length--
		m.Questions = []Question{{Name: n, Type: TypeA, Class: ClassINET}}
		_, err := m.Pack()
		vfAssert(err != nil, "non-canonical name refused")
		vfReach("non-canonical refused")
	}
	vfReach("end")
}

// Names around the 14-bit compression pointer limit (message offset 0x3FFF is the last one a pointer can refer to).
// An unknown-type record with concrete padding pushes the owner name of the next record ("straddler", 3 labels
// "pq.x.a." from the pool bytes, wire offsets S, S+3, S+5) to S = 0x4000 - d, d symbolic-by-fork: every alignment
// of the three labels relative to the limit (all below, 1 or 2 labels beyond, first label exactly at 0x3FFF / 0x4000,
// all beyond). Two later names (owner and CNAME/NS target, chosen from the pool and the straddler itself) then end in
// suffixes of the straddler, so any suffix recorded for an offset that does not fit into a pointer is hit.
// Oracles: all of c36roundtrip (names decode unchanged with Pack, Builder with and without compression).
func VerifC36_ptrlimit() {
	pool := c36newPool()
	thorough := vfTier() > 0
	straddler := c36name(pool.names[4].Data[0:2], pool.names[2].Data[0:1], pool.names[1].Data[0:1]) // "pq.x.a."
	m := Message{Header: c36header()}
	if !thorough || vfChoice("with question", 2) == 1 {
		m.Questions = []Question{{Name: pool.names[3], Type: TypeA, Class: ClassINET}} // "y.z." (may equal "x.a."): entries at low offsets
	}
	padRec := func(n int) Resource {
		pad := make([]byte, n)
		for i := range pad {
			pad[i] = byte(i*7 + 1)
		}
		return Resource{Header: ResourceHeader{Name: pool.names[0], Type: 65280, Class: ClassINET}, Body: &UnknownResource{Type: 65280, Data: pad}}
	}
	// offset at which the record after an empty padding record would start
	m.Answers = []Resource{padRec(0)}
	base, err := m.Pack()
	vfAssert(err == nil, "prefix packs")
	// d = 0x4000 - (offset of the straddler's first label): -1 and 0: nothing may be recorded; 1..3: only the first
	// label is addressable; 4..5: the first two; >= 6: all three.
	d := vfLen("distance below 0x4000", -vfTier(), 6+3*vfTier())
	start := 0x4000 - d
	m.Answers[0] = padRec(start - len(base))

	var a4 AResource
	copy(a4.A[:], vfBytes("a", 4))
	c36place(&m, 0, c36resource(straddler, &a4))

	later := func(label string) Name {
		var k int
		if thorough {
			k = vfChoice(label, 6) // any pool name or the straddler
		} else {
			k = []int{1, 2, 4, 5}[vfChoice(label, 4)] // "a." "x.a." "pq.a." (shares only "a.") straddler
		}
		if k == 5 {
			return straddler
		}
		return pool.names[k]
	}
	owner2 := later("later owner")
	target2 := later("later target")
	var body2 ResourceBody = &CNAMEResource{CNAME: target2}
	sec2 := 0
	if thorough && vfChoice("later body", 2) == 1 { // SRV in the additional section instead of CNAME in the answers
		body2 = &SRVResource{Priority: vfU16("prio"), Weight: vfU16("weight"), Port: vfU16("port"), Target: target2}
		sec2 = 2
	}
	c36place(&m, sec2, c36resource(owner2, body2))

	packed, plain := c36roundtripFrom(&m, start-4)
	vfAssert(len(packed) > 0x4000, "message extends beyond the pointer limit")
	switch {
	case d <= 0:
		vfReach("name starts beyond the pointer limit")
	case d == 1:
		vfReach("name starts at the last addressable offset")
	case d < 6:
		vfReach("name straddles the pointer limit")
	default:
		vfReach("name entirely below the pointer limit")
	}
	if len(packed) < len(plain) {
		vfReach("compression pointer emitted")
	}
	vfReach("end")
}

// VerifC36_chain: names that extend one another by one label at a time (a., b.a., c.b.a., ...), one record each, n = 2..13
// records: every name is written as "label + pointer to the previous name", so decoding the n-th name follows n-1
// compression pointers. Labels are concrete and distinct (the depth of the pointer chain is the dimension here);
// header, class and TTL are symbolic. Known finding C36-pointer-chain-depth: from 12 names on, Pack and the Builder
// with compression emit a chain of 11 pointers, which the package's own Unpack/Parser reject ("too many pointers (>10)").
func VerifC36_chain() {
	n := vfLen("n", 2, 13)
	m := &Message{Header: c36header()}
	var labels [][]byte
	for i := 0; i < n; i++ {
		labels = append([][]byte{{byte('a' + i)}}, labels...)
		m.Answers = append(m.Answers, c36resource(c36name(labels...), &AResource{}))
	}
	packed, err := m.Pack()
	vfAssert(err == nil, "well-formed message packs")
	var u Message
	err = u.Unpack(packed)
	vfAssertKF(err == nil, "packed message unpacks (names extending one another)", "C36-pointer-chain-depth", n >= 12)
	vfAssert(c37eqMsg(&u, m), "Unpack(Pack(m)) == m")
	comp, err := c36build(m, true, 0)
	vfAssert(err == nil, "Builder (compression) accepts the message")
	vfAssert(c37eqBytes(comp, packed), "Builder with compression and Message.Pack produce the same bytes")
	plain, err := c36build(m, false, 0)
	vfAssert(err == nil, "Builder (no compression) accepts the message")
	var u1 Message
	vfAssert(u1.Unpack(plain) == nil && c37eqMsg(&u1, m), "Builder (no compression) output decodes to m")
	vfObserve("packed len", uint64(len(packed)))
	vfReach("end")
}
