package dnsmessage

// C37 — DNS parsing is safe and self-consistent on any input.
// Shape B (bounded inputs, real entry points Message.Unpack / Parser / Skip* / Name.unpack / skipName / Pack).
//
//   VerifC37_name      arbitrary bytes, arbitrary start offset: Name.unpack vs skipName vs a reference decoder
//                      (label boundaries, '.' inside labels, pointer chains/loops cut after 10 hops, length, re-encode)
//   VerifC37_longname  names of 252..256 decoded bytes (plain, through a pointer, self-referencing 63-byte label)
//   VerifC37_chain     pointer chains of exactly 9..12 hops
//   VerifC37_header    arbitrary 12-byte header (all flag bits), empty sections
//   VerifC37_bytes     short header (11 bytes) or header + 0..7 (thorough 10) arbitrary body bytes, any section counts <= 2/1/1/1
//   VerifC37_rec_*     one record of each of the 13 body kinds with arbitrary class/TTL/RDATA, RDLENGTH = R-1..R+1,
//                      in 3 layouts (truncated; compressed owner name + misaligned follower record; after a question)
//   VerifC37_ptrlimit  byte strings > 16 KiB whose names sit around offset 0x3FFF/0x4000 (the 14-bit compression
//                      pointer limit): accepted => re-pack (with compression) / re-unpack gives an equal message
// Every message goes through c37message: no panic; Unpack == record-by-record Parser (Xxx, XxxHeader + typed body
// method); Skip twins reach the same state; decoded names canonical; accepted => Pack ok and Unpack(Pack(m)) == m
// (equality of DESIGN.md §5: ResourceHeader.Length ignored, nil == empty).
//
// A record that Answer/Authority/Additional reject is also fed to XxxHeader + the typed body method of its type
// (c37rejectedRecord): no panic, and no decoded record either.
// FINDING on the unchanged tree (key C37-typed-rdlength-past-end, repro/C37/typed_rdlength_past_end_test.go, reproduces
// natively through the public API): AnswerHeader + AResource (any typed body method) decode a record whose RDLENGTH runs
// past the end of the message, which Message.Unpack, Parser.Answer and SkipAnswer reject with errResourceLen.
//
// REPAIRED finding (commit 31ac969 in /repo; key C37-rdlength-past-end, repro/C37/rdlength_past_end_test.go, reproduces natively
// through the public API): Parser.Answer/Authority/Additional and Message.Unpack accept a record whose RDLENGTH runs
// past the end of the message (parser offset ends beyond len(msg)), SkipAnswer/... reject it with errResourceLen.
//
// Sensitivity (mut.sh, all four confirmed natively as VIOLATION):
//   M1 message.go Name.unpack `if ptr++; ptr > 10 {`            -> `ptr > 11`            caught by VerifC37_chain (missed by VerifC37_name: 11 distinct pointers need 22 bytes)
//   M2 message.go Name.unpack: delete the `if v == '.'` rejection -> caught by VerifC37_name ("unpack accepts exactly the well-formed names")
//   M3 message.go skipResource `newOff > len(msg)` -> `newOff >= len(msg)`  caught by VerifC37_rec_plain ("Skip succeeds where the parse method succeeds")
//   M4 message.go Name.unpack `>= nonEncodedNameMax` -> `> nonEncodedNameMax+1`  caught by VerifC37_longname ("question name canonical")
// Seeded changes (seedtest.sh, both caught in the quick tier, confirmed natively):
//   C37-C message.go Name.pack `newPtr <= int(^uint16(0)>>2)` -> `>>1`   caught by VerifC37_ptrlimit ("re-packed message unpacks" / "... decodes to an equal message")
//   C37-D message.go unpackText `off >= len(msg)` -> `off > len(msg)`     caught by VerifC37_rec_plain (index out of range in unpackText via Parser.TXTResource on a rejected record)

func init() {
	vfRegister("VerifC37_name", VerifC37_name)
	vfRegister("VerifC37_bytes", VerifC37_bytes)
	vfRegister("VerifC37_rec_plain", VerifC37_rec_plain)
	vfRegister("VerifC37_rec_names", VerifC37_rec_names)
	vfRegister("VerifC37_rec_soa", VerifC37_rec_soa)
	vfRegister("VerifC37_rec_svcb", VerifC37_rec_svcb)
	vfRegister("VerifC37_header", VerifC37_header)
	vfRegister("VerifC37_longname", VerifC37_longname)
	vfRegister("VerifC37_chain", VerifC37_chain)
	vfRegister("VerifC37_ptrlimit", VerifC37_ptrlimit)
}

// c37refName is the reference name decoder (RFC 1035 4.1.4 + the package's documented limits): it walks the wire
// form, tracks label boundaries and reports the decoded bytes, the number of labels, the offset after the name and
// the number of pointers followed. ok=false = malformed (any reason).
func c37refName(msg []byte, off int) (name []byte, labels int, next int, hops int, ok bool) {
	// NOTE: the conditions are written in the same shape and order as in Name.unpack so that the engine
	// recognises them as already decided on the path (no extra solver work); the bookkeeping is independent.
	cur := off
	next = -1
	for steps := 0; steps < 300; steps++ {
		if cur >= len(msg) {
			return nil, 0, 0, hops, false
		}
		c := int(msg[cur])
		cur++
		switch c & 0xC0 {
		case 0x00:
			if c == 0x00 {
				if next < 0 {
					next = cur
				}
				if len(name) == 0 {
					name = append(name, '.')
				}
				return name, labels, next, hops, true
			}
			end := cur + c
			if end > len(msg) {
				return nil, 0, 0, hops, false
			}
			for _, v := range msg[cur:end] {
				if v == '.' {
					return nil, 0, 0, hops, false
				}
			}
			name = append(name, msg[cur:end]...)
			name = append(name, '.')
			labels++
			cur = end
			if len(name) > 254 {
				return nil, 0, 0, hops, false
			}
		case 0xC0:
			if cur >= len(msg) {
				return nil, 0, 0, hops, false
			}
			c1 := msg[cur]
			cur++
			if next < 0 {
				next = cur
			}
			hops++
			if hops > 10 {
				return nil, 0, 0, hops, false
			}
			cur = (c^0xC0)<<8 | int(c1)
		default:
			return nil, 0, 0, hops, false
		}
	}
	return nil, 0, 0, hops, false
}

// c37nameOK: canonical decoded form — 1..254 bytes, ends with '.', no empty label unless it is the root name,
// bytes after Length untouched (zero).
func c37nameOK(n *Name) bool {
	l := int(n.Length)
	if l == 0 || l > 254 {
		return false
	}
	ok := n.Data[l-1] == '.'
	for i := 0; i+1 < l; i++ {
		ok = vfAnd(ok, vfNot(vfAnd(n.Data[i] == '.', n.Data[i+1] == '.')))
	}
	if l > 1 {
		ok = vfAnd(ok, n.Data[0] != '.')
	}
	return ok
}

// Name.unpack / skipName on arbitrary bytes at an arbitrary offset, against the reference decoder.
func VerifC37_name() {
	nmax := 7
	if vfTier() > 0 {
		nmax = 8
	}
	n := vfLen("n", 0, nmax)
	msg := vfBytes("msg", n)
	off := vfLen("off", 0, n)

	var nm Name
	newOff, err := nm.unpack(msg, off)
	ref, labels, next, hops, ok := c37refName(msg, off)
	vfAssert((err == nil) == ok, "unpack accepts exactly the well-formed names")
	if err != nil {
		vfAssert(newOff == off, "offset unchanged on error")
		if hops > 10 {
			vfAssert(err == errTooManyPtr, "pointer chain cut after 10 hops")
			vfReach("pointer loop")
		}
		vfReach("name rejected")
	} else {
		vfAssert(newOff == next, "offset after the name")
		vfAssert(newOff <= len(msg), "offset within the message")
		vfAssert(int(nm.Length) == len(ref), "decoded length")
		vfAssert(c37nameOK(&nm), "canonical decoded form")
		dots := 0
		for i := 0; i < len(ref); i++ {
			vfAssert(nm.Data[i] == ref[i], "decoded bytes")
			dots += vfIteInt(nm.Data[i] == '.', 1, 0)
		}
		if labels > 0 {
			vfAssert(dots == labels, "one dot per wire label: no '.' inside a label")
		}
		vfAssert(hops <= 10, "at most 10 pointers followed")
		// the Skip counterpart stops at the same place
		so, serr := skipName(msg, off)
		vfAssert(serr == nil, "skipName accepts what unpack accepts")
		vfAssert(so == newOff, "skipName stops where unpack stops")
		// re-encode (no compression) and decode again
		re, perr := nm.pack(nil, nil, 0)
		vfAssert(perr == nil, "decoded name packs")
		var nm2 Name
		o2, uerr := nm2.unpack(re, 0)
		vfAssert(uerr == nil && o2 == len(re), "re-encoded name unpacks")
		vfAssert(nm2 == nm, "re-encoded name decodes to the same Name")
		vfObserve("len", uint64(nm.Length))
		vfObserveBytes("name", nm.Data[:nm.Length])
		if hops > 0 {
			vfReach("compressed name accepted")
		}
		if labels >= 2 {
			vfReach("two labels")
		}
		vfReach("name accepted")
	}
	vfReach("end")
}

// ---------------------------------------------------------------------------------------------------------------
// message equality (DESIGN.md §5: field by field, ignoring ResourceHeader.Length, nil == empty slice)

func c37eqBytes(a, b []byte) bool {
	// string comparison of symbolic bytes yields one formula in the engine (no fork), like a vfAnd chain, but
	// without interpreting a loop iteration per byte (16 KiB payloads in the *_ptrlimit harnesses)
	return string(a) == string(b)
}

func c37eqHeader(a, b *Header) bool {
	ok := a.ID == b.ID
	ok = vfAnd(ok, a.Response == b.Response)
	ok = vfAnd(ok, a.OpCode == b.OpCode)
	ok = vfAnd(ok, a.Authoritative == b.Authoritative)
	ok = vfAnd(ok, a.Truncated == b.Truncated)
	ok = vfAnd(ok, a.RecursionDesired == b.RecursionDesired)
	ok = vfAnd(ok, a.RecursionAvailable == b.RecursionAvailable)
	ok = vfAnd(ok, a.AuthenticData == b.AuthenticData)
	ok = vfAnd(ok, a.CheckingDisabled == b.CheckingDisabled)
	ok = vfAnd(ok, a.RCode == b.RCode)
	return ok
}

func c37eqResHeader(a, b *ResourceHeader) bool {
	ok := a.Name == b.Name
	ok = vfAnd(ok, a.Type == b.Type)
	ok = vfAnd(ok, a.Class == b.Class)
	ok = vfAnd(ok, a.TTL == b.TTL)
	return ok // Length deliberately ignored
}

func c37eqSVCB(x, y *SVCBResource) bool {
	if len(x.Params) != len(y.Params) {
		return false
	}
	ok := vfAnd(x.Priority == y.Priority, x.Target == y.Target)
	for i := range x.Params {
		ok = vfAnd(ok, x.Params[i].Key == y.Params[i].Key)
		ok = vfAnd(ok, c37eqBytes(x.Params[i].Value, y.Params[i].Value))
	}
	return ok
}

func c37eqBody(a, b ResourceBody) bool {
	switch x := a.(type) {
	case *AResource:
		y, ok := b.(*AResource)
		return ok && x.A == y.A
	case *AAAAResource:
		y, ok := b.(*AAAAResource)
		return ok && x.AAAA == y.AAAA
	case *NSResource:
		y, ok := b.(*NSResource)
		return ok && x.NS == y.NS
	case *CNAMEResource:
		y, ok := b.(*CNAMEResource)
		return ok && x.CNAME == y.CNAME
	case *PTRResource:
		y, ok := b.(*PTRResource)
		return ok && x.PTR == y.PTR
	case *MXResource:
		y, ok := b.(*MXResource)
		return ok && vfAnd(x.Pref == y.Pref, x.MX == y.MX)
	case *SOAResource:
		y, ok := b.(*SOAResource)
		if !ok {
			return false
		}
		r := vfAnd(x.NS == y.NS, x.MBox == y.MBox)
		r = vfAnd(r, vfAnd(x.Serial == y.Serial, x.Refresh == y.Refresh))
		r = vfAnd(r, vfAnd(x.Retry == y.Retry, x.Expire == y.Expire))
		return vfAnd(r, x.MinTTL == y.MinTTL)
	case *SRVResource:
		y, ok := b.(*SRVResource)
		if !ok {
			return false
		}
		r := vfAnd(x.Priority == y.Priority, x.Weight == y.Weight)
		return vfAnd(r, vfAnd(x.Port == y.Port, x.Target == y.Target))
	case *TXTResource:
		y, ok := b.(*TXTResource)
		if !ok || len(x.TXT) != len(y.TXT) {
			return false
		}
		r := true
		for i := range x.TXT {
			r = vfAnd(r, x.TXT[i] == y.TXT[i])
		}
		return r
	case *OPTResource:
		y, ok := b.(*OPTResource)
		if !ok || len(x.Options) != len(y.Options) {
			return false
		}
		r := true
		for i := range x.Options {
			r = vfAnd(r, x.Options[i].Code == y.Options[i].Code)
			r = vfAnd(r, c37eqBytes(x.Options[i].Data, y.Options[i].Data))
		}
		return r
	case *SVCBResource:
		y, ok := b.(*SVCBResource)
		return ok && c37eqSVCB(x, y)
	case *HTTPSResource:
		y, ok := b.(*HTTPSResource)
		return ok && c37eqSVCB(&x.SVCBResource, &y.SVCBResource)
	case *UnknownResource:
		y, ok := b.(*UnknownResource)
		return ok && vfAnd(x.Type == y.Type, c37eqBytes(x.Data, y.Data))
	}
	return false
}

func c37eqResources(a, b []Resource) bool {
	if len(a) != len(b) {
		return false
	}
	ok := true
	for i := range a {
		ok = vfAnd(ok, c37eqResHeader(&a[i].Header, &b[i].Header))
		ok = vfAnd(ok, c37eqBody(a[i].Body, b[i].Body))
	}
	return ok
}

func c37eqMsg(a, b *Message) bool {
	if len(a.Questions) != len(b.Questions) {
		return false
	}
	ok := c37eqHeader(&a.Header, &b.Header)
	for i := range a.Questions {
		x, y := &a.Questions[i], &b.Questions[i]
		ok = vfAnd(ok, vfAnd(x.Name == y.Name, vfAnd(x.Type == y.Type, x.Class == y.Class)))
	}
	ok = vfAnd(ok, c37eqResources(a.Answers, b.Answers))
	ok = vfAnd(ok, c37eqResources(a.Authorities, b.Authorities))
	ok = vfAnd(ok, c37eqResources(a.Additionals, b.Additionals))
	return ok
}

// c37bodyNamesOK: every name inside a decoded body is in canonical decoded form.
func c37bodyNamesOK(b ResourceBody) bool {
	switch x := b.(type) {
	case *NSResource:
		return c37nameOK(&x.NS)
	case *CNAMEResource:
		return c37nameOK(&x.CNAME)
	case *PTRResource:
		return c37nameOK(&x.PTR)
	case *MXResource:
		return c37nameOK(&x.MX)
	case *SOAResource:
		return vfAnd(c37nameOK(&x.NS), c37nameOK(&x.MBox))
	case *SRVResource:
		return c37nameOK(&x.Target)
	case *SVCBResource:
		return c37nameOK(&x.Target)
	case *HTTPSResource:
		return c37nameOK(&x.Target)
	}
	return true
}

func c37sameState(a, b *Parser) bool {
	return vfAnd(a.off == b.off, vfAnd(a.index == b.index, a.section == b.section))
}

// c37typed parses the body through the typed Parser method matching the header type (after an XxxHeader call).
func c37typed(p *Parser, typ ResourceBody) (ResourceBody, error) {
	switch typ.(type) {
	case *AResource:
		r, err := p.AResource()
		return &r, err
	case *AAAAResource:
		r, err := p.AAAAResource()
		return &r, err
	case *NSResource:
		r, err := p.NSResource()
		return &r, err
	case *CNAMEResource:
		r, err := p.CNAMEResource()
		return &r, err
	case *PTRResource:
		r, err := p.PTRResource()
		return &r, err
	case *MXResource:
		r, err := p.MXResource()
		return &r, err
	case *SOAResource:
		r, err := p.SOAResource()
		return &r, err
	case *SRVResource:
		r, err := p.SRVResource()
		return &r, err
	case *TXTResource:
		r, err := p.TXTResource()
		return &r, err
	case *OPTResource:
		r, err := p.OPTResource()
		return &r, err
	case *SVCBResource:
		r, err := p.SVCBResource()
		return &r, err
	case *HTTPSResource:
		r, err := p.HTTPSResource()
		return &r, err
	}
	r, err := p.UnknownResource()
	return &r, err
}

// c37typedOf parses the body through the typed Parser method matching a header type (after an XxxHeader call).
func c37typedOf(p *Parser, t Type) (ResourceBody, error) {
	switch t {
	case TypeA:
		return c37typed(p, (*AResource)(nil))
	case TypeAAAA:
		return c37typed(p, (*AAAAResource)(nil))
	case TypeNS:
		return c37typed(p, (*NSResource)(nil))
	case TypeCNAME:
		return c37typed(p, (*CNAMEResource)(nil))
	case TypePTR:
		return c37typed(p, (*PTRResource)(nil))
	case TypeMX:
		return c37typed(p, (*MXResource)(nil))
	case TypeSOA:
		return c37typed(p, (*SOAResource)(nil))
	case TypeSRV:
		return c37typed(p, (*SRVResource)(nil))
	case TypeTXT:
		return c37typed(p, (*TXTResource)(nil))
	case TypeOPT:
		return c37typed(p, (*OPTResource)(nil))
	case TypeSVCB:
		return c37typed(p, (*SVCBResource)(nil))
	case TypeHTTPS:
		return c37typed(p, (*HTTPSResource)(nil))
	}
	return c37typed(p, (*UnknownResource)(nil))
}

const c37kfTypedLen = "C37-typed-rdlength-past-end"

// c37rejectedRecord: the record at p0 is rejected by Answer/Authority/Additional (and therefore by Message.Unpack).
// The other route through the same bytes - XxxHeader followed by the typed body method of the header's type - must not
// panic (implicit run-time panics are violations) and must not decode a record either ("Unpack and the streaming Parser
// agree on the decoded message"). The typed methods have no bounds pre-check of their own (unpackResourceBody has one):
// they rely on the checks inside the body decoders, which is exactly what this exercises on truncated records and on
// RDLENGTH values that run past the end of the message.
func c37rejectedRecord(p0 *Parser, sec int, msg []byte) (events int) {
	t := *p0
	hh, herr := c37resHeader(&t, sec)
	if herr != nil {
		return c37RejHeader
	}
	past := t.off+int(hh.Length) > len(msg) // RDLENGTH runs past the end of the message
	_, berr := c37typedOf(&t, hh.Type)
	vfObserveBool("typed body method error on a rejected record", berr != nil)
	vfAssertKF(berr != nil, "typed body method rejects a record that Answer/Authority/Additional reject", c37kfTypedLen, past)
	if past {
		return c37RejPastTyped
	}
	return c37RejBodyTyped
}

func c37resource(p *Parser, sec int) (Resource, error) {
	switch sec {
	case 0:
		return p.Answer()
	case 1:
		return p.Authority()
	}
	return p.Additional()
}

func c37resHeader(p *Parser, sec int) (ResourceHeader, error) {
	switch sec {
	case 0:
		return p.AnswerHeader()
	case 1:
		return p.AuthorityHeader()
	}
	return p.AdditionalHeader()
}

func c37skip(p *Parser, sec int) error {
	switch sec {
	case 0:
		return p.SkipAnswer()
	case 1:
		return p.SkipAuthority()
	}
	return p.SkipAdditional()
}

const c37kfSkipLen = "C37-rdlength-past-end"

// c37message runs every oracle of C37 on one message.
const (
	c37ShortHeader = 1 << iota
	c37Rejected
	c37Accepted
	c37QuestionParsed
	c37ResourceParsed
	c37PastEnd
	c37RejHeader    // a record rejected by Xxx: XxxHeader rejects it too
	c37RejPastTyped // ... XxxHeader accepts it, RDLENGTH runs past the end of the message, typed body method tried
	c37RejBodyTyped // ... XxxHeader accepts it, RDLENGTH within the message, typed body method tried
)

func c37message(msg []byte, onPast func()) (events int) { return c37messageFrom(msg, onPast, 0) }

// c37messageFrom: as c37message, but only packed[from:] is recorded as an observation (large concrete padding in
// front of the interesting part need not be stored with every sampled path).
func c37messageFrom(msg []byte, onPast func(), from int) (events int) {
	var m Message
	uerr := m.Unpack(msg)
	vfObserveBool("unpack ok", uerr == nil)

	// the streaming parser, one record at a time, with Skip twins
	var p Parser
	var sm Message // what the step-by-step parser decodes
	h, err := p.Start(msg)
	if err != nil {
		vfAssert(uerr != nil, "Unpack fails when Start fails")
		vfAssert(len(msg) < 12, "Start fails only on a short header")
		return c37ShortHeader
	}
	sm.Header = h
	good := true
	for {
		p0 := p
		q, err := p.Question()
		tw := p0
		serr := tw.SkipQuestion()
		if err == ErrSectionDone {
			vfAssert(serr == ErrSectionDone, "SkipQuestion at section end")
			vfAssert(c37sameState(&tw, &p), "SkipQuestion/Question state at section end")
			break
		}
		if err != nil {
			good = false
			break
		}
		vfAssert(serr == nil, "SkipQuestion succeeds where Question succeeds")
		vfAssert(c37sameState(&tw, &p), "SkipQuestion advances like Question")
		vfAssert(p.off <= len(msg), "question ends inside the message")
		vfAssert(c37nameOK(&q.Name), "question name canonical")
		sm.Questions = append(sm.Questions, q)
		events |= c37QuestionParsed
	}
	for sec := 0; good && sec < 3; sec++ {
		var rs []Resource
		for {
			p0 := p
			r, err := c37resource(&p, sec)
			tw := p0
			serr := c37skip(&tw, sec)
			if err == ErrSectionDone {
				vfAssert(serr == ErrSectionDone, "Skip at section end")
				vfAssert(c37sameState(&tw, &p), "Skip/parse state at section end")
				break
			}
			if err != nil {
				events |= c37rejectedRecord(&p0, sec, msg)
				good = false
				break
			}
			past := p.off > len(msg) // RDLENGTH runs past the end of the message
			if past && onPast != nil {
				onPast()
			}
			vfAssertKF(serr == nil, "Skip succeeds where the parse method succeeds", c37kfSkipLen, past)
			if serr == nil {
				vfAssert(c37sameState(&tw, &p), "Skip advances like the parse method")
			}
			vfAssert(c37nameOK(&r.Header.Name), "resource name canonical")
			vfAssert(c37bodyNamesOK(r.Body), "names in the body canonical")
			// header + typed body methods
			t2 := p0
			hh, herr := c37resHeader(&t2, sec)
			vfAssert(herr == nil, "XxxHeader succeeds where Xxx succeeds")
			vfAssert(vfAnd(c37eqResHeader(&hh, &r.Header), hh.Length == r.Header.Length), "XxxHeader returns the same header")
			t3 := t2
			body, berr := c37typed(&t2, r.Body)
			vfAssert(berr == nil, "typed body method succeeds")
			vfAssert(c37eqBody(body, r.Body), "typed body method returns the same body")
			vfAssert(c37sameState(&t2, &p), "typed body method advances like Xxx")
			// header then skip
			s3 := c37skip(&t3, sec)
			vfAssertKF(s3 == nil, "Skip after XxxHeader succeeds", c37kfSkipLen, past)
			if s3 == nil {
				vfAssert(c37sameState(&t3, &p), "Skip after XxxHeader advances like Xxx")
			}
			rs = append(rs, r)
			if past {
				events |= c37PastEnd
			}
			events |= c37ResourceParsed
		}
		switch sec {
		case 0:
			sm.Answers = rs
		case 1:
			sm.Authorities = rs
		default:
			sm.Additionals = rs
		}
	}
	if !good {
		vfAssert(uerr != nil, "Unpack fails where the step parser fails")
		return events | c37Rejected
	}
	vfAssert(uerr == nil, "Unpack succeeds where the step parser succeeds")
	vfAssert(c37eqMsg(&m, &sm), "Unpack and the step parser decode the same message")
	vfObserve("questions", uint64(len(m.Questions)))
	vfObserve("resources", uint64(len(m.Answers)+len(m.Authorities)+len(m.Additionals)))
	vfObserve("end offset", uint64(p.off))

	// accepted ⇒ re-packs and re-unpacks to an equal message
	packed, perr := m.Pack()
	vfAssert(perr == nil, "accepted message packs")
	var m2 Message
	err2 := m2.Unpack(packed)
	vfAssert(err2 == nil, "re-packed message unpacks")
	vfAssert(c37eqMsg(&m2, &sm), "re-packed message decodes to an equal message")
	if from <= len(packed) {
		vfObserveBytes("packed", packed[from:])
	}
	vfObserve("packed len", uint64(len(packed)))
	return events | c37Accepted
}

// c37assumePointers: in the message-level harnesses a byte at position >= from with both top bits set (a possible
// compression pointer) must be 0xC0 and be followed by one of the given target offsets or by 0xFF (out of range).
// Pointers to arbitrary places, forward pointers, loops and chains are covered on arbitrary bytes by VerifC37_name.
func c37assumePointers(msg []byte, from int, targets ...byte) {
	for i := from; i < len(msg); i++ {
		isPtr := msg[i] >= 0xC0
		if i+1 < len(msg) {
			t := msg[i+1]
			okT := t == 0xFF
			for _, x := range targets {
				okT = vfOr(okT, t == x)
			}
			vfAssume(vfImplies(isPtr, vfAnd(msg[i] == 0xC0, okT)))
		} else {
			vfAssume(vfImplies(isPtr, msg[i] == 0xC0))
		}
	}
}

// Arbitrary byte strings: 11 bytes (short header) or a 12-byte header plus 0..bmax arbitrary body bytes.
// Fewer than 11 body bytes cannot hold a resource record, so accepted messages here carry questions only; every
// section count may be non-zero, which drives the resource parsers and Skip methods into truncated data.
func VerifC37_bytes() {
	bmax := 7
	if vfTier() > 0 {
		bmax = 10
	}
	n := vfLen("n", 11, 12+bmax)
	msg := vfBytes("msg", n)
	if n >= 12 {
		// header counts (assumed bound): at most 2 questions and at most 1 record in each other section
		for i := 4; i < 12; i += 2 {
			vfAssume(msg[i] == 0)
		}
		vfAssume(msg[5] <= 2)
		vfAssume(msg[7] <= 1)
		vfAssume(msg[9] <= 1)
		vfAssume(msg[11] <= 1)
		// flag bits: fixed here (Header.pack branches on each of the 7 flags: x128 paths); arbitrary in VerifC37_header
		vfAssume(msg[2] == 0x81)
		vfAssume(msg[3] == 0x80)
		c37assumePointers(msg, 12, 12)
	}
	ev := c37message(msg, nil)
	if ev&c37ShortHeader != 0 {
		vfReach("short header")
	}
	if ev&c37Rejected != 0 {
		vfReach("rejected")
	}
	if ev&c37Accepted != 0 {
		vfReach("accepted")
		if len(msg) > 12 && msg[5] == 0 {
			vfReach("accepted with trailing garbage")
		}
	}
	if ev&c37QuestionParsed != 0 {
		vfReach("question parsed")
	}
	vfReach("end")
}

// Header bits: arbitrary 12-byte header with zero counts.
func VerifC37_header() {
	msg := vfBytes("msg", 12)
	for i := 4; i < 12; i++ {
		vfAssume(msg[i] == 0)
	}
	ev := c37message(msg, nil)
	vfAssert(ev&c37Accepted != 0, "empty message accepted")
	var m Message
	if err := m.Unpack(msg); err != nil {
		vfAssert(false, "unpack")
	}
	vfAssert(m.ID == uint16(msg[0])<<8|uint16(msg[1]), "ID")
	vfAssert(m.Response == (msg[2]&0x80 != 0), "QR")
	vfAssert(m.OpCode == OpCode(msg[2]>>3)&0xF, "opcode")
	vfAssert(m.RCode == RCode(msg[3]&0xF), "rcode")
	vfAssert(m.Authoritative == (msg[2]&4 != 0), "AA")
	vfAssert(m.Truncated == (msg[2]&2 != 0), "TC")
	vfAssert(m.RecursionDesired == (msg[2]&1 != 0), "RD")
	vfAssert(m.RecursionAvailable == (msg[3]&0x80 != 0), "RA")
	vfAssert(m.AuthenticData == (msg[3]&0x20 != 0), "AD")
	vfAssert(m.CheckingDisabled == (msg[3]&0x10 != 0), "CD")
	vfReach("end")
}


type c37kind struct {
	typ        Type
	rmin, rmax int // RDATA sizes tried in the quick tier
	tmin, tmax int // ... in the thorough tier
}

var c37kinds = []c37kind{
	0: {TypeA, 3, 5, 2, 6}, 1: {TypeAAAA, 15, 17, 14, 18}, 2: {TypeTXT, 0, 3, 0, 5}, 3: {TypeOPT, 0, 5, 0, 8},
	4: {0, 0, 2, 0, 4}, // unknown: symbolic type outside the list
	5: {TypeNS, 0, 2, 0, 4}, 6: {TypeCNAME, 1, 2, 1, 3}, 7: {TypePTR, 1, 1, 1, 3}, 8: {TypeMX, 2, 3, 2, 5},
	9: {TypeSRV, 6, 7, 6, 9},
	10: {TypeSOA, 22, 22, 21, 23},
	11: {TypeSVCB, 3, 7, 2, 9}, 12: {TypeHTTPS, 3, 5, 2, 8},
}

// One resource record of every kind with arbitrary class/TTL/RDLENGTH/RDATA bytes inside a well-formed frame:
//   layout 0: no question; record in Answers with the root name; the message is cut 0..2 bytes short
//   layout 1: question "x."; record in Authorities with a compressed name (pointer to 12); a fixed-shape A record follows
//   layout 2: question "x."; record in Additionals with name "y." (y symbolic)
// RDLENGTH ranges over R-1..R+1 around the number R of RDATA bytes present (mismatched lengths, past-the-end lengths).
func VerifC37_rec_plain() { c37record(vfChoice("kind", 5)) }     // A, AAAA, TXT, OPT, unknown
func VerifC37_rec_names() { c37record(5 + vfChoice("kind", 5)) } // NS, CNAME, PTR, MX, SRV
func VerifC37_rec_soa()   { c37record(10) }
func VerifC37_rec_svcb()  { c37record(11 + vfChoice("kind", 2)) } // SVCB, HTTPS

func c37record(kind int) {
	layout := vfChoice("layout", 3)
	k := c37kinds[kind]
	rmin, rmax := k.rmin, k.rmax
	if vfTier() > 0 {
		rmin, rmax = k.tmin, k.tmax
	}
	R := vfLen("rdata bytes", rmin, rmax)

	// ID and flag bits fixed (arbitrary in VerifC37_header): a misaligned follower record can point at offset 0,
	// and symbolic bytes there would be walked as labels in every possible way (path explosion, no new behaviour)
	msg := []byte{0, 7, 0x81, 0x80}
	counts := [4]byte{}
	if layout > 0 {
		counts[0] = 1
	}
	counts[1+layout] = 1
	if layout == 1 {
		counts[2] = 2
	}
	for _, c := range counts {
		msg = append(msg, 0, c)
	}
	if layout > 0 {
		msg = append(msg, 1, vfU8("qlabel"), 0)
		msg = append(msg, vfBytes("qtype+qclass", 4)...)
	}
	nameOff := len(msg)
	switch layout {
	case 0:
		msg = append(msg, 0)
	case 1:
		msg = append(msg, 0xC0, 12)
	case 2:
		msg = append(msg, 1, vfU8("rlabel"), 0)
	}
	if k.typ != 0 {
		msg = append(msg, byte(k.typ>>8), byte(k.typ))
	} else {
		t := vfU16("type")
		for _, kk := range c37kinds {
			vfAssume(vfOr(kk.typ == 0, Type(t) != kk.typ))
		}
		msg = append(msg, byte(t>>8), byte(t))
	}
	msg = append(msg, vfBytes("class+ttl", 6)...)
	rdlen := R - 1 + vfChoice("rdlength", 3) // concrete per path: keeps every later offset concrete
	if rdlen < 0 {
		rdlen = 0xFFFF
	}
	msg = append(msg, byte(rdlen>>8), byte(rdlen))
	rdOff := len(msg)
	msg = append(msg, vfBytes("rdata", R)...)
	c37assumePointers(msg[:rdOff+R], rdOff, 12, byte(nameOff))
	// RDATA bytes below 0x40 (possible label / string / option lengths) are 0..3 or '.' (assumed bound): longer
	// labels inside RDATA only multiply the ways consecutive names can be walked
	for i := rdOff; i < rdOff+R; i++ {
		vfAssume(vfOr(msg[i] <= 3, vfOr(msg[i] == '.', msg[i] >= 0x40)))
	}
	if k.typ == TypeSOA {
		// the five 32-bit fields: high three bytes concrete (0x80+j: a name that runs into them stops with
		// errReserved instead of walking them as labels in every possible way), low byte symbolic
		for j := 0; j < 5; j++ {
			for i := 0; i < 3; i++ {
				msg[rdOff+R-20+4*j+i] = byte(0x80 + j)
			}
		}
	}
	if k.typ == TypeOPT && R >= 4 {
		// option length (16 bits) sizes an allocation before any bounds check: keep it small (assumed bound)
		vfAssume(msg[rdOff+2] == 0)
		vfAssume(msg[rdOff+3] <= 3)
		if R >= 8 {
			// room for a second option: the first one is empty and the second length is small too
			vfAssume(msg[rdOff+3] == 0)
			vfAssume(msg[rdOff+6] == 0)
			vfAssume(msg[rdOff+7] <= 3)
		}
	}
	if layout == 1 {
		// concrete follower: with RDLENGTH off by one it is parsed misaligned, which must stay cheap
		msg = append(msg, 0, 0, 1, 0, 1, 0, 0, 0, 5, 0, 4, 1, 2, 3, 4)
	}
	if layout == 0 {
		cut := vfLen("cut", 0, 2)
		msg = msg[:len(msg)-cut]
	}
	ev := c37message(msg, nil)
	if ev&c37Rejected != 0 {
		vfReach("rejected")
	}
	if ev&c37Accepted != 0 {
		vfReach("accepted")
	}
	if ev&c37ResourceParsed != 0 {
		vfReach("resource parsed")
	}
	if ev&(c37RejPastTyped|c37RejHeader) != 0 {
		// (since the repair of C37-typed-rdlength-past-end the header method itself rejects a record whose RDLENGTH runs
		// past the end; before it, the typed body method was reached and accepted the record)
		vfReach("rejected record: the header method rejects it too, or RDLENGTH past the end and the typed body method tried")
	}
	if ev&c37RejBodyTyped != 0 {
		vfReach("rejected record with a malformed body: typed body method tried")
	}
	vfReach("end")
}

// Names at the length limit: three 63-byte labels plus a last label of 59..63 bytes give decoded lengths 252..256
// (wire 253..257). variant 0: one question, plain name. variant 1: the last label lives in a first question and is
// reached through a compression pointer. variant 2: a 63-byte label followed by a pointer to itself (the loop must
// be cut by the length limit or the pointer limit). Two label bytes are symbolic (a '.' inside a label => rejected).
func VerifC37_longname() {
	variant := vfChoice("variant", 3)
	k := vfLen("last label", 59, 63)
	s0, s1 := vfU8("label byte"), vfU8("label byte")
	lab := func(msg []byte, n int, fill, first byte) []byte {
		msg = append(msg, byte(n))
		for i := 0; i < n; i++ {
			if i == 0 {
				msg = append(msg, first)
			} else {
				msg = append(msg, fill)
			}
		}
		return msg
	}
	msg := []byte{0, 7, 0x81, 0x80, 0, 1, 0, 0, 0, 0, 0, 0}
	switch variant {
	case 0:
		msg = lab(msg, 63, 'a', s0)
		msg = lab(msg, 63, 'b', 'b')
		msg = lab(msg, 63, 'c', 'c')
		msg = lab(msg, k, 'd', s1)
		msg = append(msg, 0, 0, 1, 0, 1)
	case 1:
		msg[5] = 2
		msg = lab(msg, k, 'd', s1)
		msg = append(msg, 0, 0, 1, 0, 1)
		msg = lab(msg, 63, 'a', s0)
		msg = lab(msg, 63, 'b', 'b')
		msg = lab(msg, 63, 'c', 'c')
		msg = append(msg, 0xC0, 12, 0, 1, 0, 1)
	case 2:
		msg = lab(msg, 63, 'a', s0)
		msg = append(msg, 0xC0, 12, 0, 1, 0, 1)
	}
	dotted := vfOr(s0 == '.', s1 == '.')
	if variant == 2 {
		dotted = s0 == '.'
	}
	ev := c37message(msg, nil)
	var m Message
	err := m.Unpack(msg)
	if variant == 2 {
		vfAssert(err != nil, "self-referencing name rejected")
		vfReach("loop rejected")
	} else if k <= 61 {
		vfAssert((err == nil) == !dotted, "names of up to 254 decoded bytes accepted unless a label contains '.'")
		if err == nil {
			q := m.Questions[len(m.Questions)-1]
			vfAssert(int(q.Name.Length) == 193+k, "decoded length")
			vfObserve("len", uint64(q.Name.Length))
			if k == 61 {
				vfReach("254-byte name accepted")
			}
		}
	} else {
		vfAssert(err != nil, "names longer than 254 decoded bytes rejected")
		vfReach("too long rejected")
	}
	if ev&c37Accepted != 0 {
		vfReach("accepted")
	}
	vfReach("end")
}

// Pointer chains of exactly 9..12 hops ending in a one-label name: accepted iff at most 10 pointers are followed.
func VerifC37_chain() {
	hops := vfLen("hops", 9, 12)
	msg := []byte{0, 7, 0x81, 0x80, 0, 1, 0, 0, 0, 0, 0, 0}
	msg = append(msg, 0xC0, 18) // question name: pointer to the first chain element
	msg = append(msg, vfBytes("qtype+qclass", 4)...)
	for i := 1; i < hops; i++ {
		msg = append(msg, 0xC0, byte(len(msg)+2))
	}
	s := vfU8("label byte")
	vfAssume(s != '.')
	msg = append(msg, 1, s, 0)
	ev := c37message(msg, nil)
	var nm Name
	off, err := nm.unpack(msg, 12)
	if hops <= 10 {
		vfAssert(err == nil, "chains of up to 10 pointers are followed")
		vfAssert(off == 14, "offset after the first pointer")
		vfAssert(nm.Length == 2 && nm.Data[0] == s && nm.Data[1] == '.', "decoded name")
		vfAssert(ev&c37Accepted != 0, "message accepted")
		if hops == 10 {
			vfReach("10 hops accepted")
		}
	} else {
		vfAssert(err == errTooManyPtr, "more than 10 pointers rejected")
		vfAssert(ev&c37Rejected != 0, "message rejected")
		if hops == 11 {
			vfReach("11 hops rejected")
		}
	}
	vfReach("end")
}

// Byte strings longer than 16 KiB: "any message Unpack accepts re-packs and re-unpacks to an equal message" where the
// re-packed message extends beyond what a 14-bit compression pointer can address (offsets > 0x3FFF).
// Wire shape (concrete), contents symbolic: header; optional question "y.z."; an unknown-type record (owner root,
// type 0xFF00) whose concrete RDATA padding puts the owner name of the next record at S = 0x4000-d (d chosen by
// fork: every alignment of the labels relative to the pointer limit); an A record owned by the 3-label name
// "pq.x.a." (label offsets S, S+3, S+5; all label bytes arbitrary - a '.' makes Unpack reject the message); a CNAME
// record whose owner and target are each written as one of the wire forms "a." / "x.a." / "pq.a." / "pq.x.a."
// (uncompressed: they repeat suffixes of the straddling name) or, with a question, as a pointer to the question name.
// When the message is re-packed, Pack compresses the repeated suffixes: a suffix that was first written beyond 0x3FFF
// cannot be pointed at. Everything goes through c37message (all oracles: Unpack vs step parser vs Skip twins,
// canonical names, Pack, Unpack again, equality).
func VerifC37_ptrlimit() {
	thorough := vfTier() > 0
	a, x, p, q := vfU8("a"), vfU8("x"), vfU8("p"), vfU8("q")
	y, z := vfU8("y"), vfU8("z")
	if !thorough {
		// quick tier (assumed bound): only the bytes a and x may be '.' (a '.' inside a label: message rejected)
		vfAssume(vfAnd(vfAnd(p != '.', q != '.'), vfAnd(y != '.', z != '.')))
	}
	withQ := vfChoice("with question", 2) == 1
	msg := []byte{0, 7, 0x81, 0x80, 0, 0, 0, 3, 0, 0, 0, 0}
	if withQ {
		msg[5] = 1
		msg = append(msg, 1, y, 1, z, 0, 0, 1, 0, 1) // may equal "x.a.": entries at low offsets
	}
	// d = 0x4000 - (offset of the first label of the straddling name): <= 0: no label is addressable; 1..3: only the
	// first; 4..5: the first two; >= 6: all three.
	d := vfLen("distance below 0x4000", -vfTier(), 6+3*vfTier())
	start := 0x4000 - d
	n := start - len(msg) - 11
	msg = append(msg, 0, 0xFF, 0, 0, 1, 0, 0, 0, 0, byte(n>>8), byte(n))
	pad := make([]byte, 0, 0x8000)
	for i := 0; i < 64; i++ {
		pad = append(pad, byte(i*7+1))
	}
	for len(pad) < n {
		pad = append(pad, pad...) // concrete non-zero pattern, built by doubling (cheap to interpret)
	}
	msg = append(msg, pad[:n]...)
	vfAssert(len(msg) == start, "padding places the next record at the chosen offset")
	msg = append(msg, 2, p, q, 1, x, 1, a, 0, 0, 1)
	msg = append(msg, vfBytes("class+ttl", 6)...)
	msg = append(msg, 0, 4)
	msg = append(msg, vfBytes("a", 4)...)
	form := func(label string, quick []int) []byte {
		var k int
		if thorough {
			k = vfChoice(label, 5)
		} else {
			k = quick[vfChoice(label, len(quick))]
		}
		switch k {
		case 0:
			return []byte{1, a, 0}
		case 1:
			return []byte{1, x, 1, a, 0}
		case 2:
			return []byte{2, p, q, 1, a, 0}
		case 3:
			return []byte{2, p, q, 1, x, 1, a, 0}
		}
		if withQ {
			return []byte{0xC0, 12}
		}
		return []byte{0}
	}
	owner2 := form("later owner", []int{0, 1, 2, 3, 4})
	target2 := form("later target", []int{1, 2, 3})
	msg = append(msg, owner2...)
	msg = append(msg, 0, 5)
	msg = append(msg, vfBytes("class+ttl 2", 6)...)
	msg = append(msg, 0, byte(len(target2)))
	msg = append(msg, target2...)
	if thorough {
		// trailing bytes after the last record are ignored by Unpack
		msg = append(msg, vfBytes("trailing", vfLen("trailing bytes", 0, 1))...)
	}

	ev := c37messageFrom(msg, nil, start-4)
	if ev&c37Accepted != 0 {
		vfReach("accepted")
		switch {
		case d <= 0:
			vfReach("accepted: name starts beyond the pointer limit")
		case d == 1:
			vfReach("accepted: name starts at the last addressable offset")
		case d < 6:
			vfReach("accepted: name straddles the pointer limit")
		default:
			vfReach("accepted: name entirely below the pointer limit")
		}
	}
	if ev&c37Rejected != 0 {
		vfReach("rejected")
	}
	vfReach("end")
}
