package dnsmessage

// C38 — EDNS(0) header fields encode and decode consistently.
// Shape I (pure functions, full input range, no loops).
//
// Sensitivity (mut.sh, all caught):
//   message.go `h.TTL = uint32(extRCode) >> 4 << 24` -> `>> 4 << 23`           VIOLATION (ExtendedRCode round trip)
//   message.go `edns0DNSSECOKMask = 0x00ff8000`      -> `0x00ff0000`           VIOLATION (DNSSECAllowed == dnssecOK)
//   message.go `return RCode(h.TTL>>24<<4) | rcode`  -> `RCode(h.TTL>>24<<3) | rcode`   VIOLATION

func init() {
	vfRegister("VerifC38_set", VerifC38_set)
	vfRegister("VerifC38_wire", VerifC38_wire)
	vfRegister("VerifC38_version", VerifC38_version)
}

// All 4096 extended RCodes x 65536 payload sizes x 2 DO values, starting from an arbitrary previous header.
func VerifC38_set() {
	ext := RCode(vfU16("extRCode"))
	vfAssume(ext < 1<<12)
	udp := int(vfU16("udpPayloadLen"))
	do := vfBool("dnssecOK")

	var h ResourceHeader
	// arbitrary earlier contents must not leak into the result
	h.TTL = vfU32("oldTTL")
	h.Class = Class(vfU16("oldClass"))
	h.Type = Type(vfU16("oldType"))
	h.Length = vfU16("oldLength")

	err := h.SetEDNS0(udp, ext, do)
	vfAssert(err == nil, "SetEDNS0 returns nil")

	low := ext & 0xF // the part carried in the message header
	got := h.ExtendedRCode(low)
	vfAssert(got == ext, "ExtendedRCode(low 4 bits) == extRCode")
	vfAssert(h.DNSSECAllowed() == do, "DNSSECAllowed == dnssecOK")
	vfAssert(int(h.Class) == udp, "Class carries the UDP payload size")
	vfAssert(h.Type == TypeOPT, "Type == OPT")
	vfAssert(h.Name.Length == 1, "root name length")
	vfAssert(h.Name.Data[0] == '.', "root name")
	// RFC 6891 6.1.3 layout: ext-rcode(8) version(8) DO(1) Z(15)
	vfAssert(h.TTL>>24 == uint32(ext>>4), "TTL top byte = upper 8 bits of the extended RCode")
	vfAssert(h.TTL&0x00ff0000 == 0, "version 0")
	vfAssert(h.TTL&0x00007fff == 0, "Z bits zero")
	vfObserve("ttl", uint64(h.TTL))
	vfObserve("class", uint64(h.Class))
	vfObserve("ext", uint64(got))
	vfObserveBool("do", h.DNSSECAllowed())
	if do {
		vfReach("do=1")
	} else {
		vfReach("do=0")
	}
	vfReach("end")
}

// The same through the wire format of the resource header (pack + unpack): the fields survive.
func VerifC38_wire() {
	ext := RCode(vfU16("extRCode"))
	vfAssume(ext < 1<<12)
	udp := int(vfU16("udpPayloadLen"))
	do := vfBool("dnssecOK")
	var h ResourceHeader
	if err := h.SetEDNS0(udp, ext, do); err != nil {
		vfAssert(false, "SetEDNS0 error")
	}
	msg, lenOff, err := h.pack(nil, nil, 0)
	vfAssert(err == nil, "pack ok")
	vfAssert(len(msg) == 11, "root name + 10 bytes")
	vfAssert(lenOff == 9, "length offset")
	var g ResourceHeader
	off, err := g.unpack(msg, 0)
	vfAssert(err == nil, "unpack ok")
	vfAssert(off == 11, "consumed all")
	vfAssert(g.ExtendedRCode(ext&0xF) == ext, "wire: ExtendedRCode")
	vfAssert(g.DNSSECAllowed() == do, "wire: DNSSECAllowed")
	vfAssert(int(g.Class) == udp, "wire: payload size")
	vfAssert(g.Type == TypeOPT, "wire: type")
	vfAssert(g.Name.Length == 1, "wire: root name length")
	vfAssert(g.Name.Data[0] == '.', "wire: root name")
	vfObserveBytes("wire", msg)
	vfReach("end")
}

// Arbitrary TTL (e.g. received from a peer): documented fallbacks for a non-zero version.
func VerifC38_version() {
	var h ResourceHeader
	h.TTL = vfU32("ttl")
	rc := RCode(vfU16("rcode"))
	vfAssume(rc < 16)
	got := h.ExtendedRCode(rc)
	ver := (h.TTL >> 16) & 0xff
	want := RCode(vfIteU64(ver == 0, uint64(h.TTL>>24)<<4|uint64(rc), uint64(rc)))
	vfAssert(got == want, "ExtendedRCode: version 0 -> combined, otherwise header rcode")
	vfAssert(got&0xF == rc, "low 4 bits always the header rcode")
	vfAssert(got < 1<<12, "12 bits")
	wantDO := vfAnd(ver == 0, h.TTL&0x8000 != 0)
	vfAssert(h.DNSSECAllowed() == wantDO, "DNSSECAllowed only for version 0 with DO set")
	vfObserve("ext", uint64(got))
	if ver != 0 {
		vfReach("version!=0")
	} else {
		vfReach("version==0")
	}
	vfReach("end")
}
