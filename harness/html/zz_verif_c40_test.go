package html

import (
	"bytes"
	"io"
	"strings"

	"golang.org/x/net/html/atom"
)

// C40 — HTML re-serialization preserves what the tokenizer and parser saw.  (round-trip oracles; shape B)
//
//   VerifC40_escape  UnescapeString(EscapeString(s)) == s, all byte strings up to N bytes
//   VerifC40_token   first token of template+symbolic bytes: tokenize(t.String()) == t (tags, comments, doctypes)
//   VerifC40_render  Parse(Render(<p title=V>T</p> | <div>T</div>)) has exactly that element with V and T
//
// atom.Lookup on symbolic names is replaced by its specification (symgo/extern_html.go; justified by C42).
//
// Findings on the unchanged tree (both reproduce through the public API, repro/C40/token_string_roundtrip_test.go),
// kept as known findings so that other violations are still reported:
//   C40-doctype-leading-space  "<!DOCTYPE &#9;x>" -> Data "\tx" -> String() "<!DOCTYPE \tx>" -> Data "x"
//   C40-comment-cr             "<!--&#13;-->"     -> Data "\r"  -> String() "<!--\r-->"     -> Data "\n"
//
// Sensitivity (mut.sh, quick tier):
//   escape.go: drop '\r' from escapedChars                          caught by escape, token and render
//   escape.go escapeComment: `(prev != '!') && (prev != '-')` -> `(prev != '-')`   caught by token ("exactly one token")
//   token.go tagString: `escape(buf, a.Val)` -> `buf.WriteString(a.Val)`           caught by token

func init() {
	vfRegister("VerifC40_escape", VerifC40_escape)
	vfRegister("VerifC40_token", VerifC40_token)
	vfRegister("VerifC40_render", VerifC40_render)
}

func c40eqStr(a, b string) bool {
	if len(a) != len(b) {
		return false
	}
	ok := true
	for i := 0; i < len(a); i++ {
		ok = vfAnd(ok, a[i] == b[i])
	}
	return ok
}

// (a) UnescapeString(EscapeString(s)) == s for every byte string s of length <= N (no UTF-8 requirement), and the
// escaped form contains none of < > " ' CR, and '&' only as the first byte of one of the six produced references.
func VerifC40_escape() {
	// ~15 paths per byte: strings.IndexAny decodes UTF-8 (`range s`) and escape switches over six characters
	nmax := 3
	if vfTier() > 0 {
		nmax = 4
	}
	n := vfLen("n", 0, nmax)
	s := vfString("s", n)
	e := EscapeString(s)
	// e is concrete except for the bytes copied from s; which bytes were copied is fixed on each path, so the
	// reference "unescaped" walk below is concrete control flow over e.
	clean := true
	for i := 0; i < len(e); i++ {
		c := e[i]
		clean = vfAnd(clean, vfNot(vfOr(vfOr(c == '<', c == '>'), vfOr(vfOr(c == '"', c == '\''), c == '\r'))))
	}
	vfAssert(clean, "escaped text contains no markup-significant byte")
	amps := true
	for i := 0; i < len(e); i++ {
		isEnt := false
		for _, ent := range []string{"&amp;", "&lt;", "&gt;", "&#34;", "&#39;", "&#13;"} {
			if i+len(ent) <= len(e) {
				isEnt = vfOr(isEnt, c40eqStr(e[i:i+len(ent)], ent))
			}
		}
		amps = vfAnd(amps, vfImplies(e[i] == '&', isEnt))
	}
	vfAssert(amps, "'&' in escaped text starts a produced character reference")
	if len(e) > len(s) {
		vfReach("escaped")
	}
	u := UnescapeString(e)
	vfAssert(c40eqStr(u, s), "UnescapeString(EscapeString(s)) == s")
	vfObserveStr("escaped", e)
	vfReach("end")
}

// c40templates: prefix, suffix. The symbolic bytes sit between them.
var c40templates = [][2]string{
	{"<a b=", ">"}, {"<a b='", "'>"}, {"<a b=\"", "\">"}, {"<a ", ">"}, {"<a ", "=x>"}, {"<", ">"}, {"<p", " q>"}, {"</", ">"},
	{"<a b=\"c\"", "/>"}, {"<a/", ">"}, {"<!--", "-->"}, {"<!---", "->"}, {"<!", ">"}, {"<?", ">"}, {"<!DOCTYPE ", ">"}, {"<!doctype", "x>"}, {"</", ""},
	// character references next to the symbolic bytes
	{"<!DOCTYPE &#", ">"}, {"<!DOCTYPE x&#", ";>"}, {"<a b=\"&#", "\">"}, {"<a b='&#1", "'>"}, {"<a b=&", ">"}, {"<!--&", "-->"}, {"<!--&#x", "-->"},
	{"<!--a--!&g", "-->"}, {"<!--a-&g", "-->"}, {"<!--&g", "-->"}, {"<a b=\"&quo", "\">"},
}

func c40first(s string) (Token, int, *Tokenizer) {
	z := NewTokenizer(strings.NewReader(s))
	tt := z.Next()
	n := len(z.Raw())
	if tt == ErrorToken {
		return Token{}, n, z
	}
	return z.Token(), n, z
}

// (b) For the first token of template+symbolic bytes, if it is a tag, comment or doctype: tokenizing its String()
// yields exactly one token, equal in Type, Data, DataAtom and attributes.
func VerifC40_token() {
	n := 2
	if vfTier() > 0 {
		n = 3
	}
	ti := vfChoice("template", len(c40templates))
	in := c40templates[ti][0] + vfString("in", n) + c40templates[ti][1]
	t, _, _ := c40first(in)
	switch t.Type {
	case StartTagToken, EndTagToken, SelfClosingTagToken, CommentToken, DoctypeToken:
	default:
		vfReach("not markup")
		return
	}
	s := t.String()
	t2, used, z2 := c40first(s)
	vfAssert(t2.Type == t.Type, "re-tokenized token has the same type")
	vfAssert(used == len(s), "String() is consumed as exactly one token")
	vfAssert(z2.Next() == ErrorToken && z2.Err() == io.EOF, "nothing follows the re-tokenized token")
	// Known finding C40-doctype-leading-space: a doctype whose Data starts with white space (only possible through a
	// character reference such as "<!DOCTYPE &#9;x>") is printed as "<!DOCTYPE \tx>", and the tokenizer skips
	// white space after "DOCTYPE", so the re-tokenized Data has lost its leading white space.
	kf := false
	if t.Type == DoctypeToken && len(t.Data) > 0 {
		c := t.Data[0]
		kf = vfOr(vfOr(c == ' ', c == '\t'), vfOr(c == '\n', c == '\f'))
	}
	// Known finding C40-comment-cr: a comment whose Data contains CR (only possible through "&#13;"/"&#xd;", which
	// Tokenizer.Text decodes in comments) is printed with a raw CR (escapeComment escapes only '&' and some '>'),
	// which the tokenizer's newline normalization turns into LF.
	kf2 := false
	if t.Type == CommentToken {
		for i := 0; i < len(t.Data); i++ {
			kf2 = vfOr(kf2, t.Data[i] == '\r')
		}
	}
	if t.Type == CommentToken {
		vfAssertKF(c40eqStr(t2.Data, t.Data), "same Data", "C40-comment-cr", kf2)
	} else {
		vfAssertKF(c40eqStr(t2.Data, t.Data), "same Data", "C40-doctype-leading-space", kf)
	}
	vfAssert(t2.DataAtom == t.DataAtom, "same DataAtom")
	vfAssert(len(t2.Attr) == len(t.Attr), "same number of attributes")
	for i := range t.Attr {
		if i < len(t2.Attr) {
			vfAssert(c40eqStr(t2.Attr[i].Key, t.Attr[i].Key), "same attribute key")
			vfAssert(c40eqStr(t2.Attr[i].Val, t.Attr[i].Val), "same attribute value")
			vfAssert(t2.Attr[i].Namespace == "" && t.Attr[i].Namespace == "", "tokenizer attributes have no namespace")
		}
	}
	switch t.Type {
	case CommentToken:
		vfReach("comment")
	case DoctypeToken:
		vfReach("doctype")
	case EndTagToken:
		vfReach("endtag")
	case SelfClosingTagToken:
		vfReach("selfclosing")
	default:
		vfReach("starttag")
	}
	vfObserveStr("string", s)
	vfReach("end")
}

// c40alphabet: bytes that matter to escaping, tokenizing and tree construction, plus representatives of plain
// ASCII, UTF-8 lead/continuation bytes and an invalid byte.
var c40alphabet = [...]byte{'<', '>', '&', '"', '\'', '/', '-', '!', 0, '\r', '\n', ' ', 'a', '=', ';', '#', '1', 'x', 0xc3, 0xa9, 0xff, 'p'}

func c40alpha(label string, n int) string {
	b := make([]byte, n)
	for i := range b {
		k := vfU8(label)
		vfAssume(int(k) < len(c40alphabet))
		b[i] = c40alphabet[k]
	}
	return string(b)
}

// c40stripNUL is the parser's documented normalization of text in body ("\x00" dropped); attribute values get
// U+FFFD for NUL from the tokenizer. Control flow depends only on which bytes are NUL (forks).
func c40stripNUL(s string) string {
	var b []byte
	for i := 0; i < len(s); i++ {
		if s[i] != 0 {
			b = append(b, s[i])
		}
	}
	return string(b)
}

func c40nulToFFFD(s string) string {
	var b []byte
	for i := 0; i < len(s); i++ {
		if s[i] != 0 {
			b = append(b, s[i])
		} else {
			b = append(b, "\ufffd"...)
		}
	}
	return string(b)
}

// (c) Render followed by Parse of <p title=V>T</p> (or <div>T</div>) with symbolic V and T: the document contains
// exactly html/head/body and that one element, with the same attribute value and text (modulo NUL handling); rendered
// text can never inject markup.
func VerifC40_render() {
	nmax := 2
	if vfTier() > 0 {
		nmax = 3
	}
	withAttr := vfChoice("shape", 2) == 1
	name, at := "div", atom.Div
	elem := &Node{Type: ElementNode, Data: name, DataAtom: at}
	var V string
	if withAttr {
		name, at = "p", atom.P
		elem = &Node{Type: ElementNode, Data: name, DataAtom: at}
		V = c40alpha("V", vfLen("nv", 0, nmax))
		elem.Attr = []Attribute{{Key: "title", Val: V}}
	}
	nt := vfLen("nt", 0, nmax)
	if vfTier() > 0 && len(V)+nt > 4 {
		vfAssume(false) // thorough: V and T up to 3 bytes each but at most 4 symbolic bytes together (~11 paths per byte)
	}
	T := c40alpha("T", nt)
	if len(T) > 0 {
		elem.AppendChild(&Node{Type: TextNode, Data: T})
	}
	var buf bytes.Buffer
	vfAssert(Render(&buf, elem) == nil, "Render succeeds")
	out := buf.String()
	doc, err := Parse(strings.NewReader(out))
	vfAssert(err == nil && doc != nil && doc.Type == DocumentNode, "Parse succeeds")
	// expected shape: #document > html > (head, body > elem > text?)
	h := doc.FirstChild
	vfAssert(h != nil && h.Type == ElementNode && h.DataAtom == atom.Html && h.NextSibling == nil, "single html element")
	head := h.FirstChild
	vfAssert(head != nil && head.DataAtom == atom.Head && head.FirstChild == nil, "empty head")
	body := head.NextSibling
	vfAssert(body != nil && body.DataAtom == atom.Body && body.NextSibling == nil, "body follows head")
	e := body.FirstChild
	vfAssert(e != nil && e.Type == ElementNode && e.DataAtom == at && e.Data == name && e.NextSibling == nil, "body holds exactly the rendered element")
	if withAttr {
		vfAssert(len(e.Attr) == 1 && e.Attr[0].Key == "title" && e.Attr[0].Namespace == "", "one title attribute")
		vfAssert(c40eqStr(e.Attr[0].Val, c40nulToFFFD(V)), "attribute value preserved (NUL -> U+FFFD)")
	} else {
		vfAssert(len(e.Attr) == 0, "no attribute appears")
	}
	want := c40stripNUL(T)
	if len(want) == 0 {
		vfAssert(e.FirstChild == nil, "no child for empty text")
		vfReach("empty text")
	} else {
		c := e.FirstChild
		vfAssert(c != nil && c.Type == TextNode && c.NextSibling == nil && c.FirstChild == nil, "exactly one text child, no injected element")
		vfAssert(c40eqStr(c.Data, want), "text preserved (NUL dropped)")
		vfReach("text")
	}
	vfObserveStr("rendered", out)
	vfReach("end")
}
