package html

// C41 (third file) — the adoption agency algorithm with MANY formatting elements. The token soup of VerifC41_soup has
// two free tokens after a skeleton, so at most two or three formatting elements are ever open when a formatting end
// tag arrives; the inner loop of the algorithm (which removes entries from the list of active formatting elements and
// moves the bookmark) then runs at most once. Here the input is
//
//	prefix  <f1> <f2> ... <fk>  [block]  x  </fj>  [</fi>]  y<p>
//
// with k = 1..8 formatting elements drawn cyclically from the formatting tags (a, b, big, code, em, font, i, nobr, s,
// small, strike, strong, tt, u) starting at a chosen offset, an optional block (div, p, or a table cell) that becomes
// the furthest block, the end tag of any one of the k elements (every j), optionally followed by the end tag of a
// second one, in a document or inside a table cell / a button (scope boundaries). All concrete (forked enumeration).
// Oracle: that of every C41 harness (c41parseDoc: no recovered panic, well-formed tree, Render succeeds); termination
// through the engine's instruction bound (nontermination_is_violation). Added after seeded change C41-H (bookmark
// decremented once per loop instead of once per removed element: needs >= 5 formatting elements above the closed one).

func init() { vfRegister("VerifC41_adoption", VerifC41_adoption) }

func c41fmtTags() []string {
	return []string{"a", "b", "big", "code", "em", "font", "i", "nobr", "s", "small", "strike", "strong", "tt", "u"}
}

func VerifC41_adoption() {
	tags := c41fmtTags()
	prefix := []string{"", "<table><tr><td>", "<button>", "<p>"}[vfChoice("prefix", 4)]
	kmax := 7
	if vfTier() > 0 {
		kmax = 8
	}
	k := vfLen("k", 1, kmax)
	off := vfChoice("first tag", 3) * 5 // a..., font..., strike... (wraps around)
	in := prefix
	for i := 0; i < k; i++ {
		in += "<" + tags[(off+i)%len(tags)] + ">"
	}
	in += []string{"", "<div>", "<p>", "<table><tr><td>"}[vfChoice("block", 4)]
	in += "x"
	j := vfChoice("closed", k)
	in += "</" + tags[(off+j)%len(tags)] + ">"
	if vfChoice("second end tag", 2) == 1 {
		i2 := vfChoice("closed2", k)
		in += "</" + tags[(off+i2)%len(tags)] + ">"
	}
	in += "y<p>"
	vfObserveStr("input", in)
	if k >= 6 {
		vfReach("six or more formatting elements open")
	}
	c41parseDoc(in, ParseOptionEnableScripting(true))
	vfReach("end")
}
