package html

import (
	"bytes"
	"strings"

	"golang.org/x/net/html/atom"
)

// C40 (continued) — Render followed by Parse of an element with SEVERAL children and of the elements whose leading
// newline the parser drops.  (shape B)
//
// VerifC40_render covers one p/div with one text child; VerifC40_renderBuf a fixed div tree. Neither has a text run
// that FOLLOWS an element or comment sibling, and neither uses pre/listing/textarea, the only ordinary elements for
// which the statement's "parser's documented newline normalization" exists: the parser ignores one newline directly
// after the <pre>/<listing>/<textarea> start tag and Render compensates by writing one extra newline exactly when the
// first child is a text node that starts with "\n". Here:
//
//   container  div | p | pre | listing                       children [ text T0, M, text T1 ]
//              textarea                                      children [ text T0 ]           (RCDATA: text only)
//   M          b > text X | span > text X | <!--c--> | br    (formatting / ordinary / comment / void sibling)
//   T0,T1,X    bytes of the C40 alphabet (markup-significant bytes, NUL, CR, LF, space, UTF-8, invalid bytes);
//              quick: len(T0)+len(T1)+len(X) <= 2 with each 0..2; thorough: <= 3 with each 0..2
// Oracle: the parsed document is html > (head, body > container) and the container subtree equals the rendered one
// node for node (c40sameTree): every text value reproduced (NUL dropped in body text, NUL -> U+FFFD in textarea),
// text nodes emptied by NUL removal absent, no additional node, in particular no newline lost or gained in any
// position of pre/listing/textarea.
//
// Finding on the unchanged tree (repro/C40/render_pre_leading_cr_test.go), kept as known finding C40-pre-leading-cr:
// a text node that is the first child of pre/listing/textarea and starts with CR is rendered as "&#13;..." (no
// compensation, Render only looks for "\n"), and the parser's "ignore a newline at the start of a <pre> block" drops
// a leading CR too (and an LF after it), so "\rX" comes back as "X" and "\r\nX" as "X".
//
// Sensitivity (quick tier): parse.go inBodyIM without the `n.FirstChild == nil` guard around the leading-newline rule
// (every text run in a pre loses its leading newline) is caught by "text child present" / "text preserved" on T1.

func init() { vfRegister("VerifC40_renderKids", VerifC40_renderKids) }

func VerifC40_renderKids() {
	budget := 2 + vfTier()
	type cont struct {
		name string
		at   atom.Atom
	}
	conts := []cont{{"div", atom.Div}, {"p", atom.P}, {"pre", atom.Pre}, {"listing", atom.Listing}, {"textarea", atom.Textarea}}
	ct := conts[vfChoice("container", len(conts))]
	textOnly := ct.at == atom.Textarea
	dropsNewline := ct.at == atom.Pre || ct.at == atom.Listing || ct.at == atom.Textarea

	root := &Node{Type: ElementNode, Data: ct.name, DataAtom: ct.at}
	n0 := vfLen("n0", 0, 2)
	T0 := c40alpha("T0", n0)
	if n0 > 0 {
		root.AppendChild(&Node{Type: TextNode, Data: T0})
	}
	if !textOnly {
		var m *Node
		mk := vfChoice("middle", 4)
		switch mk {
		case 0:
			m = &Node{Type: ElementNode, Data: "b", DataAtom: atom.B}
		case 1:
			m = &Node{Type: ElementNode, Data: "span", DataAtom: atom.Span}
		case 2:
			m = &Node{Type: CommentNode, Data: "c"}
		default:
			m = &Node{Type: ElementNode, Data: "br", DataAtom: atom.Br}
		}
		left := budget - n0
		if mk < 2 && left > 0 {
			nx := vfLen("nx", 0, 1)
			if nx > 0 {
				m.AppendChild(&Node{Type: TextNode, Data: c40alpha("X", nx)})
				left -= nx
			}
		}
		root.AppendChild(m)
		if left > 2 {
			left = 2
		}
		n1 := vfLen("n1", 0, left)
		if n1 > 0 {
			root.AppendChild(&Node{Type: TextNode, Data: c40alpha("T1", n1)})
			vfReach("text after a sibling")
		}
	}

	var buf bytes.Buffer
	vfAssert(Render(&buf, root) == nil, "Render succeeds")
	out := buf.String()
	doc, err := Parse(strings.NewReader(out))
	vfAssert(err == nil && doc != nil && doc.Type == DocumentNode, "Parse succeeds")
	h := doc.FirstChild
	vfAssert(h != nil && h.Type == ElementNode && h.DataAtom == atom.Html && h.NextSibling == nil, "single html element")
	head := h.FirstChild
	vfAssert(head != nil && head.DataAtom == atom.Head && head.FirstChild == nil, "empty head")
	body := head.NextSibling
	vfAssert(body != nil && body.DataAtom == atom.Body && body.NextSibling == nil, "body follows head")
	e := body.FirstChild
	vfAssert(e != nil && e.NextSibling == nil, "body holds exactly the rendered element")

	// Known finding C40-pre-leading-cr: first child of pre/listing/textarea is a text node starting with CR.
	kf := false
	if dropsNewline && n0 > 0 {
		kf = T0[0] == '\r'
		vfReach("leading text in a newline-dropping element")
	}
	c40sameKids(root, e, textOnly, kf)
	vfObserveStr("rendered", out)
	vfReach("end")
}

// c40sameKids: like c40sameTree, with the text normalization of the container (textarea: NUL -> U+FFFD, no text
// node disappears) and the known-finding escape for the first text child (kf).
func c40sameKids(o, p *Node, rcdata bool, kf bool) {
	vfAssert(p != nil && p.Type == o.Type, "same node type")
	vfAssert(p.Data == o.Data && p.DataAtom == o.DataAtom && p.Namespace == "" && len(p.Attr) == 0, "same element, no attribute appears")
	pc := p.FirstChild
	for oc := o.FirstChild; oc != nil; oc = oc.NextSibling {
		first := oc == o.FirstChild
		if oc.Type == TextNode {
			want := c40stripNUL(oc.Data)
			if rcdata {
				want = c40nulToFFFD(oc.Data)
			}
			if len(want) == 0 {
				continue
			}
			present := pc != nil && pc.Parent == p && pc.Type == TextNode && pc.FirstChild == nil
			if first {
				// kf (symbolic): the known failing class; anything else is still a violation
				vfAssertKF(present, "text child present", "C40-pre-leading-cr", kf)
				vfAssertKF(c40eqStr(pc.Data, want), "text preserved (modulo NUL)", "C40-pre-leading-cr", kf)
			} else {
				vfAssert(present, "text child present")
				vfAssert(c40eqStr(pc.Data, want), "text preserved (modulo NUL)")
			}
			pc = pc.NextSibling
			continue
		}
		vfAssert(pc != nil && pc.Parent == p, "child present")
		c40sameTree(oc, pc)
		pc = pc.NextSibling
	}
	vfAssert(pc == nil, "no additional node")
}
