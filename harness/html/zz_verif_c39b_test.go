package html

import "io"

// C39 (continued) — SetMaxBuf in the raw-text / RCDATA / script-data / PLAINTEXT states. Shape B.
//
// VerifC39_maxbuf covers the limit for markup read in the data state only (no context element, limits 1..6, so a
// raw-text start tag never fits). Here the text that follows a raw-text start tag, or that is tokenized under a
// raw-text fragment context, is longer than the limit:
//   frag: NewTokenizerFragment with one of the 10 context elements that switch the tokenizer state
//         (title textarea = RCDATA; style xmp iframe noembed noframes script noscript plaintext), input = N fully
//         symbolic bytes, SetMaxBuf(1..6);
//   doc:  no context; "<tag>" for the 10 same elements (tokenizer switches state itself) + N fully symbolic bytes +
//         a filler of len("<tag>")+2 bytes 'x' [+ "</tag>y"]; SetMaxBuf(len("<tag>") + 0..2), so the start tag just
//         fits and the text that follows does not.
// Oracle as in VerifC39_maxbuf (same helper): every Raw() <= limit (+ slack), limited run is a prefix of the
// unlimited run and identical to it when it ends with io.EOF, and ends with ErrBufferExceeded when the unlimited run
// has a token longer than the limit.

func init() { vfRegister("VerifC39_maxbufRaw", VerifC39_maxbufRaw) }

var c39rawTags = []string{"title", "textarea", "style", "xmp", "iframe", "noembed", "noframes", "script", "noscript", "plaintext"}

func VerifC39_maxbufRaw() {
	n := 4
	if vfTier() > 0 {
		n = 5
	}
	tag := c39rawTags[vfChoice("tag", len(c39rawTags))]
	kind := vfChoice("reader", 2)
	var input []byte
	var ctx string
	var m int
	if vfChoice("where", 2) == 0 {
		ctx = tag
		input = vfBytes("in", n)
		m = 1 + vfChoice("maxbuf", 6)
		vfReach("frag")
	} else {
		st := "<" + tag + ">"
		input = append([]byte(st), vfBytes("in", n)...)
		for i := 0; i < len(st)+2; i++ {
			input = append(input, 'x')
		}
		if vfChoice("closed", 2) == 1 {
			// the element is closed again: raw end tag recognition (and the data state after it) under the limit
			input = append(input, "</"+tag+">y"...)
		}
		m = len(st) + vfChoice("maxbuf", 3)
		vfReach("doc")
	}
	c39maxbufCheck(input, ctx, kind, m, false)
	vfReach("end")
}

// c39maxbufCheck: the SetMaxBuf oracle for one input (shared by the data-state and the raw-text harnesses).
func c39maxbufCheck(input []byte, ctx string, kind, m int, cdata bool) (overshoot bool) {
	zr := NewTokenizerFragment(c39newReader(kind, append([]byte(nil), input...)), ctx)
	zr.AllowCDATA(cdata)
	ref := c39drive(zr, input)
	z := NewTokenizerFragment(c39newReader(kind, append([]byte(nil), input...)), ctx)
	z.AllowCDATA(cdata)
	z.SetMaxBuf(m)
	r := c39drive(z, input)
	vfAssert(r.done, "limited tokenizer reaches ErrorToken")
	vfAssert(r.err == io.EOF || r.err == ErrBufferExceeded, "final error is EOF or ErrBufferExceeded")
	// Slack: readByte stops at raw length == maxBuf, but readMarkupDeclaration calls readByte again after a failed
	// readDoctype (and once more after a failed readCDATA) although z.err is already set, so a "<!DOCTYPE"/"<![CDATA["
	// token can exceed maxBuf by 1 (2 with AllowCDATA) bytes. Treated as within the intent of the limit (bounded).
	slack := 1
	if cdata {
		slack = 2
	}
	vfAssert(r.maxRaw <= m+slack, "no token buffers more than maxBuf (+1, +2 with CDATA) raw bytes")
	overshoot = r.maxRaw > m
	vfAssert(cap(z.buf) <= 4096, "buffer does not grow")
	vfAssert(len(r.concat) <= len(input) && c39eq(r.concat, input[:len(r.concat)]), "limited run yields a prefix of the input")
	if r.err == io.EOF {
		vfAssert(c39eq(r.concat, ref.concat) && len(r.lens) == len(ref.lens), "a run that does not hit the limit is identical to the unlimited run")
		vfReach("limit not hit")
	} else {
		vfReach("limit hit")
	}
	if ref.maxRaw > m+slack {
		vfAssert(r.err == ErrBufferExceeded, "a token of more than maxBuf (+slack) raw bytes stops tokenization with ErrBufferExceeded")
	}
	vfObserve("ntokens", uint64(len(r.lens)))
	vfObserveBool("exceeded", r.err == ErrBufferExceeded)
	return overshoot
}
