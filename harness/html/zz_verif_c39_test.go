package html

import (
	"bytes"
	"io"
)

// C39 — HTML tokenization is lossless and total.  Shape B (bounded run from the real initial state).
//
// Input = concrete template prefix + N fully symbolic bytes, fed through three kinds of io.Reader (everything at
// once then EOF; one byte per Read; everything together with io.EOF in the same Read). The token loop runs Next()
// until ErrorToken and must get there within len(input)+2 calls (unwinding assertion).
//   lossless: the Raw()s of the returned tokens concatenate to a prefix of the input; the missing suffix, if any,
//             is an unterminated tag (starts "<"+letter or "</"+letter, runs to the end of the input) — and it is
//             exactly the Raw() of the final ErrorToken (stronger than the statement: nothing is lost at all);
//   total:    no panic (engine checks every index/slice/nil implicitly), Err()==io.EOF at the end;
//   maxbuf:   with SetMaxBuf(m) the run ends with io.EOF or ErrBufferExceeded, is a prefix of the unlimited run,
//             ends with ErrBufferExceeded whenever the unlimited run has a token of >= m raw bytes, and no token's
//             raw bytes exceed m+2.
// VerifC39_smallbuf repeats the lossless run with the initial buffer capacity 4096 replaced by 2 (in-package
// change of z.buf right after NewTokenizerFragment) so that the refill / compaction / span adjustment code of
// readByte is reached with short inputs, and additionally compares Text()/TagName()/TagAttr() of every token with
// the run on the 4096-byte buffer (buffering must be invisible). '&' is excluded there (entity decoding = C40).
//
// Note (observation, not treated as a violation): with SetMaxBuf(m) a "<!DOCTYPE"/"<![CDATA[" token can reach
// m+1 (m+2 with AllowCDATA) raw bytes, and ErrBufferExceeded can be replaced by io.EOF when the input ends exactly
// there, because readMarkupDeclaration keeps calling readByte after z.err was set (readByte's stated precondition).
// Example: "<!DOCTYPE\x00\x00\x00", one byte per Read, SetMaxBuf(5) returns a 6-byte comment token.
//
// Sensitivity (mut.sh, quick tier):
//   token.go readByte: `copy(buf1, z.buf[z.raw.start:z.raw.end])` -> `copy(buf1, z.buf[:d])`   caught (smallbuf)
//   token.go readByte: drop `z.data.end -= x`                                                   caught (smallbuf: Text bytes)
//   token.go readByte: `>= z.maxBuf` -> `> z.maxBuf`                                            caught (maxbuf: overshoot)
//   token.go readScript: `z.raw.end += len("</script>")` -> `... + 1`                           caught (lossless: raw exceeds input)
//   token.go readRawEndTag: `3 + len(z.rawTag)` -> `2 + ...`  NOT caught: token boundaries move but Raw() still
//     partitions the input (the stated property is insensitive to where tokens are cut; C40 compares token contents)

func init() {
	vfRegister("VerifC39_lossless", VerifC39_lossless)
	vfRegister("VerifC39_smallbuf", VerifC39_smallbuf)
	vfRegister("VerifC39_maxbuf", VerifC39_maxbuf)
}

var c39prefixes = []string{
	"", "<", "</", "<!--", "<!", "<![CDATA[", "<!DOCTYPE", "<?", "<a ", "<a b=", "<a b='", "<a b=\"x\" ", "<a/", "</a ",
	"<script>", "<script><!--", "<script><!--<script>", "<script><!--<script></script", "<title>", "<textarea>x</", "<plaintext>", "<xmp></xm", "<style>", "<svg>", "x<", "<!---", "<title></title", "<textarea></TEXTAREA",
}

// c39reader: kind 1 = one byte per Read, kind 2 = all bytes together with io.EOF.
type c39reader struct {
	b    []byte
	i    int
	kind int
}

func (r *c39reader) Read(p []byte) (int, error) {
	if r.i >= len(r.b) {
		return 0, io.EOF
	}
	if r.kind == 1 {
		p[0] = r.b[r.i]
		r.i++
		return 1, nil
	}
	n := copy(p, r.b[r.i:])
	r.i += n
	if r.i >= len(r.b) {
		return n, io.EOF
	}
	return n, nil
}

func c39newReader(kind int, input []byte) io.Reader {
	if kind == 0 {
		return bytes.NewReader(input)
	}
	return &c39reader{b: input, kind: kind}
}

func c39letter(c byte) bool {
	return vfOr(vfAnd('a' <= c, c <= 'z'), vfAnd('A' <= c, c <= 'Z'))
}

func c39eq(a, b []byte) bool {
	if len(a) != len(b) {
		return false
	}
	ok := true
	for i := range a {
		ok = vfAnd(ok, a[i] == b[i])
	}
	return ok
}

type c39run struct {
	concat  []byte // Raw() of all non-error tokens
	lens    []int  // their lengths
	types   []TokenType
	errRaw  []byte // Raw() at the ErrorToken
	err     error
	done    bool
	maxRaw  int
	detail  [][]byte // Text() / TagName() / TagAttr() results when requested
}

func c39drive(z *Tokenizer, input []byte) *c39run { return c39driveD(z, input, false) }

func c39driveD(z *Tokenizer, input []byte, detail bool) *c39run {
	r := &c39run{}
	for i := 0; i < len(input)+2; i++ {
		tt := z.Next()
		raw := z.Raw()
		if len(raw) > r.maxRaw {
			r.maxRaw = len(raw)
		}
		if tt == ErrorToken {
			r.errRaw = append([]byte(nil), raw...)
			r.err = z.Err()
			r.done = true
			break
		}
		vfAssert(z.Err() == nil, "Err() is nil for a non-error token")
		r.concat = append(r.concat, raw...)
		r.lens = append(r.lens, len(raw))
		r.types = append(r.types, tt)
		if detail {
			// the accessors work on the data/attr spans (and may rewrite the token's bytes in place: after Raw())
			switch tt {
			case TextToken, CommentToken, DoctypeToken:
				r.detail = append(r.detail, append([]byte(nil), z.Text()...))
			default:
				name, more := z.TagName()
				r.detail = append(r.detail, append([]byte(nil), name...))
				for more {
					var k, v []byte
					k, v, more = z.TagAttr()
					r.detail = append(r.detail, append([]byte(nil), k...), append([]byte(nil), v...))
				}
			}
		}
	}
	return r
}

func c39input(nThorough int) (input []byte, ctx string, kind int) {
	n := 3
	if vfTier() > 0 {
		n = nThorough
	}
	p := vfChoice("prefix", len(c39prefixes))
	input = append([]byte(c39prefixes[p]), vfBytes("in", n)...)
	ctx = []string{"", "title", "textarea", "script"}[vfChoice("ctx", 4)]
	kind = vfChoice("reader", 3)
	return
}

func c39lossless(r *c39run, input []byte) {
	vfAssert(r.done, "tokenizer reaches ErrorToken within len(input)+2 calls of Next")
	vfAssert(r.err == io.EOF, "final error is io.EOF")
	k := len(r.concat)
	vfAssert(k <= len(input), "raw bytes do not exceed the input")
	vfAssert(c39eq(r.concat, input[:k]), "concatenated Raw() is a prefix of the input")
	rest := input[k:]
	if len(rest) > 0 {
		vfAssert(len(rest) >= 2 && rest[0] == '<', "dropped suffix starts with '<'")
		if len(rest) >= 3 {
			vfAssert(vfOr(c39letter(rest[1]), vfAnd(rest[1] == '/', c39letter(rest[2]))), "dropped suffix is a start or end tag opener")
		} else {
			vfAssert(c39letter(rest[1]), "dropped suffix is a start tag opener")
		}
		vfReach("unterminated tag dropped")
	} else {
		vfReach("complete")
	}
	vfAssert(c39eq(r.errRaw, rest), "Raw() of the final ErrorToken is exactly the dropped suffix")
	for _, l := range r.lens {
		vfAssert(l > 0, "every returned token consumes at least one byte")
	}
	vfObserve("ntokens", uint64(len(r.lens)))
	vfObserveBytes("concat", r.concat)
}

func VerifC39_lossless() {
	input, ctx, kind := c39input(4)
	z := NewTokenizerFragment(c39newReader(kind, append([]byte(nil), input...)), ctx)
	if vfChoice("cdata", 2) == 1 {
		z.AllowCDATA(true)
	}
	r := c39drive(z, input)
	c39lossless(r, input)
	vfReach("end")
}

func VerifC39_smallbuf() {
	input, ctx, kind := c39input(4)
	for _, c := range input {
		vfAssume(c != '&') // entity decoding (2231-entry map, forks per candidate) is C40's subject
	}
	ref := c39driveD(NewTokenizerFragment(c39newReader(kind, append([]byte(nil), input...)), ctx), input, true)
	z := NewTokenizerFragment(c39newReader(kind, append([]byte(nil), input...)), ctx)
	z.buf = make([]byte, 0, 2)
	r := c39driveD(z, input, true)
	c39lossless(r, input)
	// buffering must be invisible: same tokens, same text / tag names / attributes as with the 4096-byte buffer
	vfAssert(len(r.types) == len(ref.types) && len(r.detail) == len(ref.detail), "same number of tokens and attributes")
	for i := range r.types {
		vfAssert(r.types[i] == ref.types[i] && r.lens[i] == ref.lens[i], "same token types and raw lengths")
	}
	for i := range r.detail {
		vfAssert(c39eq(r.detail[i], ref.detail[i]), "same Text/TagName/TagAttr bytes")
	}
	if cap(z.buf) > 2 {
		vfReach("buffer grown")
	}
	vfReach("end")
}

func VerifC39_maxbuf() {
	input, ctx, kind := c39input(3)
	vfAssume(kind != 2 && ctx == "")
	m := 1 + vfChoice("maxbuf", 6)
	cdata := vfChoice("cdata", 2) == 1
	if c39maxbufCheck(input, ctx, kind, m, cdata) { // zz_verif_c39b_test.go
		vfReach("overshoot")
	}
	vfReach("end")
}
