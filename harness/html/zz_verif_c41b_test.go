package html

// C41 (continued) — foreign-content elements that share their NAME with an HTML element.  Shape B.
//
// The tree-construction rules look elements up on the stack of open elements by name (template, table, select, td,
// p, a, form, body, html, ...); every such lookup has to respect the namespace, because "<svg><template>" or
// "<math><select>" create svg/math-namespace elements with those names. VerifC41_soup only reaches such elements
// with 2 free tokens after "<svg>" / "<math><mi>", which is not enough to put one on the stack, enter an HTML
// integration point inside it (where the HTML rules run again), and then issue the start/end tags that search the
// stack. Here the skeleton does the first two steps for EVERY tag name of the enumeration and the free tokens do
// the third:
//
//   [ "<NAME>" ]  ("<svg>" | "<math>")  "<NAME>"  integration-point  t1 t2  "x<p>"
//
//   NAME               each of the 17 tag names of c41tags (thorough 30); for names that are "breakout" tags of the
//                      foreign-content rules (p, div, table, b, ...) the foreign root is closed instead, which is fine
//   [ "<NAME>" ]       with/without an HTML element of the same name below the foreign one
//   integration point  svg: <desc> (thorough also <foreignObject>, <title>); math: <mi> (thorough also
//                      <annotation-xml encoding=text/html>)
//   t1 t2              2 free tokens: start tag / end tag of the first 17 tag names, text, space, comment (both tiers)
// Oracle: c41parseDoc (no error = no recovered panic, link invariants, node types, Render succeeds); termination by
// the engine's instruction bound.

func init() { vfRegister("VerifC41_foreignNames", VerifC41_foreignNames) }

var c41foreignIPs = [][2]string{
	{"<svg>", "<desc>"}, {"<math>", "<mi>"},
	// thorough only
	{"<svg>", "<foreignObject>"}, {"<svg>", "<title>"}, {"<math>", "<annotation-xml encoding=text/html>"},
}

func VerifC41_foreignNames() {
	nt, nip := c41quickTags, 2
	if vfTier() > 0 {
		nt, nip = len(c41tags), len(c41foreignIPs)
	}
	name := c41tags[vfChoice("name", nt)]
	ip := c41foreignIPs[vfChoice("ip", nip)]
	in := ""
	if vfChoice("outer", 2) == 1 {
		in = "<" + name + ">"
		vfReach("html element of the same name below")
	}
	in += ip[0] + "<" + name + ">" + ip[1]
	// the free tokens use the quick token set in both tiers (thorough widens NAME and the integration points)
	in += c41tokenN("t1", c41quickTags, 3) + c41tokenN("t2", c41quickTags, 3)
	in += "x<p>"
	c41parseDoc(in, ParseOptionEnableScripting(true))
	vfReach("end")
}
