package atom

// C42 — the HTML atom table is an exact dictionary.
//
// (a) VerifC42_defined: concrete loop over every defined atom (= every non-zero entry of the perfect-hash table;
//     nothing symbolic, not solver work): String() non-empty, Lookup(a.String()) == a, names are unique.
// (b) VerifC42_lookup (shape: pure function, all inputs of a given length): for s = l symbolic bytes,
//     l = 0..maxAtomLen+1:  Lookup(s) != 0  =>  Lookup(s) is an entry of the table and Lookup(s).String() == s.
//     Together with (a) (every atom name maps to its atom) this is "Lookup returns 0 for every byte string that is
//     not the name of an atom". As a cross-check the converse is also asserted symbolically for one arbitrary
//     witness atom w of the same length: s == w.String() => Lookup(s) == w.
//
// (c) VerifC42_near: the same assertion for inputs derived from atom names (one byte replaced by an arbitrary byte,
//     one arbitrary byte added in front/at the end, first byte dropped, every proper prefix), which reach the
//     length/match logic of both probes for all lengths 1..maxAtomLen+1.
// Fully symbolic inputs longer than 3 bytes are NOT covered: every probe outcome (atoms of that length x mismatch
// position) squared is a path, and each needs an FNV pre-image from the solver (measured: length 4 ~ 25k paths x 0.4 s).
//
// Sensitivity (mut.sh, quick tier):
//   atom.go match: `if s[i] != c` -> `if i > 0 && s[i] != c`                       caught (lookup and near: "names exactly")
//   atom.go Lookup 2nd probe: `int(a&0xff) == len(s)` -> `>= len(s)`               caught by near/prefix mode only (14 inputs),
//                                                                                   equivalent on all strings of length <= 2

func init() {
	vfRegister("VerifC42_defined", VerifC42_defined)
	vfRegister("VerifC42_lookup", VerifC42_lookup)
	vfRegister("VerifC42_near", VerifC42_near)
}

func VerifC42_defined() {
	n := 0
	seen := map[string]Atom{}
	for _, a := range table {
		if a == 0 {
			continue
		}
		n++
		s := a.String()
		vfAssert(len(s) > 0, "defined atom has a non-empty name")
		vfAssert(len(s) == int(a&0xff) && len(s) <= maxAtomLen, "name length matches the code")
		vfAssert(Lookup([]byte(s)) == a, "Lookup(a.String()) == a")
		_, dup := seen[s]
		vfAssert(!dup, "atom names are unique")
		seen[s] = a
	}
	vfAssert(Atom(0).String() == "" && Lookup(nil) == 0, "zero atom is the empty string")
	// the exported constants are table entries (spot check of both ends and the longest)
	vfAssert(Lookup([]byte("a")) == A && Lookup([]byte("xmp")) == Xmp && Lookup([]byte("allowpaymentrequest")) == Allowpaymentrequest, "constants")
	vfObserve("natoms", uint64(n))
	vfReach("end")
}

func c42eq(s string, b []byte) bool {
	if len(s) != len(b) {
		return false
	}
	ok := true
	for i := range b {
		ok = vfAnd(ok, s[i] == b[i])
	}
	return ok
}

// c42check states the dictionary property for one input: a non-zero result is a table entry named exactly s;
// a zero result means no table entry is named s.
func c42check(s []byte) {
	l := len(s)
	orig := append([]byte(nil), s...)
	a := Lookup(s)
	vfAssert(c42eq(string(orig), s), "Lookup does not modify its argument")
	if a != 0 {
		vfAssert(c42eq(a.String(), orig), "non-zero result names exactly the input")
		ac := Atom(vfConcretize(uint64(a))) // already pinned by the path (one value): makes the membership test concrete
		in := false
		for _, t := range table {
			in = in || t == ac
		}
		vfAssert(in, "non-zero result is a defined atom")
		vfAssert(String(orig) == a.String(), "atom.String agrees")
		vfObserve("atom", uint64(a))
		vfReach("hit")
	} else {
		none := true
		for _, t := range table {
			if t != 0 && int(t&0xff) == l {
				none = vfAnd(none, vfNot(c42eq(t.String(), orig)))
			}
		}
		vfAssert(none, "zero result: input is not an atom name")
		vfReach("miss")
	}
}

// VerifC42_lookup: every byte string of length 0..2 (thorough: also length 3 with first byte in [a-z0-9-]) and of
// length maxAtomLen+1, maxAtomLen+2.
// All bytes but the last are concretised by forking (the remaining 8 free bits are decided by complete
// enumeration, which is far cheaper than asking the solver to invert the FNV hash through the 512-way table mux).
func VerifC42_lookup() {
	lens := []int{0, 1, 2, maxAtomLen + 1, maxAtomLen + 2}
	if vfTier() > 0 {
		lens = []int{0, 1, 2, 3, maxAtomLen + 1, maxAtomLen + 2}
	}
	l := lens[vfChoice("len", len(lens))]
	s := vfBytes("s", l)
	if l == 3 {
		// thorough only: first byte restricted to the characters atom names are made of
		vfAssume(vfOr(vfAnd(s[0] >= 'a', s[0] <= 'z'), vfOr(vfAnd(s[0] >= '0', s[0] <= '9'), s[0] == '-')))
	}
	if l <= maxAtomLen {
		for i := 0; i+1 < l; i++ {
			s[i] = byte(vfConcretize(uint64(s[i])))
		}
	}
	c42check(s)
	vfReach("end")
}

// VerifC42_near: every byte string that differs from an atom name in one byte (quick: first or last byte only),
// every atom name extended by one arbitrary byte in front or at the end or truncated by one byte in front
// (quick: these for the atoms in every 4th table slot; thorough: all atoms, all positions), and every proper prefix
// of every atom name (concrete, all atoms).
func VerifC42_near() {
	mode := vfChoice("mode", 5)
	var slot int
	if vfTier() > 0 || mode == 4 {
		slot = vfChoice("slot", len(table))
	} else {
		slot = 4*vfChoice("slot", len(table)/4) + 1 // quick: every 4th slot
	}
	t := table[slot]
	vfAssume(t != 0)
	name := []byte(t.String())
	l := len(name)
	var s []byte
	switch mode {
	case 0:
		var p int
		if vfTier() > 0 || l <= 2 {
			p = vfChoice("pos", l)
		} else {
			p = []int{0, l - 1}[vfChoice("pos", 2)] // quick: first and last byte only
		}
		s = append([]byte(nil), name...)
		s[p] = vfU8("x")
		vfReach("replace")
	case 1:
		s = append(append([]byte(nil), name...), vfU8("x"))
		vfReach("append")
	case 2:
		s = append([]byte{vfU8("x")}, name...)
		vfReach("prepend")
	case 3:
		s = append([]byte(nil), name[1:]...)
	case 4:
		vfAssume(l > 1)
		s = append([]byte(nil), name[:1+vfChoice("k", l-1)]...)
		vfReach("prefix")
	}
	c42check(s)
	vfReach("end")
}
