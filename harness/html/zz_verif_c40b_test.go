package html

import (
	"bytes"
	"io"

	"golang.org/x/net/html/atom"
)

// C40 (continued) — Render followed by Parse when the rendered document does NOT reach the tokenizer in one piece.
//
// VerifC40_render parses a rendering that is one token-aligned read into the 4096-byte buffer, so the tokenizer's
// refill path (readByte: live bytes of the current token are moved to the front or into a larger buffer, and the
// data / pending-attribute / saved-attribute spans are re-based) never runs between Render and Parse. A real
// rendering longer than 4 KiB always crosses that path, at an arbitrary position of an arbitrary token. Here:
//
//   tree     div > [ text 'y'*L, a[href=V title=W] > text T, i[id=U], text "zzzzzz" ]     (rendered, then parsed)
//   L        0..15 (quick) / 0..23 (thorough): moves every following token across the refill points
//   buffer   initial tokenizer buffer capacity 2 or 16 instead of 4096 (set through an in-package ParseOption on the
//            real ParseWithOptions): with 2 the buffer is re-allocated (doubling) while a tag is read, with 16 live
//            bytes are also moved down inside the same array; thorough adds the real capacity 4096 with L = 4056..4099
//   reader   everything at once / chunks of 5 bytes / one byte per Read
//   values   V = 2 symbolic letters or digits; W = 1 byte of the C40 alphabet (markup-significant bytes, NUL, CR, LF,
//            UTF-8 and invalid bytes) + 1 symbolic letter; U = 1 symbolic letter; T = 1 byte of the alphabet
// Oracle: the parsed document is html > (head, body > div) and the div subtree equals the rendered tree node for
// node: same element names, same attribute names, attribute values and text equal (NUL -> U+FFFD in values, NUL
// dropped from text), no additional node.

func init() { vfRegister("VerifC40_renderBuf", VerifC40_renderBuf) }

type c40chunkReader struct {
	b     []byte
	i     int
	chunk int
}

func (r *c40chunkReader) Read(p []byte) (int, error) {
	if r.i >= len(r.b) {
		return 0, io.EOF
	}
	n := len(p)
	if n > r.chunk {
		n = r.chunk
	}
	n = copy(p[:n], r.b[r.i:])
	r.i += n
	return n, nil
}

func c40letters(label string, n int) string {
	b := make([]byte, n)
	for i := range b {
		c := vfU8(label)
		vfAssume(vfOr(vfAnd('a' <= c, c <= 'z'), vfAnd('0' <= c, c <= '9')))
		b[i] = c
	}
	return string(b)
}

// c40sameTree: p (parsed) equals o (rendered) node for node. o has no adjacent or empty text nodes except that a
// text node may become empty by NUL removal (then it must be absent from p).
func c40sameTree(o, p *Node) {
	vfAssert(p != nil && p.Type == o.Type, "same node type")
	if o.Type == TextNode {
		vfAssert(c40eqStr(p.Data, c40stripNUL(o.Data)), "text preserved (NUL dropped)")
		vfAssert(p.FirstChild == nil, "text node has no child")
		return
	}
	vfAssert(p.Data == o.Data && p.DataAtom == o.DataAtom && p.Namespace == "", "same element")
	vfAssert(len(p.Attr) == len(o.Attr), "same number of attributes")
	for i := range o.Attr {
		if i < len(p.Attr) {
			vfAssert(c40eqStr(p.Attr[i].Key, o.Attr[i].Key) && p.Attr[i].Namespace == "", "same attribute name")
			vfAssert(c40eqStr(p.Attr[i].Val, c40nulToFFFD(o.Attr[i].Val)), "attribute value preserved (NUL -> U+FFFD)")
		}
	}
	pc := p.FirstChild
	for oc := o.FirstChild; oc != nil; oc = oc.NextSibling {
		if oc.Type == TextNode && len(c40stripNUL(oc.Data)) == 0 {
			continue
		}
		vfAssert(pc != nil && pc.Parent == p, "child present")
		c40sameTree(oc, pc)
		pc = pc.NextSibling
	}
	vfAssert(pc == nil, "no additional node")
}

func VerifC40_renderBuf() {
	bufcap := []int{2, 16, 4096}[vfChoice("bufcap", 2+vfTier())]
	chunk := []int{1 << 30, 5, 1}[vfChoice("chunk", 3)]
	var L int
	switch {
	case bufcap == 4096:
		L = 4056 + vfChoice("pad", 44)
		vfAssume(chunk != 1)
	case vfTier() > 0:
		L = vfChoice("pad", 24)
	default:
		L = vfChoice("pad", 16)
	}
	V := c40letters("V", 2)
	W := c40alpha("W", 1) + c40letters("W1", 1)
	U := c40letters("U", 1)
	T := c40alpha("T", 1)

	div := &Node{Type: ElementNode, Data: "div", DataAtom: atom.Div}
	if L > 0 {
		div.AppendChild(&Node{Type: TextNode, Data: string(bytes.Repeat([]byte{'y'}, L))})
	}
	an := &Node{Type: ElementNode, Data: "a", DataAtom: atom.A, Attr: []Attribute{{Key: "href", Val: V}, {Key: "title", Val: W}}}
	an.AppendChild(&Node{Type: TextNode, Data: T})
	div.AppendChild(an)
	div.AppendChild(&Node{Type: ElementNode, Data: "i", DataAtom: atom.I, Attr: []Attribute{{Key: "id", Val: U}}})
	div.AppendChild(&Node{Type: TextNode, Data: "zzzzzz"})

	var buf bytes.Buffer
	vfAssert(Render(&buf, div) == nil, "Render succeeds")
	out := append([]byte(nil), buf.Bytes()...)
	refills := 0
	doc, err := ParseWithOptions(&c40chunkReader{b: out, chunk: chunk}, func(p *parser) {
		p.tokenizer.buf = make([]byte, 0, bufcap)
		refills = len(out) / bufcap
	})
	vfAssert(err == nil && doc != nil && doc.Type == DocumentNode, "Parse succeeds")
	h := doc.FirstChild
	vfAssert(h != nil && h.Type == ElementNode && h.DataAtom == atom.Html && h.NextSibling == nil, "single html element")
	head := h.FirstChild
	vfAssert(head != nil && head.DataAtom == atom.Head && head.FirstChild == nil, "empty head")
	body := head.NextSibling
	vfAssert(body != nil && body.DataAtom == atom.Body && body.NextSibling == nil, "body follows head")
	e := body.FirstChild
	vfAssert(e != nil && e.NextSibling == nil, "body holds exactly the rendered element")
	c40sameTree(div, e)
	if refills > 0 {
		vfReach("input longer than the tokenizer buffer")
	}
	if L < 100 {
		vfObserveBytes("rendered", out)
	}
	vfReach("end")
}
