package html

import (
	"bytes"
	"strings"

	"golang.org/x/net/html/atom"
)

// C41 — HTML parsing terminates and always yields a well-formed node tree.  Shape B.
//
// Inputs are tag soup built from templates:
//   VerifC41_soup: a concrete skeleton (document prefix that puts the parser into one of its insertion modes, or a
//     fragment context element) followed by K tokens chosen by forked selectors from a list of start tags, end tags
//     and text, and a concrete tail — bounded exhaustive enumeration of short token sequences in every mode.
//   VerifC41_sym: a skeleton, one tag with a SYMBOLIC name of 1..2 letters (atom.Lookup summarised, symgo/extern_html.go),
//     optionally an end tag, followed by fully symbolic bytes and a concrete tail.
// Oracle: Parse/ParseFragment return err == nil (parse() recovers panics into errors, so this is "no panic"; the
// 512-deep stack limit is out of reach), the tree satisfies the link invariants below (c41walk), contains only
// Document/Element/Text/Comment/Doctype nodes, and Render of every returned root succeeds. Termination: the engine
// runs the real token loop to completion on every path (no unwinding bound is hit).

// Findings on the unchanged tree (all reproduce through the public API: repro/C41/parse_findings_test.go), kept as
// known findings so that other violations are still reported:
//   (C41-render-foreign-void is fixed in /repo d5b9f3d: Parse("<svg><input>x") -> Render failed "void element <input> has child nodes")
//   C41-fragment-head-root-popped  ParseFragment("<frameset></frameset>" | "</body><!--c-->", context <head>) -> error from a
//                                  recovered nil dereference / panic("bad parser state") because inHeadIM popped the html root
//   (fixed in /repo) C41-fragment-foreign-endhtml   ParseFragment("</html>x", context <svg> or <math>) -> error from a recovered nil dereference:
//                                  parseForeignContent pops the html root because its name matches the end tag
//
// Sensitivity (mut.sh, quick tier, soup):
//   node.go InsertBefore: `next.PrevSibling = newChild` -> `= prev`             caught ("PrevSibling mirrors NextSibling")
//   parse.go adoption agency step 15: `if lastNode.Parent != nil` -> `== nil`   caught ("Parse returns no error": recovered AppendChild panic)
//   node.go RemoveChild: `c.NextSibling.PrevSibling = c.PrevSibling` -> `= nil`   NOT caught: within these inputs the parser
//     only removes first or last children (open elements are last children), so the mutant is equivalent here

func init() {
	vfRegister("VerifC41_soup", VerifC41_soup)
	vfRegister("VerifC41_sym", VerifC41_sym)
}

// c41foreignVoid is set by c41walk when the tree has an element outside the HTML namespace whose name is in
// voidElements and that has children (known finding C41-render-foreign-void: Render rejects such a tree).
var c41foreignVoid bool

// c41walk checks the subtree of n. budget guards against cycles.
func c41walk(n, parent *Node, depth int, budget *int) {
	*budget--
	if n.Type == ElementNode && n.Namespace != "" && n.FirstChild != nil && voidElements[n.Data] {
		c41foreignVoid = true
	}
	vfAssert(*budget >= 0 && depth < 64, "tree is finite and shallow (no cycle)")
	vfAssert(n.Parent == parent, "Parent link matches the node it was reached from")
	switch n.Type {
	case ElementNode:
		vfAssert(len(n.Data) > 0, "element has a name")
	case TextNode, CommentNode, DoctypeNode:
		vfAssert(n.FirstChild == nil && n.LastChild == nil, "leaf node types have no children")
	case DocumentNode:
		vfAssert(parent == nil, "document node only at the root")
	default:
		vfAssert(false, "only Document/Element/Text/Comment/Doctype nodes are returned")
	}
	vfAssert((n.FirstChild == nil) == (n.LastChild == nil), "FirstChild and LastChild are both nil or both set")
	var prev *Node
	for c := n.FirstChild; c != nil; c = c.NextSibling {
		vfAssert(c.PrevSibling == prev, "PrevSibling mirrors NextSibling")
		vfAssert(c != n, "node is not its own child")
		c41walk(c, n, depth+1, budget)
		prev = c
	}
	vfAssert(n.LastChild == prev, "LastChild is the end of the sibling chain")
}

func c41checkRoot(n *Node, fragment bool) int {
	budget := 200
	c41foreignVoid = false
	vfAssert(n != nil, "root is non-nil")
	if fragment {
		vfAssert(n.Parent == nil && n.PrevSibling == nil && n.NextSibling == nil, "returned fragment nodes are detached")
		vfAssert(n.Type != DocumentNode, "fragment results are not documents")
		c41walk(n, nil, 0, &budget)
	} else {
		vfAssert(n.Type == DocumentNode && n.PrevSibling == nil && n.NextSibling == nil, "Parse returns a lone document node")
		c41walk(n, nil, 0, &budget)
	}
	var buf bytes.Buffer
	// (fixed finding C41-render-foreign-void, /repo d5b9f3d: "<svg><input>x" parses to an svg-namespace element named
	// "input" with a text child; Render looked only at the name and failed with "void element <input> has child nodes")
	vfAssert(Render(&buf, n) == nil, "Render of the returned tree succeeds")
	return 200 - budget
}

var c41docs = []string{
	"", "<table>", "<table><tr><td>", "<table><caption>", "<table><colgroup>", "<select>", "<table><tr><td><select>",
	"<template>", "<template><tr>", "<a><b>", "<p><b><i>", "<b><p>", "<svg>", "<svg><foreignObject>", "<svg><desc>",
	"<math><mi>", "<math><annotation-xml encoding=text/html>", "<frameset>", "<head><noscript>", "<body><form>",
	"<ul><li>", "<button>", "<html><head></head>", "<body></body>", "<title>", "<a><table>", "<table><b>", "<dl><dd>",
	"<ruby><rb>", "<!DOCTYPE html>", "<applet>", "<html><frameset></frameset>", "<table><tbody>", "<select><option>",
}

type c41ctx struct {
	tag string
	ns  string
}

var c41contexts = []c41ctx{
	{"div", ""}, {"table", ""}, {"tbody", ""}, {"tr", ""}, {"td", ""}, {"select", ""}, {"template", ""}, {"svg", "svg"},
	{"title", ""}, {"textarea", ""}, {"script", ""}, {"html", ""}, {"head", ""}, {"body", ""}, {"frameset", ""},
	{"colgroup", ""}, {"caption", ""}, {"noscript", ""}, {"math", "math"}, {"zz", ""},
	{"", ""},            // nil context (ParseFragment documents it: "if context is nil ...")
	{"template", "svg"}, // a foreign element that shares its name with an HTML element the parser special-cases
}

// tags used in the enumerated holes; the first c41quickTags are used in the quick tier.
var c41tags = []string{
	"a", "b", "p", "div", "table", "tr", "td", "select", "template", "form", "input", "svg", "math", "title", "frameset", "body", "html",
	// thorough only
	"caption", "option", "head", "script", "desc", "mi", "br", "li", "h1", "nobr", "applet", "textarea", "area",
}

const c41quickTags = 17

var c41texts = []string{"x", " ", "<!--c-->", "\x00", "<![CDATA[x]]>"}

// c41token returns one enumerated token: "<tag>", "</tag>" or a text/comment.
func c41token(label string) string {
	nt := len(c41tags)
	if vfTier() == 0 {
		nt = c41quickTags
	}
	ntext := len(c41texts)
	if vfTier() == 0 {
		ntext = 3
	}
	return c41tokenN(label, nt, ntext)
}

// c41tokenN: one token out of the first nt tag names (start or end tag) and the first ntext texts.
func c41tokenN(label string, nt, ntext int) string {
	k := vfChoice(label, 2*nt+ntext)
	switch {
	case k < nt:
		return "<" + c41tags[k] + ">"
	case k < 2*nt:
		return "</" + c41tags[k-nt] + ">"
	}
	return c41texts[k-2*nt]
}

// c41parseDoc runs Parse on a whole document and checks the result.
func c41parseDoc(in string, opt ParseOption) {
	doc, err := ParseWithOptions(strings.NewReader(in), opt)
	vfAssert(err == nil, "Parse returns no error (no recovered panic)")
	n := c41checkRoot(doc, false)
	vfObserve("nodes", uint64(n))
	vfReach("document")
}

// c41parse runs Parse (skeleton index < len(c41docs)) or ParseFragment (context) on the input and checks the result.
func c41parse(sk int, body string, scripting bool) {
	opt := ParseOptionEnableScripting(scripting)
	if sk < len(c41docs) {
		c41parseDoc(c41docs[sk]+body, opt)
		return
	}
	c := c41contexts[sk-len(c41docs)]
	ctx := &Node{Type: ElementNode, Data: c.tag, DataAtom: atom.Lookup([]byte(c.tag)), Namespace: c.ns}
	if c.tag == "" {
		ctx = nil
	}
	nodes, err := ParseFragmentWithOptions(strings.NewReader(body), ctx, opt)
	// Known finding C41-fragment-head-root-popped: with context <head> the parser starts in inHeadIM, whose "pop the
	// head element" steps pop the only element of the stack (the synthetic html root). Later steps then run on an
	// empty stack: "<frameset></frameset>" dereferences p.oe.top() == nil in inFramesetIM, "</body><!--c-->" reaches
	// the explicit panic "bad parser state: <html> element not found" in afterBodyIM. parse() recovers the panic and
	// returns it as an error. Every error under a <head> context is attributed to this root cause.
	// (fixed finding C41-fragment-foreign-endhtml, /repo fix "do not pop the root html element for </html> in a
	// foreign-context fragment": with an svg/math context element "</html>" popped the synthetic html root in
	// parseForeignContent and the next text token dereferenced p.oe.top() == nil)
	vfAssertKF(err == nil, "ParseFragment returns no error (no recovered panic)", "C41-fragment-head-root-popped", c.ns == "" && c.tag == "head")
	total := 0
	for _, n := range nodes {
		total += c41checkRoot(n, true)
	}
	vfAssert(ctx == nil || (ctx.FirstChild == nil && ctx.Parent == nil), "context element is left untouched")
	vfObserve("nodes", uint64(total))
	vfReach("fragment")
}

func VerifC41_soup() {
	sk := vfChoice("skeleton", len(c41docs)+len(c41contexts))
	body := c41token("t1") + c41token("t2")
	body += "x<p>"
	c41parse(sk, body, true)
	vfReach("end")
}

var c41symDocs = []int{0, 1, 2, 5, 7, 9, 12, 15, 18} // indices into c41docs: "", table, td, select, template, a/b, svg, math/mi, head/noscript

// VerifC41_sym: skeleton + "<" ["/"] name ">" with a symbolic name of 1..2 bytes in [a-z0-9] + N free symbolic
// bytes + concrete tail, through Parse (scripting on/off) or ParseFragment(div | table | select | svg).
func VerifC41_sym() {
	n := 1
	if vfTier() > 0 {
		n = 2
	}
	k := vfChoice("skeleton", len(c41symDocs)+4)
	sk := 0
	if k < len(c41symDocs) {
		sk = c41symDocs[k]
	} else {
		sk = len(c41docs) + []int{0, 1, 5, 7}[k-len(c41symDocs)]
	}
	name := vfBytes("name", vfLen("namelen", 1, 2))
	for _, c := range name {
		vfAssume(vfOr(vfAnd(c >= 'a', c <= 'z'), vfAnd(c >= '0', c <= '9')))
	}
	vfAssume(name[0] >= 'a')
	open := "<"
	if vfChoice("close", 2) == 1 {
		open = "</"
	}
	body := open + string(name) + ">" + vfString("free", n) + "x</b><td>y"
	scripting := true
	if sk == 18 { // <head><noscript>: the only place where the scripting flag matters
		scripting = vfChoice("scripting", 2) == 1
	}
	c41parse(sk, body, scripting)
	vfReach("end")
}
