package proxy

// C53 — proxy.PerHost routes each host by its documented bypass rules.
//
// Shape B: a fresh PerHost (real constructor), one configuration entry built from a typed template with symbolic
// contents (IPv4, IPv4 CIDR, IPv6, IPv6 CIDR, "*.zone", host name, direct AddZone), alone or before/after a fixed
// list of concrete entries, fed to the real AddFromString; then one request. The reference keeps what the harness
// knows about each entry (address bytes / prefix length / name) and decides "bypass" from the documented rules;
// "is an IP literal" for free-form request hosts is decided by the standard library (netip.ParseAddr).
//
// VerifC53_zoned: same configuration family, the request is an IPv6 literal with a zone identifier whose text is
// symbolic (so it can end in / equal a configured zone or host): IP literals are routed by the IP / network rules only.
// Zone and host entries also come with numeric labels ("*.d.d", "*.d.d.d.d", "d.d.d.d."), whose text can coincide
// with the tail or the whole of a dialed dotted quad: a dialed IP literal still never matches a name rule.
//
// Cost note: every fork while parsing the entry re-executes the request side, so the templates keep the *shape*
// (digit counts, dot positions) concrete and the *contents* (digits, hex digits, letters, prefix length) symbolic.
//
// Sensitivity (mut.sh):
//   per_host.go  `if host == zone[1:] {`            -> `if host == zone {`                caught (VIOLATION, zone apex)
//   per_host.go  `if bypassIP.Equal(ip) {`          -> `if !bypassIP.Equal(ip) {`         caught
//   per_host.go  `if !strings.HasPrefix(zone, ".")` -> `if strings.HasPrefix(zone, ".")`  caught (AddZone)
//   per_host.go  `break` added after the first bypassNetworks entry                        caught (companions)
//   per_host.go  `return p.def` at the end of the IP-literal branch removed (seed C53-C)   caught by both harnesses
//                (route: numeric zone vs IPv4 literal; zoned: zone identifier text vs zone)

import (
	"net"
	"net/netip"
)

func init() {
	vfRegister("VerifC53_route", VerifC53_route)
	vfRegister("VerifC53_zoned", VerifC53_zoned)
}

type c53dialer struct {
	calls int
	addr  string
}

func (d *c53dialer) Dial(network, addr string) (net.Conn, error) {
	d.calls++
	d.addr = addr
	return nil, nil
}

// reference view of one configuration entry
type c53ent struct {
	kind int // 0 ignored, 1 ip/net, 2 zone, 3 host
	fam  int // 4 or 6
	b    [16]byte
	plen int // prefix length in bits of the family (32/128 for a single IP)
	name string
}

func c53digit(label string) byte {
	d := vfU8(label)
	vfAssume(vfAnd(d >= '0', d <= '9'))
	return d
}

// c53v4 builds a canonical dotted quad with symbolic digits: "d.d.d.d" (shape 0) or "1dd.d.d.2d" (shape 1).
func c53v4(label string, shape int) (string, [4]byte) {
	d := func() (byte, byte) { c := c53digit(label); return c, c - '0' }
	var q [4]byte
	if shape == 0 {
		c0, v0 := d()
		c1, v1 := d()
		c2, v2 := d()
		c3, v3 := d()
		q = [4]byte{v0, v1, v2, v3}
		return string([]byte{c0, '.', c1, '.', c2, '.', c3}), q
	}
	c0, v0 := d()
	c1, v1 := d()
	c2, v2 := d()
	c3, v3 := d()
	c4, v4 := d()
	q = [4]byte{100 + 10*v0 + v1, v2, v3, 20 + v4}
	return string([]byte{'1', c0, c1, '.', c2, '.', c3, '.', '2', c4}), q
}

// c53hex: one symbolic hex digit of a single character class (each class is a separate path in the parser):
// class 0 = '0'..'9', 1 = 'a'..'f', 2 = 'A'..'F'.
func c53hex(label string, class int) (byte, byte) {
	c := vfU8(label)
	switch class {
	case 0:
		vfAssume(vfAnd(c >= '0', c <= '9'))
		return c, c - '0'
	case 1:
		vfAssume(vfAnd(c >= 'a', c <= 'f'))
		return c, c - 'a' + 10
	}
	vfAssume(vfAnd(c >= 'A', c <= 'F'))
	return c, c - 'A' + 10
}

// c53v6 builds "hh::h" (shape 0: lower-case hex, digit, upper-case hex), "::h" (shape 1: digit) or the IPv4-mapped "::ffff:d.d.d.d" (shape 2).
func c53v6(label string, shape int) (string, [16]byte) {
	var b [16]byte
	switch shape {
	case 0:
		c1, v1 := c53hex(label, 1)
		c2, v2 := c53hex(label, 0)
		c3, v3 := c53hex(label, 2)
		b[1] = v1<<4 | v2
		b[15] = v3
		return string([]byte{c1, c2, ':', ':', c3}), b
	case 1:
		c3, v3 := c53hex(label, 0)
		b[15] = v3
		return string([]byte{':', ':', c3}), b
	}
	s, q := c53v4(label, 0)
	copy(b[12:], q[:])
	return "::ffff:" + s, b
}

// c53letter: a symbolic ASCII letter of either case: never a separator, blank, dot, colon, percent, slash, star or
// bracket, so the shape of the text stays the template's.
func c53letter(label string) byte {
	c := vfU8(label)
	vfAssume(vfOr(vfAnd(c >= 'A', c <= 'Z'), vfAnd(c >= 'a', c <= 'z')))
	return c
}

// c53text instantiates a pattern: every 'x' becomes a symbolic letter, every 'd' a symbolic decimal digit, other
// bytes are literal.
func c53text(label, pat string) string {
	bs := []byte(pat)
	for i := range bs {
		switch bs[i] {
		case 'x':
			bs[i] = c53letter(label)
		case 'd':
			bs[i] = c53digit(label)
		}
	}
	return string(bs)
}

// c53entry builds one configuration entry: its text (or a direct AddZone argument) and the reference view.
func c53entry(rich bool) (text string, direct bool, e c53ent) {
	pick := func(label string, k int) int { // shape variety only when the entry stands alone
		if !rich {
			return 0
		}
		return vfChoice(label, k)
	}
	switch vfChoice("entrykind", 8) {
	case 0: // IPv4 address
		s, q := c53v4("e4", pick("e4shape", 2))
		e = c53ent{kind: 1, fam: 4, plen: 32}
		copy(e.b[12:], q[:])
		return s, false, e
	case 1: // IPv4 CIDR, prefix length of 2 (or 1) symbolic digits
		s, q := c53v4("n4", pick("n4shape", 2))
		nd := 2 - pick("n4lendigits", 2)
		plen := 0
		f := make([]byte, nd)
		for i := range f {
			f[i] = c53digit("n4len")
			plen = plen*10 + int(f[i]-'0')
		}
		e = c53ent{kind: 1, fam: 4, plen: plen}
		copy(e.b[12:], q[:])
		if plen > 32 { // invalid prefix: "errors are ignored", no entry
			e.kind = 0
			vfReach("bad-prefix")
		}
		return s + "/" + string(f), false, e
	case 2: // IPv6 address (incl. IPv4-mapped, which denotes the IPv4 address)
		shape := pick("e6shape", 3)
		s, b := c53v6("e6", shape)
		e = c53ent{kind: 1, fam: 6, plen: 128, b: b}
		if shape == 2 {
			e.fam, e.plen = 4, 32
		}
		return s, false, e
	case 3: // IPv6 CIDR "hh::/ddd" (or 2 / 1 digits)
		c1, v1 := c53hex("n6", 0)
		c2, v2 := c53hex("n6", 1)
		nd := 3 - pick("n6lendigits", 3)
		plen := 0
		f := make([]byte, nd)
		for i := range f {
			f[i] = c53digit("n6len")
			plen = plen*10 + int(f[i]-'0')
		}
		e = c53ent{kind: 1, fam: 6, plen: plen}
		e.b[1] = v1<<4 | v2
		if plen > 128 {
			e.kind = 0
		}
		return string([]byte{c1, c2}) + "::/" + string(f), false, e
	case 4: // zone "*.name"; a trailing dot is dropped; "*." alone is the root zone
		// (numeric labels: a zone whose text is the tail, or the whole, of a dotted quad is still a *name* rule)
		sh := pick("zoneshape", 8)
		nm := c53text("zone", []string{"xx", "xx.", "x.x", "x", "", "d", "d.d", "d.d.d.d"}[sh])
		ref := nm
		if sh == 1 {
			ref = nm[:2]
		}
		return "*." + nm, false, c53ent{kind: 2, name: ref}
	case 5: // host name; a trailing dot is dropped; a leading dot is part of the name
		// ("d.d.d.d." is not an IP literal, so it is a host *name* rule for the name "d.d.d.d.", stored without the dot)
		sh := pick("hostshape", 6)
		nm := c53text("host", []string{"xx", "xx.", "x.x", ".xx", "x", "d.d.d.d."}[sh])
		ref := nm
		if sh == 1 || sh == 5 {
			ref = nm[:len(nm)-1]
		}
		return nm, false, c53ent{kind: 3, name: ref}
	case 6: // IPv6 address with a zone identifier "hh::h%zone": the zone is not part of the added IP
		s, b := c53v6("z6", 0)
		zt := c53text("z6zone", []string{"xx", "x.x", ".xx"}[pick("z6zoneshape", 3)])
		return s + "%" + zt, false, c53ent{kind: 1, fam: 6, plen: 128, b: b}
	}
	// direct AddZone(name): "A zone of "example.com" matches "example.com" and all of its subdomains"
	sh := pick("dzoneshape", 5)
	nm := c53text("dzone", []string{"xx", ".xx", "xx.", "x.x", "d.d"}[sh])
	ref := nm
	switch sh {
	case 1:
		ref = nm[1:]
	case 2:
		ref = nm[:2]
	}
	return nm, true, c53ent{kind: 2, name: ref}
}

func c53hasSuffix(s, suf string) bool {
	if len(s) < len(suf) {
		return false
	}
	return s[len(s)-len(suf):] == suf
}

// c53maskByte returns the mask byte for k remaining prefix bits.
func c53maskByte(k int) byte {
	return vfIteU8(k >= 8, 0xff, vfIteU8(k <= 0, 0, ^byte(0xff>>uint(k&7))))
}

// c53match is the documented rule for one entry.
func c53match(e c53ent, isIP bool, fam int, hb [16]byte, host string) bool {
	switch e.kind {
	case 1:
		if !isIP || fam != e.fam {
			return false
		}
		off := 0
		if fam == 4 {
			off = 12
		}
		ok := true
		for j := off; j < 16; j++ {
			m := c53maskByte(e.plen - 8*(j-off))
			ok = vfAnd(ok, e.b[j]&m == hb[j]&m)
		}
		return ok
	case 2:
		if isIP {
			return false
		}
		return vfOr(host == e.name, c53hasSuffix(host, "."+e.name))
	case 3:
		if isIP {
			return false
		}
		return host == e.name
	}
	return false
}

// c53config feeds one symbolic entry, alone (place 0) or after (1) / before (2) a fixed list of concrete entries, to
// the real AddFromString / AddZone and returns the reference view of the rules.
func c53config(p *PerHost, rich bool, place int) []c53ent {
	var ents []c53ent
	text, direct, e := c53entry(rich)
	ents = append(ents, e)
	cfg := text
	if direct {
		p.AddZone(text)
		cfg = ""
	}
	if place != 0 {
		// concrete companions: 1.2.0.0/16, zone ab, host cd, ::1
		ents = append(ents, c53ent{kind: 1, fam: 4, plen: 16, b: [16]byte{12: 1, 13: 2}}, c53ent{kind: 2, name: "ab"},
			c53ent{kind: 3, name: "cd"}, c53ent{kind: 1, fam: 6, plen: 128, b: [16]byte{15: 1}})
		sep := []string{",", " ,\t"}[vfChoice("sep", 2)]
		if place == 1 {
			cfg = "1.2.0.0/16, *.ab ,cd,::1" + sep + cfg
		} else {
			cfg = cfg + sep + "1.2.0.0/16, *.ab ,cd,::1"
		}
	} else if vfChoice("pad", 2) == 1 {
		cfg = " " + cfg + ", ,"
	}
	p.AddFromString(cfg)
	return ents
}

// c53dial sends the request through the public Dial and checks the routing against the documented rules.
func c53dial(p *PerHost, def, byp *c53dialer, ents []c53ent, isIP bool, fam int, hb [16]byte, host, addr string) {
	want := false
	for _, e := range ents {
		want = vfOr(want, c53match(e, isIP, fam, hb, host))
	}
	_, err := p.Dial("tcp", addr)
	vfAssert(err == nil, "Dial reaches a dialer")
	vfAssert(def.calls+byp.calls == 1, "exactly one dialer receives the call")
	got := byp.calls == 1
	vfAssert((def.addr+byp.addr) == addr, "the address is passed on unchanged")
	vfAssert(got == want, "bypass exactly when a documented rule matches")
	vfObserveBool("bypass", got)
	vfObserveStr("host", host)
	if got {
		vfReach("bypass")
	} else {
		vfReach("default")
	}
}

// VerifC53_zoned: the dialed host is an IPv6 literal that carries a zone identifier ("[hh::h%zone]:80"). It is an IP
// literal (net/netip.ParseAddr accepts it), so only the IP / network rules apply, to the address without the zone:
// the text of the zone identifier - which may end in, or contain, an added zone or host name - never makes a name
// rule match. The configuration is the same one-symbolic-entry family as in VerifC53_route.
func VerifC53_zoned() {
	def, byp := &c53dialer{}, &c53dialer{}
	p := NewPerHost(def, byp)
	place := vfChoice("place", 3)
	ents := c53config(p, place == 0, place)

	shape := vfChoice("h6shape", 3)
	lit, hb := c53v6("h6", shape)
	fam := 6
	if shape == 2 {
		fam = 4
	}
	// zone identifier texts: bare label, leading dot (the whole identifier is a zone suffix), label.label, trailing
	// dot (root zone), numeric labels; the thorough tier adds more shapes
	zpats := []string{".xx", "x.xx", "xx"}
	if place == 0 {
		zpats = []string{".xx", "x.xx", "xx", "x.", "d.d"}
		if vfTier() > 0 {
			zpats = append(zpats, "x.x", "x", "x.d.d.d.d", "xx.xx")
		}
	}
	zt := c53text("hzone", zpats[vfChoice("hzoneshape", len(zpats))])
	host := lit + "%" + zt
	_, perr := netip.ParseAddr(host)
	vfAssert(perr == nil, "a zoned IPv6 literal is an IP literal")
	c53dial(p, def, byp, ents, true, fam, hb, host, "["+host+"]:80")
	vfReach("end")
}

func VerifC53_route() {
	def, byp := &c53dialer{}, &c53dialer{}
	p := NewPerHost(def, byp)

	// One symbolic entry, alone (every shape) or placed after / before a fixed list of concrete entries
	// (basic shapes only): the loops over rules must neither stop early nor skip the last entry. Free-form request
	// hosts (hostkind 0) are paired with the single symbolic entry of the basic shapes only.
	hk := vfChoice("hostkind", 4)
	place := 0
	if hk != 0 {
		place = vfChoice("place", 3)
	}
	rich := place == 0 && hk != 0
	ents := c53config(p, rich, place)

	// the request
	var host string
	var isIP bool
	var fam int
	var hb [16]byte
	viaDial, fam6text := true, false
	switch hk {
	case 0: // free-form bytes; the standard library decides what an IP literal is
		host = vfString("rawhost", vfLen("rawlen", 0, 3+vfTier()))
		viaDial = false
		a, err := netip.ParseAddr(host)
		if err == nil {
			isIP = true
			a = a.Unmap()
			fam = 6
			if a.Is4() {
				fam = 4
			}
			hb = a.As16()
			if fam == 4 {
				hb[10], hb[11] = 0, 0
			}
			vfReach("raw-ip")
		}
	case 1:
		var q [4]byte
		h4shape := 0
		if rich {
			h4shape = vfChoice("h4shape", 2)
		}
		host, q = c53v4("h4", h4shape)
		isIP, fam = true, 4
		copy(hb[12:], q[:])
	case 2:
		shape := vfChoice("h6shape", 3)
		fam6text = true
		host, hb = c53v6("h6", shape)
		isIP, fam = true, 6
		if shape == 2 {
			fam = 4
		}
	case 3:
		if rich {
			host = c53text("hname", []string{"xx", "x.xx", "xxx", "", ".xx", "xx.", "x.x", "x.x.x", "x"}[vfChoice("hshape", 9)])
		} else {
			host = c53text("hname", []string{"xx", "x.xx", "xxx"}[vfChoice("hshape", 3)])
		}
	}

	want := false
	for _, e := range ents {
		want = vfOr(want, c53match(e, isIP, fam, hb, host))
	}

	var got bool
	if viaDial {
		addr := host + ":80"
		if fam6text {
			addr = "[" + host + "]:80"
		}
		_, err := p.Dial("tcp", addr)
		vfAssert(err == nil, "Dial reaches a dialer")
		vfAssert(def.calls+byp.calls == 1, "exactly one dialer receives the call")
		got = byp.calls == 1
		vfAssert((def.addr+byp.addr) == addr, "the address is passed on unchanged")
	} else {
		got = p.dialerForRequest(host) == Dialer(byp)
	}
	vfAssert(got == want, "bypass exactly when a documented rule matches")
	vfObserveBool("bypass", got)
	vfObserveStr("host", host)
	if got {
		vfReach("bypass")
	} else {
		vfReach("default")
	}
	vfReach("end")
}
