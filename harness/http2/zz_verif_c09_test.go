package http2

// C09 (KERNEL claim) — HTTP/2 client never sends request DATA beyond the server's windows.
//
// Units: clientStream.awaitFlowControl, clientConnReadLoop.processWindowUpdate, processSettingsNoWrite
// (INITIAL_WINDOW_SIZE, MAX_FRAME_SIZE), outflow (flow.go) and clientStream.writeRequestBody on a hand-built ClientConn.
//
// Shapes: I — one step from an arbitrary state satisfying the window invariant c09inv (awaitStep, windowUpdateStep,
// settingsStep); B — writeRequestBody runs as real goroutine(s) under the symbolic scheduler against a "server" that
// keeps its own view of every window (c09wire: ghost windows are credited when the harness *sends* WINDOW_UPDATE /
// SETTINGS and debited when a DATA frame reaches the wire, where each frame is checked).
//
// Sensitivity (mut.sh, caught as VIOLATION and confirmed natively):
//   transport.go awaitFlowControl: drop the `take > int32(cc.maxFrameSize)` clamp        -> VerifC09_awaitStep "taken <= SETTINGS_MAX_FRAME_SIZE"
//   transport.go awaitFlowControl: `a > 0`→`a >= 0`                                       -> VerifC09_awaitStep, VerifC09_body, VerifC09_twoBodies (empty DATA frames)
//   transport.go processWindowUpdate: drop the final `cc.cond.Broadcast()`               -> VerifC09_body, VerifC09_twoBodies (deadlock: writer never resumes)
//   flow.go outflow.take: drop `f.conn.n -= n`                                           -> VerifC09_body, VerifC09_twoBodies (connection window exceeded on the wire)
//   transport.go processSettingsNoWrite: `delta := int32(s.Val) - int32(cc.initialWindowSize)`→`int32(s.Val)` -> VerifC09_settingsStep, VerifC09_body

// Seeded change C09-B (processSettingsNoWrite commits cc.initialWindowSize only after the whole frame, so a repeated
//   INITIAL_WINDOW_SIZE is applied relative to the value from before the frame) -> VerifC09_settingsFrame (I) and
//   VerifC09_body (B: DATA beyond the server's stream window on the wire / writer never resumes)

import (
	"bufio"
	"context"
	"io"
	"math"
	"net/http"
)

func init() {
	vfRegister("VerifC09_awaitStep", VerifC09_awaitStep)
	vfRegister("VerifC09_windowUpdateStep", VerifC09_windowUpdateStep)
	vfRegister("VerifC09_settingsStep", VerifC09_settingsStep)
	vfRegister("VerifC09_settingsFrame", VerifC09_settingsFrame)
	vfRegister("VerifC09_body", VerifC09_body)
	vfRegister("VerifC09_twoBodies", VerifC09_twoBodies)
	vfRegister("VerifC09_bigBody", VerifC09_bigBody)
}

const c09maxWin = math.MaxInt32

// c09inv: the window invariant of a stream send window n under initial window size iws (RFC 9113 §6.9.2):
// n <= 2^31-1 (int32) and n - iws >= -(2^31-1): the part of the window that does not come from the initial size
// (WINDOW_UPDATEs minus bytes sent) never drops below -(2^31-1), because DATA is only sent from a positive window.
// Under it, the SETTINGS adjustment n + (new - old) cannot wrap below -2^31.
func c09inv(n int32, iws uint32) bool {
	return vfAnd(iws <= c09maxWin, int64(n)-int64(iws) >= -c09maxWin)
}

func c09min64(a, b int64) int64 { return vfIteI64(a < b, a, b) }

// awaitFlowControl from arbitrary windows.
func VerifC09_awaitStep() {
	h := h2cNewConn()
	cc := h.cc
	cs := h2cNewStream(cc)
	h2cPutStream(cc, cs, 1)
	cc.nextStreamID = 3
	sn, cn := vfI32("streamWindow"), vfI32("connWindow")
	vfAssume(c09inv(sn, cc.initialWindowSize))
	mfs := vfU32("maxFrameSize")
	vfAssume(mfs >= 16384) // SETTINGS_MAX_FRAME_SIZE is validated to [2^14, 2^24-1] by Setting.Valid before it is stored
	vfAssume(mfs <= 1<<24-1)
	maxBytes := vfInt("maxBytes")
	vfAssume(maxBytes >= 1) // writeRequestBody asks for len(remain) > 0
	vfAssume(maxBytes <= 1<<40)
	cs.flow.n, cc.flow.n, cc.maxFrameSize = sn, cn, mfs

	// at most one of the terminating conditions (select among several ready channels is a random choice)
	wantErr := error(nil)
	ctx, cancel := context.WithCancel(context.Background())
	reqCancel := make(chan struct{})
	cs.ctx, cs.reqCancel = ctx, reqCancel
	switch vfChoice("state", 6) {
	case 0:
	case 1:
		cc.closed = true
		wantErr = errClientConnClosed
	case 2:
		cs.reqBodyClosed = make(chan struct{})
		wantErr = errStopReqBodyWrite
	case 3:
		cs.abortStream(errClientConnGotGoAway)
		wantErr = errClientConnGotGoAway
	case 4:
		cancel()
		wantErr = context.Canceled
	case 5:
		close(reqCancel)
		wantErr = errRequestCanceled
	}
	var taken int32
	var err error
	blocked := vfBlocks(func() { taken, err = cs.awaitFlowControl(maxBytes) })
	avail := c09min64(int64(sn), int64(cn))
	if blocked {
		vfReach("blocked")
		vfAssert(wantErr == nil, "a dead stream never waits for flow control")
		vfAssert(avail <= 0, "waits only when min(stream, conn) window <= 0")
		cc.mu.Lock()
		vfAssert(cs.flow.n == sn && cc.flow.n == cn, "waiting takes nothing")
		cc.mu.Unlock()
		vfReach("end")
		return
	}
	if err != nil {
		vfReach("error")
		vfAssert(wantErr != nil && err == wantErr, "error is the stream's/connection's terminating condition")
		vfAssert(taken == 0, "nothing taken on error")
		vfAssert(cs.flow.n == sn && cc.flow.n == cn, "windows untouched on error")
		vfReach("end")
		return
	}
	vfReach("taken")
	vfAssert(wantErr == nil, "a dead stream takes nothing")
	vfAssert(avail > 0, "takes only from a positive window")
	vfAssert(taken > 0, "taken > 0")
	vfAssert(int64(taken) <= int64(sn), "taken <= stream window")
	vfAssert(int64(taken) <= int64(cn), "taken <= connection window")
	vfAssert(int64(taken) <= int64(maxBytes), "taken <= bytes requested")
	vfAssert(int64(taken) <= int64(mfs), "taken <= SETTINGS_MAX_FRAME_SIZE")
	vfAssert(int64(taken) == c09min64(c09min64(avail, int64(maxBytes)), int64(mfs)), "takes as much as allowed")
	vfAssert(int64(cs.flow.n) == int64(sn)-int64(taken), "stream window debited by taken")
	vfAssert(int64(cc.flow.n) == int64(cn)-int64(taken), "connection window debited by taken")
	vfAssert(c09inv(cs.flow.n, cc.initialWindowSize), "Inv preserved")
	vfAssert(cs.flow.n >= 0 && cc.flow.n >= 0, "sending never drives a window negative")
	vfObserve("taken", uint64(taken))
	vfReach("end")
}

func c09wu(id uint32, inc uint32) *WindowUpdateFrame {
	return &WindowUpdateFrame{FrameHeader: FrameHeader{valid: true, Type: FrameWindowUpdate, StreamID: id, Length: 4}, Increment: inc}
}

// processWindowUpdate from arbitrary windows, for the connection, an open stream, a stream the read loop already
// reset, and an unknown stream.
func VerifC09_windowUpdateStep() {
	h := h2cNewConn()
	cc := h.cc
	a, b := h2cNewStream(cc), h2cNewStream(cc)
	h2cPutStream(cc, a, 1)
	h2cPutStream(cc, b, 3)
	cc.nextStreamID = 5
	an, bn, cn := vfI32("streamWindowA"), vfI32("streamWindowB"), vfI32("connWindow")
	vfAssume(c09inv(an, cc.initialWindowSize))
	vfAssume(c09inv(bn, cc.initialWindowSize))
	a.flow.n, b.flow.n, cc.flow.n = an, bn, cn
	inc := vfU32("increment")
	vfAssume(inc >= 1) // parseWindowUpdateFrame masks the reserved bit and rejects a zero increment
	vfAssume(inc <= c09maxWin)
	var id uint32
	target := vfChoice("target", 4)
	switch target {
	case 0:
		id = 0
	case 1:
		id = 1
	case 2:
		id = 1
		a.readAborted = true // the read loop already failed this stream (endStreamError)
	case 3:
		id = 7 // never opened / already forgotten
	}
	err := h.rl.processWindowUpdate(c09wu(id, inc))
	fitsA := int64(an)+int64(inc) <= c09maxWin
	fitsC := int64(cn)+int64(inc) <= c09maxWin
	switch target {
	case 0:
		if err != nil {
			vfReach("conn-overflow")
			ce, ok := err.(ConnectionError)
			vfAssert(ok && ErrCode(ce) == ErrCodeFlowControl, "connection window overflow is a FLOW_CONTROL_ERROR connection error")
			vfAssert(vfNot(fitsC), "error only on overflow past 2^31-1")
			vfAssert(cc.flow.n == cn, "window unchanged on overflow")
		} else {
			vfReach("conn-credited")
			vfAssert(fitsC, "overflow past 2^31-1 is rejected")
			vfAssert(int64(cc.flow.n) == int64(cn)+int64(inc), "connection window credited by exactly the increment")
		}
		vfAssert(a.flow.n == an && b.flow.n == bn, "stream windows untouched by a connection-level update")
		vfAssert(!h2cAborted(a) && !h2cAborted(b), "no stream affected")
	case 1:
		vfAssert(err == nil, "a stream-level overflow is not a connection error")
		if h2cAborted(a) {
			vfReach("stream-overflow")
			se, ok := a.abortErr.(StreamError)
			vfAssert(ok && se.Code == ErrCodeFlowControl && se.StreamID == 1, "stream window overflow is a FLOW_CONTROL_ERROR stream error")
			vfAssert(vfNot(fitsA), "error only on overflow past 2^31-1")
			vfAssert(a.flow.n == an, "window unchanged on overflow")
		} else {
			vfReach("stream-credited")
			vfAssert(fitsA, "overflow past 2^31-1 is rejected")
			vfAssert(int64(a.flow.n) == int64(an)+int64(inc), "stream window credited by exactly the increment")
			vfAssert(c09inv(a.flow.n, cc.initialWindowSize), "Inv preserved")
		}
		vfAssert(b.flow.n == bn && cc.flow.n == cn && !h2cAborted(b), "other windows untouched")
	default:
		vfReach("ignored")
		vfAssert(err == nil, "update for a dead/unknown stream is ignored")
		vfAssert(a.flow.n == an && b.flow.n == bn && cc.flow.n == cn, "nothing changes")
		vfAssert(!h2cAborted(a) && !h2cAborted(b), "no stream affected")
	}
	vfReach("end")
}

// processSettingsNoWrite: INITIAL_WINDOW_SIZE and MAX_FRAME_SIZE with arbitrary values, two open streams.
func VerifC09_settingsStep() {
	h := h2cNewConn()
	cc := h.cc
	iws := vfU32("initialWindowSize")
	vfAssume(iws <= c09maxWin)
	cc.initialWindowSize = iws
	a, b := h2cNewStream(cc), h2cNewStream(cc)
	h2cPutStream(cc, a, 1)
	h2cPutStream(cc, b, 3)
	cc.nextStreamID = 5
	an, bn, cn := vfI32("streamWindowA"), vfI32("streamWindowB"), vfI32("connWindow")
	vfAssume(c09inv(an, iws))
	vfAssume(c09inv(bn, iws))
	a.flow.n, b.flow.n, cc.flow.n = an, bn, cn
	mfs0 := cc.maxFrameSize
	v := vfU32("value")
	var err error
	switch vfChoice("setting", 2) {
	case 0:
		err = h.rl.processSettingsNoWrite(h2cSettingsFrame(Setting{SettingInitialWindowSize, v}))
		if err != nil {
			vfReach("iws-rejected")
			ce, ok := err.(ConnectionError)
			vfAssert(ok && ErrCode(ce) == ErrCodeFlowControl, "INITIAL_WINDOW_SIZE > 2^31-1 is a FLOW_CONTROL_ERROR connection error")
			vfAssert(v > c09maxWin, "only values above 2^31-1 are rejected")
			vfAssert(a.flow.n == an && b.flow.n == bn && cc.initialWindowSize == iws, "rejected SETTINGS changes nothing")
		} else {
			vfReach("iws-applied")
			vfAssert(v <= c09maxWin, "values above 2^31-1 are rejected")
			vfAssert(cc.initialWindowSize == v, "new initial window recorded for future streams")
			// the server's own view of each open stream's window moves by exactly new-old (may become negative)
			ghostA := int64(an) + int64(v) - int64(iws)
			ghostB := int64(bn) + int64(v) - int64(iws)
			vfAssert(ghostA >= math.MinInt32 && ghostB >= math.MinInt32, "Inv excludes wrap-around below -2^31")
			// the client applies the delta exactly, except that a window that would pass 2^31-1 (a server-side
			// protocol violation, RFC 9113 §6.9.2) is left as it was — i.e. never above the server's view
			vfAssert(int64(a.flow.n) == vfIteI64(ghostA <= c09maxWin, ghostA, int64(an)), "stream A window moved by new-old")
			vfAssert(int64(b.flow.n) == vfIteI64(ghostB <= c09maxWin, ghostB, int64(bn)), "stream B window moved by new-old")
			vfAssert(int64(a.flow.n) <= ghostA && int64(b.flow.n) <= ghostB, "client's view never above the server's view")
			vfAssert(c09inv(a.flow.n, cc.initialWindowSize), "Inv preserved (A)")
			vfAssert(c09inv(b.flow.n, cc.initialWindowSize), "Inv preserved (B)")
			if vfConcretizeBool(int64(v) < int64(iws)) {
				vfReach("iws-shrunk")
			}
		}
		vfAssert(cc.flow.n == cn, "connection window is not affected by SETTINGS")
		vfAssert(cc.maxFrameSize == mfs0, "frame size untouched")
	case 1:
		err = h.rl.processSettingsNoWrite(h2cSettingsFrame(Setting{SettingMaxFrameSize, v}))
		if err != nil {
			vfReach("mfs-rejected")
			ce, ok := err.(ConnectionError)
			vfAssert(ok && ErrCode(ce) == ErrCodeProtocol, "invalid MAX_FRAME_SIZE is a PROTOCOL_ERROR connection error")
			vfAssert(vfOr(v < 16384, v > 1<<24-1), "only values outside [2^14, 2^24-1] are rejected")
			vfAssert(cc.maxFrameSize == mfs0, "rejected value not stored")
		} else {
			vfReach("mfs-applied")
			vfAssert(vfAnd(v >= 16384, v <= 1<<24-1), "values outside [2^14, 2^24-1] are rejected")
			vfAssert(cc.maxFrameSize == v, "new frame size limit in force")
		}
		vfAssert(a.flow.n == an && b.flow.n == bn && cc.flow.n == cn && cc.initialWindowSize == iws, "windows untouched")
	}
	vfReach("end")
}

// processSettingsNoWrite with a SETTINGS frame that carries SEVERAL settings: 2, each one INITIAL_WINDOW_SIZE,
// MAX_FRAME_SIZE or MAX_CONCURRENT_STREAMS (vfChoice) (thorough also 3, each INITIAL_WINDOW_SIZE or MAX_FRAME_SIZE),
// with arbitrary 32-bit values, so the same setting may occur more than once. RFC 9113 §6.5.3: "The values in the SETTINGS frame MUST be processed in the
// order they appear": the reference folds the entries in order, exactly as the server does for its own view of the
// stream windows (each INITIAL_WINDOW_SIZE moves every open stream window by value - previous value, where the
// previous value is the one set by the preceding entry). Processing stops at the first invalid entry (connection
// error); whatever was applied before it must still be within the server's view.
func VerifC09_settingsFrame() {
	h := h2cNewConn()
	cc := h.cc
	iws := vfU32("initialWindowSize")
	vfAssume(iws <= c09maxWin)
	cc.initialWindowSize = iws
	a := h2cNewStream(cc)
	h2cPutStream(cc, a, 1)
	cc.nextStreamID = 3
	an, cn := vfI32("streamWindow"), vfI32("connWindow")
	vfAssume(c09inv(an, iws))
	a.flow.n, cc.flow.n = an, cn
	mfs0, mcs0 := cc.maxFrameSize, cc.maxConcurrentStreams
	seen0 := vfChoice("seenSettings", 2) == 1 // first SETTINGS frame of the connection or a later one
	cc.seenSettings = seen0
	ne := 2
	ids := []SettingID{SettingInitialWindowSize, SettingMaxFrameSize, SettingMaxConcurrentStreams}
	if vfTier() > 0 && vfChoice("three-entries", 2) == 1 {
		// thorough: also three entries, each INITIAL_WINDOW_SIZE or MAX_FRAME_SIZE (the two settings of this property)
		ne, ids = 3, ids[:2]
	}
	var ss []Setting
	niws, nmcs := 0, 0
	for i := 0; i < ne; i++ {
		id := ids[vfChoice("setting", len(ids))]
		switch id {
		case SettingInitialWindowSize:
			niws++
		case SettingMaxConcurrentStreams:
			nmcs++
		}
		ss = append(ss, Setting{id, vfU32("value")})
	}
	err := h.rl.processSettingsNoWrite(h2cSettingsFrame(ss...))

	// reference: the entries in order. valid = "no invalid entry so far" (fork-free); the ghost* values are the
	// server's view, want* what the client must hold (a window that would pass 2^31-1 is left as it was)
	valid := true
	var wantCode ErrCode
	curIWS, wantMFS, wantMCS := int64(iws), mfs0, mcs0
	ghostA, wantA := int64(an), int64(an)
	for _, e := range ss {
		v := int64(e.Val)
		switch e.ID {
		case SettingInitialWindowSize:
			ok := v <= c09maxWin
			wantCode = ErrCode(vfIteU32(vfAnd(valid, vfNot(ok)), uint32(ErrCodeFlowControl), uint32(wantCode)))
			valid = vfAnd(valid, ok)
			d := vfIteI64(valid, v-curIWS, 0)
			ghostA += d
			wantA = vfIteI64(wantA+d <= c09maxWin, wantA+d, wantA)
			curIWS = vfIteI64(valid, v, curIWS)
		case SettingMaxFrameSize:
			ok := vfAnd(v >= 16384, v <= 1<<24-1)
			wantCode = ErrCode(vfIteU32(vfAnd(valid, vfNot(ok)), uint32(ErrCodeProtocol), uint32(wantCode)))
			valid = vfAnd(valid, ok)
			wantMFS = vfIteU32(valid, e.Val, wantMFS)
		case SettingMaxConcurrentStreams:
			wantMCS = vfIteU32(valid, e.Val, wantMCS)
		}
	}
	if err != nil {
		vfReach("rejected")
		ce, isCE := err.(ConnectionError)
		vfAssert(isCE, "an invalid setting is a connection error")
		vfAssert(vfNot(valid), "only a frame with an invalid entry is rejected")
		vfAssert(ErrCode(ce) == wantCode, "error code of the first invalid entry (FLOW_CONTROL_ERROR for INITIAL_WINDOW_SIZE > 2^31-1, PROTOCOL_ERROR for MAX_FRAME_SIZE)")
	} else {
		vfReach("applied")
		vfAssert(valid, "a frame with an invalid entry is rejected")
		vfAssert(int64(cc.initialWindowSize) == curIWS, "the LAST INITIAL_WINDOW_SIZE of the frame is recorded for future streams")
		vfAssert(cc.maxFrameSize == wantMFS, "the last MAX_FRAME_SIZE of the frame is in force")
		if nmcs == 0 && !seen0 {
			wantMCS = defaultMaxConcurrentStreams // first SETTINGS frame without the setting: the Transport's default
		}
		vfAssert(cc.maxConcurrentStreams == wantMCS, "the last MAX_CONCURRENT_STREAMS of the frame is in force")
		vfAssert(cc.seenSettings, "first SETTINGS frame noted")
		vfAssert(c09inv(a.flow.n, cc.initialWindowSize), "Inv preserved")
		if niws >= 2 {
			vfReach("initial-window-size-twice")
		}
	}
	// also after a rejected frame (entries before the invalid one were applied): never above the server's view
	vfAssert(ghostA >= math.MinInt32, "Inv excludes wrap-around below -2^31")
	vfAssert(int64(a.flow.n) == wantA, "stream window moved by each INITIAL_WINDOW_SIZE entry relative to the preceding value (net: last - old)")
	vfAssert(int64(a.flow.n) <= ghostA, "client's view never above the server's view")
	vfAssert(cc.flow.n == cn, "connection window is not affected by SETTINGS")
	vfReach("end")
}

// ---------------------------------------------------------------------------------------------------------------
// B: writeRequestBody against a server model

// c09wire is the server end of the connection: it receives what the client flushes, frame by frame, and keeps the
// server's view of its receive windows. Its Write runs atomically with respect to the harness goroutines (it
// contains no synchronisation), so it is the linearisation point of "DATA reaches the wire".
type c09wire struct {
	conn     int64            // server's view of the connection window
	stream   map[uint32]int64 // server's view of each stream window
	maxFrame int64            // SETTINGS_MAX_FRAME_SIZE the server announced
	data     map[uint32][]byte
	ended    map[uint32]bool
	frames   int
	partial  []byte
	ghost    h2cGhost
}

func (w *c09wire) Write(p []byte) (int, error) {
	w.partial = append(w.partial, p...)
	for len(w.partial) >= 9 {
		b := w.partial
		n := int(b[0])<<16 | int(b[1])<<8 | int(b[2])
		if len(b) < 9+n {
			break
		}
		typ, flags := FrameType(b[3]), Flags(b[4])
		id := uint32(b[5])<<24 | uint32(b[6])<<16 | uint32(b[7])<<8 | uint32(b[8])
		payload := b[9 : 9+n]
		w.partial = b[9+n:]
		if typ != FrameData {
			continue
		}
		w.frames++
		w.ghost.assert(!w.ended[id], "no DATA after END_STREAM")
		w.ghost.assert(int64(n) <= w.maxFrame, "DATA frame within SETTINGS_MAX_FRAME_SIZE")
		w.ghost.assert(int64(n) <= w.stream[id], "DATA within the stream window the server granted")
		w.ghost.assert(int64(n) <= w.conn, "DATA within the connection window the server granted")
		w.ghost.assert(n > 0 || flags.Has(FlagDataEndStream), "no empty DATA frame except to end the stream")
		w.stream[id] -= int64(n)
		w.conn -= int64(n)
		w.data[id] = append(w.data[id], payload...)
		if flags.Has(FlagDataEndStream) {
			w.ended[id] = true
		}
	}
	return len(p), nil
}

type c09body struct {
	b       []byte
	chunk   int  // bytes per Read (0 = all)
	eofLate bool // final chunk returned with a nil error, EOF on the next Read
}

func (r *c09body) Read(p []byte) (int, error) {
	if len(r.b) == 0 {
		return 0, io.EOF
	}
	n := len(r.b)
	if r.chunk > 0 && r.chunk < n {
		n = r.chunk
	}
	if n > len(p) {
		n = len(p)
	}
	copy(p, r.b[:n])
	r.b = r.b[n:]
	if len(r.b) == 0 && !r.eofLate {
		return n, io.EOF
	}
	return n, nil
}
func (r *c09body) Close() error { return nil }

func c09newWire(h *h2cConn) *c09wire {
	cc := h.cc
	w := &c09wire{conn: int64(cc.flow.n), stream: map[uint32]int64{}, maxFrame: int64(cc.maxFrameSize), data: map[uint32][]byte{}, ended: map[uint32]bool{}}
	cc.bw = bufio.NewWriter(w)
	cc.fr = NewFramer(cc.bw, nil)
	return w
}

// One request body (VerifC09_body) or two bodies on two streams sharing the connection window (VerifC09_twoBodies)
// of 1..D symbolic bytes are written by real writeRequestBody goroutines while the server (main goroutine) grants
// windows step by step: small initial stream/connection windows, then events chosen from WINDOW_UPDATE(stream),
// WINDOW_UPDATE(connection), SETTINGS(INITIAL_WINDOW_SIZE up or down), and finally exactly the credit that is still
// needed. Every DATA frame is checked on the wire against the server's view; vfNoDeadlock turns "a blocked body does
// not resume after the window opens" into a violation.
func VerifC09_body()      { c09bodies(1) }
func VerifC09_twoBodies() { c09bodies(2) }

func c09bodies(nstreams int) {
	vfNoDeadlock()
	h := h2cNewConn()
	cc := h.cc
	thorough := vfTier() > 0
	maxD, maxW, nev := 2, 2, 1
	if nstreams == 2 {
		maxW = 1
	}
	if thorough {
		maxD = 3
	}
	iws := 1
	if !(thorough && nstreams == 2) { // thorough two-stream run: deeper schedules over fewer configurations
		iws = vfLen("initialWindow", 0, maxW)
	}
	cw := vfLen("connWindow", 0, 2)
	cc.initialWindowSize = uint32(iws)
	cc.flow.n = int32(cw)
	w := c09newWire(h)
	done := make(chan struct{})
	type stream struct {
		cs   *clientStream
		body []byte
		err  error
	}
	var ss []*stream
	total := 0
	for i := 0; i < nstreams; i++ {
		cs := h2cNewStream(cc)
		h2cPutStream(cc, cs, uint32(1+2*i))
		w.stream[cs.ID] = int64(iws)
		var d int
		switch {
		case nstreams == 2:
			d = 2 - i // bodies of 2 and 1 bytes compete for the connection window
		default:
			d = vfLen("bodyLen", 1, maxD)
		}
		s := &stream{cs: cs, body: vfBytes("body", d)}
		total += d
		rd := &c09body{b: append([]byte(nil), s.body...)}
		cs.reqBodyContentLength = int64(d)
		if nstreams == 1 {
			nreaders := 2
			if thorough {
				nreaders = 3 // the unknown-length reader makes writeRequestBody allocate a 16 KiB scratch buffer per path
			}
			switch vfChoice("reader", nreaders) {
			case 0: // declared length, everything in one Read together with io.EOF
			case 1: // declared length, EOF only on the following Read
				rd.eofLate = true
			case 2: // unknown length, one byte per Read
				rd.chunk = 1
				cs.reqBodyContentLength = -1
			}
		}
		cs.reqBody = rd
		ss = append(ss, s)
		req := &http.Request{Method: "POST", Header: http.Header{}}
		vfGo(func() {
			s.err = cs.writeRequestBody(req)
			done <- struct{}{}
		})
	}
	cc.nextStreamID = uint32(1 + 2*nstreams)
	h2cPause()

	// server events; the server's view is credited before the client sees the frame. The server's books are kept
	// under cc.wmu, which the client holds whenever it writes to the wire.
	server := func(f func()) {
		cc.wmu.Lock()
		f()
		cc.wmu.Unlock()
	}
	nkinds := 4
	if nstreams == 2 {
		nkinds = 3 // no SETTINGS event in the two-stream run (covered by VerifC09_body)
	}
	for ev := 0; ev < nev; ev++ {
		h2cPause()
		kind := 0
		if thorough && nstreams == 2 {
			kind = 2 * vfChoice("event", 2) // none or WINDOW_UPDATE(conn)
		} else {
			kind = vfChoice("event", nkinds)
		}
		switch kind {
		case 0:
		case 1:
			inc := 1
			server(func() { w.stream[1] += int64(inc) })
			vfAssert(h.rl.processWindowUpdate(c09wu(1, uint32(inc))) == nil, "WINDOW_UPDATE accepted")
		case 2:
			inc := 1
			server(func() { w.conn += int64(inc) })
			vfAssert(h.rl.processWindowUpdate(c09wu(0, uint32(inc))) == nil, "WINDOW_UPDATE accepted")
		case 3:
			// one SETTINGS frame with INITIAL_WINDOW_SIZE once or twice (RFC 9113 §6.5.3: processed in order, so the
			// net effect on every open stream is last - old; the Transport does not reject repeated settings)
			var set []Setting
			if vfChoice("repeatedSetting", 2) == 1 {
				set = append(set, Setting{SettingInitialWindowSize, uint32(2 * vfChoice("firstInitialWindow", 2))})
			}
			nv := 2 * vfChoice("newInitialWindow", 2) // 0 or 2
			set = append(set, Setting{SettingInitialWindowSize, uint32(nv)})
			// RFC 9113 §6.9.2/§6.5.3: an increase is usable by the client as soon as it has the frame; a decrease
			// binds the client only from the moment it has processed (acknowledged) the SETTINGS frame — DATA it
			// sent before that is legal even if it overdraws the new window (which then goes negative).
			delta := int64(nv) - int64(cc.initialWindowSize)
			adjust := func() {
				server(func() {
					for _, s := range ss {
						w.stream[s.cs.ID] += delta
					}
				})
			}
			if delta > 0 {
				adjust()
			}
			vfAssert(h.rl.processSettingsNoWrite(h2cSettingsFrame(set...)) == nil, "SETTINGS accepted")
			if delta < 0 {
				adjust()
			}
		}
	}
	h2cPause()
	// finally grant everything that is still needed (a negative stream window is first brought back to zero);
	// need - view is invariant under sending, so it does not matter how far the writers got
	for _, s := range ss {
		var g int64
		server(func() {
			g = int64(len(s.body)) - int64(len(w.data[s.cs.ID])) - w.stream[s.cs.ID]
			if g > 0 {
				w.stream[s.cs.ID] += g
			}
		})
		if g > 0 {
			vfAssert(h.rl.processWindowUpdate(c09wu(s.cs.ID, uint32(g))) == nil, "WINDOW_UPDATE accepted")
		}
	}
	var g int64
	server(func() {
		sent := 0
		for _, s := range ss {
			sent += len(w.data[s.cs.ID])
		}
		g = int64(total-sent) - w.conn
		if g > 0 {
			w.conn += g
		}
	})
	if g > 0 {
		vfAssert(h.rl.processWindowUpdate(c09wu(0, uint32(g))) == nil, "WINDOW_UPDATE accepted")
	}
	for range ss {
		h2cAwait(done, "blocked request body resumes when the server extends the window")
	}
	w.ghost.report()
	for _, s := range ss {
		vfAssert(s.err == nil, "body written")
		got := w.data[s.cs.ID]
		vfAssert(len(got) == len(s.body), "all body bytes sent, none twice")
		for i := range got {
			vfAssert(got[i] == s.body[i], "body bytes in order")
		}
		vfAssert(w.ended[s.cs.ID], "END_STREAM sent")
		cc.mu.Lock()
		vfAssert(int64(s.cs.flow.n) == w.stream[s.cs.ID], "client's stream window equals the server's view")
		cc.mu.Unlock()
	}
	cc.mu.Lock()
	vfAssert(int64(cc.flow.n) == w.conn, "client's connection window equals the server's view")
	cc.mu.Unlock()
	vfObserve("frames", uint64(w.frames))
	vfReach("end")
}

// A body larger than SETTINGS_MAX_FRAME_SIZE (concrete content), with the limit optionally raised by SETTINGS first:
// frames are cut at the limit in force.
func VerifC09_bigBody() {
	h := h2cNewConn()
	cc := h.cc
	w := c09newWire(h)
	cs := h2cNewStream(cc)
	h2cPutStream(cc, cs, 1)
	cc.nextStreamID = 3
	w.stream[1] = int64(cs.flow.n)
	if vfChoice("raise", 2) == 1 {
		w.maxFrame = 16384 + 2
		vfAssert(h.rl.processSettingsNoWrite(h2cSettingsFrame(Setting{SettingMaxFrameSize, 16384 + 2})) == nil, "SETTINGS accepted")
	}
	extra := vfLen("extra", 0, 3)
	body := make([]byte, 16384+extra)
	for i := range body {
		body[i] = byte(i * 7)
	}
	cs.reqBody = &c09body{b: append([]byte(nil), body...)}
	cs.reqBodyContentLength = int64(len(body))
	req := &http.Request{Method: "POST", Header: http.Header{}}
	var err error
	blocked := vfBlocks(func() { err = cs.writeRequestBody(req) })
	vfAssert(!blocked && err == nil, "body fits the default windows")
	w.ghost.report()
	vfAssert(len(w.data[1]) == len(body), "all bytes sent")
	for i := 0; i < len(body); i += 4099 {
		vfAssert(w.data[1][i] == body[i], "body bytes in order (sampled)")
	}
	vfAssert(w.data[1][len(body)-1] == body[len(body)-1], "last byte")
	vfAssert(w.ended[1], "END_STREAM sent")
	if int64(len(body)) > w.maxFrame {
		vfReach("split")
		vfAssert(w.frames >= 2, "a body above the frame size limit is split")
	}
	vfAssert(int64(cs.flow.n) == w.stream[1] && int64(cc.flow.n) == w.conn, "windows agree with the server's view")
	vfObserve("frames", uint64(w.frames))
	vfReach("end")
}
