package http2

// C17 — slot accounting over whole request lifetimes (shape B: bounded history from the real initial state).
//
// The other C17 harnesses check one admission (openStep/reserveStep) and the pool's choice over hand-made counters
// (pool). What they do not exercise is how a request gives its slot BACK: the statement "a connection that is at its
// limit is not chosen for new requests by the connection pool" is only as good as the count the pool looks at, and
// that count is maintained by ReserveNewRequest, clientStream.writeRequest (reservation -> stream) and
// clientStream.cleanupWriteRequest (stream or reservation -> free) together. Here the REAL doRequest
// (writeRequest + cleanupWriteRequest, including header encoding and the HEADERS write through the real Framer) runs
// for every request of a history, and the harness keeps its own ledger of who holds a slot:
//
//	ext   reservations handed out (ReserveNewRequest by an API user / net/http) and not yet used by a request
//	open  requests whose stream is open (HEADERS written, waiting for the response)
//
// A request holds exactly one slot from the moment the pool reserved it (or it took over an earlier reservation)
// until its doRequest has finished, however it ends: cancelled before a stream was created, cancelled/refused after
// the stream ID was assigned but before HEADERS were written (cancel, header list over the peer's
// SETTINGS_MAX_HEADER_LIST_SIZE, header field the encoder rejects), finished by the peer, cancelled while open.
// After every event: the connection's own counters equal the ledger, the connection is not chosen (pool
// getClientConn / CanTakeNewRequest / ReserveNewRequest) when the ledger says it is at its limit, and it is chosen when
// ledger + unconfirmed resets are below the limit. HEADERS frames are read back from the wire: stream IDs odd and
// strictly increasing.
//
// Sensitivity (each caught as VIOLATION and confirmed natively, quick tier):
//   transport.go cleanupWriteRequest: `if cs.ID == 0` -> `if !cs.sentHeaders` (seed C17-B: a request that fails after its
//   stream ID was assigned returns a second reservation, one that belongs to somebody else)
//       -> "reservations counted == reservations outstanding" after 2 events (reserve; request refused/cancelled after
//          stream-ID assignment), and on its own "connection at its limit does not take new requests" after 3 events.

//   transport.go processSettingsNoWrite: default-limit fallback applied to every SETTINGS frame without
//   MAX_CONCURRENT_STREAMS (seed C17-C) -> "connection at its limit does not take new requests" after 2 events
//   (SETTINGS without the limit; request left open, m = 1).
//
// Events also include later SETTINGS frames from the server: without MAX_CONCURRENT_STREAMS (the advertised limit stays
// in force) and with a new limit (raised, or lowered below the current count).
//
// KNOWN FINDING on the unchanged tree (C17-refused-request-returns-two-reservations, thorough tier: 4 events, e.g.
// reserve; reserve; SETTINGS limit 3->1; request using a reservation): the request is refused at admission after
// writeRequest already returned its reservation, and cleanupWriteRequest (cs.ID == 0) returns a second one that belongs
// to the other holder: streamsReserved 0 with one reservation outstanding, CanTakeNewRequest true at the limit.
// Native reproduction through the public API: repro/C17/.

import (
	"net/http"
	"net/url"
)

func init() { vfRegister("VerifC17_lifecycle", VerifC17_lifecycle) }

type c17req struct {
	cs     *clientStream
	cancel chan struct{}
}

type c17life struct {
	h          *h2cConn
	pool       *clientConnPool
	m          int // the server's SETTINGS_MAX_CONCURRENT_STREAMS
	ext        int
	open       []*c17req
	lastWireID uint32 // stream ID of the last HEADERS frame seen on the wire
	lastID     uint32 // last stream ID assigned to a request
	lowered    bool   // the server lowered its limit at some point (streams opened under the old limit may exceed the new one)
	kfStolen   bool   // known finding C17-refused-request-returns-two-reservations has struck (see request)
}

const c17kfStolen = "C17-refused-request-returns-two-reservations"

const c17addr = "example.com:443"

// inUse is the ledger's number of occupied slots (open streams + outstanding reservations).
func (l *c17life) inUse() int { return len(l.open) + l.ext }

// wire parses what the client wrote since the last call; returns the number of HEADERS frames.
func (l *c17life) wire() int {
	n := 0
	for l.h.out.Len() > 0 {
		f, err := l.h.rd.ReadFrame()
		if err != nil {
			vfAssert(false, "client wrote a well-formed frame")
			return n
		}
		if hf, ok := f.(*HeadersFrame); ok {
			n++
			id := hf.Header().StreamID
			vfAssert(id&1 == 1, "HEADERS on the wire: stream ID odd")
			vfAssert(id > l.lastWireID, "HEADERS on the wire: stream IDs strictly increasing")
			l.lastWireID = id
		}
	}
	return n
}

// check compares the connection with the ledger and asks the connection whether it would take a new request.
func (l *c17life) check() {
	cc := l.h.cc
	cc.mu.Lock()
	streams, reserved, resets := len(cc.streams), cc.streamsReserved, cc.pendingResets
	cc.mu.Unlock()
	vfAssert(streams == len(l.open), "open streams == requests in flight")
	vfAssertKF(reserved == l.ext, "reservations counted == reservations outstanding (each request returns exactly its own slot)", c17kfStolen, l.kfStolen)
	vfAssert(resets >= 0, "pendingResets >= 0")
	can := cc.CanTakeNewRequest()
	if l.inUse() >= l.m {
		vfReach("at-limit")
		vfAssertKF(!can, "connection at its limit does not take new requests", c17kfStolen, l.kfStolen)
	}
	if l.inUse()+resets < l.m {
		vfAssert(can, "usable connection below its limit takes new requests")
	}
	vfAssert(l.lowered || len(cc.streams) <= l.m, "open streams <= MAX_CONCURRENT_STREAMS")
}

// settings delivers a later SETTINGS frame from the server. The ledger's limit l.m changes only when the frame carries
// MAX_CONCURRENT_STREAMS (RFC 9113 §6.5.3: parameters not mentioned keep their value).
func (l *c17life) settings() {
	var ss []Setting
	switch vfChoice("settings-kind", 2) {
	case 0: // another parameter only (arbitrary valid value)
		v := vfU32("initialWindowSize")
		vfAssume(v <= 1<<31-1)
		ss = append(ss, Setting{SettingInitialWindowSize, v})
		vfReach("settings-without-limit")
	case 1: // the limit changes (raised or lowered, possibly below the current count)
		m := vfLen("newlimit", 1, 3)
		vfAssume(m != l.m) // (repeating the current value is the same history as case 0: pruned)
		if m < l.m {
			l.lowered = true
			vfReach("limit-lowered")
		}
		l.m = m
		ss = append(ss, Setting{SettingMaxConcurrentStreams, uint32(m)})
	}
	if err := l.h.rl.processSettingsNoWrite(h2cSettingsFrame(ss...)); err != nil {
		vfAssert(false, "later SETTINGS accepted")
	}
}

func c17lifeRequest() *http.Request {
	return &http.Request{
		Method: "GET",
		URL:    &url.URL{Scheme: "https", Host: "example.com", Path: "/"},
		Host:   "example.com",
		Header: http.Header{},
	}
}

// request runs one whole request on the connection. Returns after doRequest finished or parked with its stream open.
func (l *c17life) request() {
	cc := l.h.cc
	req := c17lifeRequest()
	switch vfChoice("via", 2) {
	case 0: // through the connection pool, as Transport.RoundTripOpt does
		atLimit := l.inUse() >= l.m
		got, err := l.pool.getClientConn(req, c17addr, noDialOnMiss)
		if err != nil {
			vfReach("pool-miss")
			vfAssert(err == ErrNoCachedConn && got == nil, "pool miss is ErrNoCachedConn")
			cc.mu.Lock()
			resets := cc.pendingResets
			cc.mu.Unlock()
			vfAssert(l.inUse()+resets >= l.m, "pool misses only when the connection is at its limit")
			return
		}
		vfReach("pool-hit")
		vfAssert(got == cc, "pool returns the cached connection")
		vfAssertKF(!atLimit, "pool does not choose a connection at its limit", c17kfStolen, l.kfStolen)
	case 1: // RoundTrip on the ClientConn by the holder of an earlier reservation
		vfAssume(l.ext > 0) // (histories with a no-op step are prefixes of shorter ones: pruned)
		l.ext--
		vfReach("uses-reservation")
	}
	// from here on the request holds one slot until doRequest has finished; `others` = slots held by everybody else
	others := l.inUse()
	cc.mu.Lock()
	resets0 := cc.pendingResets
	cc.mu.Unlock()
	r := &c17req{cs: h2cNewStream(cc), cancel: make(chan struct{})}
	r.cs.reqCancel = r.cancel
	var streamf func(*clientStream)
	mode := vfChoice("mode", 3)
	switch mode {
	case 0: // cancelled while another request holds the new-request lock: ends before a stream is created
		close(r.cancel)
		cc.reqHeaderMu <- struct{}{}
	case 1: // cancelled right after the stream ID was assigned, before HEADERS are written
		streamf = func(*clientStream) { close(r.cancel) }
	case 2: // sent; the peer's header list limit is arbitrary; thorough: one header value byte is arbitrary (the encoder may reject it)
		v := "a"
		if vfTier() > 0 {
			v = vfString("headerValue", 1)
		}
		req.Header["X-V"] = []string{v}
	}
	parked := vfBlocks(func() { r.cs.doRequest(req, streamf) })
	if mode == 0 {
		<-cc.reqHeaderMu
	}
	nh := l.wire()
	if parked {
		vfReach("request-open")
		vfAssert(mode == 2, "only a sent request waits for a response")
		vfAssert(nh == 1 && l.lastWireID == r.cs.ID, "open request: its HEADERS frame is on the wire")
		l.open = append(l.open, r)
	} else {
		select {
		case <-r.cs.donec:
		default:
			vfAssert(false, "request ended: cleanup done")
		}
		vfAssert(nh == 0, "failed request: no HEADERS on the wire")
		if r.cs.ID == 0 {
			vfReach("ended-before-stream")
			if mode != 0 {
				// refused at admission (errClientConnUnusable, the Transport retries on another connection): right only
				// if the server lowered its limit meanwhile and the other holders fill it (reachable from 4 events on)
				vfAssert(l.lowered && others+resets0 >= l.m, "a request ends before a stream is created only by the early cancel or at a lowered limit")
				if l.ext > 0 {
					// KNOWN FINDING: writeRequest returned this request's reservation before awaitOpenSlotForStreamLocked
					// refused it, and cleanupWriteRequest (cs.ID == 0) returns "it" a second time: a reservation that
					// belongs to another holder is dropped from cc.streamsReserved.
					l.kfStolen = true
				}
			}
		} else {
			vfReach("ended-after-stream-id-before-headers")
			vfAssert(mode != 0, "early cancel gets no stream")
			if mode == 2 {
				vfReach("headers-refused")
			}
		}
	}
	if id := r.cs.ID; id != 0 {
		vfAssert(id&1 == 1, "stream ID odd")
		vfAssert(id > l.lastID, "stream IDs strictly increasing")
		l.lastID = id
		vfObserve("id", uint64(id))
	}
}

// finish ends the oldest open request: peer END_STREAM (kind 0) or cancellation by the user (kind 1).
func (l *c17life) finish(kind int) {
	vfAssume(len(l.open) > 0)
	r := l.open[0]
	if kind == 0 {
		vfReach("peer-finished")
		if l.h.rl.streamByID(r.cs.ID, headerOrDataFrame) != r.cs { // as processHeaders/processData do for the frame carrying END_STREAM
			vfAssert(false, "open stream is known to the read loop")
		}
		l.h.rl.endStream(r.cs)
	} else {
		vfReach("cancelled-open")
		close(r.cancel)
	}
	h2cAwait(r.cs.donec, "request goroutine finishes after END_STREAM / cancel")
	l.open = l.open[1:] // its slot is free now (an unconfirmed reset may still be counted by the connection)
	l.wire()
}

func VerifC17_lifecycle() {
	h := h2cNewConn()
	cc := h.cc
	l := &c17life{h: h, pool: &clientConnPool{t: cc.t, conns: map[string][]*ClientConn{c17addr: {cc}}}}
	l.m = vfLen("limit", 1, 3)
	hl := vfU32("maxHeaderListSize")
	if err := h.rl.processSettingsNoWrite(h2cSettingsFrame(Setting{SettingMaxConcurrentStreams, uint32(l.m)}, Setting{SettingMaxHeaderListSize, hl})); err != nil {
		vfAssert(false, "initial SETTINGS accepted")
	}
	K := 3 + vfTier()
	for step := 0; step < K; step++ {
		switch vfChoice("op", 6) {
		case 0: // somebody reserves a slot for later use (net/http ClientConn API, or a pool caller that has not started yet)
			atLimit := l.inUse() >= l.m
			if cc.ReserveNewRequest() {
				vfReach("reserved")
				vfAssertKF(!atLimit, "no reservation on a connection at its limit", c17kfStolen, l.kfStolen)
				l.ext++
			} else {
				vfReach("reserve-refused")
			}
		case 1:
			l.request()
		case 2:
			l.finish(0)
		case 3:
			l.finish(1)
		case 4: // PING ACK: unconfirmed resets stop counting
			cc.mu.Lock()
			resets := cc.pendingResets
			cc.mu.Unlock()
			vfAssume(resets > 0)
			vfReach("ping-ack")
			h.rl.processPing(&PingFrame{FrameHeader: FrameHeader{valid: true, Type: FramePing, Flags: FlagPingAck}})
		case 5: // a later SETTINGS frame from the server
			l.settings()
		}
		l.check()
	}
	vfObserve("inUse", uint64(l.inUse()))
	vfReach("end")
}
