package http2

// C13 — the RFC 9218 scheduler respects urgency and serves every ready stream.
//
// Shape B. The C12 driver (zz_verif_c12_test.go: reference FIFOs, contract-respecting free-form histories,
// fresh symbolic stream windows before every Pop, all C12 oracles stay active) runs the real
// priorityWriteSchedulerRFC9218; this file adds a reference for the priorities (including the one-slot
// buffer for a PRIORITY_UPDATE that arrives before its stream is opened) and checks at every Pop that
// returns a stream frame of stream s with urgency u:
//   (1) no other stream with a smaller urgency value has a sendable head;
//   (2a) non-incremental: if the stream served last among the non-incremental streams of urgency u is still
//        sendable (and was not re-prioritised), a non-incremental Pop of urgency u serves it again;
//   (2b) incremental round robin: s does not overtake a continuously sendable incremental stream of the same
//        urgency twice (every such stream is served within n Pops of its class, n = streams in the class);
//   (2c) alternation: if both classes (incremental / non-incremental) of urgency u had something sendable
//        at the previous Pop of urgency u and have now, the other class is served this time
//        (bound = 2 Pops of that urgency for the first sendable stream of either class).
// VerifC13_history: histories from the initial state (OpenStream with/without buffered update, AdjustStream
// in every stream state, CloseStream, pushes, Pops). VerifC13_fair: three streams opened with chosen
// priorities and three frames each (one stream: 1-byte DATA, blocked or not at every Pop), then Pops mixed
// with AdjustStream / CloseStream. VerifC13_control: the same loaded state, then every sequence of control-frame
// pushes and Pops: Pops that hand out a control frame must not disturb any of (1)-(2c). VerifC13_parse: parseRFC9218Priority on a symbolic field value always yields a priority the
// scheduler can index with (u <= 7, i <= 1), and the scheduler accepts it.
//
// Sensitivity, confirmed with sh mut.sh (quick tier), writesched_priority_rfc9218.go:
//   Pop, non-incremental branch: `ws.heads[u][i] = q` -> `= q.next` (no stickiness)   -> VerifC13_fair: (2a) violated
//   Pop, incremental branch: `ws.heads[u][i] = q.next` -> `= q` (no round robin)       -> VerifC13_fair: (2b) violated
//   OpenStream: `if streamID == ws.priorityUpdateBuf.streamID` -> `if false` (buffered update ignored)
//                                                                                       -> VerifC13_history: violated
//   Pop: prioritizeIncremental toggle hoisted above the control-queue return (seed C13-C)  -> VerifC13_control: (2c) violated
//                                                                                       (plain violation: 0 counted toggles)

func init() {
	vfRegister("VerifC13_history", VerifC13_history)
	vfRegister("VerifC13_fair", VerifC13_fair)
	vfRegister("VerifC13_parse", VerifC13_parse)
	vfRegister("VerifC13_control", VerifC13_control)
}

const c13KeyToggle = "C13-rfc9218-toggle-parity"

type c13state struct {
	m      *c12model
	prio   []PriorityParam // reference priority of every opened stream
	bufID  int             // index of the stream with a buffered update, -1: none
	bufPri PriorityParam

	cur       [8]int   // (2a) non-incremental stream of urgency u served last, -1: none
	passed    [][]bool // (2b) passed[t][s]: s was served while t was sendable and waiting
	lastValid [8]bool  // (2c) a Pop of urgency u happened
	lastBoth  [8]bool  //      ... and both classes were sendable then
	lastClass [8]uint8 //      ... and this class was served
	toggles   [8]int   //      Pop calls that toggled prioritizeIncremental since then
	ctlSince  [8]bool  //      a Pop returned a control frame since then (reach marker only)
	seen      c13seen
}

type c13seen struct {
	buffered, preempt, sticky, roundRobin, alternate, bothTwice bool
	control, alternateAcrossControl                             bool
}

func c13attach(m *c12model) *c13state {
	c := &c13state{m: m, bufID: -1}
	c.prio = make([]PriorityParam, len(m.ss))
	c.passed = make([][]bool, len(m.ss))
	for i := range c.passed {
		c.passed[i] = make([]bool, len(m.ss))
	}
	for u := range c.cur {
		c.cur[u] = -1
	}
	m.onOp = c.onOp
	m.onPop = c.onPop
	return c
}

func (c *c13state) forget(i int) {
	for u := range c.cur {
		if c.cur[u] == i {
			c.cur[u] = -1
		}
	}
	for t := range c.passed {
		c.passed[i][t] = false
		c.passed[t][i] = false
	}
}

func (c *c13state) onOp(o c12op) {
	switch o.kind {
	case c12OpOpen:
		p := c.m.prios[o.arg]
		if c.bufID == o.s {
			// the buffered PRIORITY_UPDATE wins over the priority given at open
			p = c.bufPri
			c.bufID = -1
			c.seen.buffered = true
		}
		c.prio[o.s] = p
	case c12OpClose:
		c.forget(o.s)
	case c12OpAdjust:
		if c.m.ss[o.s].state == c12Open {
			c.prio[o.s] = c.m.prios[o.arg]
			c.forget(o.s) // re-prioritised: joins the end of its (new) ring
		} else {
			// idle or closed: only the most recent update is buffered
			c.bufID = o.s
			c.bufPri = c.m.prios[o.arg]
		}
	}
}

func c13sendable(p c12pre) bool {
	return vfAnd(p.queued, vfOr(!p.needsWin, p.win > 0))
}

func (c *c13state) onPop(si int, control bool, pre []c12pre) {
	m := c.m
	if control {
		// A Pop that hands out a control frame serves no stream: it must leave the fairness state of every
		// urgency alone (the statement bounds the wait of a sendable stream in Pops that serve its urgency, and
		// control frames - SETTINGS/PING acks, WINDOW_UPDATE, RST_STREAM - are written between DATA frames all the
		// time). It is therefore NOT counted in toggles: if a control frame between two Pops of an urgency makes
		// the same class come out twice, (2c) below fails as a plain violation, outside the known finding.
		c.seen.control = true
		for v := range c.ctlSince {
			c.ctlSince[v] = true
		}
		return
	}
	if si < 0 {
		for u := range c.toggles {
			c.toggles[u]++
		}
		return
	}
	u, inc := c.prio[si].urgency, c.prio[si].incremental
	// (1) urgency order
	for t := range pre {
		if t != si && pre[t].queued && c.prio[t].urgency < u {
			// (the scheduler looked at t first, so its window is decided on this path: no case split)
			m.assert(!vfConcretizeBool(c13sendable(pre[t])), "stream frame comes out while a stream with a smaller urgency value has a sendable frame")
			c.seen.preempt = true
		}
	}
	// sendable streams of the same urgency (case split: the fairness bookkeeping below is concrete)
	sb := make([]bool, len(pre))
	var have [2]bool
	have[inc] = true
	for t := range pre {
		if t == si {
			sb[t] = true
			continue
		}
		if pre[t].queued && c.prio[t].urgency == u {
			sb[t] = vfConcretizeBool(c13sendable(pre[t]))
			if sb[t] {
				have[c.prio[t].incremental] = true
			}
		}
	}
	if inc == 0 {
		// (2a) a non-incremental stream is served until it has nothing sendable
		if cur := c.cur[u]; cur >= 0 && cur != si {
			m.assert(!sb[cur], "non-incremental stream loses its turn to another non-incremental stream of the same urgency although it is still sendable")
		}
		if c.cur[u] == si {
			c.seen.sticky = true
		}
		c.cur[u] = si
	} else {
		// (2b) round robin among the incremental streams of this urgency
		for t := range pre {
			if t == si || !pre[t].queued || c.prio[t].urgency != u || c.prio[t].incremental != 1 {
				continue
			}
			if !sb[t] {
				for x := range c.passed[t] {
					c.passed[t][x] = false // not sendable when it could have been its turn: starts waiting afresh
				}
				continue
			}
			m.assert(!c.passed[t][si], "incremental stream overtaken twice by the same stream of its urgency while sendable (round robin broken)")
			c.passed[t][si] = true
			c.seen.roundRobin = true
		}
		for x := range c.passed[si] {
			c.passed[si][x] = false
		}
	}
	// (2c) the two classes of one urgency alternate
	both := have[0] && have[1]
	if both && c.lastValid[u] && c.lastBoth[u] {
		c.seen.bothTwice = true
		// The implementation toggles one global flag on every Pop call that gets past the control queue, also
		// when that Pop serves another urgency or returns nothing. With an odd number of such calls in
		// between, the same class is preferred again: known finding C13-rfc9218-toggle-parity.
		vfAssertKF(inc != c.lastClass[u], "both classes of one urgency sendable at two successive Pops of that urgency: the same class is served twice (the other class can starve)",
			c13KeyToggle, c.toggles[u]%2 == 1)
		c.seen.alternate = true
		if c.ctlSince[u] {
			c.seen.alternateAcrossControl = true
		}
	}
	c.ctlSince[u] = false
	c.lastValid[u], c.lastBoth[u], c.lastClass[u] = true, both, inc
	for v := range c.toggles {
		c.toggles[v]++
	}
	c.toggles[u] = 0
}

func (c *c13state) reach() {
	if c.seen.preempt {
		vfReach("lower-urgency-value-first")
	}
	if c.seen.sticky {
		vfReach("non-incremental-served-again")
	}
	if c.seen.roundRobin {
		vfReach("incremental-round-robin")
	}
	if c.seen.alternate {
		vfReach("classes-alternate")
	}
}

func c13prios() []PriorityParam {
	if vfTier() > 0 {
		return []PriorityParam{{urgency: 3, incremental: 0}, {urgency: 3, incremental: 1}, {urgency: 0, incremental: 1}, {urgency: 7, incremental: 0}}
	}
	return []PriorityParam{{urgency: 3, incremental: 0}, {urgency: 3, incremental: 1}, {urgency: 1, incremental: 1}}
}

// histories from the initial state
func VerifC13_history() {
	// two priorities that differ in urgency and class: {u=3 i=0, u=1 i=1} (thorough adds u=3 i=1)
	cfg := c12cfg{kind: c12RFC9218, nstreams: 3, k: 5, dataLens: []int{1}, adjust: 1, maxClose: 1, inOrder: true, det: true,
		noCtl: true, noHdr: true, boolWin: true, prios: []PriorityParam{{urgency: 3, incremental: 0}, {urgency: 1, incremental: 1}}}
	if vfTier() > 0 {
		cfg.prios = append(cfg.prios, PriorityParam{urgency: 3, incremental: 1})
	}
	m := c12new(cfg, newPriorityWriteSchedulerRFC9218())
	c := c13attach(m)
	for step := 0; step < m.k; step++ {
		ops := m.enabled()
		m.do(ops[vfChoice("op", len(ops))])
	}
	m.drain()
	if c.seen.buffered {
		vfReach("priority-update-before-open")
	}
	if c.seen.preempt {
		vfReach("lower-urgency-value-first")
	}
	m.reachPops()
	m.reachCommon()
}

// fairness from a loaded state: 3 open streams with chosen priorities, 3 frames each
func VerifC13_fair() {
	cfg := c12cfg{kind: c12RFC9218, nstreams: 3, k: 5, dataLens: nil, adjust: 1, maxClose: vfTier(), inOrder: true, det: true,
		noCtl: true, noHdr: true, boolWin: true, oneReorg: true, prios: c13prios()}
	m := c12new(cfg, newPriorityWriteSchedulerRFC9218())
	c := c13attach(m)
	// Streams are interchangeable and streams of different classes live in different rings, so only the
	// multiset of priorities matters: they are chosen in non-decreasing order of their index in prios.
	p := 0
	for i := range m.ss {
		p += vfChoice("prio", len(m.prios)-p)
		m.do(c12op{c12OpOpen, i, p})
	}
	// One stream (any of the three) has 1-byte DATA frames, i.e. is sendable or not at every Pop as its window
	// says; the other two have frames that need no window (HEADERS-like / empty DATA) and are always sendable.
	blockable := vfChoice("blockable-stream", len(m.ss))
	for i := range m.ss {
		for j := 0; j < 3; j++ {
			if i == blockable {
				m.do(c12op{c12OpData, i, 1})
			} else {
				m.do(c12op{c12OpHdr, i, 0})
			}
		}
	}
	for step := 0; step < m.k; step++ {
		ops := m.enabled()
		m.do(ops[vfChoice("op", len(ops))])
	}
	m.drain()
	c.reach()
	m.reachPops()
	vfReach("end")
}

// Control frames between the stream frames: 3 loaded streams as in VerifC13_fair, then every sequence of
// {Push(control frame or RST_STREAM), Pop}. A Pop that returns a control frame serves no stream, so all the
// oracles above must hold across it unchanged: urgency order, stickiness of the non-incremental stream, round
// robin, and the alternation of the two classes of one urgency (a WINDOW_UPDATE or a PING ack written between
// two DATA frames must not decide which class is served next).
func VerifC13_control() {
	cfg := c12cfg{kind: c12RFC9218, nstreams: 3, k: c12k(6, 8), dataLens: nil, adjust: 0, maxClose: 0, inOrder: true, det: true,
		noCtl: false, noHdr: true, boolWin: true, prios: c13prios()}
	m := c12new(cfg, newPriorityWriteSchedulerRFC9218())
	c := c13attach(m)
	p := 0
	for i := range m.ss {
		p += vfChoice("prio", len(m.prios)-p) // multiset of priorities, see VerifC13_fair
		m.do(c12op{c12OpOpen, i, p})
	}
	// blockable == len(ss): every stream is always sendable
	blockable := vfChoice("blockable-stream", len(m.ss)+1)
	for i := range m.ss {
		for j := 0; j < 3; j++ {
			if i == blockable {
				m.do(c12op{c12OpData, i, 1})
			} else {
				m.do(c12op{c12OpHdr, i, 0})
			}
		}
	}
	for step := 0; step < m.k; step++ {
		ops := m.enabled() // {Push(control), Pop}: all streams are open, nothing else is offered
		m.do(ops[vfChoice("op", len(ops))])
	}
	m.drain()
	c.reach()
	if c.seen.control {
		vfReach("pop-control")
	}
	if c.seen.alternateAcrossControl {
		vfReach("classes-alternate-across-control-frame")
	}
	m.reachPops()
	vfReach("end")
}

// parseRFC9218Priority (PRIORITY_UPDATE field value / priority header as the server parses it) always yields
// a priority the scheduler can use.
func VerifC13_parse() {
	n := vfLen("len", 0, c12k(5, 6))
	s := vfString("priority-field", n)
	canUseDefault := vfBool("can-use-default")
	p, ok := parseRFC9218Priority(s, canUseDefault)
	vfAssert(vfAnd(p.urgency <= 7, p.incremental <= 1), "parsed priority within the scheduler's table")
	def := defaultRFC9218Priority(canUseDefault)
	if !ok {
		vfAssert(vfAnd(p.urgency == def.urgency, p.incremental == def.incremental), "unparsable field value gives the default priority")
		vfReach("parse-failed")
	} else {
		vfReach("parsed")
	}
	u, inc := uint8(vfConcretize(uint64(p.urgency))), uint8(vfConcretize(uint64(p.incremental)))
	if u != def.urgency {
		vfReach("urgency-from-field")
	}
	if inc != def.incremental {
		vfReach("incremental-from-field")
	}
	vfObserve("urgency", uint64(u))
	vfObserve("incremental", uint64(inc))
	// the scheduler accepts it both ways: buffered before open, and on an open stream
	ws := newPriorityWriteSchedulerRFC9218()
	pp := PriorityParam{urgency: u, incremental: inc}
	ws.AdjustStream(1, pp)
	ws.OpenStream(1, OpenStreamOptions{})
	ws.OpenStream(3, OpenStreamOptions{priority: defaultRFC9218Priority(true)})
	ws.AdjustStream(3, pp)
	st1, st3 := &stream{id: 1}, &stream{id: 3}
	ws.Push(FrameWriteRequest{write: c12hdr{1}, stream: st1})
	ws.Push(FrameWriteRequest{write: c12hdr{3}, stream: st3})
	wr, ok1 := ws.Pop()
	vfAssert(ok1 && wr.stream == st1, "streams of equal priority are served in the order they joined the class")
	wr, ok1 = ws.Pop()
	vfAssert(ok1 && wr.stream == st3, "second stream served")
	_, ok1 = ws.Pop()
	vfAssert(!ok1, "nothing left")
	vfReach("end")
}
