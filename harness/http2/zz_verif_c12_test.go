package http2

// C12 — HTTP/2 write schedulers deliver every queued frame exactly once, in order.
//
// Shape B (bounded run from the real initial state). One driver (c12run) is instantiated for the four
// scheduler implementations. A history of K contract-respecting operations is chosen with vfChoice among
// the operations that the WriteScheduler contract permits in the current (reference) state:
//   OpenStream(id) for an idle id, CloseStream(id) for an open id (also while frames are queued),
//   AdjustStream(id, prio) for any id (idle, open, closed, and one id that is never opened),
//   Push(control frame / RST_STREAM with stream==nil), Push(HEADERS-like non-DATA frame of an open stream),
//   Push(DATA of an open stream, concrete length, symbolic END_STREAM), Pop.
// Before every Pop every stream's flow-control window gets a fresh symbolic value (<= 16384): the scheduler
// keeps no window state, so this is "arbitrary window changes between any two operations". The connection
// window and the peer's max frame size are never the binding limit in the histories; their interplay is
// covered for arbitrary values by VerifC12_consume (shape I, one writeQueue.consume call).
// After the K operations the windows are opened and the scheduler is drained.
// Reference model: one FIFO per stream (dropped on CloseStream) and one FIFO of control frames.
//
// Sensitivity, confirmed with sh mut.sh (quick tier):
//   writesched.go shift: swap without resetting currPos (`q.nextQueue, q.currPos, q.currQueue[:0]`)
//     -> caught by every history harness (Pop panics / control frames out of order / frames not popped)
//   writesched_roundrobin.go CloseStream: drop `if ws.head == q { ws.head = q.next }`
//     -> caught (Pop walks the ring from the pooled queue and never terminates: BOUND-HIT endless loop, exit 2)
//   writesched_priority_rfc9218.go CloseStream: pool the queue without unlinking it from its ring -> caught (exit 2/1)
//   writesched_random.go Pop: `if q.empty()` -> `if true` (queue dropped after every Pop) -> VIOLATION, replayed natively
//   (writesched_priority_rfc9218.go CloseStream without queuePool.put is an equivalent mutant: not caught, as expected)

func init() {
	vfRegister("VerifC12_consume", VerifC12_consume)
	vfRegister("VerifC12_random", VerifC12_random)
	vfRegister("VerifC12_roundrobin", VerifC12_roundrobin)
	vfRegister("VerifC12_rfc9218", VerifC12_rfc9218)
	vfRegister("VerifC12_rfc7540", VerifC12_rfc7540)
	vfRegister("VerifC12_rfc7540tree", VerifC12_rfc7540tree)
	vfRegister("VerifC12_rfc7540walk", VerifC12_rfc7540walk)
}

const (
	c12Random = iota
	c12RoundRobin
	c12RFC9218
	c12RFC7540
)

const (
	c12KeyClose = "C12-rfc7540-closestream"
	c12KeyIdle  = "C12-rfc7540-idle-open-evicted"
)

// c12hdr is a HEADERS-like (non-DATA) frame of a stream; c12ctl is a control frame.
type c12hdr struct{ tag int }

func (c12hdr) writeFrame(writeContext) error { return nil }
func (c12hdr) staysWithinBuffer(int) bool    { return true }

type c12ctl struct{ tag int }

func (c12ctl) writeFrame(writeContext) error { return nil }
func (c12ctl) staysWithinBuffer(int) bool    { return true }

type c12item struct {
	tag  int
	data bool
	p    []byte // bytes not yet popped (concrete, unique)
	end  bool   // END_STREAM of the pushed DATA frame (symbolic)
}

const (
	c12Idle = iota
	c12Open
	c12Closed
)

type c12stream struct {
	id        uint32
	st        *stream
	state     int
	q         []c12item
	pushed    int // DATA bytes pushed while open
	delivered int // DATA bytes popped
	dropped   int // DATA bytes dropped by CloseStream
}

type c12cfg struct {
	kind     int
	nstreams int   // streams that can be opened: ids 1,3,5
	k        int   // history length
	dataLens []int // concrete DATA lengths offered
	adjust   int   // max number of AdjustStream calls in a history
	maxClose int   // max number of CloseStream calls in a history (-1: unlimited)
	inOrder  bool  // streams are opened in increasing id order
	det      bool  // Pop order is deterministic natively (false for the random scheduler)
	noCtl    bool  // no control-frame pushes
	noHdr    bool  // no non-DATA stream frames
	boolWin  bool  // stream windows are open (16384) or closed (0) only (C13: 1-byte DATA frames)
	oneReorg bool  // at most one AdjustStream or CloseStream per history
	weights  []uint8
	prios    []PriorityParam // RFC 9218 priorities offered
}

type c12model struct {
	c12cfg
	ws      WriteScheduler
	sc      *serverConn
	conn    outflow
	ss      []*c12stream
	ctl     []int // tags of queued control frames
	nextTag int
	nadjust int
	nclose  int
	npop    int
	seen    c12seen

	taintClose, taintIdle bool // RFC 7540 only: see taint

	// hooks for the C13 oracle (RFC 9218 priorities), see zz_verif_c13_test.go
	onOp  func(o c12op)
	onPop func(si int, control bool, pre []c12pre)
}

// c12pre is the reference's view of one stream just before a Pop.
type c12pre struct {
	queued   bool  // open and something queued
	needsWin bool  // head is a non-empty DATA frame
	win      int64 // stream window
}

func (m *c12model) prePop() []c12pre {
	pre := make([]c12pre, len(m.ss))
	for i, s := range m.ss {
		if s.state == c12Open && len(s.q) > 0 {
			pre[i] = c12pre{queued: true, needsWin: s.q[0].data && len(s.q[0].p) > 0, win: int64(s.st.flow.n)}
		}
	}
	return pre
}

// c12seen collects the interesting cases met on a path; the entry points turn them into vfReach markers
// (only those that make sense for the configuration, so that the vacuity check stays meaningful).
type c12seen struct {
	closeQueued, adjust, popNothing, popControl, popHeaders, popEmptyData, popWhole, popSplit bool
}

const (
	c12OpOpen = iota
	c12OpClose
	c12OpAdjust
	c12OpCtl
	c12OpHdr
	c12OpData
	c12OpPop
)

type c12op struct{ kind, s, arg int }

func c12new(cfg c12cfg, ws WriteScheduler) *c12model {
	m := &c12model{c12cfg: cfg, ws: ws}
	m.sc = &serverConn{maxFrameSize: 16384}
	for i := 0; i < cfg.nstreams; i++ {
		id := uint32(2*i + 1)
		st := &stream{id: id, sc: m.sc}
		st.flow.conn = &m.conn
		m.ss = append(m.ss, &c12stream{id: id, st: st})
	}
	return m
}

// assert is vfAssert, except for the RFC 7540 scheduler where the two known findings are matched by an exact
// description of the corrupted scheduler state (read from the real scheduler) so that every other violation
// is still reported.
func (m *c12model) assert(c bool, label string) {
	if m.kind != c12RFC7540 {
		vfAssert(c, label)
		return
	}
	m.taint()
	if m.taintIdle {
		vfAssertKF(c, label, c12KeyIdle, true)
		return
	}
	vfAssertKF(c, label, c12KeyClose, m.taintClose)
}

// taint records (sticky) whether the real RFC 7540 scheduler has entered one of the two known corrupted
// states. It is called before and after every scheduler call: Pop itself consumes the stale queue.
func (m *c12model) taint() {
	if m.kind != c12RFC7540 {
		return
	}
	if m.staleClosed() {
		m.taintClose = true
	}
	if m.evictedOpen() {
		m.taintIdle = true
	}
}

// staleClosed: a closed stream's node is retained in the tree with a non-empty queue.
func (m *c12model) staleClosed() bool {
	ws := m.ws.(*priorityWriteSchedulerRFC7540)
	for _, s := range m.ss {
		if s.state == c12Closed {
			if n := ws.nodes[s.id]; n != nil && !n.q.empty() {
				return true
			}
		}
	}
	return false
}

// evictedOpen: a stream that is open has no node in the tree any more.
func (m *c12model) evictedOpen() bool {
	ws := m.ws.(*priorityWriteSchedulerRFC7540)
	for _, s := range m.ss {
		if s.state == c12Open && ws.nodes[s.id] == nil {
			return true
		}
	}
	return false
}

func (m *c12model) enabled() []c12op {
	var ops []c12op
	highest := -1
	for i, s := range m.ss {
		if s.state != c12Idle {
			highest = i
		}
	}
	for i, s := range m.ss {
		switch s.state {
		case c12Idle:
			if !m.inOrder || i > highest {
				if m.kind == c12RFC9218 {
					for p := range m.prios {
						ops = append(ops, c12op{c12OpOpen, i, p})
					}
				} else {
					ops = append(ops, c12op{c12OpOpen, i, 0})
				}
			}
		case c12Open:
			if (m.maxClose < 0 || m.nclose < m.maxClose) && !(m.oneReorg && m.nadjust+m.nclose > 0) {
				ops = append(ops, c12op{c12OpClose, i, 0})
			}
			if !m.noHdr {
				ops = append(ops, c12op{c12OpHdr, i, 0})
			}
			for _, l := range m.dataLens {
				ops = append(ops, c12op{c12OpData, i, l})
			}
		}
	}
	if m.nadjust < m.adjust && !(m.oneReorg && m.nadjust+m.nclose > 0) {
		switch m.kind {
		case c12Random, c12RoundRobin:
			ops = append(ops, c12op{c12OpAdjust, 0, 0})
		case c12RFC9218:
			for i := range m.ss {
				for p := range m.prios {
					ops = append(ops, c12op{c12OpAdjust, i, p})
				}
			}
		case c12RFC7540:
			for i := 0; i <= len(m.ss); i++ { // index len(ss) = id that is never opened
				ops = append(ops, c12op{c12OpAdjust, i, 0})
			}
		}
	}
	if !m.noCtl {
		ops = append(ops, c12op{c12OpCtl, 0, 0})
	}
	ops = append(ops, c12op{c12OpPop, 0, 0})
	return ops
}

func (m *c12model) do(o c12op) {
	if m.onOp != nil {
		m.onOp(o)
	}
	switch o.kind {
	case c12OpOpen:
		s := m.ss[o.s]
		var opt OpenStreamOptions
		if m.kind == c12RFC9218 {
			opt.priority = m.prios[o.arg]
		}
		p := vfExpectPanic(func() { m.ws.OpenStream(s.id, opt) })
		m.assert(!p, "OpenStream of an idle stream must not panic")
		s.state = c12Open
	case c12OpClose:
		s := m.ss[o.s]
		if len(s.q) > 0 {
			m.seen.closeQueued = true
		}
		p := vfExpectPanic(func() { m.ws.CloseStream(s.id) })
		m.assert(!p, "CloseStream of an open stream must not panic")
		s.state = c12Closed
		for _, it := range s.q {
			s.dropped += len(it.p)
		}
		s.q = nil
		m.nclose++
	case c12OpAdjust:
		m.nadjust++
		var id uint32
		var pp PriorityParam
		switch m.kind {
		case c12Random, c12RoundRobin:
			id = vfU32("adjust-id")
			vfAssume(id != 0)
			pp = PriorityParam{StreamDep: vfU32("dep"), Exclusive: vfBool("excl"), Weight: vfU8("weight"), urgency: vfU8("u") & 7, incremental: vfU8("i") & 1}
		case c12RFC9218:
			id = m.ss[o.s].id
			pp = m.prios[o.arg]
		case c12RFC7540:
			id = uint32(2*o.s + 1)
			dep := uint32(0)
			if d := vfChoice("dep", len(m.ss)+1); d > 0 { // 0 or one of the other ids (incl. the never-opened one)
				dep = uint32(2*((o.s+d)%(len(m.ss)+1)) + 1)
			}
			pp = PriorityParam{StreamDep: dep, Exclusive: vfBool("excl"), Weight: m.weights[vfChoice("weight", len(m.weights))]}

		}
		p := vfExpectPanic(func() { m.ws.AdjustStream(id, pp) })
		m.assert(!p, "AdjustStream must not panic")
		m.seen.adjust = true
	case c12OpCtl:
		m.nextTag++
		var wr FrameWriteRequest
		if m.nextTag%4 < 2 {
			wr = FrameWriteRequest{write: c12ctl{m.nextTag}}
		} else {
			// RST_STREAM as queued by serverConn.resetStream: no stream pointer; any stream state
			wr = FrameWriteRequest{write: StreamError{StreamID: uint32(m.nextTag), Code: ErrCodeCancel}}
		}
		p := vfExpectPanic(func() { m.ws.Push(wr) })
		m.assert(!p, "Push(control) must not panic")
		m.ctl = append(m.ctl, m.nextTag)
	case c12OpHdr:
		// a stream frame that needs no flow control: HEADERS-like, or (every second push) an empty DATA frame
		s := m.ss[o.s]
		m.nextTag++
		it := c12item{tag: m.nextTag}
		wr := FrameWriteRequest{write: c12hdr{m.nextTag}, stream: s.st}
		if m.nextTag%2 == 0 {
			it.data, it.end = true, m.nextTag%4 == 0
			if !m.boolWin {
				it.end = vfBool("endstream")
			}
			wr.write = &writeData{streamID: s.id, endStream: it.end}
		}
		p := vfExpectPanic(func() { m.ws.Push(wr) })
		m.assert(!p, "Push(HEADERS / empty DATA) on an open stream must not panic")
		s.q = append(s.q, it)
	case c12OpData:
		s := m.ss[o.s]
		m.nextTag++
		b := make([]byte, o.arg)
		for i := range b {
			b[i] = byte(m.nextTag*16 + i)
		}
		end := m.nextTag%2 == 0
		if !m.boolWin {
			end = vfBool("endstream")
		}
		wr := FrameWriteRequest{write: &writeData{streamID: s.id, p: b, endStream: end}, stream: s.st}
		p := vfExpectPanic(func() { m.ws.Push(wr) })
		m.assert(!p, "Push(DATA) on an open stream must not panic")
		s.q = append(s.q, c12item{tag: m.nextTag, data: true, p: b, end: end})
		s.pushed += len(b)
	case c12OpPop:
		// arbitrary stream flow-control state; connection window and max frame size are never the binding
		// limit here (their interplay is VerifC12_consume's job)
		m.conn.n = 1 << 30
		m.sc.maxFrameSize = 16384
		for _, s := range m.ss {
			if m.boolWin {
				s.st.flow.n = int32(vfIteI64(vfBool("stream-window-open"), 16384, 0))
				continue
			}
			w := vfI32("stream-window")
			vfAssume(w <= 16384)
			s.st.flow.n = w
		}
		m.pop()
	}
}

func c12min(a, b int64) int64 { return vfIteI64(a < b, a, b) }

// pop runs one Pop and compares it with the reference. It returns false when nothing was returned.
func (m *c12model) pop() bool {
	pre := m.prePop()
	si, control := m.popInner()
	if m.onPop != nil {
		m.onPop(si, control, pre)
	}
	return si >= 0 || control
}

// popInner returns the index of the stream whose frame came out (-1: none) and whether a control frame came out.
func (m *c12model) popInner() (int, bool) {
	connWin := int64(m.conn.n)
	mfs := int64(m.sc.maxFrameSize)
	wins := make([]int64, len(m.ss))
	for i, s := range m.ss {
		wins[i] = int64(s.st.flow.n)
	}
	m.npop++
	m.taint()
	var wr FrameWriteRequest
	var ok bool
	p := vfExpectPanic(func() { wr, ok = m.ws.Pop() })
	m.assert(!p, "Pop must not panic")
	if !ok {
		// work conservation: nothing is sendable
		m.assert(len(m.ctl) == 0, "Pop reports nothing while a control frame is queued")
		for i, s := range m.ss {
			if s.state != c12Open || len(s.q) == 0 {
				continue
			}
			h := s.q[0]
			if !h.data || len(h.p) == 0 {
				m.assert(false, "Pop reports nothing while a frame that needs no flow control is queued")
				continue
			}
			win := wins[i]
			if m.boolWin {
				win = int64(vfConcretize(uint64(win))) // decided on this path if the scheduler looked at the stream
			}
			m.assert(c12min(c12min(win, connWin), mfs) <= 0, "Pop reports nothing while a DATA frame is sendable under its window")
		}
		m.seen.popNothing = true
		return -1, false
	}
	m.assert(wr.write != nil, "Pop never returns an empty request")
	if len(m.ctl) > 0 {
		// control frames come out before stream frames, in order
		m.assert(wr.stream == nil, "control frames come out before stream frames")
		tag := -1
		switch w := wr.write.(type) {
		case c12ctl:
			tag = w.tag
		case StreamError:
			tag = int(w.StreamID)
		}
		m.assert(tag == m.ctl[0], "control frames come out in the order pushed")
		m.ctl = m.ctl[1:]
		m.seen.popControl = true
		return -1, true
	}
	m.assert(wr.stream != nil, "a control frame that was never pushed (or pushed once) comes out")
	si := -1
	for i, s := range m.ss {
		if s.st == wr.stream {
			si = i
		}
	}
	m.assert(si >= 0, "popped frame belongs to a known stream")
	s := m.ss[si]
	m.assert(s.state == c12Open, "frame of a stream that is not open comes out")
	m.assert(len(s.q) > 0, "frame comes out although everything pushed on its stream was already delivered (duplicate)")
	h := &s.q[0]
	if !h.data {
		w, isHdr := wr.write.(c12hdr)
		m.assert(isHdr, "head of the stream is a non-DATA frame but something else comes out")
		m.assert(w.tag == h.tag, "frames of a stream come out in the order pushed")
		s.q = s.q[1:]
		m.seen.popHeaders = true
		return si, false
	}
	wd, isData := wr.write.(*writeData)
	m.assert(isData, "head of the stream is a DATA frame but something else comes out")
	m.assert(wd.streamID == s.id, "DATA piece keeps its stream id")
	r := len(h.p)
	n := len(wd.p)
	m.assert(n <= r, "DATA piece is longer than what is left of the frame")
	for i := 0; i < n; i++ {
		m.assert(wd.p[i] == h.p[i], "DATA bytes come out in order, none lost or repeated")
	}
	if r == 0 {
		// empty DATA frames need no window
		m.assert(wd.endStream == h.end, "END_STREAM of an empty DATA frame is preserved")
		s.q = s.q[1:]
		m.seen.popEmptyData = true
		return si, false
	}
	win := wins[si]
	if m.boolWin {
		// the window (open or closed) of the stream that was served is decided on this path: use its value,
		// which makes the next assertion concrete (no solver call)
		win = int64(vfConcretize(uint64(win)))
	}
	allowed := c12min(c12min(win, connWin), mfs)
	m.assert(vfAnd(allowed > 0, int64(n) == c12min(allowed, int64(r))), "DATA piece is min(window, max frame size, remaining) bytes and needs an open window")
	m.assert(wd.endStream == vfAnd(n == r, h.end), "END_STREAM only on the last piece")
	charged := vfAnd(int64(s.st.flow.n) == wins[si]-int64(n), int64(m.conn.n) == connWin-int64(n))
	if m.boolWin {
		charged = int64(vfConcretize(uint64(int64(s.st.flow.n)))) == win-int64(n) && int64(m.conn.n) == connWin-int64(n)
	}
	for i, o := range m.ss {
		if i != si {
			charged = vfAnd(charged, int64(o.st.flow.n) == wins[i])
		}
	}
	m.assert(charged, "stream and connection windows charged with the piece size, other streams untouched")
	s.delivered += n
	if n == r {
		s.q = s.q[1:]
		m.seen.popWhole = true
	} else {
		h.p = h.p[n:]
		m.seen.popSplit = true
	}
	return si, false
}

// drain opens all windows and pops until the scheduler reports nothing; everything that is still queued in
// the reference must come out (exactly once: pop() flags anything that is not the head of its FIFO).
func (m *c12model) drain() {
	queued := len(m.ctl)
	for _, s := range m.ss {
		queued += len(s.q)
	}
	m.conn.n = 1 << 30
	m.sc.maxFrameSize = 16384
	for _, s := range m.ss {
		s.st.flow.n = 16384
	}
	for i := 0; i <= queued; i++ {
		if !m.pop() {
			break
		}
	}
	m.assert(len(m.ctl) == 0, "control frame lost")
	total := 0
	for _, s := range m.ss {
		m.assert(len(s.q) == 0, "stream frame lost")
		m.assert(s.delivered+s.dropped == s.pushed, "DATA bytes delivered + dropped by CloseStream == pushed")
		total += s.delivered
	}
	vfObserve("delivered-bytes", uint64(total))
	vfObserve("tags", uint64(m.nextTag))
}

func c12run(cfg c12cfg, ws WriteScheduler) *c12model {
	m := c12new(cfg, ws)
	for step := 0; step < m.k; step++ {
		ops := m.enabled()
		m.do(ops[vfChoice("op", len(ops))])
	}
	m.drain()
	return m
}

func (m *c12model) reachCloseQueued() {
	if m.seen.closeQueued {
		vfReach("close-with-queued-frames")
	}
}

func (m *c12model) reachCommon() {
	if m.seen.adjust {
		vfReach("adjust")
	}
	vfReach("end")
}

// reachPops is used by the schedulers whose Pop order is the same natively (not the random one: Go's map
// iteration order cannot be replayed, so its markers and observations must not depend on the order).
func (m *c12model) reachPops() {
	if m.seen.popNothing {
		vfReach("pop-nothing")
	}
	if m.seen.popWhole {
		vfReach("pop-data-whole")
	}
	vfObserve("pops", uint64(m.npop))
}

func (m *c12model) reachSplit() {
	if m.seen.popSplit {
		vfReach("pop-data-split")
	}
}

func (m *c12model) reachPopsAllKinds() {
	if m.seen.popControl {
		vfReach("pop-control")
	}
	if m.seen.popHeaders {
		vfReach("pop-headers")
	}
	if m.seen.popEmptyData {
		vfReach("pop-empty-data")
	}
}

func c12lens() []int {
	if vfTier() > 0 {
		return []int{3}
	}
	return []int{2}
}

func c12k(quick, thorough int) int {
	if vfTier() > 0 {
		return thorough
	}
	return quick
}

func VerifC12_random() {
	cfg := c12cfg{kind: c12Random, nstreams: 3, k: c12k(5, 6), dataLens: c12lens(), adjust: 1, maxClose: -1, inOrder: true, det: false}
	m := c12run(cfg, NewRandomWriteScheduler())
	m.reachCloseQueued()
	m.reachCommon()
}

func VerifC12_roundrobin() {
	cfg := c12cfg{kind: c12RoundRobin, nstreams: 3, k: c12k(5, 6), dataLens: c12lens(), adjust: 1, maxClose: -1, inOrder: true, det: true}
	m := c12run(cfg, newRoundRobinWriteScheduler())
	m.reachPops()
	m.reachSplit()
	m.reachPopsAllKinds()
	m.reachCloseQueued()
	m.reachCommon()
}

func VerifC12_rfc9218() {
	cfg := c12cfg{kind: c12RFC9218, nstreams: 3, k: c12k(4, 5), dataLens: c12lens(), adjust: 1, maxClose: -1, inOrder: true, det: true,
		prios: []PriorityParam{{urgency: 3, incremental: 0}, {urgency: 3, incremental: 1}, {urgency: 1, incremental: 1}}}
	m := c12run(cfg, newPriorityWriteSchedulerRFC9218())
	m.reachPops()
	m.reachSplit()
	m.reachPopsAllKinds()
	m.reachCloseQueued()
	m.reachCommon()
}

var c12cfgs7540 = []*PriorityWriteSchedulerConfig{
	nil, // the default: 10 closed + 10 idle nodes retained, no throttling
	{},  // nothing retained
	{MaxClosedNodesInTree: 1, MaxIdleNodesInTree: 1, ThrottleOutOfOrderWrites: true},
}

func c12sched7540() WriteScheduler {
	return NewPriorityWriteScheduler(c12cfgs7540[vfChoice("cfg", 3)])
}

// queue / pool / closed-node mechanics of the RFC 7540 scheduler on a flat tree (no AdjustStream)
func VerifC12_rfc7540() {
	cfg := c12cfg{kind: c12RFC7540, nstreams: 3, k: c12k(5, 6), dataLens: c12lens(), adjust: 0, maxClose: -1, inOrder: true, det: true}
	m := c12run(cfg, c12sched7540())
	m.reachPops()
	m.reachSplit()
	m.reachPopsAllKinds()
	m.reachCloseQueued()
	vfReach("end")
}

// priority-tree mechanics of the RFC 7540 scheduler: AdjustStream on idle/open/closed/never-opened ids,
// DATA frames only
func VerifC12_rfc7540tree() {
	cfg := c12cfg{kind: c12RFC7540, nstreams: 2, k: c12k(4, 5), dataLens: []int{2}, adjust: 2, maxClose: 1, inOrder: true, det: true,
		noCtl: true, noHdr: true, weights: []uint8{200}}
	m := c12run(cfg, c12sched7540())
	m.reachPops()
	m.reachSplit()
	m.reachCloseQueued()
	m.reachCommon()
}

// c12needSort mirrors walkReadyInOrder's test for its "uncommon case": the kids of n do not all have the same weight.
func c12needSort(n *priorityNodeRFC7540) bool {
	if n.kids == nil {
		return false
	}
	for k := n.kids.next; k != nil; k = k.next {
		if k.weight != n.kids.weight {
			return true
		}
	}
	return false
}

// Priority-tree WALK of the RFC 7540 scheduler (shape B): every priority forest over 4 streams is built through
// the real API (stream i depends on the root or on any earlier stream; every weight is the default or 200, so
// that siblings with equal and with different weights occur at every level, including nested sorted levels
// that share the scheduler's scratch slice); every stream is open with nothing queued, open with one DATA
// frame queued, or (thorough) an idle grouping node. Then one Pop where every stream window is open or closed
// (symbolic) and a full drain: work conservation ("Pop reports a frame whenever some queued frame is
// sendable") and exactly-once delivery must hold for every tree shape, wherever the sendable frame sits.
// Confirmed with seeded change C12-B (final loop of walkReadyInOrder ranging over the shared scratch slice).
func VerifC12_rfc7540walk() {
	n := 4
	var pc *PriorityWriteSchedulerConfig
	kinds := 2 // open without frames, open with a DATA frame
	if vfTier() > 0 {
		pc = c12cfgs7540[2*vfChoice("cfg", 2)] // default, or small retention + write throttling
		kinds = 3                              // + idle grouping node (created by AdjustStream, never opened)
	}
	cfg := c12cfg{kind: c12RFC7540, nstreams: n, k: 0, dataLens: []int{2}, inOrder: true, det: true,
		noCtl: true, noHdr: true, boolWin: true, weights: []uint8{priorityDefaultWeightRFC7540, 200}}
	m := c12new(cfg, NewPriorityWriteScheduler(pc))
	ws := m.ws.(*priorityWriteSchedulerRFC7540)
	for i := 0; i < n; i++ {
		s := m.ss[i]
		kind := vfChoice("node-kind", kinds)
		if kind != 2 {
			m.do(c12op{c12OpOpen, i, 0})
		}
		dep := uint32(0)
		if d := vfChoice("parent", i+1); d > 0 {
			dep = m.ss[d-1].id
		}
		pp := PriorityParam{StreamDep: dep, Weight: m.weights[vfChoice("weight", len(m.weights))]}
		p := vfExpectPanic(func() { m.ws.AdjustStream(s.id, pp) })
		m.assert(!p, "AdjustStream must not panic")
		if nd := ws.nodes[s.id]; nd != nil && ws.nodes[dep] != nil {
			m.assert(nd.parent == ws.nodes[dep] && nd.weight == pp.Weight, "AdjustStream links the node below its new parent with the new weight")
		}
		if kind == 1 {
			m.do(c12op{c12OpData, i, 2})
		}
	}
	nested := false
	for _, s := range m.ss {
		if nd := ws.nodes[s.id]; nd != nil && nd.parent != nil && c12needSort(nd) && c12needSort(nd.parent) {
			nested = true
		}
	}
	m.do(c12op{c12OpPop, 0, 0})
	m.drain()
	if nested {
		vfReach("nested-sorted-levels")
	}
	if c12needSort(&ws.root) {
		vfReach("sorted-root-level")
	}
	m.reachPops()
	vfReach("end")
}

// Shape I for FrameWriteRequest.Consume / writeQueue.consume: arbitrary windows, one call.
func VerifC12_consume() {
	dmax := 3
	if vfTier() > 0 {
		dmax = 5
	}
	r := vfLen("len", 0, dmax)
	b := vfBytes("data", r)
	end := vfBool("endstream")
	win, connWin, mfs, limit := vfI32("stream-window"), vfI32("conn-window"), vfI32("max-frame-size"), vfI32("n")
	sc := &serverConn{maxFrameSize: mfs}
	conn := &outflow{n: connWin}
	st := &stream{id: 1, sc: sc}
	st.flow.n, st.flow.conn = win, conn
	done := make(chan error, 1)
	var q writeQueue
	q.push(FrameWriteRequest{write: &writeData{streamID: 1, p: b, endStream: end}, stream: st, done: done})
	q.push(FrameWriteRequest{write: c12hdr{7}, stream: st})
	wr, ok := q.consume(limit)
	allowed := c12min(c12min(int64(win), int64(connWin)), c12min(int64(mfs), int64(limit)))
	if !ok {
		vfAssert(vfAnd(r > 0, allowed <= 0), "consume refuses only non-empty DATA under a closed window")
		vfAssert(vfAnd(st.flow.n == win, conn.n == connWin), "nothing charged when nothing is consumed")
		vfAssert(!q.empty() && q.peek().write.(*writeData).endStream == end && len(q.peek().write.(*writeData).p) == r, "frame stays queued")
		vfReach("blocked")
		vfReach("end")
		return
	}
	wd, isData := wr.write.(*writeData)
	vfAssert(isData, "DATA comes out as DATA")
	n := len(wd.p)
	vfAssert(vfOr(r == 0, allowed > 0), "non-empty DATA needs an open window")
	vfAssert(vfOr(r == 0, int64(n) == c12min(allowed, int64(r))), "piece size is min(window, conn window, max frame size, n, remaining)")
	vfAssert(n <= r, "piece within the frame")
	for i := 0; i < n; i++ {
		vfAssert(wd.p[i] == b[i], "piece is a prefix")
	}
	vfAssert(wd.endStream == vfAnd(n == r, end), "END_STREAM only on the last piece")
	vfAssert(vfAnd(int64(st.flow.n) == int64(win)-int64(n), int64(conn.n) == int64(connWin)-int64(n)), "both windows charged")
	vfAssert(wr.stream == st, "stream kept")
	if n == r {
		vfAssert(wr.done == done, "done channel stays with the final piece")
		h, isHdr := q.peek().write.(c12hdr)
		vfAssert(isHdr && h.tag == 7, "next frame is now the head")
		vfReach("whole")
	} else {
		vfAssert(wr.done == nil, "intermediate piece has no done channel")
		rest := q.peek()
		rd := rest.write.(*writeData)
		vfAssert(len(rd.p) == r-n && rest.done == done && rest.stream == st && rd.streamID == 1, "rest stays at the head")
		for i := range rd.p {
			vfAssert(rd.p[i] == b[n+i], "rest is the suffix")
		}
		vfAssert(rd.endStream == end, "rest keeps END_STREAM")
		vfReach("split")
	}
	vfObserve("n", uint64(n))
	vfReach("end")
}
