package http2

// C18 (KERNEL claim) — HTTP/2 client handles GOAWAY without losing or duplicating requests.
//
// Unit: clientConnReadLoop.processGoAway -> clientConnPool.MarkDead + ClientConn.setGoAway -> clientStream.abortStreamLocked
// on a hand-built ClientConn registered in a real clientConnPool; then the classification functions the RoundTrip
// loop uses: canRetryError / shouldRetryRequest (transport_common.go), and the admission path
// (CanTakeNewRequest, ReserveNewRequest, awaitOpenSlotForStreamLocked, pool.getClientConn) for "no new streams".
// A stream's RoundTrip result is observed as cs.abort / cs.abortErr (what internalRoundTrip returns on abort).
//
// Shape: I for VerifC18_goaway (arbitrary set of open streams, one or two arbitrary GOAWAY frames),
// exhaustive case analysis for VerifC18_retry, B with the symbolic scheduler for VerifC18_blockedWriter.
//
// Sensitivity (mut.sh, caught as VIOLATION and confirmed natively):
//   transport.go setGoAway: `if streamID <= last {`→`if streamID < last {`       -> VerifC18_goaway "stream <= last-stream-ID left alone"
//   transport.go setGoAway: abortStreamLocked(errClientConnGotGoAway)→(errClientConnClosed) -> VerifC18_goaway "aborted stream is reported as retryable"
//   transport.go setGoAway: `old.ErrCode != ErrCodeNo`→`old.ErrCode == ErrCodeNo` -> VerifC18_goaway "merged error code"
//   transport_common.go shouldRetryRequest: drop the `err == errClientConnUnusable` guard (return req, nil always) -> VerifC18_retry
// Seeded change C18-A (awaitOpenSlotForStreamLocked re-checks only closed/closing after a wake-up, so a request queued
//   for a slot is started after GOAWAY) -> VerifC18_queuedRequest "no new stream is opened on a connection that received GOAWAY"

import (
	"errors"
	"io"
	"math"
	"net"
	"net/http"
	"time"
)

func init() {
	vfRegister("VerifC18_goaway", VerifC18_goaway)
	vfRegister("VerifC18_retry", VerifC18_retry)
	vfRegister("VerifC18_blockedWriter", VerifC18_blockedWriter)
	vfRegister("VerifC18_queuedRequest", VerifC18_queuedRequest)
}

const c18addr = "example.com:443"

func c18frame(last uint32, code ErrCode) *GoAwayFrame {
	// what parseGoAwayFrame produces: the reserved bit of the last-stream-ID is masked off
	return &GoAwayFrame{
		FrameHeader:  FrameHeader{valid: true, Type: FrameGoAway, Length: 8},
		LastStreamID: last & (1<<31 - 1),
		ErrCode:      code,
	}
}

type c18stream struct {
	cs        *clientStream
	id        uint32
	flow      int32
	abortedAt int // 0 = not aborted, k = by the k-th GOAWAY
}

func VerifC18_goaway() {
	h := h2cNewConn()
	cc := h.cc
	pool := cc.t.connPool().(*clientConnPool)
	pool.mu.Lock()
	pool.addConnLocked(c18addr, cc)
	pool.mu.Unlock()

	next := vfU32("nextStreamID")
	vfAssume(next&1 == 1)
	vfAssume(next <= math.MaxInt32)
	cc.nextStreamID = next
	cc.strictMaxConcurrentStreams = vfBool("strict")
	maxN := 3
	if vfTier() > 0 {
		maxN = 4
	}
	n := vfLen("nstreams", 0, maxN)
	var ss []*c18stream
	prev := uint32(0)
	for i := 0; i < n; i++ {
		id := vfU32("streamID")
		vfAssume(id&1 == 1)
		vfAssume(id > prev)
		vfAssume(id < next)
		prev = id
		cs := h2cNewStream(cc)
		h2cPutStream(cc, cs, id)
		ss = append(ss, &c18stream{cs: cs, id: id, flow: cs.flow.n})
	}
	reserved := vfInt("streamsReserved")
	vfAssume(reserved >= 0)
	vfAssume(reserved < 1<<32)
	cc.streamsReserved = reserved

	ngo := vfLen("ngoaway", 1, 2)
	var lasts [2]uint32
	var codes [2]ErrCode
	eff := ErrCodeNo // the connection's merged error code: the first non-NO code wins
	minLast := uint32(math.MaxUint32)
	for k := 0; k < ngo; k++ {
		lasts[k] = vfU32("lastStreamID")
		codes[k] = ErrCode(vfU32("errCode"))
		f := c18frame(lasts[k], codes[k])
		last := f.LastStreamID
		if err := h.rl.processGoAway(f); err != nil {
			vfAssert(false, "GOAWAY is not a connection error")
		}
		eff = ErrCode(vfIteU32(eff != ErrCodeNo, uint32(eff), uint32(codes[k])))
		minLast = vfIteU32(last < minLast, last, minLast)

		cc.mu.Lock()
		vfAssert(cc.goAway != nil, "GOAWAY recorded")
		vfAssert(cc.goAway.ErrCode == eff, "merged error code: an earlier error code is never cleared")
		vfAssert(!cc.isUsableLocked(), "connection unusable after GOAWAY")
		vfAssert(len(cc.streams) == n, "GOAWAY removes no stream by itself")
		cc.mu.Unlock()

		for _, s := range ss {
			above := s.id > last
			aborted := h2cAborted(s.cs)
			// classification: exactly the streams above the smallest last-stream-ID seen so far are aborted
			vfAssert(aborted == (s.id > minLast), "stream aborted iff its ID > last-stream-ID")
			if !aborted {
				vfReach("stream-kept")
				vfAssert(!above, "stream <= last-stream-ID left alone")
				vfAssert(s.cs.abortErr == nil, "kept stream has no error")
				vfAssert(cc.streams[s.id] == s.cs, "kept stream still registered")
				vfAssert(s.cs.flow.n == s.flow, "kept stream's send window untouched")
				continue
			}
			if s.abortedAt == 0 {
				s.abortedAt = k + 1
				vfAssert(above, "newly aborted stream is above this GOAWAY's last-stream-ID")
				// the error is the one RoundTrip returns
				if vfConcretizeBool(vfAnd(s.id == 1, eff != ErrCodeNo)) {
					// documented exception: first stream of the connection and the server reports an error
					vfReach("stream1-error-code")
					vfAssert(s.cs.abortErr != nil, "aborted with an error")
					vfAssert(!canRetryError(s.cs.abortErr), "first stream + error code: not retried")
				} else {
					vfReach("stream-retryable")
					vfAssert(s.cs.abortErr == errClientConnGotGoAway, "aborted stream gets errClientConnGotGoAway")
					vfAssert(canRetryError(s.cs.abortErr), "aborted stream is reported as retryable")
				}
			} else {
				vfReach("stream-already-aborted")
			}
		}
	}
	// errors assigned at the first GOAWAY are not rewritten by the second
	for _, s := range ss {
		if s.abortedAt == 1 && !(s.id == 1 && codes[0] != ErrCodeNo) {
			vfAssert(s.cs.abortErr == errClientConnGotGoAway, "second GOAWAY does not change an aborted stream's error")
		}
	}

	// no new streams on this connection
	vfAssert(!cc.CanTakeNewRequest(), "CanTakeNewRequest false after GOAWAY")
	vfAssert(!cc.ReserveNewRequest(), "ReserveNewRequest false after GOAWAY")
	vfAssert(cc.streamsReserved == reserved, "no reservation taken after GOAWAY")
	req := &http.Request{Method: "GET", Header: http.Header{}}
	got, err := pool.getClientConn(req, c18addr, noDialOnMiss)
	vfAssert(got == nil && err == ErrNoCachedConn, "pool no longer offers the connection")
	// a request that had already chosen the connection (holds a reservation) is turned away with a retryable error
	cs := h2cNewStream(cc)
	var aerr error
	blocked := vfBlocks(func() {
		cc.mu.Lock()
		cc.decrStreamReservationsLocked()
		aerr = cc.awaitOpenSlotForStreamLocked(cs)
		if aerr == nil {
			cc.addStreamLocked(cs)
		}
		cc.mu.Unlock()
	})
	vfAssert(!blocked, "request after GOAWAY does not wait on this connection")
	vfAssert(aerr == errClientConnUnusable, "request after GOAWAY refused with errClientConnUnusable")
	vfAssert(canRetryError(aerr), "the refusal is retryable")
	vfAssert(cs.ID == 0 && cc.nextStreamID == next && len(cc.streams) == n, "no stream opened after GOAWAY")
	r2, rerr := shouldRetryRequest(req, aerr)
	vfAssert(r2 == req && rerr == nil, "refused request is retried as is")
	vfObserve("n", uint64(n))
	vfReach("end")
}

type c18body struct {
	read   int
	closed bool
}

func (b *c18body) Read(p []byte) (int, error) { b.read++; return 0, io.EOF }
func (b *c18body) Close() error               { b.closed = true; return nil }

// canRetryError / shouldRetryRequest over every error class a GOAWAY can produce and every replayability class of
// the request body.
func VerifC18_retry() {
	// obtain the real non-retryable error setGoAway gives to stream 1 when the server reports an error code
	h := h2cNewConn()
	cs1 := h2cNewStream(h.cc)
	h2cPutStream(h.cc, cs1, 1)
	h.cc.nextStreamID = 3
	code := ErrCode(vfU32("errCode"))
	vfAssume(code != ErrCodeNo)
	h.cc.setGoAway(c18frame(0, code))
	stream1Err := cs1.abortErr

	var err error
	retryable := false
	unusable := false
	switch vfChoice("err", 6) {
	case 0:
		err, retryable = errClientConnGotGoAway, true
	case 1:
		err, retryable, unusable = errClientConnUnusable, true, true
	case 2:
		err = stream1Err
	case 3:
		sc := ErrCode(vfU32("streamErrCode"))
		err = StreamError{StreamID: 3, Code: sc}
		retryable = vfConcretizeBool(sc == ErrCodeRefusedStream)
		if retryable {
			vfReach("refused-stream")
		}
	case 4:
		err = errClientConnClosed
	case 5:
		err = GoAwayError{LastStreamID: 1, ErrCode: code} // what cleanup reports for streams <= L when the conn then closes
	}
	vfAssert(canRetryError(err) == retryable, "canRetryError: exactly GOAWAY-unprocessed, unusable connection, REFUSED_STREAM")

	body := &c18body{}
	fresh := &c18body{}
	getBodyErr := errors.New("c18 GetBody failed")
	req := &http.Request{Method: "POST", Header: http.Header{}}
	kind := vfChoice("body", 5)
	switch kind {
	case 0: // no body
	case 1:
		req.Body = http.NoBody
	case 2: // replayable
		req.Body = body
		req.GetBody = func() (io.ReadCloser, error) { return fresh, nil }
	case 3: // GetBody fails
		req.Body = body
		req.GetBody = func() (io.ReadCloser, error) { return nil, getBodyErr }
	case 4: // not replayable
		req.Body = body
	}
	r2, rerr := shouldRetryRequest(req, err)
	vfObserveBool("retried", rerr == nil)
	switch {
	case !retryable:
		vfReach("not-retryable")
		vfAssert(r2 == nil && rerr == err, "non-retryable error is returned unchanged")
	case kind <= 1:
		vfReach("bodiless")
		vfAssert(r2 == req && rerr == nil, "bodiless request is retried as is")
	case kind == 2:
		vfReach("getbody")
		vfAssert(rerr == nil && r2 != nil && r2 != req, "replayable request is retried on a clone")
		vfAssert(r2.Body == io.ReadCloser(fresh), "the clone carries the fresh body")
		vfAssert(req.Body == io.ReadCloser(body), "the original request is not modified")
		vfAssert(r2.Method == "POST", "clone keeps the request")
	case kind == 3:
		vfReach("getbody-fails")
		vfAssert(r2 == nil && rerr == getBodyErr, "GetBody failure ends the retry")
	case unusable:
		vfReach("body-untouched")
		vfAssert(r2 == req && rerr == nil, "connection never used the body: retried as is")
	default:
		vfReach("not-replayable")
		vfAssert(r2 == nil && rerr != nil, "a written, non-replayable body is not sent twice")
		vfAssert(!canRetryError(rerr), "the refusal itself is final")
	}
	vfAssert(body.read == 0 && !body.closed, "classification does not touch the body")
	vfReach("end")
}

// A request-body writer that waits for flow control when GOAWAY arrives: above the last-stream-ID it is woken and
// fails with the retryable error; at or below it keeps waiting and completes when the server opens the window.
func VerifC18_blockedWriter() {
	vfNoDeadlock()
	h := h2cNewConn()
	cc := h.cc
	cc.nextStreamID = 7
	id := uint32(1 + 2*vfChoice("stream", 3))
	cs := h2cNewStream(cc)
	h2cPutStream(cc, cs, id)
	cs.flow.n = 0 // the server's stream window is used up
	var taken int32
	var werr error
	done := make(chan struct{})
	vfGo(func() {
		taken, werr = cs.awaitFlowControl(5)
		close(done)
	})
	last := vfU32("lastStreamID")
	code := ErrCode(vfU32("errCode"))
	f := c18frame(last, code)
	h.rl.processGoAway(f)
	if vfConcretizeBool(id > f.LastStreamID) {
		h2cAwait(done, "GOAWAY wakes the blocked writer of an unprocessed stream")
		vfAssert(taken == 0, "no flow control taken by the aborted stream")
		if vfConcretizeBool(vfAnd(id == 1, code != ErrCodeNo)) {
			vfReach("stream1-error-code")
			vfAssert(werr != nil && !canRetryError(werr), "first stream + error code: final error")
		} else {
			vfReach("retryable")
			vfAssert(werr == errClientConnGotGoAway, "writer fails with the retryable GOAWAY error")
		}
	} else {
		vfReach("processed-stream-continues")
		h.rl.processWindowUpdate(&WindowUpdateFrame{FrameHeader: FrameHeader{valid: true, Type: FrameWindowUpdate, StreamID: id, Length: 4}, Increment: 9})
		h2cAwait(done, "a stream the server will process keeps running after GOAWAY")
		vfAssert(werr == nil && taken == 5, "writer continues normally")
	}
	vfReach("end")
}

// c18conn is the net.Conn of VerifC18_queuedRequest: nothing is read or written through it, the Transport only
// closes it (forgetStreamID -> closeConn once a connection that received GOAWAY has no streams left).
type c18conn struct{ closed int }

func (c *c18conn) Read([]byte) (int, error)         { return 0, io.EOF }
func (c *c18conn) Write(p []byte) (int, error)      { return len(p), nil }
func (c *c18conn) Close() error                     { c.closed++; return nil }
func (c *c18conn) LocalAddr() net.Addr              { return nil }
func (c *c18conn) RemoteAddr() net.Addr             { return nil }
func (c *c18conn) SetDeadline(time.Time) error      { return nil }
func (c *c18conn) SetReadDeadline(time.Time) error  { return nil }
func (c *c18conn) SetWriteDeadline(time.Time) error { return nil }

// GOAWAY at every position relative to a request that is QUEUED for a concurrency slot (shape B, symbolic
// scheduler). Transport.StrictMaxConcurrentStreams: the connection is filled up to the server's limit m through the
// real admission path, one more request runs the same admission path on its own goroutine and has to wait in
// awaitOpenSlotForStreamLocked. The server then sends one GOAWAY (arbitrary last-stream-ID and error code) before,
// between or after the m events "an active stream finishes" (forgetStreamID, in any order). The statement's
// "opens no new streams on that connection" at the linearisation point of opening a stream (addStreamLocked under
// cc.mu): the connection has not seen a GOAWAY; a request that could not be started is refused with the retryable
// errClientConnUnusable without consuming a stream ID, and it is never left waiting (vfNoDeadlock).
func VerifC18_queuedRequest() {
	vfNoDeadlock()
	h := h2cNewConn()
	cc := h.cc
	tconn := &c18conn{}
	cc.tconn = tconn
	cc.strictMaxConcurrentStreams = true
	pool := cc.t.connPool().(*clientConnPool)
	pool.mu.Lock()
	pool.addConnLocked(c18addr, cc)
	pool.mu.Unlock()
	maxM := 2
	if vfTier() > 0 {
		maxM = 3
	}
	m := vfLen("limit", 1, maxM)
	if err := h.rl.processSettingsNoWrite(h2cSettingsFrame(Setting{SettingMaxConcurrentStreams, uint32(m)})); err != nil {
		vfAssert(false, "initial SETTINGS accepted")
	}
	var ghost h2cGhost
	admit := func(cs *clientStream) error { // the critical section of clientStream.writeRequest
		cc.mu.Lock()
		defer cc.mu.Unlock()
		cc.decrStreamReservationsLocked()
		if err := cc.awaitOpenSlotForStreamLocked(cs); err != nil {
			return err
		}
		ghost.assert(cc.goAway == nil, "no new stream is opened on a connection that received GOAWAY")
		cc.addStreamLocked(cs)
		return nil
	}
	var open []*clientStream
	for i := 0; i < m; i++ {
		cs := h2cNewStream(cc)
		if err := admit(cs); err != nil {
			vfAssert(false, "request below the limit admitted")
		}
		open = append(open, cs)
	}
	next := cc.nextStreamID
	waiter := h2cNewStream(cc)
	var werr error
	done := make(chan struct{})
	vfGo(func() {
		werr = admit(waiter)
		close(done)
	})
	h2cSettle(func() bool { cc.mu.Lock(); defer cc.mu.Unlock(); return cc.pendingRequests == 1 })

	pos := vfChoice("goaway-position", m+1) // number of streams that finish before the GOAWAY arrives
	last := vfU32("lastStreamID")
	code := ErrCode(vfU32("errCode"))
	f := c18frame(last, code)
	for ev := 0; ev <= m; ev++ {
		if ev == pos {
			if err := h.rl.processGoAway(f); err != nil {
				vfAssert(false, "GOAWAY is not a connection error")
			}
			for _, cs := range open {
				vfAssert(h2cAborted(cs) == (cs.ID > f.LastStreamID), "active stream aborted iff its ID > last-stream-ID")
			}
			h2cPause()
		}
		if ev == m {
			break
		}
		// one of the remaining active streams finishes (completed, or cleaned up after the GOAWAY aborted it)
		i := vfChoice("finishes", len(open))
		id := open[i].ID
		open = append(open[:i:i], open[i+1:]...)
		cc.forgetStreamID(id)
		h2cPause()
	}
	h2cAwait(done, "a queued request is woken and either started or refused, never left waiting")
	ghost.report()
	cc.mu.Lock()
	if werr == nil {
		vfReach("queued-request-started-before-goaway")
		vfAssert(waiter.ID == next && cc.streams[next] == waiter, "started request got the next stream ID")
		if vfConcretizeBool(next > f.LastStreamID) {
			vfReach("started-then-aborted-by-goaway")
			vfAssert(h2cAborted(waiter) && waiter.abortErr == errClientConnGotGoAway, "a stream above the last-stream-ID is reported as retryable")
		} else {
			vfAssert(!h2cAborted(waiter), "a stream at or below the last-stream-ID is left alone")
		}
		vfAssert(!cc.closed && tconn.closed == 0, "connection with a running stream stays open")
	} else {
		vfReach("queued-request-refused")
		vfAssert(werr == errClientConnUnusable, "a queued request that cannot start after GOAWAY is refused with errClientConnUnusable")
		vfAssert(canRetryError(werr), "the refusal is retryable (the request moves to a new connection)")
		vfAssert(waiter.ID == 0 && cc.nextStreamID == next && len(cc.streams) == 0, "no stream ID consumed, no stream opened")
		vfAssert(!h2cAborted(waiter), "the refused request was not aborted")
	}
	vfAssert(cc.goAway != nil && !cc.isUsableLocked(), "connection unusable after GOAWAY")
	vfAssert(cc.pendingRequests == 0, "no pending request left")
	vfObserveBool("closed", cc.closed)
	cc.mu.Unlock()
	vfReach("end")
}
