package http2

// C11, CLIENT half (KERNEL claim) — the Transport enforces the receive windows it advertised.
// (harness/checks/C11.json and zz_verif_c11_test.go belong to the server-side author; this file only adds the entry
// point VerifC11_clientWindow.)
//
// Unit: clientConnReadLoop.processData (takeInflows / inflow.take) on a hand-built ClientConn with one response stream
// whose headers were delivered through the real processHeaders, and one already forgotten stream.
//
// Shape I: arbitrary connection and stream inflow states within the inflow invariant (avail, unsent: the window the
// peer knows is avail, not avail+unsent), 0..1 bytes already buffered in the body pipe, one DATA frame with 0..2
// payload bytes and arbitrary padding (Length = payload + 1 + pad), END_STREAM free.
//   Length >  min(conn avail, stream avail)  =>  ConnectionError(FLOW_CONTROL_ERROR), nothing delivered, windows untouched
//   Length <= both                            =>  accepted: payload appended to the body pipe, both windows debited by
//                                                 Length and re-credited only by what was refunded (padding)
// The exact boundary Length == avail is inside the symbolic range.
//
// BOUNDS: payload 0..2 symbolic bytes; Pad Length arbitrary 0..255 (or unpadded); conn/stream (avail, unsent) arbitrary
// int32 within the inflow invariant; pipe pre-filled with 0..1 bytes; target: the open stream or the forgotten stream.
//
// Sensitivity (mut.sh, caught as VIOLATION and confirmed natively):
//   flow.go takeInflows: `||`→`&&`                         -> "over-window DATA is a FLOW_CONTROL connection error"
//   flow.go takeInflows: `n > uint32(f1.avail)`→`>=`       -> "DATA within the window is accepted" (exact boundary)
//   flow.go inflow.take: `n > uint32(f.avail)`→`>=`        -> forgotten-stream boundary

func init() {
	vfRegister("VerifC11_clientWindow", VerifC11_clientWindow)
}

func VerifC11_clientWindow() {
	h := h2cNewConn()
	cc := h.cc
	cs := h2cNewStream(cc)
	cs.sentHeaders, cs.sentEndStream = true, true
	h2cPutStream(cc, cs, 1)
	cc.nextStreamID = 5 // stream 3: opened and forgotten
	cc.readBeforeStreamID = 5
	c10cHeaders(h, 1, -1, false)
	pre := vfLen("buffered", 0, 1)
	if pre > 0 {
		cs.bufPipe.Write([]byte{0xEE})
	}
	cc.inflow = c10cInflow("conn")
	cs.inflow = c10cInflow("stream")
	ca, cu, sa, su := cc.inflow.avail, cc.inflow.unsent, cs.inflow.avail, cs.inflow.unsent

	n := vfLen("dataLen", 0, 2)
	data := vfBytes("data", n)
	padded := vfChoice("padded", 2) == 1
	pad := vfU8("pad")
	end := vfChoice("endStream", 2) == 1
	forgotten := vfChoice("forgottenStream", 2) == 1
	id := uint32(1)
	if forgotten {
		id = 3
	}
	f := c10cData(id, data, padded, pad, end)
	length := int64(f.Length)
	err := h.rl.processData(f)
	h.cc.bw.Flush()

	over := vfOr(length > int64(ca), vfAnd(!forgotten, length > int64(sa)))
	if err != nil {
		vfReach("rejected")
		ce, ok := err.(ConnectionError)
		vfAssert(ok && ErrCode(ce) == ErrCodeFlowControl, "over-window DATA is a FLOW_CONTROL connection error")
		vfAssert(over, "DATA within the window is accepted")
		vfAssert(c10cHeld(cs) == pre, "nothing delivered to the response body")
		if !forgotten {
			vfAssert(cc.inflow.avail == ca && cc.inflow.unsent == cu && cs.inflow.avail == sa && cs.inflow.unsent == su, "windows untouched by the rejected frame")
			vfAssert(!h2cAborted(cs), "stream not aborted by processData (the connection error ends everything)")
		}
		vfAssert(h.out.Len() == 0, "no WINDOW_UPDATE for a rejected frame")
		vfObserveBool("accepted", false)
		vfReach("end")
		return
	}
	vfReach("accepted")
	vfAssert(vfNot(over), "over-window DATA is a FLOW_CONTROL connection error")
	vfObserveBool("accepted", true)
	// total credit is conserved: what was taken is either still owed to the application (payload in the pipe) or
	// refunded (padding; everything for the forgotten stream) into avail/unsent
	if forgotten {
		vfReach("forgotten")
		vfAssert(c10cHeld(cs) == pre, "DATA for a forgotten stream is not delivered")
		vfAssert(int64(cc.inflow.avail)+int64(cc.inflow.unsent) == int64(ca)+int64(cu), "forgotten stream: whole Length refunded at connection level")
		vfAssert(cs.inflow.avail == sa && cs.inflow.unsent == su, "other stream's window untouched")
	} else {
		vfAssert(c10cHeld(cs) == pre+n, "payload delivered to the response body")
		if n > 0 {
			got := make([]byte, pre+n)
			k, _ := cs.bufPipe.Read(got)
			vfAssert(k == pre+n, "payload readable")
			for i := 0; i < n; i++ {
				vfAssert(got[pre+i] == data[i], "payload bytes intact, after what was buffered")
			}
		}
		vfAssert(int64(cc.inflow.avail)+int64(cc.inflow.unsent) == int64(ca)+int64(cu)-int64(n), "connection window debited by the payload, padding refunded")
		vfAssert(int64(cs.inflow.avail)+int64(cs.inflow.unsent) == int64(sa)+int64(su)-int64(n), "stream window debited by the payload, padding refunded")
	}
	vfAssert(c10cInflowInv(cc.inflow), "connection inflow invariant")
	vfAssert(c10cInflowInv(cs.inflow), "stream inflow invariant")
	// WINDOW_UPDATEs on the wire account exactly for the growth of avail
	var wuConn, wuStream int64
	for h.out.Len() > 0 {
		fr, rerr := h.rd.ReadFrame()
		if rerr != nil {
			vfAssert(false, "client wrote a well-formed frame")
			break
		}
		if wu, ok := fr.(*WindowUpdateFrame); ok {
			if wu.StreamID == 0 {
				wuConn += int64(wu.Increment)
			} else {
				vfAssert(wu.StreamID == 1, "stream-level update only for the live stream")
				wuStream += int64(wu.Increment)
			}
		}
	}
	vfAssert(int64(cc.inflow.avail) == int64(ca)-length+wuConn, "connection window known to the peer = avail")
	if !forgotten {
		vfAssert(int64(cs.inflow.avail) == int64(sa)-length+wuStream, "stream window known to the peer = avail")
	}
	vfAssert(int64(cc.inflow.avail) <= 1<<31-1 && int64(cs.inflow.avail) <= 1<<31-1, "windows stay within 2^31-1")
	if end && !forgotten {
		vfAssert(cs.readClosed, "END_STREAM recorded")
	}
	vfReach("end")
}
