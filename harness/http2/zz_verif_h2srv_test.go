package http2

// Shared helpers of the server-side kernel harnesses (C08, C10, C11, C15).
//
// h2sNewServerConn builds a serverConn BY HAND (serveConn/serve are skipped): real bufferedWriter over a fake
// net.Conn that collects the flushed bytes, real Framer, real write scheduler (RFC 9218 = the default of
// serveConn, or round robin), streams made by the real sc.newStream. The "serve loop" is the harness calling the
// per-frame handlers and h2sDrain, which delivers the result of the asynchronous flush (the only frame writer
// that does not stay within the 4 KiB buffer) back to sc.wroteFrame exactly as serve() does.

import (
	"bytes"
	"context"
	"io"
	"math"
	"net"
	"net/http"
	"time"

	"golang.org/x/net/http2/hpack"
)

type h2sConn struct {
	out    bytes.Buffer
	closed bool
}

func (c *h2sConn) Read(p []byte) (int, error)         { return 0, io.EOF }
func (c *h2sConn) Write(p []byte) (int, error)        { return c.out.Write(p) }
func (c *h2sConn) Close() error                       { c.closed = true; return nil }
func (c *h2sConn) LocalAddr() net.Addr                { return nil }
func (c *h2sConn) RemoteAddr() net.Addr               { return nil }
func (c *h2sConn) SetDeadline(t time.Time) error      { return nil }
func (c *h2sConn) SetReadDeadline(t time.Time) error  { return nil }
func (c *h2sConn) SetWriteDeadline(t time.Time) error { return nil }

const (
	h2sSchedRFC9218 = iota
	h2sSchedRoundRobin
)

func h2sNewServerConn(sched int) (*serverConn, *h2sConn) {
	// The package's own tests switch on DebugGoroutines (http2_test.go init; not run by the engine): the harness
	// plays serve loop and handler on one goroutine, so the goroutine-identity debug check is switched off.
	disableDebugGoroutines.Store(true)
	c := &h2sConn{}
	sc := &serverConn{
		srv:                         &Server{},
		hs:                          &http.Server{},
		conn:                        c,
		baseCtx:                     context.Background(),
		bw:                          newBufferedWriter(c, 0),
		streams:                     make(map[uint32]*stream),
		readFrameCh:                 make(chan readFrameResult),
		wantWriteFrameCh:            make(chan FrameWriteRequest, 8),
		serveMsgCh:                  make(chan interface{}, 8),
		wroteFrameCh:                make(chan frameWriteResult, 1),
		bodyReadCh:                  make(chan bodyReadMsg, 1), // "buffering doesn't matter either way" (serveConn)
		doneServing:                 make(chan struct{}),
		clientMaxStreams:            math.MaxUint32,
		advMaxStreams:               defaultMaxStreams,
		initialStreamSendWindowSize: initialWindowSize,
		initialStreamRecvWindowSize: initialWindowSize,
		maxFrameSize:                initialMaxFrameSize,
		serveG:                      newGoroutineLock(),
		pushEnabled:                 true,
		sawFirstSettings:            true,
	}
	switch sched {
	case h2sSchedRoundRobin:
		sc.writeSched = newRoundRobinWriteScheduler()
	default:
		sc.writeSched = newPriorityWriteSchedulerRFC9218()
	}
	sc.flow.add(initialWindowSize)
	sc.inflow.init(initialWindowSize)
	sc.hpackEncoder = hpack.NewEncoder(&sc.headerWriteBuf)
	sc.framer = NewFramer(sc.bw, c)
	return sc, c
}

// h2sDrain plays the serve loop's `case res := <-sc.wroteFrameCh: sc.wroteFrame(res)` until no frame write is
// in flight. Only flushFrameWriter (and frames larger than the 4 KiB buffer, which the harnesses never create)
// go through writeFrameAsync.
func h2sDrain(sc *serverConn) {
	for sc.writingFrame {
		vfAssert(sc.writingFrameAsync, "writingFrame without an async writer in flight")
		res := <-sc.wroteFrameCh
		sc.wroteFrame(res)
	}
}

// h2sOpenStream creates a client stream through the real newStream, with a request body pipe as
// newWriterAndRequest makes it for a request without END_STREAM.
func h2sOpenStream(sc *serverConn, id uint32, state streamState, withBody bool) *stream {
	st := sc.newStream(id, 0, state, defaultRFC9218Priority(false))
	if id > sc.maxClientStreamID {
		sc.maxClientStreamID = id
	}
	st.declBodyBytes = -1
	if withBody {
		st.body = &pipe{b: &dataBuffer{expected: -1}}
	}
	return st
}

// h2sInflow returns an arbitrary inflow satisfying the representation invariant
// 0 <= avail, 0 <= unsent, avail+unsent <= 2^31-1.
func h2sInflow(label string) inflow {
	var f inflow
	f.avail = vfI32(label + ".avail")
	f.unsent = vfI32(label + ".unsent")
	vfAssume(h2sInflowInv(f))
	return f
}

func h2sInflowInv(f inflow) bool {
	return vfAnd(vfAnd(f.avail >= 0, f.unsent >= 0), int64(f.avail)+int64(f.unsent) <= math.MaxInt32)
}

// h2sDataFrame hand-builds what Framer.ReadFrame returns for a DATA frame whose payload has Length bytes of
// which data are the non-padding bytes.
func h2sDataFrame(id uint32, length uint32, endStream bool, data []byte) *DataFrame {
	var fl Flags
	if endStream {
		fl |= FlagDataEndStream
	}
	if length != uint32(len(data)) {
		fl |= FlagDataPadded
	}
	return &DataFrame{FrameHeader: FrameHeader{valid: true, Type: FrameData, Flags: fl, Length: length, StreamID: id}, data: data}
}

// h2sWire decodes everything the server has flushed to the fake conn so far with a fresh real Framer and calls
// fn for each frame; the output buffer is consumed.
func h2sWire(c *h2sConn, fn func(f Frame)) {
	fr := NewFramer(io.Discard, &c.out)
	fr.SetMaxReadFrameSize(1<<24 - 1)
	for c.out.Len() > 0 {
		f, err := fr.ReadFrame()
		vfAssert(err == nil, "server output is a sequence of well-formed frames")
		fn(f)
	}
}

// h2sStreamErr reports whether err is a StreamError for stream id with the given code.
func h2sStreamErr(err error, id uint32, code ErrCode) bool {
	se, ok := err.(StreamError)
	if !ok {
		return false
	}
	return vfAnd(se.StreamID == id, se.Code == code)
}
