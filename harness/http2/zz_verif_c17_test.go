package http2

// C17 (KERNEL claim) — HTTP/2 client respects stream limits and stream-ID order.
//
// Unit: the critical section of clientStream.writeRequest that admits a request to a connection
//   cc.mu.Lock(); cc.decrStreamReservationsLocked(); cc.awaitOpenSlotForStreamLocked(cs); cc.addStreamLocked(cs); cc.mu.Unlock()
// plus ClientConn.ReserveNewRequest / CanTakeNewRequest / idleStateLocked / canReserveLocked / availableLocked /
// currentRequestCountLocked, processSettingsNoWrite(MAX_CONCURRENT_STREAMS), forgetStreamID and processPing(ACK)
// as the events that change the count, all on a hand-built ClientConn (h2cNewConn).
//
// Shapes: I (VerifC17_openStep, VerifC17_reserveStep: one step from an arbitrary pre-state satisfying the
// representation invariant c17 states below) and B (VerifC17_history: real initial state, SETTINGS + opens + waiters
// under the symbolic scheduler).
//
// Shape I also for SETTINGS (VerifC17_settingsStep: one arbitrary SETTINGS frame from an arbitrary pre-state, then one
// admission against the limit the specification leaves in force).
//
// Sensitivity (mut.sh, each caught as VIOLATION and confirmed natively):
//   transport.go processSettingsNoWrite: default-limit fallback hoisted out of `if !cc.seenSettings` (seed C17-C: every
//   SETTINGS frame without MAX_CONCURRENT_STREAMS resets the limit to 1000)
//       -> VerifC17_settingsStep "limit in force after SETTINGS", VerifC17_history "admission respects the limit in
//          force", VerifC17_lifecycle "connection at its limit does not take new requests" (all quick tier)
//   transport.go currentRequestCountLocked: drop `+ cc.pendingResets`           -> VerifC17_openStep "opened only below the limit"
//   transport.go awaitOpenSlotForStreamLocked: `<`→`<=` on the limit test       -> VerifC17_openStep
//   transport.go addStreamLocked: `cc.nextStreamID += 2`→`+= 1`                 -> VerifC17_openStep "next stream ID advanced by 2"
//   transport.go forgetStreamID: drop `cc.cond.Broadcast()`                     -> VerifC17_history (deadlock: waiter never admitted)

import (
	"math"
	"net/http"
)

func init() {
	vfRegister("VerifC17_openStep", VerifC17_openStep)
	vfRegister("VerifC17_reserveStep", VerifC17_reserveStep)
	vfRegister("VerifC17_history", VerifC17_history)
	vfRegister("VerifC17_pool", VerifC17_pool)
	vfRegister("VerifC17_settingsStep", VerifC17_settingsStep)
}

type c17pre struct {
	h               *h2cConn
	n               int // len(streams)
	next            uint32
	maxID           uint32 // largest existing stream ID (0 if none)
	reserved        int
	pendingResets   int
	pendingRequests int
	max             uint32
	strict          bool
	closed          bool
	closing         bool
	doNotReuse      bool
	singleUse       bool
	closedOnIdle    bool
	goAway          bool
}

// c17state builds an arbitrary ClientConn satisfying the representation invariant
//   nextStreamID odd, 1 <= nextStreamID <= 2^31-1; every open stream ID odd and < nextStreamID;
//   streamsReserved, pendingResets, pendingRequests >= 0 (and < 2^32, far beyond anything reachable);
// every other admission-relevant field is arbitrary.
func c17state(maxStreams int) *c17pre {
	p := &c17pre{h: h2cNewConn()}
	cc := p.h.cc
	p.next = vfU32("nextStreamID")
	vfAssume(p.next&1 == 1)
	vfAssume(p.next <= math.MaxInt32)
	cc.nextStreamID = p.next
	p.n = vfLen("nstreams", 0, maxStreams)
	for i := 0; i < p.n; i++ {
		id := vfU32("streamID")
		vfAssume(id&1 == 1)
		vfAssume(id > p.maxID)
		vfAssume(id < p.next)
		h2cPutStream(cc, h2cNewStream(cc), id)
		p.maxID = id
	}
	p.reserved = vfInt("streamsReserved")
	vfAssume(p.reserved >= 0)
	vfAssume(p.reserved < 1<<32)
	p.pendingResets = vfInt("pendingResets")
	vfAssume(p.pendingResets >= 0)
	vfAssume(p.pendingResets < 1<<32)
	p.pendingRequests = vfInt("pendingRequests")
	vfAssume(p.pendingRequests >= 0)
	vfAssume(p.pendingRequests < 1<<32)
	p.max = vfU32("maxConcurrentStreams")
	p.strict = vfBool("strict")
	p.closed = vfBool("closed")
	p.closing = vfBool("closing")
	p.doNotReuse = vfBool("doNotReuse")
	p.singleUse = vfBool("singleUse")
	p.closedOnIdle = vfBool("closedOnIdle")
	p.goAway = vfBool("goAway")
	cc.streamsReserved = p.reserved
	cc.pendingResets = p.pendingResets
	cc.pendingRequests = p.pendingRequests
	cc.maxConcurrentStreams = p.max
	cc.strictMaxConcurrentStreams = p.strict
	cc.closed = p.closed
	cc.closing = p.closing
	cc.doNotReuse = p.doNotReuse
	cc.singleUse = p.singleUse
	cc.closedOnIdle = p.closedOnIdle
	if vfConcretizeBool(p.goAway) {
		cc.goAway = &GoAwayFrame{}
	}
	return p
}

// usable is the specification of "this connection may still open streams" (RFC 9113 §5.1.1, §6.8 and the
// documented ClientConn states): no GOAWAY, not closed/closing/retired, stream IDs not exhausted (counting the
// requests already waiting for a slot, each of which will still need an ID).
func (p *c17pre) usable() bool {
	return vfAnd(p.usableConn(), vfNot(vfAnd(p.singleUse, p.next > 1))) // a single-use connection takes one request
}

func (p *c17pre) usableConn() bool {
	ok := vfAnd(vfNot(p.goAway), vfAnd(vfNot(p.closed), vfAnd(vfNot(p.closing), vfNot(p.doNotReuse))))
	return vfAnd(ok, int64(p.next)+2*int64(p.pendingRequests) < math.MaxInt32)
}

func VerifC17_openStep() {
	p := c17state(3 + 2*vfTier())
	c17openStep(p, p.max)
}

// c17openStep runs the admission critical section once on the connection of p and checks it against `limit`, the
// server's SETTINGS_MAX_CONCURRENT_STREAMS in force according to the SPECIFICATION (for VerifC17_openStep that is the
// pre-state's arbitrary value; for VerifC17_settingsStep it is what the SETTINGS frame just processed leaves in force).
func c17openStep(p *c17pre, limit uint32) {
	cc := p.h.cc
	cs := h2cNewStream(cc)
	var err error
	returned := false
	blocked := vfBlocks(func() {
		// the admission critical section of clientStream.writeRequest
		cc.mu.Lock()
		cc.decrStreamReservationsLocked()
		err = cc.awaitOpenSlotForStreamLocked(cs)
		if err == nil {
			cc.addStreamLocked(cs)
		}
		cc.mu.Unlock()
		returned = true
	})
	reserved1 := vfIteInt(p.reserved > 0, p.reserved-1, p.reserved) // the request's own reservation is returned first
	count := int64(p.n) + int64(reserved1) + int64(p.pendingResets)
	below := count < int64(limit)
	usable := p.usable()

	if blocked {
		vfReach("blocked")
		vfAssert(!returned, "blocked means not returned")
		cc.mu.Lock() // Cond.Wait released the mutex
		vfAssert(p.strict, "waits for a slot only with StrictMaxConcurrentStreams")
		vfAssert(vfNot(below), "waits only when the connection is at its limit")
		vfAssert(usable, "waits only on a usable connection")
		vfAssert(len(cc.streams) == p.n, "no stream opened while waiting")
		vfAssert(cc.nextStreamID == p.next, "no stream ID consumed while waiting")
		vfAssert(cc.pendingRequests == p.pendingRequests+1, "the waiting request is counted in pendingRequests")
		vfAssert(cs.ID == 0, "waiting request has no stream ID")
		cc.mu.Unlock()
		vfReach("end")
		return
	}
	vfAssert(returned, "not blocked means returned")
	vfAssert(cc.streamsReserved == reserved1, "exactly one reservation consumed")
	vfAssert(cc.pendingRequests == p.pendingRequests, "pendingRequests restored")
	if err == nil {
		vfReach("opened")
		vfAssert(below, "opened only below the limit")
		vfAssert(usable, "opened only on a usable connection")
		vfAssert(cs.ID == p.next, "stream gets the next stream ID")
		vfAssert(cs.ID&1 == 1, "client stream IDs are odd")
		vfAssert(cs.ID > p.maxID, "stream ID larger than every open stream's ID")
		vfAssert(cs.ID <= math.MaxInt32-2, "stream ID fits in 31 bits")
		vfAssert(cc.nextStreamID == p.next+2, "next stream ID advanced by 2")
		vfAssert(cc.nextStreamID&1 == 1, "Inv: nextStreamID odd")
		vfAssert(cc.nextStreamID <= math.MaxInt32, "Inv: nextStreamID <= 2^31-1")
		vfAssert(len(cc.streams) == p.n+1, "exactly one stream added")
		vfAssert(cc.streams[cs.ID] == cs, "stream registered under its ID")
		vfAssert(int64(cc.currentRequestCountLocked()) <= int64(limit), "open streams + reservations + unconfirmed resets <= MAX_CONCURRENT_STREAMS")
		vfAssert(int64(len(cc.streams)) <= int64(limit), "open streams <= MAX_CONCURRENT_STREAMS")
		vfObserve("id", uint64(cs.ID))
	} else {
		vfReach("refused")
		isUnusable := err == errClientConnUnusable
		isNotEst := err == errClientConnNotEstablished
		vfAssert(isUnusable || isNotEst, "refusal is one of the two documented errors")
		if isNotEst {
			vfReach("not-established")
			vfAssert(vfAnd(p.closed, p.next == 1), "not-established only for the first request on a closed connection")
		}
		// a refusal happens only if the connection is unusable, or (non-strict) at its limit
		vfAssert(vfOr(vfNot(usable), vfAnd(vfNot(p.strict), vfNot(below))), "refused only if unusable or (non-strict) at the limit")
		vfAssert(len(cc.streams) == p.n, "refused: no stream opened")
		vfAssert(cc.nextStreamID == p.next, "refused: no stream ID consumed")
		vfAssert(cs.ID == 0, "refused request has no stream ID")
		vfObserveBool("unusable", isUnusable)
	}
	// progress: a usable connection below its limit admits the request
	vfAssert(vfImplies(vfAnd(usable, below), err == nil), "usable connection below its limit opens the stream")
	vfReach("end")
}

// One SETTINGS frame from an arbitrary pre-state (shape I), then one admission: which limit is in force afterwards?
//
// Specification (RFC 9113 §6.5, §6.5.2, §6.5.3): a SETTINGS parameter keeps its value until a later SETTINGS frame
// carries that parameter again; parameters a frame does not mention are unchanged; the parameters of one frame are
// processed in order (the last occurrence wins); an ACK carries nothing. SETTINGS_MAX_CONCURRENT_STREAMS is initially
// unlimited: until the server has said something, the client uses its own documented stand-ins
// (initialMaxConcurrentStreams before the first SETTINGS frame, defaultMaxConcurrentStreams once the first frame
// arrived without the parameter). So for a frame the connection accepts:
//
//	limit' = value of the last MAX_CONCURRENT_STREAMS entry                    if the frame has one
//	       = defaultMaxConcurrentStreams                                       if it has none and is the server's FIRST frame
//	       = limit (unchanged, whatever the server advertised earlier)         otherwise
//
// The frame has 0..2 (thorough 0..3) entries with arbitrary 32-bit values, or is an ACK; seenSettings/wantSettingsAck
// arbitrary. Frames of 0..1 (thorough 0..2) entries have arbitrary 16-bit IDs (every known parameter, unknown ones,
// invalid values); the longest frames draw their IDs from {MAX_CONCURRENT_STREAMS, INITIAL_WINDOW_SIZE,
// MAX_HEADER_LIST_SIZE} (all orders, duplicates included).
// After the frame, the pool-facing predicates and one real admission are checked against limit' (c17openStep): a
// request is opened only below limit', waits (strict) / is not chosen (non-strict) at limit'.
func VerifC17_settingsStep() {
	p := c17state(1 + vfTier())
	cc := p.h.cc
	// the connection is otherwise usable or closed (all other unusable states: VerifC17_openStep / VerifC17_reserveStep)
	vfAssume(vfNot(vfOr(p.closing, vfOr(p.doNotReuse, vfOr(p.singleUse, vfOr(p.closedOnIdle, p.goAway))))))
	seen := vfBool("seenSettings")
	if vfConcretizeBool(seen) {
		cc.seenSettings = true
		close(cc.seenSettingsChan)
	}
	cc.wantSettingsAck = vfBool("wantSettingsAck")
	// the limit in force after the frame, per the specification above
	limit := p.max
	var ss []Setting
	ack := vfBool("ack")
	var f *SettingsFrame
	if vfConcretizeBool(ack) {
		f = h2cSettingsFrame()
		f.FrameHeader.Flags = FlagSettingsAck
	} else {
		n := vfLen("nsettings", 0, 2+vfTier())
		wide := 1 + vfTier() // frames of up to `wide` entries have arbitrary IDs; longer ones draw from the three below
		has := false // fork-free: does the frame carry MAX_CONCURRENT_STREAMS, and the last such value
		var last uint32
		for i := 0; i < n; i++ {
			id, val := SettingID(vfU16("settingID")), vfU32("settingVal")
			if n > wide {
				vfAssume(vfOr(id == SettingMaxConcurrentStreams, vfOr(id == SettingInitialWindowSize, id == SettingMaxHeaderListSize)))
			}
			ss = append(ss, Setting{id, val})
			isMCS := id == SettingMaxConcurrentStreams
			has = vfOr(has, isMCS)
			last = vfIteU32(isMCS, val, last)
		}
		f = h2cSettingsFrame(ss...)
		limit = vfIteU32(has, last, vfIteU32(seen, p.max, defaultMaxConcurrentStreams))
	}
	err := p.h.rl.processSettingsNoWrite(f)
	if err != nil {
		// the frame is a connection error (invalid value, unexpected ACK): the read loop tears the connection down
		vfReach("settings-rejected")
		if ack {
			vfAssert(cc.maxConcurrentStreams == p.max, "rejected ACK leaves the limit alone")
		}
		vfReach("end")
		return
	}
	vfReach("settings-accepted")
	if ack {
		vfReach("ack")
		vfAssert(cc.seenSettings == seen, "an ACK is not the server's SETTINGS frame")
	} else {
		vfAssert(cc.seenSettings, "seenSettings after the server's SETTINGS frame")
		if seen {
			vfReach("later-frame")
		} else {
			vfReach("first-frame")
		}
	}
	vfObserve("limit", uint64(cc.maxConcurrentStreams))
	vfAssert(cc.maxConcurrentStreams == limit, "limit in force after SETTINGS: last MAX_CONCURRENT_STREAMS of the frame, else unchanged (default after a first frame without it)")
	vfAssert(len(cc.streams) == p.n && cc.nextStreamID == p.next, "SETTINGS opens/closes nothing")
	vfAssert(cc.streamsReserved == p.reserved && cc.pendingResets == p.pendingResets, "SETTINGS leaves the slot counters alone")

	// the pool's view against the specification's limit (statement, second half)
	count := int64(p.n) + int64(p.reserved) + int64(p.pendingResets)
	below := count < int64(limit)
	special := vfAnd(vfAnd(p.next == 1, p.reserved == 0), vfAnd(p.closed, vfNot(p.closedOnIdle)))
	can := cc.CanTakeNewRequest()
	vfAssert(can == vfOr(special, vfAnd(p.usable(), vfOr(p.strict, below))), "after SETTINGS: chosen iff usable and (strict or below the limit in force)")
	vfAssert(vfImplies(vfAnd(vfNot(p.strict), vfAnd(vfNot(below), vfNot(special))), !can), "after SETTINGS: non-strict connection at its limit is not chosen")
	// and one real admission against it (statement, first half)
	c17openStep(p, limit)
}

// ReserveNewRequest (what the connection pool calls to choose a connection), CanTakeNewRequest, canReserveLocked,
// availableLocked from an arbitrary state; then the admission of the request that holds the reservation.
func VerifC17_reserveStep() {
	p := c17state(2 + 2*vfTier())
	cc := p.h.cc
	count := int64(p.n) + int64(p.reserved) + int64(p.pendingResets)
	below := count < int64(p.max)
	usable := p.usable()
	// documented exception: a never-used connection that is already closed takes one request (which then fails
	// with errClientConnNotEstablished) so that the dial error is reported
	special := vfAnd(vfAnd(p.next == 1, p.reserved == 0), vfAnd(p.closed, vfNot(p.closedOnIdle)))
	special = vfAnd(special, vfNot(vfAnd(p.singleUse, p.next > 1)))

	can := cc.CanTakeNewRequest()
	cc.mu.Lock()
	canReserve := cc.canReserveLocked()
	avail := cc.availableLocked()
	cc.mu.Unlock()
	ok := cc.ReserveNewRequest()
	vfObserveBool("ok", ok)
	vfAssert(ok == can, "ReserveNewRequest agrees with CanTakeNewRequest")
	if ok {
		vfReach("reserved")
		vfAssert(cc.streamsReserved == p.reserved+1, "reservation counted")
	} else {
		vfReach("not-reserved")
		vfAssert(cc.streamsReserved == p.reserved, "no reservation on refusal")
	}
	want := vfOr(special, vfAnd(usable, vfOr(p.strict, below)))
	vfAssert(ok == want, "pool chooses the connection iff usable and (strict or below the limit), or the closed-unused exception")
	// the statement's second half, spelled out: not strict and at the limit => not chosen
	vfAssert(vfImplies(vfAnd(vfNot(p.strict), vfAnd(vfNot(below), vfNot(special))), !ok), "non-strict connection at its limit is not chosen")
	// net/http.ClientConn reservations never go past the limit, strict or not
	vfAssert(canReserve == vfAnd(p.usableConn(), below), "canReserveLocked iff usable and below the limit")
	wantAvail := vfIteI64(vfAnd(ok, below), int64(p.max)-count, 0)
	vfAssert(int64(avail) == wantAvail, "availableLocked = free slots when the connection can take requests")
	vfAssert(len(cc.streams) == p.n && cc.nextStreamID == p.next, "reserving opens nothing")

	// the request holding the reservation is admitted without waiting when the connection was chosen below its limit
	if ok {
		cs := h2cNewStream(cc)
		var err error
		blocked := vfBlocks(func() {
			cc.mu.Lock()
			cc.decrStreamReservationsLocked()
			err = cc.awaitOpenSlotForStreamLocked(cs)
			if err == nil {
				cc.addStreamLocked(cs)
			}
			cc.mu.Unlock()
		})
		if blocked {
			vfReach("reserved-then-waits")
			vfAssert(vfAnd(p.strict, vfNot(below)), "a reserved request waits only under strict mode at the limit")
		} else if err == nil {
			vfReach("reserved-then-opened")
			vfAssert(below, "reserved request opened only below the limit")
			vfAssert(cs.ID == p.next, "reserved request gets the next stream ID")
		} else {
			vfReach("reserved-then-refused")
			vfAssert(special, "a reserved request is refused only in the closed-unused exception")
		}
		vfAssert(vfImplies(vfAnd(below, vfNot(special)), vfAnd(!blocked, err == nil)), "reservation below the limit guarantees admission")
	}
	vfReach("end")
}

// History from the real initial state under StrictMaxConcurrentStreams: the server's SETTINGS set the limit m,
// requests are admitted one by one up to the limit, the server may lower the limit below the current count, one more
// request then has to wait, and it is admitted (with the next odd ID) only after enough streams finished /
// unconfirmed resets were acknowledged. Runs under the symbolic scheduler: vfNoDeadlock makes "the waiter is never
// woken although a slot is free" a violation.
func VerifC17_history() {
	vfNoDeadlock()
	h := h2cNewConn()
	cc := h.cc
	cc.strictMaxConcurrentStreams = true
	maxM := 3
	if vfTier() > 0 {
		maxM = 4
	}
	m := vfLen("limit", 1, maxM)
	if err := h.rl.processSettingsNoWrite(h2cSettingsFrame(Setting{SettingMaxConcurrentStreams, uint32(m)})); err != nil {
		vfAssert(false, "initial SETTINGS accepted")
	}
	vfAssert(cc.maxConcurrentStreams == uint32(m), "limit taken from SETTINGS")
	limit := uint32(m) // ghost: the server's SETTINGS_MAX_CONCURRENT_STREAMS in force (changed only by a frame that carries it)
	// a later SETTINGS frame that does not mention MAX_CONCURRENT_STREAMS (empty, or one other parameter with an
	// arbitrary valid value): the advertised limit stays in force. Delivered at one of three points of the history.
	quietAt := vfChoice("quiet-settings-at", 4) // 0 never | 1 before the requests | 2 after the limit change | 3 while the waiter is parked
	quiet := func(at int) {
		if quietAt != at {
			return
		}
		vfReach("quiet-settings")
		var ss []Setting
		switch vfChoice("quiet-kind", 3) {
		case 0: // empty frame
		case 1:
			v := vfU32("initialWindowSize")
			vfAssume(v <= math.MaxInt32)
			ss = append(ss, Setting{SettingInitialWindowSize, v}) // (this one Broadcasts: a parked waiter re-examines the limit)
		case 2:
			ss = append(ss, Setting{SettingMaxHeaderListSize, vfU32("maxHeaderListSize")})
		}
		if err := h.rl.processSettingsNoWrite(h2cSettingsFrame(ss...)); err != nil {
			vfAssert(false, "SETTINGS without MAX_CONCURRENT_STREAMS accepted")
		}
	}
	admit := func(cs *clientStream) error {
		cc.mu.Lock()
		defer cc.mu.Unlock()
		cc.decrStreamReservationsLocked()
		if err := cc.awaitOpenSlotForStreamLocked(cs); err != nil {
			return err
		}
		cc.addStreamLocked(cs)
		// ghost check at the linearisation point (cc.mu held): the limit in force now is respected
		vfAssert(uint32(len(cc.streams)+cc.pendingResets+cc.streamsReserved) <= limit, "admission respects the limit in force")
		vfAssert(cc.maxConcurrentStreams == limit, "connection's limit == the server's last advertised MAX_CONCURRENT_STREAMS")
		return nil
	}
	// fill the connection: k streams, of which some were cancelled with an unconfirmed RST_STREAM+PING
	quiet(1)
	var open []*clientStream
	lastID := uint32(0)
	for i := 0; i < m; i++ {
		cs := h2cNewStream(cc)
		var err error
		if vfBlocks(func() { err = admit(cs) }) {
			vfAssert(false, "request below the limit must not wait")
		}
		vfAssert(err == nil, "request below the limit admitted")
		vfAssert(cs.ID == lastID+2 || (lastID == 0 && cs.ID == 1), "IDs 1,3,5,...")
		lastID = cs.ID
		open = append(open, cs)
	}
	// optional: the first stream was cancelled by the user before any frame was read: it keeps its slot as a pending reset
	pendingReset := vfChoice("cancelled-first", 2) == 1
	if pendingReset {
		cc.mu.Lock()
		cc.pendingResets++
		cc.mu.Unlock()
		cc.forgetStreamID(open[0].ID)
		open = open[1:]
	}
	// optional: server lowers the limit (possibly below the current count), or leaves it
	newM := vfLen("newlimit", 1, m)
	if newM != m {
		vfReach("limit-lowered")
		if err := h.rl.processSettingsNoWrite(h2cSettingsFrame(Setting{SettingMaxConcurrentStreams, uint32(newM)})); err != nil {
			vfAssert(false, "SETTINGS accepted")
		}
		limit = uint32(newM)
	}
	quiet(2)
	// one more request: must wait
	waiter := h2cNewStream(cc)
	var werr error
	done := make(chan struct{})
	vfGo(func() {
		werr = admit(waiter)
		close(done)
	})
	h2cSettle(func() bool { cc.mu.Lock(); defer cc.mu.Unlock(); return cc.pendingRequests == 1 })
	quiet(3)
	// events that free slots, in a fixed order, until the waiter can run; the scheduler interleaves the waiter freely
	if pendingReset {
		// PING ACK confirms the server is alive: pending resets stop counting
		h.rl.processPing(&PingFrame{FrameHeader: FrameHeader{valid: true, Type: FramePing, Flags: FlagPingAck}})
	}
	for len(open) > 0 {
		cc.forgetStreamID(open[0].ID)
		open = open[1:]
	}
	h2cAwait(done, "waiter is woken and admitted once slots are free")
	vfAssert(werr == nil, "waiter admitted once slots are free")
	vfAssert(waiter.ID == lastID+2, "waiter gets the next odd stream ID")
	vfAssert(waiter.ID&1 == 1, "odd")
	cc.mu.Lock()
	vfAssert(cc.pendingRequests == 0, "no pending request left")
	vfAssert(cc.streams[waiter.ID] == waiter, "waiter registered")
	cc.mu.Unlock()
	vfObserve("waiterID", uint64(waiter.ID))
	vfReach("end")
}

// The connection pool's choice (clientConnPool.getClientConn without dialling) over two cached connections with
// arbitrary (count, limit, strict, goAway, closed) each: the connection returned is the first one that is usable and
// (strict or below its limit); it now holds one more reservation; ErrNoCachedConn iff no such connection exists.
func VerifC17_pool() {
	tr := &Transport{}
	pool := &clientConnPool{t: tr, conns: map[string][]*ClientConn{}}
	const addr = "example.com:443"
	type pc struct {
		cc       *ClientConn
		eligible bool
		reserved int
	}
	var cs [2]pc
	for i := range cs {
		h := h2cNewConn()
		cc := h.cc
		cc.t = tr
		cc.nextStreamID = 3 // used before: the closed-unused exception is covered by VerifC17_reserveStep
		n := vfLen("nstreams", 0, 1)
		for k := 0; k < n; k++ {
			h2cPutStream(cc, h2cNewStream(cc), 1)
		}
		reserved := vfInt("streamsReserved")
		vfAssume(reserved >= 0)
		vfAssume(reserved < 1<<32)
		resets := vfInt("pendingResets")
		vfAssume(resets >= 0)
		vfAssume(resets < 1<<32)
		max := vfU32("maxConcurrentStreams")
		strict, goAway, closed := vfBool("strict"), vfBool("goAway"), vfBool("closed")
		cc.streamsReserved, cc.pendingResets, cc.maxConcurrentStreams = reserved, resets, max
		cc.strictMaxConcurrentStreams, cc.closed = strict, closed
		if vfConcretizeBool(goAway) {
			cc.goAway = &GoAwayFrame{}
		}
		below := int64(n)+int64(reserved)+int64(resets) < int64(max)
		cs[i] = pc{cc: cc, reserved: reserved, eligible: vfAnd(vfAnd(vfNot(goAway), vfNot(closed)), vfOr(strict, below))}
		pool.conns[addr] = append(pool.conns[addr], cc)
	}
	req := &http.Request{Method: "GET", Header: http.Header{}}
	got, err := pool.getClientConn(req, addr, noDialOnMiss)
	switch {
	case err != nil:
		vfReach("none")
		vfAssert(err == ErrNoCachedConn && got == nil, "no connection: ErrNoCachedConn")
		vfAssert(vfAnd(vfNot(cs[0].eligible), vfNot(cs[1].eligible)), "ErrNoCachedConn only if no cached connection is eligible")
	case got == cs[0].cc:
		vfReach("first")
		vfAssert(cs[0].eligible, "chosen connection is usable and (strict or below its limit)")
		vfAssert(cs[0].cc.streamsReserved == cs[0].reserved+1, "chosen connection holds the reservation")
		vfAssert(cs[1].cc.streamsReserved == cs[1].reserved, "other connection untouched")
	case got == cs[1].cc:
		vfReach("second")
		vfAssert(cs[1].eligible, "chosen connection is usable and (strict or below its limit)")
		vfAssert(vfNot(cs[0].eligible), "an eligible earlier connection is preferred")
		vfAssert(cs[1].cc.streamsReserved == cs[1].reserved+1, "chosen connection holds the reservation")
		vfAssert(cs[0].cc.streamsReserved == cs[0].reserved, "other connection untouched")
	default:
		vfAssert(false, "returned connection is one of the cached ones")
	}
	vfReach("end")
}
