package http2

// C06 — HTTP/2 Framer writes frames that read back identically.
//
// Shape B, one harness per Write method. A Framer writes into a bytes.Buffer (AllowIllegalWrites=false);
// the bytes are read back by two fresh Framers over a bytes.Reader, one strict (AllowIllegalReads=false)
// and one lenient. Oracle = the inverse function of the code itself (ReadFrame) plus, for acceptance, the
// documented argument rules of each Write method (RFC 9113 stream-id / padding / increment rules as
// written in the doc comments of frame.go). If a Write method returns an error nothing may have been
// written. Everything scalar is symbolic over its full width (stream ids incl. the reserved bit, flags,
// error codes, increments, setting ids/values, priority parameters, ping data); byte payloads have a
// concretised length 0..P, padding 0..Q plus the boundary lengths 255/256.
//
// Sensitivity (sh mut.sh, each reported as VIOLATION and confirmed natively unless noted):
//   - parseDataFrame   `int(padSize) > len(payload)` -> `>=`              caught by VerifC06_data ("DATA frame reads back")
//   - WritePriority    `v |= 1 << 31` -> `1 << 30`                        caught by VerifC06_priority ("stream dependency")
//   - WriteGoAway      mask `maxStreamID & (1<<31 - 1)` dropped           caught by VerifC06_goaway ("reserved bit not sent")
//   - endWrite         `byte(length>>8)` -> `byte(length>>16)`            caught by VerifC06_big (sizes >= 256)
//   - parseGoAwayFrame mask `& (1<<31 - 1)` dropped                       NOT caught: equivalent on this path, WriteGoAway
//                                                                         already masks (the reader side belongs to C07)
//
// Findings on the unchanged tree (kept as known findings, see known_findings.txt and repro/C06/):
//   - C06-settings-window-unvalidated: WriteSettings accepts SETTINGS_INITIAL_WINDOW_SIZE > 2^31-1, which
//     ReadFrame rejects with a FLOW_CONTROL_ERROR connection error.
//   - C06-windowupdate-reserved-bit: WriteWindowUpdate accepts a stream id with the reserved bit set and
//     puts it on the wire; ReadFrame reports the stream id without that bit.

import (
	"bytes"
)

func init() {
	vfRegister("VerifC06_data", VerifC06_data)
	vfRegister("VerifC06_headers", VerifC06_headers)
	vfRegister("VerifC06_continuation", VerifC06_continuation)
	vfRegister("VerifC06_priority", VerifC06_priority)
	vfRegister("VerifC06_rststream", VerifC06_rststream)
	vfRegister("VerifC06_settings", VerifC06_settings)
	vfRegister("VerifC06_ping", VerifC06_ping)
	vfRegister("VerifC06_goaway", VerifC06_goaway)
	vfRegister("VerifC06_windowupdate", VerifC06_windowupdate)
	vfRegister("VerifC06_pushpromise", VerifC06_pushpromise)
	vfRegister("VerifC06_priorityupdate", VerifC06_priorityupdate)
	vfRegister("VerifC06_raw", VerifC06_raw)
	vfRegister("VerifC06_big", VerifC06_big)
	vfRegister("VerifC06_huge", VerifC06_huge)
}

const (
	c06KeySettings = "C06-settings-window-unvalidated"
	c06KeyWU       = "C06-windowupdate-reserved-bit"
)

// c06P is the maximum payload/fragment/debug length, c06Q the maximum "small" pad length.
func c06P() int {
	if vfTier() > 0 {
		return 6
	}
	return 3
}

func c06Q() int {
	if vfTier() > 0 {
		return 4
	}
	return 2
}

type c06w struct {
	buf bytes.Buffer
	fr  *Framer
}

func c06new() *c06w {
	w := &c06w{}
	w.fr = NewFramer(&w.buf, nil)
	return w
}

// wire returns a copy of what the Framer wrote.
func (w *c06w) wire() []byte { return append([]byte(nil), w.buf.Bytes()...) }

func c06valid(sid uint32) bool       { return vfAnd(sid != 0, sid&(1<<31) == 0) }
func c06validOrZero(sid uint32) bool { return sid&(1<<31) == 0 }

func c06eq(a, b []byte) bool {
	if len(a) != len(b) {
		return false
	}
	ok := true
	for i := range a {
		ok = vfAnd(ok, a[i] == b[i])
	}
	return ok
}

func c06flag(c bool, f Flags) Flags { return Flags(vfIteU8(c, uint8(f), 0)) }

// c06read reads exactly one frame from wire with a fresh Framer.
func c06read(wire []byte, illegal bool) (Frame, error) {
	r := bytes.NewReader(wire)
	fr := NewFramer(nil, r)
	fr.AllowIllegalReads = illegal
	f, err := fr.ReadFrame()
	if err == nil {
		vfAssert(r.Len() == 0, "ReadFrame consumed exactly the bytes written")
	}
	return f, err
}

// c06header checks the generic part of a frame that was read back.
func c06header(f Frame, wire []byte, t FrameType, flags Flags, sid uint32) {
	h := f.Header()
	vfAssert(h.Type == t, "frame type")
	vfAssert(h.Flags == flags, "flags")
	vfAssert(h.StreamID == sid, "stream id")
	vfAssert(int(h.Length) == len(wire)-frameHeaderLen, "length field = payload bytes on the wire")
}

// c06rejected is called when a Write method returned an error.
func c06rejected(w *c06w, accept bool) {
	vfAssert(w.buf.Len() == 0, "nothing written when Write returns an error")
	vfAssert(vfNot(accept), "documented-valid arguments are accepted")
}

// c06pad returns a pad length: 0..Q or 255.
func c06pad() uint8 {
	pl := vfU8("padlen")
	vfAssume(vfOr(int(pl) <= c06Q(), pl == 255))
	return pl
}

// ---------------------------------------------------------------------------------------------------

func VerifC06_data() {
	w := c06new()
	sid, end := vfU32("sid"), vfBool("end")
	data := vfBytes("data", vfLen("n", 0, c06P()))
	var pad []byte
	var err error
	switch vfChoice("padmode", 3) {
	case 0:
		err = w.fr.WriteData(sid, end, data)
	case 1:
		pad = vfBytes("pad", vfLen("q", 0, c06Q()))
		if pad == nil {
			pad = []byte{}
		}
		err = w.fr.WriteDataPadded(sid, end, data, pad)
	case 2:
		// boundary pad lengths: 255 accepted, 256 rejected; one symbolic byte at the end
		pad = make([]byte, 255+vfChoice("over", 2))
		pad[len(pad)-1] = vfU8("lastpad")
		err = w.fr.WriteDataPadded(sid, end, data, pad)
	}
	zero := true
	for _, b := range pad {
		zero = vfAnd(zero, b == 0)
	}
	accept := vfAnd(c06valid(sid), vfAnd(len(pad) <= 255, zero))
	if err != nil {
		c06rejected(w, accept)
		vfReach("rejected")
		return
	}
	vfAssert(accept, "only documented-valid arguments are accepted")
	wire := w.wire()
	flags := c06flag(end, FlagDataEndStream) | c06flag(pad != nil, FlagDataPadded)
	for _, illegal := range []bool{false, true} {
		f, err := c06read(wire, illegal)
		vfAssert(err == nil, "DATA frame reads back")
		df, ok := f.(*DataFrame)
		vfAssert(ok, "DATA reads back as *DataFrame")
		c06header(df, wire, FrameData, flags, sid)
		vfAssert(c06eq(df.Data(), data), "data, padding removed")
		vfAssert(df.StreamEnded() == end, "END_STREAM")
	}
	if len(pad) == 255 {
		vfReach("pad255")
	}
	vfObserveBytes("wire", wire[:min(len(wire), 16)])
	vfReach("end")
}

func VerifC06_headers() {
	w := c06new()
	p := HeadersFrameParam{
		StreamID:      vfU32("sid"),
		BlockFragment: vfBytes("frag", vfLen("n", 0, c06P())),
		EndStream:     vfBool("endstream"),
		EndHeaders:    vfBool("endheaders"),
		PadLength:     c06pad(),
		Priority:      PriorityParam{StreamDep: vfU32("dep"), Exclusive: vfBool("excl"), Weight: vfU8("weight")},
	}
	prioZero := vfAnd(p.Priority.StreamDep == 0, vfAnd(vfNot(p.Priority.Exclusive), p.Priority.Weight == 0))
	accept := vfAnd(c06valid(p.StreamID), vfOr(prioZero, c06validOrZero(p.Priority.StreamDep)))
	err := w.fr.WriteHeaders(p)
	if err != nil {
		c06rejected(w, accept)
		vfReach("rejected")
		return
	}
	vfAssert(accept, "only documented-valid arguments are accepted")
	wire := w.wire()
	flags := c06flag(p.PadLength != 0, FlagHeadersPadded) | c06flag(p.EndStream, FlagHeadersEndStream) |
		c06flag(p.EndHeaders, FlagHeadersEndHeaders) | c06flag(vfNot(prioZero), FlagHeadersPriority)
	for _, illegal := range []bool{false, true} {
		f, err := c06read(wire, illegal)
		vfAssert(err == nil, "HEADERS frame reads back")
		hf, ok := f.(*HeadersFrame)
		vfAssert(ok, "HEADERS reads back as *HeadersFrame")
		c06header(hf, wire, FrameHeaders, flags, p.StreamID)
		vfAssert(c06eq(hf.HeaderBlockFragment(), p.BlockFragment), "fragment, padding removed")
		vfAssert(hf.HasPriority() == vfNot(prioZero), "PRIORITY flag iff priority given")
		vfAssert(hf.Priority.StreamDep == p.Priority.StreamDep, "priority stream dependency")
		vfAssert(hf.Priority.Exclusive == p.Priority.Exclusive, "priority exclusive")
		vfAssert(hf.Priority.Weight == p.Priority.Weight, "priority weight")
		vfAssert(hf.StreamEnded() == p.EndStream, "END_STREAM")
		vfAssert(hf.HeadersEnded() == p.EndHeaders, "END_HEADERS")
	}
	if p.PadLength == 255 {
		vfReach("pad255")
	}
	vfObserveBytes("wire", wire[:min(len(wire), 24)])
	vfReach("end")
}

func VerifC06_continuation() {
	w := c06new()
	sid, end := vfU32("sid"), vfBool("endheaders")
	frag := vfBytes("frag", vfLen("n", 0, c06P()))
	// A CONTINUATION frame is legal only after HEADERS without END_HEADERS on the same stream.
	pre := HeadersFrameParam{StreamID: sid, BlockFragment: vfBytes("hfrag", 1)}
	if err := w.fr.WriteHeaders(pre); err != nil {
		vfAssert(vfNot(c06valid(sid)), "documented-valid arguments are accepted")
		vfAssert(w.fr.WriteContinuation(sid, end, frag) != nil, "CONTINUATION rejects what HEADERS rejects")
		vfAssert(w.buf.Len() == 0, "nothing written when Write returns an error")
		vfReach("rejected")
		return
	}
	n1 := w.buf.Len()
	err := w.fr.WriteContinuation(sid, end, frag)
	vfAssert(err == nil, "CONTINUATION accepts the stream id HEADERS accepted")
	if err != nil {
		return
	}
	all := w.wire()
	wire := all[n1:]
	flags := c06flag(end, FlagContinuationEndHeaders)
	// strict reader: HEADERS then CONTINUATION
	r := bytes.NewReader(all)
	fr := NewFramer(nil, r)
	f, err := fr.ReadFrame()
	vfAssert(err == nil, "HEADERS frame reads back")
	_, ok := f.(*HeadersFrame)
	vfAssert(ok, "HEADERS reads back as *HeadersFrame")
	vfAssert(r.Len() == len(wire), "first frame consumed exactly")
	for _, illegal := range []bool{false, true} {
		if illegal {
			r = bytes.NewReader(wire)
			fr = NewFramer(nil, r)
			fr.AllowIllegalReads = true
		}
		f, err = fr.ReadFrame()
		vfAssert(err == nil, "CONTINUATION frame reads back")
		vfAssert(r.Len() == 0, "ReadFrame consumed exactly the bytes written")
		cf, ok := f.(*ContinuationFrame)
		vfAssert(ok, "CONTINUATION reads back as *ContinuationFrame")
		c06header(cf, wire, FrameContinuation, flags, sid)
		vfAssert(c06eq(cf.HeaderBlockFragment(), frag), "fragment")
		vfAssert(cf.HeadersEnded() == end, "END_HEADERS")
	}
	vfObserveBytes("wire", wire)
	vfReach("end")
}

func VerifC06_priority() {
	w := c06new()
	sid := vfU32("sid")
	p := PriorityParam{StreamDep: vfU32("dep"), Exclusive: vfBool("excl"), Weight: vfU8("weight")}
	accept := vfAnd(c06valid(sid), c06validOrZero(p.StreamDep))
	if err := w.fr.WritePriority(sid, p); err != nil {
		c06rejected(w, accept)
		vfReach("rejected")
		return
	}
	vfAssert(accept, "only documented-valid arguments are accepted")
	wire := w.wire()
	vfAssert(len(wire) == frameHeaderLen+5, "PRIORITY payload is 5 bytes")
	for _, illegal := range []bool{false, true} {
		f, err := c06read(wire, illegal)
		vfAssert(err == nil, "PRIORITY frame reads back")
		pf, ok := f.(*PriorityFrame)
		vfAssert(ok, "PRIORITY reads back as *PriorityFrame")
		c06header(pf, wire, FramePriority, 0, sid)
		vfAssert(pf.StreamDep == p.StreamDep, "stream dependency")
		vfAssert(pf.Exclusive == p.Exclusive, "exclusive")
		vfAssert(pf.Weight == p.Weight, "weight")
	}
	vfObserveBytes("wire", wire)
	vfReach("end")
}

func VerifC06_rststream() {
	w := c06new()
	sid, code := vfU32("sid"), ErrCode(vfU32("code"))
	accept := c06valid(sid)
	if err := w.fr.WriteRSTStream(sid, code); err != nil {
		c06rejected(w, accept)
		vfReach("rejected")
		return
	}
	vfAssert(accept, "only documented-valid arguments are accepted")
	wire := w.wire()
	for _, illegal := range []bool{false, true} {
		f, err := c06read(wire, illegal)
		vfAssert(err == nil, "RST_STREAM frame reads back")
		rf, ok := f.(*RSTStreamFrame)
		vfAssert(ok, "RST_STREAM reads back as *RSTStreamFrame")
		c06header(rf, wire, FrameRSTStream, 0, sid)
		vfAssert(rf.ErrCode == code, "error code")
	}
	vfObserveBytes("wire", wire)
	vfReach("end")
}

func VerifC06_settings() {
	w := c06new()
	if vfChoice("ack", 2) == 1 {
		err := w.fr.WriteSettingsAck()
		vfAssert(err == nil, "WriteSettingsAck succeeds")
		wire := w.wire()
		for _, illegal := range []bool{false, true} {
			f, err := c06read(wire, illegal)
			vfAssert(err == nil, "SETTINGS ack reads back")
			sf, ok := f.(*SettingsFrame)
			vfAssert(ok, "SETTINGS reads back as *SettingsFrame")
			c06header(sf, wire, FrameSettings, FlagSettingsAck, 0)
			vfAssert(sf.IsAck() && sf.NumSettings() == 0, "empty ack")
		}
		vfReach("ack")
		return
	}
	k := vfLen("k", 0, 3)
	ss := make([]Setting, k)
	// known finding: the value ReadFrame looks at is the first SETTINGS_INITIAL_WINDOW_SIZE entry
	tooBig, seen := false, false
	for i := range ss {
		ss[i] = Setting{ID: SettingID(vfU16("id")), Val: vfU32("val")}
		isWin := ss[i].ID == SettingInitialWindowSize
		tooBig = vfOr(tooBig, vfAnd(isWin, ss[i].Val > 1<<31-1))
		seen = vfOr(seen, isWin)
	}
	err := w.fr.WriteSettings(ss...)
	// (fixed finding C06-settings-window-unvalidated, /repo "Framer.WriteSettings refuses SETTINGS_INITIAL_WINDOW_SIZE
	// above 2^31-1": ReadFrame rejects a frame whose first INITIAL_WINDOW_SIZE entry is that large)
	vfAssert(vfAnd(vfImplies(err != nil, tooBig), vfImplies(tooBig, err != nil)), "WriteSettings refuses exactly an INITIAL_WINDOW_SIZE above 2^31-1")
	if err != nil {
		vfReach("refused")
		return
	}
	wire := w.wire()
	vfAssert(len(wire) == frameHeaderLen+6*k, "6 bytes per setting")
	for _, illegal := range []bool{false, true} {
		f, err := c06read(wire, illegal)
		if err != nil {
			vfAssert(false, "SETTINGS frame reads back")
			return
		}
		sf, ok := f.(*SettingsFrame)
		vfAssert(ok, "SETTINGS reads back as *SettingsFrame")
		c06header(sf, wire, FrameSettings, 0, 0)
		vfAssert(!sf.IsAck(), "not an ack")
		vfAssert(sf.NumSettings() == k, "number of settings")
		for i := range ss {
			got := sf.Setting(i)
			vfAssert(got.ID == ss[i].ID, "setting id")
			vfAssert(got.Val == ss[i].Val, "setting value")
		}
	}
	vfObserveBytes("wire", wire)
	vfReach("end")
}

func VerifC06_ping() {
	w := c06new()
	ack := vfBool("ack")
	var data [8]byte
	copy(data[:], vfBytes("data", 8))
	err := w.fr.WritePing(ack, data)
	vfAssert(err == nil, "WritePing succeeds")
	wire := w.wire()
	for _, illegal := range []bool{false, true} {
		f, err := c06read(wire, illegal)
		vfAssert(err == nil, "PING frame reads back")
		pf, ok := f.(*PingFrame)
		vfAssert(ok, "PING reads back as *PingFrame")
		c06header(pf, wire, FramePing, c06flag(ack, FlagPingAck), 0)
		vfAssert(c06eq(pf.Data[:], data[:]), "ping data")
		vfAssert(pf.IsAck() == ack, "ack")
	}
	vfObserveBytes("wire", wire)
	vfReach("end")
}

func VerifC06_goaway() {
	w := c06new()
	last, code := vfU32("last"), ErrCode(vfU32("code"))
	debug := vfBytes("debug", vfLen("n", 0, c06P()))
	err := w.fr.WriteGoAway(last, code, debug)
	vfAssert(err == nil, "WriteGoAway succeeds")
	wire := w.wire()
	for _, illegal := range []bool{false, true} {
		f, err := c06read(wire, illegal)
		vfAssert(err == nil, "GOAWAY frame reads back")
		gf, ok := f.(*GoAwayFrame)
		vfAssert(ok, "GOAWAY reads back as *GoAwayFrame")
		c06header(gf, wire, FrameGoAway, 0, 0)
		// WriteGoAway documents (by masking) that only the low 31 bits are sent
		vfAssert(gf.LastStreamID == last&(1<<31-1), "last stream id (31 bits)")
		vfAssert(gf.ErrCode == code, "error code")
		vfAssert(c06eq(gf.DebugData(), debug), "debug data")
	}
	vfAssert(wire[frameHeaderLen]&0x80 == 0, "reserved bit not sent")
	vfObserveBytes("wire", wire)
	vfReach("end")
}

func VerifC06_windowupdate() {
	w := c06new()
	sid, incr := vfU32("sid"), vfU32("incr")
	// since /repo commit b82cbc7 the stream id must not carry the reserved bit (0 = connection level is valid)
	accept := vfAnd(vfAnd(incr >= 1, incr <= 1<<31-1), sid&(1<<31) == 0)
	if err := w.fr.WriteWindowUpdate(sid, incr); err != nil {
		c06rejected(w, accept)
		vfReach("rejected")
		return
	}
	vfAssert(accept, "only documented-valid arguments are accepted")
	wire := w.wire()
	for _, illegal := range []bool{false, true} {
		f, err := c06read(wire, illegal)
		vfAssert(err == nil, "WINDOW_UPDATE frame reads back")
		wf, ok := f.(*WindowUpdateFrame)
		vfAssert(ok, "WINDOW_UPDATE reads back as *WindowUpdateFrame")
		h := wf.Header()
		vfAssert(h.Type == FrameWindowUpdate && h.Flags == 0 && h.Length == 4, "header")
		vfAssert(h.StreamID == sid&(1<<31-1), "stream id (31 bits)")
		vfAssertKF(h.StreamID == sid, "stream id", c06KeyWU, sid&(1<<31) != 0)
		vfAssert(wf.Increment == incr, "increment")
	}
	vfObserveBytes("wire", wire)
	vfReach("end")
}

func VerifC06_pushpromise() {
	w := c06new()
	p := PushPromiseParam{
		StreamID:      vfU32("sid"),
		PromiseID:     vfU32("promise"),
		BlockFragment: vfBytes("frag", vfLen("n", 0, c06P())),
		EndHeaders:    vfBool("endheaders"),
		PadLength:     c06pad(),
	}
	accept := vfAnd(c06valid(p.StreamID), c06valid(p.PromiseID))
	if err := w.fr.WritePushPromise(p); err != nil {
		c06rejected(w, accept)
		vfReach("rejected")
		return
	}
	vfAssert(accept, "only documented-valid arguments are accepted")
	wire := w.wire()
	flags := c06flag(p.PadLength != 0, FlagPushPromisePadded) | c06flag(p.EndHeaders, FlagPushPromiseEndHeaders)
	for _, illegal := range []bool{false, true} {
		f, err := c06read(wire, illegal)
		vfAssert(err == nil, "PUSH_PROMISE frame reads back")
		pf, ok := f.(*PushPromiseFrame)
		vfAssert(ok, "PUSH_PROMISE reads back as *PushPromiseFrame")
		c06header(pf, wire, FramePushPromise, flags, p.StreamID)
		vfAssert(pf.PromiseID == p.PromiseID, "promised stream id")
		vfAssert(c06eq(pf.HeaderBlockFragment(), p.BlockFragment), "fragment, padding removed")
		vfAssert(pf.HeadersEnded() == p.EndHeaders, "END_HEADERS")
	}
	if p.PadLength == 255 {
		vfReach("pad255")
	}
	vfObserveBytes("wire", wire[:min(len(wire), 24)])
	vfReach("end")
}

func VerifC06_priorityupdate() {
	w := c06new()
	sid := vfU32("sid")
	prio := vfBytes("priority", vfLen("n", 0, c06P()))
	accept := c06valid(sid)
	if err := w.fr.WritePriorityUpdate(sid, string(prio)); err != nil {
		c06rejected(w, accept)
		vfReach("rejected")
		return
	}
	vfAssert(accept, "only documented-valid arguments are accepted")
	wire := w.wire()
	for _, illegal := range []bool{false, true} {
		f, err := c06read(wire, illegal)
		vfAssert(err == nil, "PRIORITY_UPDATE frame reads back")
		pf, ok := f.(*PriorityUpdateFrame)
		vfAssert(ok, "PRIORITY_UPDATE reads back as *PriorityUpdateFrame")
		c06header(pf, wire, FramePriorityUpdate, 0, 0)
		vfAssert(pf.PrioritizedStreamID == sid, "prioritized stream id")
		vfAssert(c06eq([]byte(pf.Priority), prio), "priority field value")
	}
	vfObserveBytes("wire", wire)
	vfReach("end")
}

// WriteRawFrame accepts anything: the bytes on the wire are exactly header(length, type, flags, stream id) ++
// payload for every argument combination (so a raw frame equal to a typed frame is the typed frame, covered by
// the harnesses above), and frames of a type without a parser (0x0a..0x0f, >= 0x11) read back as UnknownFrame.
func VerifC06_raw() {
	w := c06new()
	t, flags, sid := FrameType(vfU8("type")), Flags(vfU8("flags")), vfU32("sid")
	payload := vfBytes("payload", vfLen("n", 0, c06P()))
	err := w.fr.WriteRawFrame(t, flags, sid, payload)
	vfAssert(err == nil, "WriteRawFrame succeeds")
	wire := w.wire()
	vfAssert(len(wire) == frameHeaderLen+len(payload), "wire length")
	vfAssert(wire[0] == 0 && wire[1] == 0 && int(wire[2]) == len(payload), "length field")
	vfAssert(wire[3] == byte(t) && wire[4] == byte(flags), "type and flags bytes")
	vfAssert(uint32(wire[5])<<24|uint32(wire[6])<<16|uint32(wire[7])<<8|uint32(wire[8]) == sid, "stream id bytes")
	vfAssert(c06eq(wire[frameHeaderLen:], payload), "payload bytes")
	vfAssume(vfOr(vfAnd(t >= 0x0a, t <= 0x0f), t >= 0x11))
	for _, illegal := range []bool{false, true} {
		f, err := c06read(wire, illegal)
		vfAssert(err == nil, "unknown frame type reads back")
		uf, ok := f.(*UnknownFrame)
		vfAssert(ok, "unknown frame type reads back as *UnknownFrame")
		c06header(uf, wire, t, flags, sid&(1<<31-1))
		vfAssert(c06eq(uf.Payload(), payload), "payload")
	}
	vfObserveBytes("wire", wire)
	vfReach("end")
}

// Length back-patching at larger sizes: concrete sizes around 2^8, 2^14 (default max frame size) and, in
// thorough, 2^16. Payload bytes are concrete zeros except three symbolic positions (first, middle, last).
func VerifC06_big() {
	sizes := []int{255, 256, 257, 16383, 16384, 16385}
	if vfTier() > 0 {
		sizes = append(sizes, 65535, 65536)
	}
	n := sizes[vfChoice("size", len(sizes))]
	c06big(n, vfChoice("method", 3))
	vfReach("end")
}

// c06sink is an io.Writer that records only the size and the first bytes of each Write (no 16 MB copies).
type c06sink struct {
	writes int
	n      int
	head   [frameHeaderLen]byte
}

func (s *c06sink) Write(p []byte) (int, error) {
	s.writes++
	s.n += len(p)
	copy(s.head[:], p)
	return len(p), nil
}

// endWrite's ErrFrameTooLarge edge: a payload of 2^24-1 bytes is the largest frame, 2^24 is rejected.
// Probes 0/1 (both tiers) drive startWrite/endWrite directly on a pre-sized write buffer with a counting
// io.Writer (one 16 MB allocation, no copies); probes 2/3 (thorough) go through WriteRawFrame, a bytes.Buffer
// and ReadFrame.
func VerifC06_huge() {
	k := 2
	if vfTier() > 0 {
		k = 4
	}
	probe := vfChoice("probe", k)
	n := 1<<24 - 1 + probe%2
	if probe >= 2 {
		if c06big(n, 2) {
			vfReach("max")
		} else {
			vfReach("toolarge")
		}
		vfReach("end")
		return
	}
	t, flags, sid := FrameType(vfU8("type")), Flags(vfU8("flags")), vfU32("sid")
	sink := &c06sink{}
	fr := NewFramer(sink, nil)
	fr.wbuf = make([]byte, frameHeaderLen+n)
	fr.startWrite(t, flags, sid)
	vfAssert(len(fr.wbuf) == frameHeaderLen, "startWrite leaves just the header")
	fr.wbuf = fr.wbuf[:frameHeaderLen+n] // payload: n zero bytes
	fr.wbuf[len(fr.wbuf)-1] = vfU8("last")
	err := fr.endWrite()
	if n >= 1<<24 {
		vfAssert(err == ErrFrameTooLarge, "payload of 2^24 bytes is rejected with ErrFrameTooLarge")
		vfAssert(sink.writes == 0, "nothing written when endWrite returns an error")
		vfReach("toolarge")
	} else {
		vfAssert(err == nil, "payload of 2^24-1 bytes is accepted")
		vfAssert(sink.writes == 1 && sink.n == frameHeaderLen+n, "exactly one Write of header+payload")
		h := sink.head
		vfAssert(h[0] == 0xff && h[1] == 0xff && h[2] == 0xff, "length field 2^24-1")
		vfAssert(h[3] == byte(t) && h[4] == byte(flags), "type and flags bytes")
		vfAssert(uint32(h[5])<<24|uint32(h[6])<<16|uint32(h[7])<<8|uint32(h[8]) == sid, "stream id bytes")
		fh, err := readFrameHeader(make([]byte, frameHeaderLen), bytes.NewReader(h[:]))
		vfAssert(err == nil && fh.Length == 1<<24-1 && fh.Type == t && fh.Flags == flags && fh.StreamID == sid&(1<<31-1), "header reads back")
		vfReach("max")
	}
	vfReach("end")
}

// c06big writes n payload bytes with method m (0 WriteData, 1 WriteGoAway, 2 WriteRawFrame) and reads them back;
// it reports whether the frame was accepted.
func c06big(n, m int) bool {
	data := make([]byte, n)
	data[0], data[n/2], data[n-1] = vfU8("first"), vfU8("mid"), vfU8("last")
	sid := vfU32("sid")
	vfAssume(c06valid(sid))
	w := c06new()
	var err error
	var t FrameType
	var extra int // payload bytes in front of data
	switch m {
	case 0:
		t = FrameData
		err = w.fr.WriteData(sid, false, data)
	case 1:
		t, extra = FrameGoAway, 8
		sid = 0
		err = w.fr.WriteGoAway(1, ErrCodeNo, data)
	case 2:
		t = 0x20
		err = w.fr.WriteRawFrame(t, 0, sid, data)
	}
	if n+extra >= 1<<24 {
		vfAssert(err == ErrFrameTooLarge, "payload of 2^24 bytes or more is rejected with ErrFrameTooLarge")
		vfAssert(w.buf.Len() == 0, "nothing written when Write returns an error")
		return false
	}
	vfAssert(err == nil, "payload below 2^24 bytes is accepted")
	wire := w.buf.Bytes()
	vfAssert(len(wire) == frameHeaderLen+extra+n, "wire length")
	f, err := c06read(wire, false)
	vfAssert(err == nil, "large frame reads back")
	h := f.Header()
	vfAssert(h.Type == t && h.StreamID == sid && int(h.Length) == extra+n, "header")
	var got []byte
	switch f := f.(type) {
	case *DataFrame:
		got = f.Data()
	case *GoAwayFrame:
		got = f.DebugData()
	case *UnknownFrame:
		got = f.Payload()
	}
	vfAssert(len(got) == n, "payload length")
	vfAssert(vfAnd(got[0] == data[0], vfAnd(got[n/2] == data[n/2], got[n-1] == data[n-1])), "payload bytes")
	vfObserveBytes("header", wire[:frameHeaderLen])
	return true
}
