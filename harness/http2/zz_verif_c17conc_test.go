package http2

// C17 — the "schedules" half of the quantifier: whole requests racing on ONE connection (shape B: bounded run from the
// real initial state, under the symbolic scheduler).
//
// The other C17 harnesses run requests one at a time (lifecycle) or only the admission critical section (history), so
// "stream IDs the client opens are strictly increasing" was only ever observed where the ID is assigned
// (addStreamLocked). What the server sees is the order of HEADERS frames ON THE WIRE, and that order is the order of ID
// assignment only because clientStream.writeRequest keeps the new-request lock (cc.reqHeaderMu) from before the ID is
// assigned until encodeAndWriteHeaders has written the frame. Here N real clientStream.doRequest calls (writeRequest +
// cleanupWriteRequest, real hpack encoder, real Framer) run on N goroutines; the scheduler interleaves them at every
// mutex / channel / select operation (<= max_preemptions preemptive switches). When every goroutine has finished or is
// parked (waiting for its response, or for a slot under StrictMaxConcurrentStreams) the wire is read back:
//
//	HEADERS frames carry odd, strictly increasing stream IDs (RFC 9113 §5.1.1), one frame per request that is open,
//	none for a request that was cancelled before its HEADERS; open streams <= MAX_CONCURRENT_STREAMS; a request
//	parked without a stream only when the connection is full (no lost wake-up); a request refused only without
//	StrictMaxConcurrentStreams on a connection whose limit is below the number of requests.
//
// Per request the harness chooses: plain | delayed between ID assignment and the HEADERS write (streamf hook, the
// tree's own test hook: a scheduling point in the engine, a 30 ms sleep natively so that the overtaking schedule is also
// the native one) | cancelled at that point (its ID is skipped on the wire).
//
// Sensitivity (quick tier): transport.go writeRequest: `<-cc.reqHeaderMu` moved from after encodeAndWriteHeaders to
// right after the ID is assigned (seed C17-E) -> "HEADERS on the wire: stream IDs strictly increasing".

import "sync"

func init() { vfRegister("VerifC17_concurrent", VerifC17_concurrent) }

func VerifC17_concurrent() {
	h := h2cNewConn()
	cc := h.cc
	const N = 2 // (3 requests with <= 1 preemption: > 536k paths in 400 s on 6 workers, not finished: outside both tiers)
	cc.strictMaxConcurrentStreams = vfChoice("strict", 2) == 1
	m := vfLen("limit", 1, N)
	if err := h.rl.processSettingsNoWrite(h2cSettingsFrame(Setting{SettingMaxConcurrentStreams, uint32(m)})); err != nil {
		vfAssert(false, "initial SETTINGS accepted")
	}
	ghost := &h2cGhost{}
	var idmu sync.Mutex // (harness bookkeeping only; natively the hooks run on different goroutines)
	var assigned []uint32
	reqs := make([]*c17req, N)
	modes := make([]int, N)
	for i := 0; i < N; i++ {
		r := &c17req{cs: h2cNewStream(cc), cancel: make(chan struct{})}
		r.cs.reqCancel = r.cancel
		reqs[i] = r
		mode := vfChoice("mode", 3)
		modes[i] = mode
		var streamf func(*clientStream)
		if mode != 0 {
			// runs between stream-ID assignment (cc.mu released) and the HEADERS write
			streamf = func(cs *clientStream) {
				idmu.Lock()
				ghost.assert(cs.ID&1 == 1, "assigned stream ID odd")
				for _, a := range assigned {
					ghost.assert(a != cs.ID, "stream ID assigned once")
				}
				assigned = append(assigned, cs.ID)
				idmu.Unlock()
				if mode == 1 {
					h2cPause() // native: let the other requests run as far as they can
					vfYield()
				} else {
					close(r.cancel)
				}
			}
		}
		req := c17lifeRequest()
		vfGo(func() { r.cs.doRequest(req, streamf) })
	}
	// wait until every request has finished or is parked
	parked := vfBlocks(func() {
		for _, r := range reqs {
			<-r.cs.donec
		}
	})
	ghost.report()

	// the wire: HEADERS in the order the server reads them
	var wireIDs []uint32
	last := uint32(0)
	for h.out.Len() > 0 {
		f, err := h.rd.ReadFrame()
		if err != nil {
			vfAssert(false, "client wrote a well-formed frame")
			break
		}
		if hf, ok := f.(*HeadersFrame); ok {
			id := hf.Header().StreamID
			vfAssert(id&1 == 1, "HEADERS on the wire: stream ID odd")
			vfAssert(id > last, "HEADERS on the wire: stream IDs strictly increasing")
			last = id
			wireIDs = append(wireIDs, id)
		}
	}
	onWire := func(id uint32) int {
		n := 0
		for _, w := range wireIDs {
			if w == id {
				n++
			}
		}
		return n
	}
	cc.mu.Lock()
	streams, resets, pending := len(cc.streams), cc.pendingResets, cc.pendingRequests
	cc.mu.Unlock()
	vfAssert(streams <= m, "open streams <= MAX_CONCURRENT_STREAMS")
	nOpen, nWaiting := 0, 0
	for i, r := range reqs {
		done := false
		select {
		case <-r.cs.donec:
			done = true
		default:
		}
		id := r.cs.ID
		switch {
		case !done && id != 0: // open, waiting for its response
			nOpen++
			vfReach("request-open")
			vfAssert(modes[i] != 2, "cancelled request does not stay open")
			vfAssert(onWire(id) == 1, "open request: its HEADERS frame is on the wire exactly once")
		case !done: // waiting for a slot
			nWaiting++
			vfReach("request-waiting")
			vfAssert(cc.strictMaxConcurrentStreams, "requests wait for a slot only with StrictMaxConcurrentStreams")
			vfAssert(streams+resets >= m, "a request waits only while the connection is full (no lost wake-up)")
		case id != 0: // ended after its ID was assigned
			vfReach("request-cancelled-after-id")
			vfAssert(modes[i] == 2, "only a cancelled request ends")
			vfAssert(onWire(id) == 0, "request cancelled before its HEADERS: nothing on the wire")
		default: // refused at admission
			vfReach("request-refused")
			vfAssert(!cc.strictMaxConcurrentStreams && m < N, "a request is refused only without strict mode on a connection whose limit is below the number of requests")
		}
	}
	vfAssert(streams == nOpen, "open streams == requests in flight")
	vfAssert(pending == nWaiting, "pendingRequests == requests waiting")
	vfAssert(len(wireIDs) == nOpen, "one HEADERS frame per open request")
	vfAssert(parked == (nOpen+nWaiting > 0), "requests park only waiting for a response or a slot")
	if len(wireIDs) >= 2 {
		vfReach("two-headers-on-the-wire")
	}
	vfReach("end")
}
