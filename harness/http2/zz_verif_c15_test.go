package http2

// C15 (KERNEL claim) — the HTTP/2 server obeys stream-state and connection-control rules.
//
//   VerifC15_ping              processPing: arbitrary data / ACK flag / stream id; exactly one PING ACK with the same
//                              data on the wire, nothing for an ACK, PROTOCOL_ERROR on a stream id != 0
//   VerifC15_settings          processSettings: 0..2 settings with arbitrary ids 0..10 and arbitrary values (or an ACK):
//                              reference validation in the harness; accepted => exactly one SETTINGS ACK on the wire
//                              and the values applied; rejected => the documented connection error, no ACK
//   VerifC15_closedFilter      bounded history on one stream (shape B): handler writes (HEADERS, DATA, END_STREAM on
//                              either), handler-side stream error, handler panic RST, peer RST_STREAM, peer
//                              WINDOW_UPDATE, DATA possibly pending behind a zero window; decoded output must never
//                              carry HEADERS/DATA for the stream after END_STREAM or RST_STREAM was sent for it or
//                              RST_STREAM was received; no "frame on closed stream" panic of startFrameWrite
//   VerifC15_handlerStep       one inductive step (shape I) of scheduleHandler / handlerDone over arbitrary uint32
//                              counters: curHandlers <= advMaxStreams is preserved, queued handlers start only in
//                              handlerDone, in order, skipping reset streams
//   VerifC15_headersLimit      processHeaders' SETTINGS_MAX_CONCURRENT_STREAMS check with arbitrary counters: over
//                              the limit => REFUSED_STREAM / PROTOCOL_ERROR stream error, no stream, no handler
//   VerifC15_requestValidation processHeaders on requests from a table of malformed / connection-specific header
//                              sets: rejected with a stream error, or answered by the built-in 400 handler; the user
//                              handler is never the one scheduled
//   VerifC15_connSpecificValues same unit, but the VALUES are symbolic: one extra field (each connection-specific
//                              name, te, or a harmless one) on 1..2 field lines with arbitrary bytes of bounded length;
//                              reference = RFC 9113 8.2.2: any connection-specific field rejects the request whatever
//                              its value, te is accepted only as a single line that is empty or exactly "trailers"
//
// Sensitivity (mut.sh; all caught and confirmed natively):
//   write.go writePingAck answering with zeroed data                 VerifC15_ping "PING ACK carries the same 8 bytes"
//   server.go writeFrame closed-stream filter disabled                VerifC15_closedFilter (wire assertion / scheduler panic
//                                                                     "add DATA on non-open stream")
//   server.go scheduleHandler `curHandlers < max` -> `<=`             VerifC15_handlerStep, VerifC15_headersLimit
//   server.go handlerDone without `sc.curHandlers--`                  VerifC15_handlerStep "exactly the started handlers run"
//   server.go checkValidHTTP2RequestHeaders: exact `te[0] != "trailers"` replaced by a token-list test
//   (HeaderValuesContainsToken)                                       VerifC15_connSpecificValues "te other than exactly trailers"

import (
	"net/http"

	"golang.org/x/net/http2/hpack"
)

func init() {
	vfRegister("VerifC15_ping", VerifC15_ping)
	vfRegister("VerifC15_settings", VerifC15_settings)
	vfRegister("VerifC15_closedFilter", VerifC15_closedFilter)
	vfRegister("VerifC15_handlerStep", VerifC15_handlerStep)
	vfRegister("VerifC15_headersLimit", VerifC15_headersLimit)
	vfRegister("VerifC15_requestValidation", VerifC15_requestValidation)
	vfRegister("VerifC15_connSpecificValues", VerifC15_connSpecificValues)
}

func c15connErr(err error, code ErrCode) bool {
	ce, ok := err.(ConnectionError)
	return ok && ErrCode(ce) == code
}

// (a) PING.
func VerifC15_ping() {
	sc, c := h2sNewServerConn(h2sSchedRFC9218)
	var data [8]byte
	copy(data[:], vfBytes("data", 8))
	ack := vfBool("ACK")
	id := vfU32("stream id")
	vfAssume(id <= 1<<31-1)
	var fl Flags
	if ack {
		fl = FlagPingAck
	}
	f := &PingFrame{FrameHeader: FrameHeader{valid: true, Type: FramePing, Flags: fl, Length: 8, StreamID: id}, Data: data}
	err := sc.processPing(f)
	h2sDrain(sc)
	pings := 0
	h2sWire(c, func(fr Frame) {
		pf, ok := fr.(*PingFrame)
		vfAssert(ok, "nothing but a PING is written")
		pings++
		vfAssert(pf.IsAck() && pf.StreamID == 0, "answer is a PING ACK on stream 0")
		same := true
		for i := range data {
			same = vfAnd(same, pf.Data[i] == data[i])
		}
		vfAssert(same, "PING ACK carries the same 8 bytes")
	})
	switch {
	case ack:
		vfAssert(err == nil && pings == 0, "a PING ACK is never answered")
		vfReach("ack")
	case id != 0:
		vfAssert(c15connErr(err, ErrCodeProtocol) && pings == 0, "PING on a stream: PROTOCOL_ERROR, no answer")
		vfReach("ping on stream")
	default:
		vfAssert(err == nil && pings == 1, "every non-ACK PING is answered exactly once")
		vfReach("answered")
	}
	vfObserve("pings", uint64(pings))
	vfReach("end")
}

// c15validate is the reference for processSettings' verdict (RFC 9113 section 6.5.2 limits as documented in
// Setting.Valid and processSetting): 0 = accepted, otherwise the connection error code.
func c15validate(ss []Setting) (code ErrCode, bad bool) {
	for i := range ss {
		for j := i + 1; j < len(ss); j++ {
			if ss[i].ID == ss[j].ID {
				return ErrCodeProtocol, true
			}
		}
	}
	for _, s := range ss {
		switch s.ID {
		case SettingEnablePush, SettingEnableConnectProtocol, SettingNoRFC7540Priorities:
			if s.Val > 1 {
				return ErrCodeProtocol, true
			}
		case SettingInitialWindowSize:
			if s.Val > 1<<31-1 {
				return ErrCodeFlowControl, true
			}
		case SettingMaxFrameSize:
			if s.Val < 16384 || s.Val > 1<<24-1 {
				return ErrCodeProtocol, true
			}
		}
	}
	return 0, false
}

// (b) SETTINGS.
func VerifC15_settings() {
	sc, c := h2sNewServerConn(h2sSchedRFC9218)
	sc.unackedSettings = vfChoice("unacked", 2) // SETTINGS frames we sent that are not yet acknowledged
	isAck := vfChoice("ACK", 2) == 1
	n := 0
	if !isAck {
		n = vfLen("n", 0, 2)
	}
	var ss []Setting
	for i := 0; i < n; i++ {
		id := vfU16("id")
		vfAssume(id <= 10)
		ss = append(ss, Setting{SettingID(id), vfU32("val")})
	}
	un0 := sc.unackedSettings
	err := sc.processSettings(h2sSettingsFrame(isAck, ss...))
	h2sDrain(sc)
	acks, others := 0, 0
	h2sWire(c, func(fr Frame) {
		if sf, ok := fr.(*SettingsFrame); ok && sf.IsAck() {
			acks++
		} else {
			others++
		}
	})
	vfAssert(others == 0, "nothing but SETTINGS ACK is written")
	if isAck {
		if un0 == 0 {
			vfAssert(c15connErr(err, ErrCodeProtocol), "ACK for SETTINGS we never sent: PROTOCOL_ERROR")
			vfReach("mystery ack")
		} else {
			vfAssert(err == nil && sc.unackedSettings == un0-1, "ACK consumed")
			vfReach("ack consumed")
		}
		vfAssert(acks == 0, "an ACK is not acknowledged")
		vfReach("end")
		return
	}
	code, bad := c15validate(ss)
	if bad {
		vfAssert(c15connErr(err, code), "invalid SETTINGS: the documented connection error")
		vfAssert(acks == 0, "invalid SETTINGS are not acknowledged")
		if code == ErrCodeFlowControl {
			vfReach("flow control error")
		}
		vfReach("rejected")
	} else {
		vfAssert(err == nil, "valid SETTINGS accepted")
		vfAssert(acks == 1, "every SETTINGS frame is acknowledged exactly once")
		for _, s := range ss {
			switch s.ID {
			case SettingEnablePush:
				vfAssert(sc.pushEnabled == (s.Val != 0), "ENABLE_PUSH applied")
			case SettingMaxConcurrentStreams:
				vfAssert(sc.clientMaxStreams == s.Val, "MAX_CONCURRENT_STREAMS applied")
			case SettingInitialWindowSize:
				vfAssert(sc.initialStreamSendWindowSize == int32(s.Val), "INITIAL_WINDOW_SIZE applied")
			case SettingMaxFrameSize:
				vfAssert(sc.maxFrameSize == int32(s.Val), "MAX_FRAME_SIZE applied")
			case SettingMaxHeaderListSize:
				vfAssert(sc.peerMaxHeaderListSize == s.Val, "MAX_HEADER_LIST_SIZE applied")
			}
		}
		if n == 0 {
			vfReach("empty SETTINGS acknowledged")
		}
		vfReach("accepted")
	}
	vfObserve("acks", uint64(acks))
	vfObserveBool("err", err != nil)
	vfReach("end")
}

func c15steps() int {
	if vfTier() > 0 {
		return 5
	}
	return 4
}

// (c) no HEADERS/DATA on a stream after it was closed in either direction.
func VerifC15_closedFilter() {
	sc, c := h2sNewServerConn(vfChoice("scheduler", 2))
	if vfChoice("send window", 2) == 1 {
		sc.initialStreamSendWindowSize = 0 // client's SETTINGS_INITIAL_WINDOW_SIZE 0: DATA stays queued
	}
	initState := stateOpen
	if vfChoice("request ended", 2) == 1 {
		initState = stateHalfClosedRemote
	}
	st := h2sOpenStream(sc, 1, initState, initState == stateOpen)
	phase := 0 // the handler's own discipline (responseWriter): 0 nothing sent, 1 headers sent, 2 response finished
	sentClose := false
	gotReset := false

	for step := 0; step < c15steps(); step++ {
		switch vfChoice("event", 6) {
		case 0:
			vfAssume(phase == 0)
			end := vfBool("END_STREAM")
			sc.writeFrame(FrameWriteRequest{write: &writeResHeaders{streamID: 1, httpResCode: 200, endStream: end}, stream: st})
			phase = 1
			if end {
				phase = 2
			}
		case 1:
			vfAssume(phase == 1)
			end := vfBool("END_STREAM")
			sc.writeFrame(FrameWriteRequest{write: &writeData{1, vfBytes("body", 2), end}, stream: st, done: make(chan error, 1)})
			if end {
				phase = 2
			}
		case 2: // e.g. stream.onWriteTimeout: serve() turns a StreamError request into resetStream
			sc.resetStream(StreamError{StreamID: 1, Code: ErrCodeInternal})
		case 3:
			vfAssume(!gotReset)
			ok := sc.processFrameFromReader(readFrameResult{f: &RSTStreamFrame{FrameHeader: FrameHeader{valid: true, Type: FrameRSTStream, Length: 4, StreamID: 1}, ErrCode: ErrCodeCancel}, readMore: func() {}})
			vfAssert(ok, "connection stays open")
			gotReset = true
			// frames written before the RST arrived are legitimate; check them before raising the flag
		case 4:
			ok := sc.processFrameFromReader(readFrameResult{f: &WindowUpdateFrame{FrameHeader: FrameHeader{valid: true, Type: FrameWindowUpdate, Length: 4, StreamID: 1}, Increment: 100}, readMore: func() {}})
			vfAssert(ok, "connection stays open")
		case 5: // runHandler's panic path
			vfAssume(phase < 2)
			sc.writeFrame(FrameWriteRequest{write: handlerPanicRST{1}, stream: st})
			phase = 2
		}
		h2sDrain(sc)
		dead := sentClose || gotReset // (a peer RST in this very step was processed before anything else was written)
		h2sWire(c, func(fr Frame) {
			h := fr.Header()
			if h.StreamID != 1 {
				return
			}
			switch h.Type {
			case FrameHeaders, FrameData, FrameContinuation:
				vfAssert(!dead, "no HEADERS/DATA on a stream after END_STREAM/RST_STREAM was sent or RST_STREAM received")
				if h.Type != FrameContinuation && h.Flags.Has(FlagDataEndStream) { // same bit for HEADERS
					dead, sentClose = true, true
					vfReach("END_STREAM sent")
				}
				if h.Type == FrameData {
					vfReach("DATA sent")
				}
			case FrameRSTStream:
				dead, sentClose = true, true
				vfReach("RST_STREAM sent")
			}
		})
		if sentClose || gotReset {
			vfAssert(st.state == stateClosed, "stream is closed once it was closed on the wire")
			_, still := sc.streams[1]
			vfAssert(!still, "closed stream is gone from the conn")
		}
	}
	if gotReset {
		vfReach("peer reset")
	}
	vfObserveBool("closed", st.state == stateClosed)
	vfReach("end")
}

// c15handler is the user handler: it only counts its invocations (and, when asked to, never returns).
type c15handler struct {
	calls *int
	block bool
}

func (h c15handler) ServeHTTP(w http.ResponseWriter, r *http.Request) {
	*h.calls++
	if h.block {
		<-make(chan struct{})
	}
}

func c15quiesce() {
	vfBlocks(func() { <-make(chan struct{}) }) // lets every runnable goroutine run until all are blocked
}

// (d) one step of the handler-count kernel.
func VerifC15_handlerStep() {
	sc, _ := h2sNewServerConn(h2sSchedRFC9218)
	calls := 0
	h := c15handler{&calls, true}
	max := vfU32("advMaxStreams")
	cur := vfU32("curHandlers")
	vfAssume(cur <= max) // Inv
	// scheduleHandler computes its queue limit as int(4*advMaxStreams) in uint32: it wraps for limits >= 2^30
	// (then one queued handler already draws ENHANCE_YOUR_CALM). Such limits are not meaningful configurations.
	vfAssume(max < 1<<30)
	sc.advMaxStreams, sc.curHandlers = max, cur
	// queued handlers: 0..2 entries, each for a stream that is still there or was reset meanwhile
	u := vfLen("queued", 0, 2)
	alive := make([]bool, u)
	sc.advMaxStreams = 1000 // only for building the streams below
	for i := 0; i < u; i++ {
		id := uint32(1 + 2*i)
		st := h2sOpenStream(sc, id, stateHalfClosedRemote, false)
		rw := sc.newResponseWriter(st, &http.Request{})
		sc.unstartedHandlers = append(sc.unstartedHandlers, unstartedHandler{streamID: id, rw: rw, req: &http.Request{}, handler: h.ServeHTTP})
		alive[i] = vfBool("alive")
		if !alive[i] {
			delete(sc.streams, id) // reset before its handler started
		}
	}
	sc.advMaxStreams = max
	if u > 0 {
		vfAssume(cur == max) // handlers are queued only while the limit is reached (scheduleHandler)
	}

	if vfChoice("op", 2) == 0 {
		// scheduleHandler for a new stream
		st := h2sOpenStream(sc, 9, stateHalfClosedRemote, false)
		rw := sc.newResponseWriter(st, &http.Request{})
		err := sc.scheduleHandler(9, rw, &http.Request{}, h.ServeHTTP)
		c15quiesce()
		if cur < max {
			vfAssert(err == nil && sc.curHandlers == cur+1 && len(sc.unstartedHandlers) == u, "below the limit: started")
			vfAssert(calls == 1, "exactly one handler goroutine runs")
			vfReach("started")
		} else if u > 4*int(max) {
			vfAssert(c15connErr(err, ErrCodeEnhanceYourCalm), "too many queued handlers: ENHANCE_YOUR_CALM")
			vfAssert(calls == 0, "no handler runs")
			vfReach("too many queued")
		} else {
			vfAssert(err == nil && sc.curHandlers == cur && len(sc.unstartedHandlers) == u+1, "at the limit: queued, not run")
			vfAssert(calls == 0, "no handler runs")
			vfReach("queued")
		}
	} else {
		// handlerDone: a running handler finished
		vfAssume(cur >= 1)
		sc.handlerDone()
		c15quiesce()
		// reference: FIFO, skip dead entries, start while below the limit
		want := cur - 1
		started := 0
		rest := 0
		stopped := false
		for i := 0; i < u; i++ {
			if stopped {
				rest++
				continue
			}
			if !alive[i] {
				continue
			}
			if want >= max {
				stopped = true
				rest++
				continue
			}
			want++
			started++
		}
		vfAssert(sc.curHandlers == want, "handlerDone: count = old - 1 + started")
		vfAssert(calls == started, "exactly the started handlers run")
		vfAssert(len(sc.unstartedHandlers) == rest, "started and dead entries leave the queue, the rest stays in order")
		if started > 0 {
			vfReach("queued handler started by handlerDone")
		}
		if started < u {
			vfReach("dead or still-queued entry")
		}
	}
	vfAssert(sc.curHandlers <= sc.advMaxStreams, "never more handlers than SETTINGS_MAX_CONCURRENT_STREAMS advertised")
	vfObserve("cur", uint64(sc.curHandlers))
	vfObserve("calls", uint64(calls))
	vfReach("end")
}

func c15headers(id uint32, endStream bool, fields ...string) *MetaHeadersFrame {
	fl := FlagHeadersEndHeaders
	if endStream {
		fl |= FlagHeadersEndStream
	}
	mh := &MetaHeadersFrame{HeadersFrame: &HeadersFrame{FrameHeader: FrameHeader{valid: true, Type: FrameHeaders, Flags: fl, StreamID: id}}}
	for i := 0; i+1 < len(fields); i += 2 {
		mh.Fields = append(mh.Fields, hpack.HeaderField{Name: fields[i], Value: fields[i+1]})
	}
	return mh
}

// (d') the advertised stream limit in processHeaders.
func VerifC15_headersLimit() {
	sc, _ := h2sNewServerConn(h2sSchedRFC9218)
	calls := 0
	sc.handler = c15handler{&calls, true}
	sc.advMaxStreams = vfU32("advMaxStreams")
	sc.curClientStreams = vfU32("curClientStreams")
	sc.curHandlers = vfU32("curHandlers")
	vfAssume(sc.curClientStreams <= sc.advMaxStreams && sc.curHandlers <= sc.advMaxStreams)
	vfAssume(sc.advMaxStreams < 1<<31) // keeps the +1 of the limit check away from wrap-around (real values are small)
	sc.unackedSettings = vfChoice("unacked", 2)
	sc.maxClientStreamID = 7
	open0, cur0 := sc.curClientStreams, sc.curHandlers

	err := sc.processHeaders(c15headers(9, true, ":method", "GET", ":scheme", "https", ":authority", "a", ":path", "/"))
	c15quiesce()
	_, created := sc.streams[9]
	if open0+1 > sc.advMaxStreams {
		if sc.unackedSettings == 0 {
			vfAssert(h2sStreamErr(err, 9, ErrCodeProtocol), "over the acknowledged limit: PROTOCOL_ERROR")
		} else {
			vfAssert(h2sStreamErr(err, 9, ErrCodeRefusedStream), "over a not yet acknowledged limit: REFUSED_STREAM")
		}
		vfAssert(!created && sc.curClientStreams == open0, "refused stream is not created")
		vfAssert(calls == 0 && sc.curHandlers == cur0 && len(sc.unstartedHandlers) == 0, "no handler for a refused stream")
		vfReach("refused")
	} else {
		vfAssert(err == nil && created && sc.curClientStreams == open0+1, "stream within the limit is opened")
		if cur0 < sc.advMaxStreams {
			vfAssert(calls == 1 && sc.curHandlers == cur0+1, "handler runs")
			vfReach("handler runs")
		} else {
			vfAssert(calls == 0 && sc.curHandlers == cur0 && len(sc.unstartedHandlers) == 1, "handler queued behind those still running")
			vfReach("handler queued")
		}
	}
	vfAssert(sc.curHandlers <= sc.advMaxStreams, "handler bound")
	vfAssert(sc.maxClientStreamID == 9, "stream id recorded")
	vfObserve("calls", uint64(calls))
	vfReach("end")
}

type c15rw struct {
	h      http.Header
	status int
}

func (w *c15rw) Header() http.Header         { return w.h }
func (w *c15rw) Write(p []byte) (int, error) { return len(p), nil }
func (w *c15rw) WriteHeader(code int) {
	if w.status == 0 {
		w.status = code
	}
}

// (e) malformed and connection-specific request headers never reach the user handler.
func VerifC15_requestValidation() {
	sc, c := h2sNewServerConn(h2sSchedRFC9218)
	calls := 0
	sc.handler = c15handler{&calls, false}
	// one handler of an earlier, already closed stream is still running and the limit is 1: the new stream's
	// handler is queued, so the harness can see WHICH handler processHeaders chose and run it itself
	sc.advMaxStreams, sc.curHandlers, sc.curClientStreams = 1, 1, 0
	base := []string{":method", "GET", ":scheme", "https", ":authority", "a", ":path", "/"}
	type tc struct {
		name   string
		fields []string
		want   int // 0 = reaches the handler, 1 = stream error PROTOCOL_ERROR, 2 = built-in 400 handler
	}
	cases := []tc{
		{"valid", base, 0},
		{"te trailers", append(append([]string{}, base...), "te", "trailers"), 0},
		{"connection", append(append([]string{}, base...), "connection", "close"), 2},
		{"keep-alive", append(append([]string{}, base...), "keep-alive", "1"), 2},
		{"proxy-connection", append(append([]string{}, base...), "proxy-connection", "x"), 2},
		{"transfer-encoding", append(append([]string{}, base...), "transfer-encoding", "chunked"), 2},
		{"upgrade", append(append([]string{}, base...), "upgrade", "h2c"), 2},
		{"te gzip", append(append([]string{}, base...), "te", "gzip"), 2},
		{"no method", []string{":scheme", "https", ":authority", "a", ":path", "/"}, 1},
		{"no path", []string{":method", "GET", ":scheme", "https", ":authority", "a"}, 1},
		{"bad scheme", []string{":method", "GET", ":scheme", "ftp", ":authority", "a", ":path", "/"}, 1},
		{"connect with path", []string{":method", "CONNECT", ":authority", "a", ":path", "/"}, 1},
		{"protocol without extended connect", append(append([]string{}, base...), ":protocol", "websocket"), 1},
	}
	t := cases[vfChoice("case", len(cases))]
	err := sc.processHeaders(c15headers(1, true, t.fields...))
	_ = c
	switch t.want {
	case 1:
		vfAssert(h2sStreamErr(err, 1, ErrCodeProtocol), "malformed request: stream error PROTOCOL_ERROR")
		vfAssert(len(sc.unstartedHandlers) == 0 && sc.curHandlers == 1 && calls == 0, "no handler is scheduled")
		vfReach("stream error")
	default:
		vfAssert(err == nil, "request accepted for a response")
		vfAssert(len(sc.unstartedHandlers) == 1, "one handler queued")
		u := sc.unstartedHandlers[0]
		w := &c15rw{h: make(http.Header)}
		u.handler(w, u.req)
		if t.want == 0 {
			vfAssert(calls == 1 && w.status == 0, "valid request reaches the user handler")
			vfReach("reaches handler")
		} else {
			vfAssert(calls == 0, "request with connection-specific header fields never reaches the user handler")
			vfAssert(w.status == 400, "it is answered 400 by the built-in handler")
			vfReach("400 handler")
		}
	}
	vfObserve("calls", uint64(calls))
	vfReach("end")
}

func c15valueBound() int {
	if vfTier() > 0 {
		return 16
	}
	return 10 // "trailers" plus a list separator and one more byte on either side
}

// (e') the same decision over symbolic field VALUES. RFC 9113 section 8.2.2: "An endpoint MUST NOT generate an HTTP/2
// message containing connection-specific header fields [...] The only exception to this is the TE header field, which
// MAY be present in an HTTP/2 request; when it is, it MUST NOT contain any value other than "trailers"". So the
// verdict depends on the NAME alone for the five connection-specific fields, and for te on the number of field lines
// and on the complete value (no list, no other case, no parameters). An empty te value carries no transfer coding and
// is accepted (as the code behaves).
func VerifC15_connSpecificValues() {
	sc, _ := h2sNewServerConn(h2sSchedRFC9218)
	calls := 0
	sc.handler = c15handler{&calls, false}
	sc.advMaxStreams, sc.curHandlers, sc.curClientStreams = 1, 1, 0 // as in VerifC15_requestValidation: handler gets queued
	names := []string{"connection", "keep-alive", "proxy-connection", "transfer-encoding", "upgrade", "te", "accept-language"}
	k := vfChoice("field", len(names))
	lines := vfLen("lines", 1, 2)
	// first (or only) value: up to c15valueBound() arbitrary bytes; a second field line carries a short value
	v0 := vfString("value0", vfLen("len0", 0, c15valueBound()))
	fields := []string{":method", "GET", ":scheme", "https", ":authority", "a", ":path", "/"}
	// the field under test stands before or after an unrelated regular field
	first := vfChoice("position", 2) == 0
	if !first {
		fields = append(fields, "user-agent", "x")
	}
	fields = append(fields, names[k], v0)
	if lines == 2 {
		fields = append(fields, names[k], vfString("value1", vfLen("len1", 0, 2+2*vfTier())))
	}
	if first {
		fields = append(fields, "user-agent", "x")
	}
	err := sc.processHeaders(c15headers(1, true, fields...))
	vfAssert(err == nil, "request accepted for a response (user handler or built-in 400)")
	vfAssert(len(sc.unstartedHandlers) == 1, "one handler queued")
	u := sc.unstartedHandlers[0]
	w := &c15rw{h: make(http.Header)}
	u.handler(w, u.req)
	reached := calls == 1
	vfAssert(calls <= 1, "at most one invocation")
	if !reached {
		vfAssert(w.status == 400, "a request that does not reach the user handler is answered 400 by the built-in handler")
	}
	switch {
	case k < 5:
		vfAssert(!reached, "connection-specific header field (any value) never reaches the user handler")
		vfReach("connection-specific rejected")
	case k == 5:
		if lines > 1 {
			vfAssert(!reached, "more than one te field line never reaches the user handler")
			vfReach("te twice rejected")
		} else if v0 == "" || v0 == "trailers" {
			vfAssert(reached, "te: trailers (or empty) is allowed")
			if v0 == "" {
				vfReach("te empty accepted")
			} else {
				vfReach("te trailers accepted")
			}
		} else {
			vfAssert(!reached, "te other than exactly trailers never reaches the user handler")
			vfReach("te other rejected")
		}
	default:
		vfAssert(reached, "an ordinary header field with any value reaches the user handler")
		vfReach("ordinary accepted")
	}
	vfObserve("calls", uint64(calls))
	vfObserve("status", uint64(w.status))
	vfReach("end")
}
