package http2

// C08 (KERNEL claim) — the HTTP/2 server never sends DATA beyond the client's flow-control windows.
//
// Shape I (arbitrary state, one step; all window values range over the whole int32 domain, negatives included):
//   VerifC08_outflow          flow.go outflow.add / available / take
//   VerifC08_consume          FrameWriteRequest.Consume(n): piece within min(n, stream, conn, maxFrameSize) or nothing
//   VerifC08_queueConsume     writeQueue.consume twice with re-havoced windows: pieces concatenate, END_STREAM and the
//                             done channel travel with the last piece only
//   VerifC08_windowUpdate     serverConn.processWindowUpdate on a hand-built conn with 2 streams of arbitrary windows
//   VerifC08_settings         processSettings(INITIAL_WINDOW_SIZE v [, MAX_FRAME_SIZE m]) with 2 streams of arbitrary
//                             windows: every stream moves by v-old (below zero allowed), conn window untouched
// Shape B (bounded run, ghost "peer's view"):
//   VerifC08_history          k events from {SETTINGS(initial window v), WINDOW_UPDATE(0|1|3, inc), handler write of 3
//                             bytes on stream 1|3}; the ghost windows are computed from what the peer SENT (its
//                             SETTINGS / WINDOW_UPDATE) and from the DATA frames decoded from the server's output by
//                             a real Framer; every DATA frame must fit the ghost windows at the moment it appears.
//
// Sensitivity (mut.sh; all caught and confirmed natively):
//   writesched.go Consume: maxFrameSize clamp disabled      VerifC08_consume "piece has exactly the allowed length",
//                                                           VerifC08_queueConsume "piece within every limit"
//   server.go processSettingInitialWindowSize growth=val    VerifC08_settings "valid SETTINGS accepted" / wrong delta
//   flow.go outflow.take not charging the conn window       VerifC08_outflow "take: conn drops by n", VerifC08_history
//                                                           "conn window: peer's view == server's account"

import "math"

func init() {
	vfRegister("VerifC08_outflow", VerifC08_outflow)
	vfRegister("VerifC08_consume", VerifC08_consume)
	vfRegister("VerifC08_queueConsume", VerifC08_queueConsume)
	vfRegister("VerifC08_windowUpdate", VerifC08_windowUpdate)
	vfRegister("VerifC08_settings", VerifC08_settings)
	vfRegister("VerifC08_history", VerifC08_history)
}

func c08in32(x int64) bool { return vfAnd(x >= math.MinInt32, x <= math.MaxInt32) }

func c08min(a, b int32) int32 { return int32(vfIteInt(a < b, int(a), int(b))) }

// (I-a) outflow arithmetic.
func VerifC08_outflow() {
	var conn, st outflow
	conn.n = vfI32("conn.n")
	st.n = vfI32("st.n")
	st.setConnFlow(&conn)
	c0, s0 := conn.n, st.n

	vfAssert(st.available() == c08min(s0, c0), "stream available == min(stream, conn)")
	vfAssert(conn.available() == c0, "conn available == conn.n")

	switch vfChoice("op", 3) {
	case 0: // add on the stream window (WINDOW_UPDATE on a stream, SETTINGS delta: n may be negative)
		n := vfI32("n")
		ok := st.add(n)
		sum := int64(s0) + int64(n)
		vfAssert(ok == c08in32(sum), "add succeeds iff the mathematical sum is an int32 (in particular <= 2^31-1)")
		vfAssert(vfImplies(ok, int64(st.n) == sum), "add: exact")
		vfAssert(vfImplies(!ok, st.n == s0), "add: refused leaves the window")
		vfAssert(conn.n == c0, "stream add leaves the conn window")
		if !ok {
			if sum > math.MaxInt32 {
				vfReach("add overflow above 2^31-1")
			}
		} else if sum < 0 {
			vfReach("add result below zero")
		}
		vfObserveBool("ok", ok)
	case 1: // add on the conn window
		n := vfI32("n")
		ok := conn.add(n)
		sum := int64(c0) + int64(n)
		vfAssert(ok == c08in32(sum), "conn add succeeds iff in range")
		vfAssert(vfImplies(ok, int64(conn.n) == sum), "conn add: exact")
		vfAssert(vfImplies(!ok, conn.n == c0), "conn add: refused leaves the window")
		vfAssert(st.n == s0, "conn add leaves the stream window")
		vfObserveBool("ok", ok)
	case 2: // take
		n := vfI32("n")
		vfAssume(n >= 0) // callers pass a positive allowance or a slice length
		avail := c08min(s0, c0)
		panicked := vfExpectPanic(func() { st.take(n) })
		if n > avail {
			vfAssert(panicked, "take beyond available panics")
			vfAssert(st.n == s0 && conn.n == c0, "refused take changes nothing")
			vfReach("take too much")
		} else {
			vfAssert(!panicked, "take within available does not panic")
			vfAssert(int64(st.n) == int64(s0)-int64(n), "take: stream drops by n")
			vfAssert(int64(conn.n) == int64(c0)-int64(n), "take: conn drops by n")
			vfAssert(vfAnd(st.n >= 0, conn.n >= 0), "take never drives a window below zero")
			vfReach("take ok")
		}
	}
	vfObserve("st.n", uint64(uint32(st.n)))
	vfObserve("conn.n", uint64(uint32(conn.n)))
	vfReach("end")
}

func c08maxD() int {
	if vfTier() > 0 {
		return 6
	}
	return 4
}

// c08conn builds a conn with one stream whose windows and max frame size are arbitrary.
func c08conn() (*serverConn, *stream) {
	sc, _ := h2sNewServerConn(h2sSchedRFC9218)
	st := h2sOpenStream(sc, 1, stateHalfClosedRemote, false)
	c08havoc(sc, st)
	return sc, st
}

func c08havoc(sc *serverConn, st *stream) {
	sc.flow.n = vfI32("conn.n")
	st.flow.n = vfI32("st.n")
	sc.maxFrameSize = vfI32("maxFrameSize")
}

func c08same(a, b []byte) bool {
	if len(a) != len(b) {
		return false
	}
	ok := true
	for i := range a {
		ok = vfAnd(ok, a[i] == b[i])
	}
	return ok
}

// (I-b) Consume.
func VerifC08_consume() {
	sc, st := c08conn()
	d := vfLen("D", 0, c08maxD())
	data := vfBytes("data", d)
	end := vfBool("END_STREAM")
	done := make(chan error, 1)
	wr := FrameWriteRequest{write: &writeData{st.id, data, end}, stream: st, done: done}
	n := vfI32("n")
	c0, s0, mfs := sc.flow.n, st.flow.n, sc.maxFrameSize

	consumed, rest, num := wr.Consume(n)

	m := c08min(c08min(n, mfs), c08min(s0, c0))
	switch {
	case d == 0:
		vfAssert(num == 1 && consumed.write == wr.write, "empty DATA is consumed whole")
		vfAssert(sc.flow.n == c0 && st.flow.n == s0, "empty DATA costs nothing")
		vfReach("empty")
	case num == 0:
		vfAssert(m <= 0, "nothing is returned only if the allowance is <= 0")
		vfAssert(consumed.write == nil && rest.write == nil, "no frames")
		vfAssert(sc.flow.n == c0 && st.flow.n == s0, "nothing consumed, nothing charged")
		vfReach("blocked")
	case num == 1:
		vfAssert(m >= int32(d), "whole frame only if the allowance covers it")
		wd := consumed.write.(*writeData)
		vfAssert(c08same(wd.p, data) && wd.endStream == end && wd.streamID == 1, "whole frame unchanged")
		vfAssert(consumed.done == done, "done stays with the (last) frame")
		vfAssert(int64(st.flow.n) == int64(s0)-int64(d) && int64(sc.flow.n) == int64(c0)-int64(d), "both windows drop by len")
		vfAssert(rest.write == nil, "no rest")
		if m == int32(d) {
			vfReach("whole at exact allowance")
		}
		vfReach("whole")
	case num == 2:
		vfAssert(m > 0 && m < int32(d), "split only if 0 < allowance < len")
		a, b := consumed.write.(*writeData), rest.write.(*writeData)
		vfAssert(len(a.p) == int(m), "piece has exactly the allowed length")
		vfAssert(c08same(append(append([]byte{}, a.p...), b.p...), data), "pieces concatenate to the original")
		vfAssert(!a.endStream && b.endStream == end, "END_STREAM only on the last piece")
		vfAssert(consumed.done == nil && rest.done == done, "done only on the last piece")
		vfAssert(a.streamID == 1 && b.streamID == 1 && consumed.stream == st && rest.stream == st, "same stream")
		vfAssert(int64(st.flow.n) == int64(s0)-int64(m) && int64(sc.flow.n) == int64(c0)-int64(m), "both windows drop by the piece")
		if m == mfs && m < n && m < s0 && m < c0 {
			vfReach("limited by max frame size only")
		}
		if m == c0 && m < mfs && m < s0 {
			vfReach("limited by conn window only")
		}
		if m == s0 && m < mfs && m < c0 {
			vfReach("limited by stream window only")
		}
		vfReach("split")
	default:
		vfAssert(false, "Consume returns 0, 1 or 2")
	}
	vfObserve("num", uint64(num))
	vfObserve("st.n", uint64(uint32(st.flow.n)))
	vfReach("end")
}

// (I-b') writeQueue.consume, twice, windows re-havoced in between (a WINDOW_UPDATE or SETTINGS may arrive).
func VerifC08_queueConsume() {
	sc, st := c08conn()
	d := vfLen("D", 1, 3)
	data := vfBytes("data", d)
	end := vfBool("END_STREAM")
	done := make(chan error, 1)
	var q writeQueue
	q.push(FrameWriteRequest{write: &writeData{st.id, data, end}, stream: st, done: done})

	var got []byte
	finished := false
	for round := 0; round < 2; round++ {
		if round > 0 {
			c08havoc(sc, st)
		}
		c0, s0 := sc.flow.n, st.flow.n
		n := vfI32("n")
		wr, ok := q.consume(n)
		if !ok {
			vfAssert(sc.flow.n == c0 && st.flow.n == s0, "no piece, no charge")
			continue
		}
		vfAssert(!finished, "nothing comes out after the last piece")
		wd := wr.write.(*writeData)
		vfAssert(len(wd.p) > 0, "a piece is never empty")
		lim := c08min(c08min(n, sc.maxFrameSize), c08min(s0, c0))
		vfAssert(int64(len(wd.p)) <= int64(lim), "piece within every limit")
		vfAssert(int64(st.flow.n) == int64(s0)-int64(len(wd.p)) && int64(sc.flow.n) == int64(c0)-int64(len(wd.p)), "charged exactly")
		got = append(got, wd.p...)
		if len(got) == d {
			finished = true
			vfAssert(wd.endStream == end && wr.done == done, "last piece carries END_STREAM and done")
			vfAssert(q.empty(), "queue empty after the last piece")
		} else {
			vfAssert(!wd.endStream && wr.done == nil, "intermediate piece carries neither END_STREAM nor done")
			vfAssert(!q.empty(), "rest stays queued")
		}
	}
	vfAssert(len(got) <= d && c08same(got, data[:len(got)]), "pieces are consecutive prefixes of the original")
	if !finished && len(got) > 0 {
		rest := q.peek().write.(*writeData)
		vfAssert(c08same(append(append([]byte{}, got...), rest.p...), data), "sent + queued == original")
		vfReach("partially sent")
	}
	if finished {
		vfReach("fully sent")
	}
	vfObserve("sent", uint64(len(got)))
	vfReach("end")
}

// c08twoStreams: conn with streams 1 and 3 of arbitrary send windows; 5 is closed (lower than max id), 7 is idle.
func c08twoStreams() (*serverConn, *h2sConn, *stream, *stream) {
	sc, c := h2sNewServerConn(h2sSchedRFC9218)
	s1 := h2sOpenStream(sc, 1, stateHalfClosedRemote, false)
	s3 := h2sOpenStream(sc, 3, stateOpen, true)
	sc.maxClientStreamID = 5
	sc.flow.n = vfI32("conn.n")
	s1.flow.n = vfI32("s1.n")
	s3.flow.n = vfI32("s3.n")
	return sc, c, s1, s3
}

// (I-c) WINDOW_UPDATE.
func VerifC08_windowUpdate() {
	sc, _, s1, s3 := c08twoStreams()
	c0, a0, b0 := sc.flow.n, s1.flow.n, s3.flow.n
	ids := []uint32{0, 1, 3, 5, 7}
	id := ids[vfChoice("target", 5)]
	inc := vfU32("Increment")
	vfAssume(inc >= 1 && inc <= 1<<31-1) // parseWindowUpdateFrame masks to 31 bits and rejects 0
	f := &WindowUpdateFrame{FrameHeader: FrameHeader{valid: true, Type: FrameWindowUpdate, Length: 4, StreamID: id}, Increment: inc}
	err := sc.processWindowUpdate(f)
	h2sDrain(sc)

	c1, a1, b1 := sc.flow.n, s1.flow.n, s3.flow.n
	switch id {
	case 0:
		sum := int64(c0) + int64(inc)
		if sum > math.MaxInt32 {
			_, isGoAway := err.(goAwayFlowError)
			vfAssert(isGoAway, "conn window overflow: connection FLOW_CONTROL_ERROR (GOAWAY)")
			vfAssert(c1 == c0, "conn window unchanged on overflow")
			vfReach("conn overflow")
		} else {
			vfAssert(err == nil && int64(c1) == sum, "conn window grows by exactly the increment")
			vfReach("conn ok")
		}
		vfAssert(a1 == a0 && b1 == b0, "stream windows untouched by a conn-level update")
	case 1, 3:
		old, now, other0, other1 := a0, a1, b0, b1
		if id == 3 {
			old, now, other0, other1 = b0, b1, a0, a1
		}
		sum := int64(old) + int64(inc)
		if sum > math.MaxInt32 {
			vfAssert(h2sStreamErr(err, id, ErrCodeFlowControl), "stream window overflow: stream FLOW_CONTROL_ERROR")
			vfAssert(now == old, "window unchanged on overflow")
			vfReach("stream overflow")
		} else {
			vfAssert(err == nil && int64(now) == sum, "stream window grows by exactly the increment")
			if old < 0 {
				vfReach("update on a negative window")
			}
			vfReach("stream ok")
		}
		vfAssert(other1 == other0 && c1 == c0, "other windows untouched")
	case 5:
		vfAssert(err == nil, "WINDOW_UPDATE on a closed stream is ignored")
		vfAssert(c1 == c0 && a1 == a0 && b1 == b0, "nothing changes")
		vfReach("closed stream")
	case 7:
		ce, ok := err.(ConnectionError)
		vfAssert(ok && ErrCode(ce) == ErrCodeProtocol, "WINDOW_UPDATE on an idle stream: PROTOCOL_ERROR")
		vfAssert(c1 == c0 && a1 == a0 && b1 == b0, "nothing changes")
		vfReach("idle stream")
	}
	vfObserveBool("err", err != nil)
	vfReach("end")
}

func h2sSettingsFrame(ack bool, ss ...Setting) *SettingsFrame {
	var p []byte
	for _, s := range ss {
		p = append(p, byte(s.ID>>8), byte(s.ID), byte(s.Val>>24), byte(s.Val>>16), byte(s.Val>>8), byte(s.Val))
	}
	var fl Flags
	if ack {
		fl = FlagSettingsAck
	}
	return &SettingsFrame{FrameHeader: FrameHeader{valid: true, Type: FrameSettings, Flags: fl, Length: uint32(len(p))}, p: p}
}

// (I-c') SETTINGS_INITIAL_WINDOW_SIZE (and MAX_FRAME_SIZE).
func VerifC08_settings() {
	sc, _, s1, s3 := c08twoStreams()
	old := vfI32("old initial window")
	vfAssume(old >= 0)
	sc.initialStreamSendWindowSize = old
	// the frame size limit in force is arbitrary as well (an earlier SETTINGS frame may have raised it): a later
	// frame must be able to lower it again (added after seeded change C08-H)
	sc.maxFrameSize = vfI32("old max frame size")
	vfAssume(sc.maxFrameSize >= 16384 && sc.maxFrameSize <= 1<<24-1)
	mfs0 := sc.maxFrameSize
	c0, a0, b0 := sc.flow.n, s1.flow.n, s3.flow.n
	v := vfU32("SETTINGS_INITIAL_WINDOW_SIZE")
	ss := []Setting{{SettingInitialWindowSize, v}}
	withMFS := vfChoice("with MAX_FRAME_SIZE", 2) == 1
	m := uint32(0)
	if withMFS {
		m = vfU32("SETTINGS_MAX_FRAME_SIZE")
		ss = append([]Setting{{SettingMaxFrameSize, m}}, ss...)
	}
	err := sc.processSettings(h2sSettingsFrame(false, ss...))
	h2sDrain(sc)

	vfAssert(sc.flow.n == c0, "SETTINGS never touches the connection window")
	if withMFS && (m < 16384 || m > 1<<24-1) {
		ce, ok := err.(ConnectionError)
		vfAssert(ok && ErrCode(ce) == ErrCodeProtocol, "MAX_FRAME_SIZE out of range: PROTOCOL_ERROR")
		vfAssert(sc.maxFrameSize == mfs0, "invalid MAX_FRAME_SIZE not applied")
		vfReach("bad max frame size")
		vfReach("end")
		return
	}
	if withMFS {
		vfAssert(sc.maxFrameSize == int32(m) && sc.maxFrameSize >= 16384, "MAX_FRAME_SIZE applied")
	}
	if v > 1<<31-1 {
		ce, ok := err.(ConnectionError)
		vfAssert(ok && ErrCode(ce) == ErrCodeFlowControl, "INITIAL_WINDOW_SIZE > 2^31-1: FLOW_CONTROL_ERROR")
		vfAssert(s1.flow.n == a0 && s3.flow.n == b0 && sc.initialStreamSendWindowSize == old, "invalid value not applied")
		vfReach("bad initial window")
		vfReach("end")
		return
	}
	delta := int64(v) - int64(old)
	sa, sb := int64(a0)+delta, int64(b0)+delta
	if sa > math.MaxInt32 || sb > math.MaxInt32 {
		ce, ok := err.(ConnectionError)
		vfAssert(ok && ErrCode(ce) == ErrCodeFlowControl, "a stream window would exceed 2^31-1: connection FLOW_CONTROL_ERROR")
		vfReach("delta overflows a window")
	} else if sa < math.MinInt32 || sb < math.MinInt32 {
		// unreachable from real histories (a window is never below -(2^31-1) + ... ); the code refuses it too
		vfAssert(err != nil, "underflow refused")
		vfReach("delta underflows int32 (arbitrary pre-state only)")
	} else {
		vfAssert(err == nil, "valid SETTINGS accepted")
		vfAssert(int64(s1.flow.n) == sa && int64(s3.flow.n) == sb, "every stream window moves by exactly new-old")
		vfAssert(sc.initialStreamSendWindowSize == int32(v), "new initial size recorded for future streams")
		vfAssert(sc.needToSendSettingsAck == false, "ACK was scheduled and written by the drain")
		if sa < 0 || sb < 0 {
			vfReach("window driven below zero")
		}
		vfReach("applied")
	}
	vfObserveBool("err", err != nil)
	vfReach("end")
}

// (B) bounded history with the peer's view of the windows. Quick: 2 streams, 3 events. Thorough: additionally
// 1 stream, 4 events.
func VerifC08_history() {
	nst, steps := 2, 3
	if vfTier() > 0 && vfChoice("shape", 2) == 1 {
		nst, steps = 1, 4
	}
	sc, c := h2sNewServerConn(h2sSchedRFC9218)
	// the client's first SETTINGS may carry any initial window; streams are opened afterwards
	v0 := vfU32("initial SETTINGS_INITIAL_WINDOW_SIZE")
	vfAssume(v0 <= 1<<31-1)
	vfAssert(sc.processSettings(h2sSettingsFrame(false, Setting{SettingInitialWindowSize, v0})) == nil, "first SETTINGS accepted")
	h2sDrain(sc)
	ids := []uint32{1, 3}[:nst]
	sts := []*stream{h2sOpenStream(sc, 1, stateHalfClosedRemote, false)}
	if nst > 1 {
		sts = append(sts, h2sOpenStream(sc, 3, stateHalfClosedRemote, false))
	}
	gInit := int32(v0)
	gConn := int32(initialWindowSize)
	gSt := []int32{gInit, gInit}[:nst]
	pending := []int{0, 0} // bytes handed to the server by handlers and not yet seen on the wire
	var sent [2][]byte
	var want [2][]byte

	observe := func() {
		h2sDrain(sc)
		h2sWire(c, func(f Frame) {
			df, ok := f.(*DataFrame)
			if !ok {
				return
			}
			i := 0
			if df.StreamID == 3 {
				i = 1
			} else {
				vfAssert(df.StreamID == 1, "DATA only on the open streams")
			}
			n := int32(len(df.Data()))
			vfAssert(n > 0, "no empty DATA frame without END_STREAM")
			vfAssert(n <= gSt[i], "DATA frame within the stream window as the peer sees it")
			vfAssert(n <= gConn, "DATA frame within the connection window as the peer sees it")
			vfAssert(n <= sc.maxFrameSize, "DATA frame within the peer's max frame size")
			gSt[i] -= n
			gConn -= n
			pending[i] -= int(n)
			sent[i] = append(sent[i], df.Data()...)
			vfReach("DATA on the wire")
		})
		for i := range sts {
			vfAssert(gSt[i] == sts[i].flow.n, "stream window: peer's view == server's account")
			vfAssert(pending[i] >= 0 && c08same(sent[i], want[i][:len(sent[i])]), "bytes on the wire are a prefix of what the handler wrote")
			// safety half of "pending data is sent when a window opens": at quiescence nothing sendable is pending
			if pending[i] > 0 {
				vfAssert(vfOr(gSt[i] <= 0, gConn <= 0), "pending DATA at quiescence only if a window is exhausted")
				vfReach("data pending on a closed window")
			}
			gSt[i] = sts[i].flow.n // proved equal: keep the simpler term
		}
		vfAssert(gConn == sc.flow.n, "conn window: peer's view == server's account")
		gConn = sc.flow.n
	}

	for step := 0; step < steps; step++ {
		switch vfChoice("event", 3) {
		case 0: // SETTINGS changing the initial window (may shrink windows below zero)
			v := vfU32("SETTINGS_INITIAL_WINDOW_SIZE")
			vfAssume(v <= 1<<31-1)
			err := sc.processSettings(h2sSettingsFrame(false, Setting{SettingInitialWindowSize, v}))
			delta := int64(v) - int64(gInit)
			over := int64(gSt[0])+delta > math.MaxInt32
			if nst > 1 {
				over = vfOr(over, int64(gSt[1])+delta > math.MaxInt32)
			}
			if over {
				ce, ok := err.(ConnectionError)
				vfAssert(ok && ErrCode(ce) == ErrCodeFlowControl, "history: SETTINGS overflow is a connection error")
				vfReach("history: settings overflow")
				vfReach("end")
				return
			}
			vfAssert(err == nil, "history: SETTINGS accepted")
			for i := range gSt {
				gSt[i] += int32(delta)
			}
			gInit = int32(v)
			if gSt[0] < 0 {
				vfReach("history: window below zero")
			}
		case 1: // WINDOW_UPDATE
			t := vfChoice("target", 1+nst)
			inc := vfU32("Increment")
			vfAssume(inc >= 1 && inc <= 1<<31-1)
			id := uint32(0)
			if t > 0 {
				id = ids[t-1]
			}
			err := sc.processWindowUpdate(&WindowUpdateFrame{FrameHeader: FrameHeader{valid: true, Type: FrameWindowUpdate, Length: 4, StreamID: id}, Increment: inc})
			g := &gConn
			if t > 0 {
				g = &gSt[t-1]
			}
			if int64(*g)+int64(inc) > math.MaxInt32 {
				vfAssert(err != nil, "history: window overflow is an error")
				vfReach("history: window update overflow")
				vfReach("end")
				return
			}
			vfAssert(err == nil, "history: WINDOW_UPDATE accepted")
			*g += int32(inc)
		case 2: // a handler writes 3 bytes (serve loop: case wr := <-sc.wantWriteFrameCh: sc.writeFrame(wr))
			i := vfChoice("stream", nst)
			data := vfBytes("body", 3)
			want[i] = append(want[i], data...)
			pending[i] += 3
			sc.writeFrame(FrameWriteRequest{write: &writeData{ids[i], data, false}, stream: sts[i], done: make(chan error, 1)})
			vfReach("history: write")
		}
		observe()
	}
	vfObserve("conn", uint64(uint32(sc.flow.n)))
	vfObserve("s1", uint64(uint32(sts[0].flow.n)))
	vfObserve("pending1", uint64(pending[0]))
	vfReach("end")
}
