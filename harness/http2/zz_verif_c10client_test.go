package http2

// C10, CLIENT half (KERNEL claim) — inbound flow-control credit is never leaked by the Transport.
// (harness/checks/C10.json and zz_verif_c10_test.go belong to the server-side author; this file only adds the entry
// points VerifC10_client*.)
//
// Units: clientConnReadLoop.processData, transportResponseBody.Read / Close, clientConnReadLoop.processResetStream,
// clientStream.cleanupWriteRequest (stream removal) and inflow (flow.go) on a hand-built ClientConn whose response
// streams are put into their state by the real processHeaders.
//
// Shape B with a symbolic start: the connection receive window starts at an arbitrary valid inflow state
// (avail in {default, maximal}, unsent in {0, 4093}: so that the WINDOW_UPDATE batching threshold is crossed) and then <= K events happen on one
// response stream (plus DATA for an already forgotten stream). The ledger is kept from the PEER's point of view:
//   peer   = what the server may still send on the connection = configured - Σ Length(DATA delivered) + Σ WINDOW_UPDATE(0) on the wire
//   held   = DATA payload sitting in the response body pipe, not yet read or discarded
// Invariant after every event:  cc.inflow.avail == peer   and   peer + cc.inflow.unsent + held == configured
// At quiescence (body closed, stream removed) held == 0, i.e. peer + unsent == configured: everything came back
// (up to the batched remainder < inflowMinRefresh, which inflow.add holds back by design).
// Also: no WINDOW_UPDATE lifts the peer's view of the connection or stream window above 2^31-1.
//
// BOUNDS (quick / thorough): K = 2 / 3 events (plus the closing events that bring the stream to quiescence); DATA payload 0..2 symbolic bytes, padding in {none, 0, 2, 255},
// END_STREAM free; Read buffers of 1..3 bytes; Content-Length absent or 0..2; stream kinds: GET response with body,
// HEAD response, no response headers yet; initial connection inflow avail in {2^30+65535, 2^31-1-unsent}, unsent in {0, 4093} (thorough: 2^30+65535 / 4093 only, padding in {none, 0, 2}); stream
// receive window 4 MiB (real default). One live stream, one forgotten stream.
//
// KNOWN FINDINGS reached on the unchanged tree (see known_findings.txt, repro/C10/client_*_test.go):
//   C10-client-read-past-content-length: transportResponseBody.Read returns early when the pipe yields more than
//       bytesRemain; the bytes it consumed from the pipe are never passed to cc.inflow.add.
//   C10-client-data-protocol-error-no-refund: processData's endStreamError paths (DATA after END_STREAM, DATA before
//       HEADERS, DATA on a HEAD response) neither take the frame's Length from cc.inflow nor refund it: the server's
//       window shrank by Length for good.
//
// Sensitivity (mut.sh, caught as VIOLATION and confirmed natively):
//   transport.go processData: `refund += pad` dropped                               -> "credit conserved"
//   transport.go transportResponseBody.Close: `connAdd := cc.inflow.add(unread)`→`add(0)` -> "credit conserved"
//   transport.go processData (unknown stream): drop the `cc.inflow.add(int(f.Length))` refund -> "credit conserved"
//   transport.go transportResponseBody.Close: refund of the unread bytes moved behind the final select (skipped when
//   Close leaves through ctx.Done / reqCancel)                       -> VerifC10_clientCloseTiming "credit conserved"
//
// VerifC10_clientCloseTiming (below) explores how the request ENDS: cancellation (context / Request.Cancel), the request
// goroutine finishing before or after Body.Close, every arm of Close's select, DATA arriving in between, a second Close.
//   C10-client-double-close-refunds-twice (KNOWN FINDING found by it): a second Response.Body.Close() returns the bytes
//       the first Close discarded once more (pipe.Len() keeps reporting pipe.unread).

import (
	"context"
	"io"

	"golang.org/x/net/http2/hpack"
)

func init() {
	vfRegister("VerifC10_clientLedger", VerifC10_clientLedger)
	vfRegister("VerifC10_clientCloseTiming", VerifC10_clientCloseTiming)
}

const (
	c10cKeyRead  = "C10-client-read-past-content-length"
	c10cKeyProto = "C10-client-data-protocol-error-no-refund"
	c10cKeyDbl   = "C10-client-double-close-refunds-twice"
)

// c10cInflow makes an arbitrary inflow satisfying the invariant inflow.add maintains between calls:
// 0 <= avail, 0 <= unsent, avail+unsent <= 2^31-1, and unsent is only held back while it is below both
// inflowMinRefresh and avail.
func c10cInflow(label string) inflow {
	a, u := vfI32(label+".avail"), vfI32(label+".unsent")
	vfAssume(a >= 0)
	vfAssume(u >= 0)
	vfAssume(int64(a)+int64(u) <= 1<<31-1)
	vfAssume(vfOr(u == 0, vfAnd(u < inflowMinRefresh, u < a)))
	return inflow{avail: a, unsent: u}
}

func c10cInflowInv(f inflow) bool {
	ok := vfAnd(f.avail >= 0, f.unsent >= 0)
	ok = vfAnd(ok, int64(f.avail)+int64(f.unsent) <= 1<<31-1)
	return vfAnd(ok, vfOr(f.unsent == 0, vfAnd(f.unsent < inflowMinRefresh, f.unsent < f.avail)))
}

// c10cHeaders delivers response HEADERS through the real processHeaders.
func c10cHeaders(h *h2cConn, id uint32, contentLength int, endStream bool) {
	fields := []hpack.HeaderField{{Name: ":status", Value: "200"}}
	if contentLength >= 0 {
		fields = append(fields, hpack.HeaderField{Name: "content-length", Value: string(rune('0' + contentLength))})
	}
	flags := FlagHeadersEndHeaders
	if endStream {
		flags |= FlagHeadersEndStream
	}
	f := &MetaHeadersFrame{
		HeadersFrame: &HeadersFrame{FrameHeader: FrameHeader{valid: true, Type: FrameHeaders, Flags: flags, StreamID: id}},
		Fields:       fields,
	}
	if err := h.rl.processHeaders(f); err != nil {
		vfAssert(false, "response HEADERS accepted")
	}
}

func c10cData(id uint32, data []byte, padded bool, pad uint8, endStream bool) *DataFrame {
	var flags Flags
	length := uint32(len(data))
	if padded {
		flags |= FlagDataPadded
		length += 1 + uint32(pad) // Pad Length octet + padding, all flow controlled (RFC 9113 §6.1)
	}
	if endStream {
		flags |= FlagDataEndStream
	}
	return &DataFrame{FrameHeader: FrameHeader{valid: true, Type: FrameData, Flags: flags, Length: length, StreamID: id}, data: data}
}

// c10cPad chooses the padding of a DATA frame: none, or a Pad Length of 0, 2 (refund of 3 bytes: exactly reaches
// inflowMinRefresh from 4093 batched bytes) or 255. Concrete values keep the ledger arithmetic out of the solver.
func c10cPad() (bool, uint8) {
	k := 4
	if vfTier() > 0 {
		k = 3 // thorough: none, 0, 2
	}
	switch vfChoice("padding", k) {
	case 1:
		return true, 0
	case 2:
		return true, 2
	case 3:
		return true, 255
	}
	return false, 0
}

// c10cHeld is the number of payload bytes waiting in the response body pipe.
func c10cHeld(cs *clientStream) int {
	p := &cs.bufPipe
	p.mu.Lock()
	defer p.mu.Unlock()
	if p.b == nil {
		return 0
	}
	return p.b.Len()
}

type c10cLedger struct {
	h          *h2cConn
	configured int64
	peer       int64 // server's view of our connection receive window
	peerStream int64 // server's view of stream 1's receive window
}

// drain parses what the client wrote since the last call and credits WINDOW_UPDATEs to the peer's view.
func (l *c10cLedger) drain() {
	l.h.cc.bw.Flush()
	for l.h.out.Len() > 0 {
		f, err := l.h.rd.ReadFrame()
		if err != nil {
			vfAssert(false, "client wrote a well-formed frame")
			return
		}
		if wu, ok := f.(*WindowUpdateFrame); ok {
			vfAssert(wu.Increment > 0, "WINDOW_UPDATE increment > 0")
			if wu.StreamID == 0 {
				l.peer += int64(wu.Increment)
				vfAssert(l.peer <= 1<<31-1, "WINDOW_UPDATE never lifts the connection window above 2^31-1")
			} else if wu.StreamID == 1 {
				l.peerStream += int64(wu.Increment)
				vfAssert(l.peerStream <= 1<<31-1, "WINDOW_UPDATE never lifts a stream window above 2^31-1")
			}
		}
	}
}

func VerifC10_clientLedger() {
	h := h2cNewConn()
	cc := h.cc
	// connection receive window: the real initial value or the largest legal one, with the batched (not yet
	// announced) credit either empty or just below the inflowMinRefresh threshold, so that a refund of a few bytes
	// crosses it and a WINDOW_UPDATE goes out. (Concrete values: a fully symbolic start made every path solver-bound.)
	u0 := int32(4093)
	a0 := int32(h2cConnRecvWindow)
	if vfTier() == 0 { // thorough spends its budget on one more event instead of the start-state variants
		u0 = int32(4093 * vfChoice("unsent0", 2))
		if vfChoice("avail0", 2) == 1 {
			a0 = 1<<31 - 1 - u0
		}
	}
	cc.inflow = inflow{avail: a0, unsent: u0}
	l := &c10cLedger{h: h, configured: int64(cc.inflow.avail) + int64(cc.inflow.unsent), peer: int64(cc.inflow.avail)}
	cs := h2cNewStream(cc)
	cs.sentHeaders, cs.sentEndStream = true, true // a bodiless request was written
	h2cPutStream(cc, cs, 1)
	// stream 3 was opened and already forgotten (request cancelled): the server may still send DATA for it
	cc.nextStreamID = 5
	cc.readBeforeStreamID = 5
	l.peerStream = int64(cs.inflow.avail)

	kind := vfChoice("stream", 3)
	contentLength := -1
	hasBody := false
	switch kind {
	case 0: // response with a body
		contentLength = vfLen("contentLength", 0, 3) - 1 // -1 (absent), 0..2
		c10cHeaders(h, 1, contentLength, false)
		hasBody = true
	case 1: // HEAD request: response headers without END_STREAM (a misbehaving or slow server), no body expected
		cs.isHead = true
		c10cHeaders(h, 1, -1, false)
	case 2: // no response headers yet
	}
	body := transportResponseBody{cs}
	gone := false     // stream removed from the connection (cleanupWriteRequest ran)
	closed := false   // Response.Body closed by the application
	endSeen := false  // server sent END_STREAM
	consumed := 0     // bytes handed to the application
	K := 2
	if vfTier() > 0 {
		K = 3
	}
	for step := 0; step < K; step++ {
		op := vfChoice("op", 5)
		protoErr := false
		overLength := false
		switch op {
		case 0: // DATA on stream 1
			n := vfLen("dataLen", 0, 2)
			data := vfBytes("data", n)
			padded, pad := c10cPad()
			end := vfChoice("endStream", 2) == 1
			f := c10cData(1, data, padded, pad, end)
			vfAssume(int64(f.Length) <= l.peer) // the server respects the windows it was given (C11 covers the rest)
			vfAssume(int64(f.Length) <= l.peerStream)
			l.peer -= int64(f.Length)
			l.peerStream -= int64(f.Length)
			// situations in which DATA is a protocol error on a stream the client still knows
			protoErr = !gone && !cs.readAborted && (cs.readClosed || !cs.pastHeaders || (cs.isHead && n > 0))
			if err := h.rl.processData(f); err != nil {
				vfAssert(false, "DATA within the windows is never a connection error")
			}
			if f.StreamEnded() && !gone && !cs.readAborted && !protoErr {
				endSeen = true
			}
			if protoErr {
				vfReach("data-protocol-error")
			}
		case 1: // DATA for the forgotten stream 3
			data := vfBytes("data", 1)
			padded, pad := c10cPad()
			f := c10cData(3, data, padded, pad, false)
			vfAssume(int64(f.Length) <= l.peer)
			l.peer -= int64(f.Length)
			if err := h.rl.processData(f); err != nil {
				vfAssert(false, "DATA for a cancelled stream within the window is ignored")
			}
			vfReach("data-forgotten-stream")
		case 2: // application reads (only when that cannot block)
			if !hasBody || closed || (c10cHeld(cs) == 0 && cs.bufPipe.Err() == nil && cs.readErr == nil) {
				continue
			}
			p := make([]byte, vfLen("readLen", 1, 3))
			yield := c10cHeld(cs) // the pipe hands over min(len(p), buffered) bytes
			if yield > len(p) {
				yield = len(p)
			}
			if cs.bufPipe.Err() == errClosedResponseBody || cs.readErr != nil {
				yield = 0
			}
			// the server sent more than the Content-Length it declared and the application reads into it
			overLength = cs.bytesRemain != -1 && int64(yield) > cs.bytesRemain
			n, err := body.Read(p)
			consumed += n
			if overLength {
				vfAssert(err != nil && err != io.EOF, "over-long response is reported to the application")
			} else if n > 0 {
				vfReach("read-data")
				vfAssert(n == yield, "Read returns what the pipe yielded")
			}
		case 3: // application closes the body; the request goroutine then removes the stream
			if !hasBody || closed {
				continue
			}
			real := cs.donec
			done := make(chan struct{})
			close(done)
			cs.donec = done // Close waits for the request goroutine: let it see "done" and run the cleanup right after
			if err := body.Close(); err != nil {
				vfAssert(false, "Close returns nil")
			}
			cs.donec = real
			closed = true
			if !gone {
				cs.cleanupWriteRequest(cs.abortErr)
				gone = true
			}
			vfReach("closed")
		case 4: // server resets the stream
			if gone {
				continue
			}
			if err := h.rl.processResetStream(&RSTStreamFrame{FrameHeader: FrameHeader{valid: true, Type: FrameRSTStream, StreamID: 1, Length: 4}, ErrCode: ErrCodeCancel}); err != nil {
				vfAssert(false, "RST_STREAM accepted")
			}
			vfReach("peer-reset")
		}
		l.drain()
		c10cCheck(l, cs, hasBody && !closed, protoErr, overLength)
	}
	// quiescence: the application closes the body (or the request ends), the stream is removed
	if hasBody && !closed {
		real := cs.donec
		done := make(chan struct{})
		close(done)
		cs.donec = done
		body.Close()
		cs.donec = real
		closed = true
	}
	if !gone {
		err := cs.abortErr
		if err == nil && !endSeen {
			err = errRequestCanceled
		}
		cs.cleanupWriteRequest(err)
		gone = true
	}
	l.drain()
	c10cCheck(l, cs, false, false, false)
	cc.mu.Lock()
	vfAssert(l.peer+int64(cc.inflow.unsent) == l.configured, "quiescent: the peer's connection window is back to its configured size (minus the batched remainder)")
	vfAssert(cc.inflow.unsent < inflowMinRefresh, "batched remainder below inflowMinRefresh")
	vfAssert(len(cc.streams) == 0, "stream removed")
	cc.mu.Unlock()
	vfObserve("consumed", uint64(consumed))
	vfReach("end")
}

// c10cCheck asserts the ledger invariant after an event.
func c10cCheck(l *c10cLedger, cs *clientStream, bodyOpen bool, protoErr, overLength bool) {
	cc := l.h.cc
	cc.mu.Lock()
	defer cc.mu.Unlock()
	held := int64(0)
	if bodyOpen {
		held = int64(c10cHeld(cs))
	}
	vfAssert(c10cInflowInv(cc.inflow), "inflow invariant")
	// (1) what we enforce is what the peer believes it may send
	vfAssertKF(int64(cc.inflow.avail) == l.peer, "connection window enforced == peer's view (DATA was accounted)", c10cKeyProto, protoErr)
	// (2) nothing lost, nothing invented
	vfAssertKF(l.peer+int64(cc.inflow.unsent)+held == l.configured, "credit conserved: peer's window + batched + buffered == configured", c10cKeyRead, overLength)
}

// VerifC10_clientCloseTiming — the "close patterns and timings" part of the statement on the client (shape B).
//
// VerifC10_clientLedger always lets Response.Body.Close see "request goroutine done" and never cancels the request.
// Here the end of the request is the explored dimension. Four actors touch the stream: the read loop (DATA frames),
// the application (Read, Close), whoever cancels the request (context / Request.Cancel) and the request goroutine
// (writeRequest returns, cleanupWriteRequest forgets the stream and closes cs.donec). Explored orders:
//
//	HEADERS, DATA A, [app Read], [cancel: ctx | Request.Cancel], [request goroutine cleans up BEFORE Close],
//	[late DATA B], Close (leaving through any select arm that can be ready), [late DATA C while the stream is closed by
//	the app but not yet forgotten], request goroutine cleans up AFTER Close (if it has not yet), quiescence.
//
// Which arm of Close's final select is taken is decided by Go's select among the ready channels; the harness makes the
// choice explicit (vfChoice over the arms that CAN be ready in the situation) and lets exactly that channel be ready
// during the call, which is the same thing deterministically (the arms read nothing from the channels).
// Oracle = the ledger of VerifC10_clientLedger after every event, and at quiescence everything came back.
func VerifC10_clientCloseTiming() {
	h := h2cNewConn()
	cc := h.cc
	u0 := int32(4093 * vfChoice("unsent0", 2)) // batched credit: none, or just below the WINDOW_UPDATE threshold
	cc.inflow = inflow{avail: int32(h2cConnRecvWindow), unsent: u0}
	l := &c10cLedger{h: h, configured: int64(cc.inflow.avail) + int64(cc.inflow.unsent), peer: int64(cc.inflow.avail)}
	cs := h2cNewStream(cc)
	cs.sentHeaders, cs.sentEndStream = true, true
	h2cPutStream(cc, cs, 1)
	cc.nextStreamID = 3
	cc.readBeforeStreamID = 3
	l.peerStream = int64(cs.inflow.avail)
	c10cHeaders(h, 1, -1, false)
	body := transportResponseBody{cs}
	gone, closed, endSeen := false, false, false

	data := func(label string, late bool) {
		var n int
		var padded bool
		var pad uint8
		switch {
		case !late:
			n = vfLen(label+".len", 1, 2)
			padded, pad = c10cPad()
		case vfTier() > 0:
			n = vfLen(label+".len", 0, 2)
			padded, pad = c10cPad()
		default:
			// frames that arrive while the stream is being torn down, quick tier: 1 byte, padding none or 2 (so that
			// 4093 batched bytes cross the WINDOW_UPDATE threshold)
			n = 1
			if vfChoice(label+".padding", 2) == 1 {
				padded, pad = true, 2
			}
		}
		end := vfChoice(label+".endStream", 2) == 1
		f := c10cData(1, vfBytes(label, n), padded, pad, end)
		vfAssume(int64(f.Length) <= l.peer)
		l.peer -= int64(f.Length)
		if !gone {
			vfAssume(int64(f.Length) <= l.peerStream)
			l.peerStream -= int64(f.Length)
		}
		if err := h.rl.processData(f); err != nil {
			vfAssert(false, "DATA within the windows is never a connection error")
		}
		if end && !gone && !cs.readAborted {
			endSeen = true
		}
		l.drain()
		c10cCheck(l, cs, !closed, false, false)
	}
	// the request goroutine: writeRequest returned err, cleanupWriteRequest runs
	cancelKind := 0
	cleanup := func() {
		var err error
		switch {
		case cancelKind == 1:
			err = context.Canceled
		case cancelKind == 2:
			err = errRequestCanceled
		case closed:
			err = cs.abortErr // errClosedResponseBody
		}
		// (cancelKind == 0 && !closed: only called once the peer closed the stream; writeRequest returned nil)
		cs.cleanupWriteRequest(err)
		gone = true
		l.drain()
		c10cCheck(l, cs, !closed, false, false)
	}

	// DATA A: something to leave unread
	data("dataA", false)
	// the application reads part of it (never blocks: only when bytes are buffered)
	if rl := vfLen("readLen", 0, 2); rl > 0 && c10cHeld(cs) > 0 {
		n, _ := body.Read(make([]byte, rl))
		if n > 0 {
			vfReach("read-before-close")
		}
		l.drain()
		c10cCheck(l, cs, true, false, false)
	}
	// the request is cancelled (or not)
	cancelKind = vfChoice("cancel", 3) // 0 no, 1 context cancelled / deadline, 2 Request.Cancel closed
	// the request goroutine may notice (cancellation, or END_STREAM) and finish before the application calls Close
	if (cancelKind != 0 || endSeen) && vfChoice("request goroutine finishes before Close", 2) == 1 {
		cleanup()
		vfReach("cleanup-before-close")
	}
	// late DATA B (server has not seen our RST_STREAM yet)
	if !endSeen && vfChoice("late data before Close", 2) == 1 {
		data("dataB", true)
	}
	// Close, leaving through one of the arms that can be ready
	arms := []int{0} // donec: the request goroutine was done, or gets done (woken by Close's abortStream) before the select
	if cancelKind != 0 {
		arms = append(arms, cancelKind)
	}
	arm := arms[vfChoice("select arm", len(arms))]
	ready := make(chan struct{})
	close(ready)
	realDonec := cs.donec
	cs.donec, cs.ctx, cs.reqCancel = make(chan struct{}), context.Background(), nil
	switch arm {
	case 0:
		cs.donec = ready
	case 1:
		ctx, cancel := context.WithCancel(context.Background())
		cancel()
		cs.ctx = ctx
		vfReach("close-via-ctx-done")
	case 2:
		cs.reqCancel = ready
		vfReach("close-via-reqCancel")
	}
	unreadAtClose := c10cHeld(cs) // what Close discards
	err := body.Close()
	cs.donec, cs.ctx, cs.reqCancel = realDonec, context.Background(), nil
	closed = true
	if arm == 2 {
		vfAssert(err == errRequestCanceled, "Close reports the cancelled request")
	} else {
		vfAssert(err == nil, "Close returns nil")
	}
	l.drain()
	c10cCheck(l, cs, false, false, false)
	if !gone {
		// late DATA C: the application closed the body, the request goroutine has not yet forgotten the stream
		if !endSeen && vfChoice("late data after Close", 2) == 1 {
			data("dataC", true)
			vfReach("data-closed-not-forgotten")
		}
		cleanup()
		vfReach("cleanup-after-close")
	}
	// the application closes the body a second time (defer res.Body.Close() after an explicit Close, or a wrapper
	// such as gzipReader forwarding every Close): the discarded bytes were already returned
	twice := vfChoice("second Close", 2) == 1
	if twice {
		if err := body.Close(); err != nil {
			vfAssert(false, "second Close returns nil")
		}
		l.drain()
		vfReach("closed-twice")
	}
	// KNOWN FINDING C10-client-double-close-refunds-twice: exactly the second Closes that follow a first Close which
	// discarded unread bytes (those paths end at the KNOWN-FINDING report, hence no reach marker for them; a second Close
	// after everything was read is harmless and reaches "closed-twice")
	dbl := twice && unreadAtClose > 0
	cc.mu.Lock()
	vfAssert(c10cInflowInv(cc.inflow), "inflow invariant")
	vfAssert(int64(cc.inflow.avail) == l.peer, "connection window enforced == peer's view")
	vfAssertKF(l.peer+int64(cc.inflow.unsent) == l.configured, "quiescent: the peer's connection window is back to its configured size (minus the batched remainder)", c10cKeyDbl, dbl)
	vfAssert(cc.inflow.unsent < inflowMinRefresh, "batched remainder below inflowMinRefresh")
	vfAssert(len(cc.streams) == 0, "stream removed")
	cc.mu.Unlock()
	vfObserve("peer", uint64(l.peer))
	vfObserve("unsent", uint64(cc.inflow.unsent))
	vfReach("end")
}
