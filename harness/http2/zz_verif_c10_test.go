package http2

// C10 (KERNEL claim, server side + shared flow.go) — inbound flow-control credit is never leaked (nor invented).
//
// Shape I:
//   VerifC10_inflowAdd     flow.go inflow.add from an arbitrary valid state: conservation (avail+unsent grows by
//                          exactly n), the value returned for the WINDOW_UPDATE is 0 or the whole batched amount,
//                          refresh policy, and panics instead of wrapping when the window would exceed 2^31-1
//   VerifC10_dataStep      one DATA frame through the real processFrameFromReader on a hand-built conn from an arbitrary
//                          valid (conn, stream) window state, in every stream situation: every byte of Length is
//                          either still charged and sitting in the body pipe, or back in avail+unsent - and, seen
//                          from the PEER, the window it knew minus Length plus the WINDOW_UPDATE increments that
//                          reach the wire is the window the server enforces (a frame dropped without take+refund
//                          balances the server's books but leaves the peer's window short)
// Shape B:
//   VerifC10_ledger        bounded history on the hand-built conn (real initial windows), events from
//                          {DATA on the stream (padding, END_STREAM), DATA on a closed stream, handler Read, handler
//                          Body.Close, peer RST_STREAM, handler finishing the response}; ledger kept from the PEER's
//                          point of view:   peerWindow + inflow.unsent + bytes still owed (in the pipe) == configured
//                          Timing dimension: the frame writer may stay busy across events (slow peer), so that
//                          WINDOW_UPDATEs, the server's own RST_STREAM (resetQueued, stream still registered) and the
//                          final DATA frame wait in the write scheduler while more frames / handler calls arrive.
//
// KNOWN FINDING reached by VerifC10_ledger (key C10-server-read-after-closestream, repro/C10): closeStream refunds
// the bytes buffered in the body pipe and leaves them readable; a handler Read afterwards refunds them again.
//
// Sensitivity (mut.sh; all caught and confirmed natively):
//   flow.go inflow.add `return int32(unsent)` -> `return int32(n)`          VerifC10_inflowAdd "returns 0 or everything batched"
//   server.go processData closed-body refund Length-wrote -> len(data)-wrote  VerifC10_dataStep "conn credit: Length = returned + held"
//   server.go closeStream refund of p.Len() dropped                          VerifC10_ledger "conn ledger" (a plain VIOLATION: the
//                                                                            known-finding escape does not mask other ledger errors)
//   server.go processData: resetQueued early return hoisted above take/sendWindowUpdate (seed C10-D)
//                                                                            VerifC10_dataStep and VerifC10_ledger "conn: window
//                                                                            enforced == window the peer knows"

import "math"

func init() {
	vfRegister("VerifC10_inflowAdd", VerifC10_inflowAdd)
	vfRegister("VerifC10_dataStep", VerifC10_dataStep)
	vfRegister("VerifC10_ledger", VerifC10_ledger)
}

const c10KF = "C10-server-read-after-closestream"

// (I) inflow.add.
func VerifC10_inflowAdd() {
	f := h2sInflow("f")
	f0 := f
	n := vfInt("n")
	// n is an int; every caller passes a frame Length (< 2^24), a buffered-byte count or an int32 (server.go,
	// transport.go). For n within 2^31 of MaxInt64 the int64 sum inside add wraps; that region is not reachable.
	vfAssume(n < 1<<62)
	total := int64(f0.avail) + int64(f0.unsent) // <= 2^31-1 by Inv
	var r int32
	panicked := vfExpectPanic(func() { r = f.add(n) })
	if n < 0 {
		vfAssert(panicked, "negative update panics")
		vfAssert(f == f0, "state untouched")
		vfReach("negative")
		vfReach("end")
		return
	}
	if n > math.MaxInt32 || total+int64(n) > math.MaxInt32 {
		// the "no WINDOW_UPDATE ever lifts a window above 2^31-1" half: refuses instead of wrapping
		vfAssert(panicked, "update beyond 2^31-1 panics")
		vfAssert(f == f0, "state untouched")
		vfReach("overflow refused")
		vfReach("end")
		return
	}
	vfAssert(!panicked, "valid update does not panic")
	batched := int64(f0.unsent) + int64(n)
	vfAssert(vfOr(r == 0, int64(r) == batched), "returns 0 or everything batched so far")
	vfAssert(int64(f.avail) == int64(f0.avail)+int64(r), "avail grows by exactly what is announced")
	vfAssert(int64(f.unsent) == batched-int64(r), "unsent keeps exactly what is not announced")
	vfAssert(int64(f.avail)+int64(f.unsent) == total+int64(n), "conservation: nothing lost, nothing created")
	vfAssert(vfImplies(vfOr(batched >= inflowMinRefresh, batched >= int64(f0.avail)), int64(r) == batched), "refresh when >= 4096 batched or the window would at least double")
	vfAssert(vfImplies(vfAnd(batched < inflowMinRefresh, batched < int64(f0.avail)), r == 0), "small updates are batched")
	vfAssert(h2sInflowInv(f), "Inv preserved")
	if r != 0 {
		vfReach("announced")
	} else if n > 0 {
		vfReach("batched")
	}
	vfObserve("r", uint64(uint32(r)))
	vfObserve("avail", uint64(uint32(f.avail)))
	vfReach("end")
}

// c10wire adds the WINDOW_UPDATE increments found on the wire to the peer's view.
func c10wire(sc *serverConn, c *h2sConn, gConn, gSt *int32) {
	h2sDrain(sc)
	h2sWire(c, func(f Frame) {
		if wu, ok := f.(*WindowUpdateFrame); ok {
			if wu.StreamID == 0 {
				vfAssert(int64(*gConn)+int64(wu.Increment) <= math.MaxInt32, "WINDOW_UPDATE keeps the conn window <= 2^31-1")
				*gConn += int32(wu.Increment)
			} else {
				vfAssert(wu.StreamID == 1, "stream WINDOW_UPDATE only for the live stream")
				vfAssert(int64(*gSt)+int64(wu.Increment) <= math.MaxInt32, "WINDOW_UPDATE keeps the stream window <= 2^31-1")
				*gSt += int32(wu.Increment)
			}
		}
	})
}

func c10frame(sc *serverConn, f Frame) {
	ok := sc.processFrameFromReader(readFrameResult{f: f, readMore: func() {}})
	vfAssert(ok, "connection stays open")
}

// (I) One DATA frame from an arbitrary valid window state, every stream situation: after the frame (and the
// RST_STREAM it may cause, written and followed by closeStream), with `held` = bytes sitting in the pipe:
//
//	conn:  avail' + unsent' + (held' - held) == avail + unsent          (when the frame fit the window)
func VerifC10_dataStep() {
	sc, c := h2sNewServerConn(h2sSchedRFC9218)
	sc.inflow = h2sInflow("conn")
	variant := vfChoice("situation", 7)
	id := uint32(1)
	var st *stream
	switch variant {
	case 0: // open, no Content-Length
		st = h2sOpenStream(sc, 1, stateOpen, true)
	case 1: // open, Content-Length 1 (second byte is past it)
		st = h2sOpenStream(sc, 1, stateOpen, true)
		st.declBodyBytes = 1
	case 2: // open, handler closed the body
		st = h2sOpenStream(sc, 1, stateOpen, true)
		(&requestBody{conn: sc, stream: st, pipe: st.body}).Close()
	case 3: // half-closed (remote): END_STREAM already seen
		st = h2sOpenStream(sc, 1, stateOpen, true)
		st.endStream()
	case 4: // RST_STREAM queued by us
		st = h2sOpenStream(sc, 1, stateOpen, true)
		st.resetQueued = true
	case 5: // closed / unknown stream
		sc.maxClientStreamID = 3
	case 6: // half-closed (local): handler is done
		st = h2sOpenStream(sc, 1, stateHalfClosedLocal, true)
	}
	var s0 inflow
	if st != nil {
		st.inflow = h2sInflow("stream")
		s0 = st.inflow
	}
	d := vfLen("datalen", 0, 2)
	data := vfBytes("data", d)
	length := vfU32("Length")
	vfAssume(length >= uint32(d) && length <= 1<<24-1)
	c0 := sc.inflow
	vfAssume(int64(length) <= int64(c0.avail)) // a peer that respects the connection window (C11 covers the rest)
	if variant <= 2 {
		vfAssume(int64(length) <= int64(s0.avail))
	}
	end := vfBool("END_STREAM")

	c10frame(sc, h2sDataFrame(id, length, end, data))
	// The peer's view: it knew the windows the server enforces (precondition), spent Length on the frame, and gets
	// back exactly the WINDOW_UPDATE increments that reach the wire.
	gConn, gSt := c0.avail-int32(length), s0.avail
	if variant <= 2 {
		gSt -= int32(length)
	}
	c10wire(sc, c, &gConn, &gSt)

	held := int64(0)
	closed := st == nil || st.state == stateClosed
	if st != nil && !closed {
		held = int64(st.body.Len())
	}
	// conn-level: Length was taken from avail; everything except the bytes that now sit in the pipe of a live
	// stream is back in avail+unsent.
	vfAssert(int64(sc.inflow.avail)+int64(sc.inflow.unsent)+held == int64(c0.avail)+int64(c0.unsent), "conn credit: Length = returned + held")
	vfAssert(h2sInflowInv(sc.inflow), "Inv(conn)")
	// ... and it is back where the PEER can see it: what is not batched in unsent was announced on the wire (a
	// refund that only exists in the server's books, or a frame dropped without one, leaves the peer's window short)
	vfAssert(gConn == sc.inflow.avail, "conn: window enforced == window the peer knows (Length - announced WINDOW_UPDATEs)")
	if st != nil && !closed {
		vfAssert(gSt == st.inflow.avail, "stream: window enforced == window the peer knows")
	}
	switch variant {
	case 0:
		vfAssert(held == int64(d), "open stream: data is held in the pipe")
		vfAssert(int64(st.inflow.avail)+int64(st.inflow.unsent)+held == int64(s0.avail)+int64(s0.unsent), "stream credit: Length = returned + held")
		vfReach("delivered")
	case 1:
		if d == 2 {
			vfAssert(closed, "past Content-Length: stream reset and closed")
			vfReach("past content-length")
		} else {
			vfAssert(held == int64(d), "within Content-Length: held")
		}
	case 2:
		vfAssert(held == 0, "closed body holds nothing")
		vfReach("body closed by handler")
	case 3, 6:
		vfAssert(closed, "DATA on a half-closed stream: reset and closed")
		vfReach("half-closed")
	case 4:
		vfReach("reset queued")
	case 5:
		vfReach("unknown stream")
	}
	if length > uint32(d) {
		vfReach("padding")
	}
	vfObserve("avail", uint64(uint32(sc.inflow.avail)))
	vfObserve("unsent", uint64(uint32(sc.inflow.unsent)))
	vfReach("end")
}

// (B) The ledger.
func VerifC10_ledger() {
	sc, c := h2sNewServerConn(h2sSchedRFC9218)
	const wc, ws = int32(initialWindowSize), int32(initialWindowSize) // configured sizes (real defaults of the hand-built conn)
	st := h2sOpenStream(sc, 1, stateOpen, true)
	sc.maxClientStreamID = 5 // stream 5 existed once and is closed
	if vfChoice("content-length", 2) == 1 {
		st.declBodyBytes = 2
	}
	body := &requestBody{conn: sc, stream: st, pipe: st.body}
	gConn, gSt := wc, ws // the peer's view
	owed := int32(0)     // bytes accepted into the pipe whose credit has been returned neither by a read nor by closeStream
	excess := int32(0)   // bytes read by the handler after closeStream had already refunded them (the known finding)
	clean := true        // stream-level ledger is asserted while nothing unusual happened to the stream
	wasClosed := false
	finished := false // the handler has queued its final END_STREAM frame
	stalls := 0

	for step := 0; step < 3; step++ {
		ev := 0
		if step > 0 || vfTier() > 0 {
			// quick: the first event is DATA on the stream (every other first event is a no-op or ends the
			// stream before it ever held credit) and DATA on the closed stream 5 is left to VerifC10_dataStep
			ev = vfChoice("event", 5+vfTier())
			if ev == 5 {
				ev = 1
			} else if ev >= 1 {
				ev++
			}
		}
		switch ev {
		case 0: // DATA on stream 1: 2 data bytes, arbitrary padding, END_STREAM symbolic
			data := vfBytes("data", 2)
			length := vfU32("Length")
			vfAssume(length >= 2 && length <= 1<<24-1)
			vfAssume(length <= uint32(gConn)) // the peer respects the windows it knows (C11 covers violations)
			pastDecl := st.declBodyBytes != -1 && st.bodyBytes+2 > st.declBodyBytes
			// processData charges the stream window in exactly this situation; the peer must respect it then
			takesStream := st.state == stateOpen && !st.resetQueued && !pastDecl
			delivered := takesStream && body.pipe.Err() == nil
			if takesStream {
				vfAssume(length <= uint32(gSt))
			}
			end := vfBool("END_STREAM")
			c10frame(sc, h2sDataFrame(1, length, end, data))
			gConn -= int32(length)
			if takesStream {
				gSt -= int32(length)
			}
			if delivered {
				owed += 2
				if end {
					clean = false
					vfReach("END_STREAM")
				}
				vfReach("DATA delivered")
			} else {
				clean = false
				vfReach("DATA discarded")
			}
		case 1: // DATA on the closed stream 5
			length := vfU32("Length")
			vfAssume(length >= 1 && length <= 1<<24-1 && length <= uint32(gConn))
			c10frame(sc, h2sDataFrame(5, length, false, vfBytes("data", 1)))
			gConn -= int32(length) // (thorough only: no reach marker, markers must be reached in both tiers)
		case 2: // handler reads up to 2 bytes (never blocks: data buffered or pipe closed)
			vfAssume(st.body.Len() > 0 || st.body.Err() != nil)
			n, _ := body.Read(make([]byte, vfLen("readbuf", 1, 2)))
			select {
			case m := <-sc.bodyReadCh: // serve(): case m := <-sc.bodyReadCh: sc.noteBodyRead(m.st, m.n)
				vfAssert(m.n == n && n > 0, "serve loop is told the number of bytes read")
				sc.noteBodyRead(m.st, m.n)
			default:
				vfAssert(n == 0, "a read of n > 0 bytes notifies the serve loop")
			}
			if wasClosed {
				excess += int32(n) // n > 0 here is the known finding: the ledger assertion below reports it

			} else {
				owed -= int32(n)
				if n > 0 {
					vfReach("handler read")
				}
			}
		case 3: // handler closes the request body
			body.Close()
			clean = false
			vfReach("Body.Close")
		case 4: // peer resets the stream
			vfAssume(!wasClosed)
			c10frame(sc, &RSTStreamFrame{FrameHeader: FrameHeader{valid: true, Type: FrameRSTStream, Length: 4, StreamID: 1}, ErrCode: ErrCodeCancel})
			clean = false
			vfReach("peer RST_STREAM")
		case 5: // handler finishes the response: final DATA frame with END_STREAM enters through the serve loop
			vfAssume(!wasClosed && !st.resetQueued && st.state != stateHalfClosedLocal && !finished)
			finished = true
			sc.writeFrame(FrameWriteRequest{write: &writeData{1, nil, true}, stream: st, done: make(chan error, 1)})
			clean = false
			vfReach("response finished")
		}
		// Slow peer: the frame writer may still be busy (asynchronous flush in flight: the peer is not reading)
		// when the next event arrives. Everything the server wants to send meanwhile - WINDOW_UPDATEs, its own
		// RST_STREAM (st.resetQueued stays true and the stream stays in sc.streams), the final DATA frame - queues
		// up in the write scheduler, and the peer's view is not refreshed. The last step always lets the writer
		// finish, and the ledger is checked whenever the writer has caught up.
		stalled := false
		if step < 2 && sc.writingFrame {
			stalled = vfChoice("writer-still-busy", 2) == 1
		}
		if stalled {
			stalls++
			if st.resetQueued && !wasClosed && st.state != stateClosed {
				vfReach("own RST_STREAM queued behind a busy writer")
			}
		} else {
			c10wire(sc, c, &gConn, &gSt)
		}
		if st.state == stateClosed && !wasClosed {
			// closeStream ran in this step: it returned what was buffered (and says so by its WINDOW_UPDATE / unsent)
			wasClosed = true
			owed = 0
			_, still := sc.streams[1]
			vfAssert(!still, "closed stream removed from the conn")
			vfReach("closeStream")
		}
		if !wasClosed {
			vfAssert(int(owed) == st.body.Len(), "owed bytes are exactly the unread bytes of the pipe")
		}
		vfAssert(h2sInflowInv(sc.inflow), "Inv(conn) along the history")
		if stalled {
			continue // the peer has not been told yet: its view (gConn, gSt) is stale until the writer catches up
		}
		vfAssert(!sc.writingFrame, "writer caught up")
		vfAssert(gConn == sc.inflow.avail, "conn: window enforced == window the peer knows")
		vfAssertKF(int64(gConn)+int64(sc.inflow.unsent)+int64(owed) == int64(wc),
			"conn ledger: peer window + batched + owed == configured", c10KF,
			vfAnd(excess > 0, int64(gConn)+int64(sc.inflow.unsent)+int64(owed) == int64(wc)+int64(excess)))
		if clean {
			vfAssert(gSt == st.inflow.avail, "stream: window enforced == window the peer knows")
			vfAssert(int64(gSt)+int64(st.inflow.unsent)+int64(owed) == int64(ws), "stream ledger")
		}
		gConn = sc.inflow.avail // proved equal: carry the simpler term
	}
	if wasClosed && owed == 0 {
		// "once all bodies are fully read or closed": everything is back (batched credit counts as returned-pending)
		vfReach("quiescent: all credit returned or batched")
	}
	vfObserve("avail", uint64(uint32(sc.inflow.avail)))
	vfObserve("unsent", uint64(uint32(sc.inflow.unsent)))
	vfObserve("owed", uint64(uint32(owed)))
	vfObserve("stalls", uint64(stalls))
	vfReach("end")
}
