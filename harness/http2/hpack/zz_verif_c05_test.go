package hpack

import "bytes"

// C05 — HPACK never indexes sensitive header fields.  Shape B (bounded history from the real initial state; uses the
// helpers c01tableInv / c01sizeOK of the C01 harness).
//
// History: optional Encoder.SetMaxDynamicTableSize(v) (+ decoder allowed size), v symbolic 0..200 (so that "does not
// fit", "evicts" and "fits" are all reachable with 34..39-byte entries); then three fields A, S, C:
//   A  earlier field: symbolic 1-byte name/value | (:method, GET) | (:method, symbolic value); Sensitive symbolic
//   S  always Sensitive: equal to A | A's name with a fresh value | static pair (:method, GET) | fresh name/value |
//      (authorization, 16 x 'a') concrete, Huffman-coded value
//   C  later field: equal to S but not sensitive | equal to S and sensitive | fresh non-sensitive
//   D  (thorough) equal to S, not sensitive | equal to A with symbolic Sensitive
// optionally with an end of block between S and C. Every field's bytes are fed to the real decoder right after
// WriteField (one Write per field, Close at the block ends), so the decoder's table is observed per field.
//
// Oracle for every field written with Sensitive set:
//   - its representation is exactly  0001xxxx-prefixed: 0x10 <name literal> <value literal>  or
//     0x10|idx(4-bit prefix integer) <value literal> with idx naming an entry (static or dynamic) with the same name;
//     the value literal is the raw or the Huffman string literal of the value (so never an index for the value);
//   - the encoder's dynamic table (entries, evict count, size) and its byName/byNameValue maps are unchanged;
//   - the decoder emits it with Sensitive == true and the decoder's table is unchanged.
// For every field: decoded == written (incl. the Sensitive flag). At the end: every entry of the encoder's and the
// decoder's table equals some field that was written with Sensitive == false (no sensitive pair is ever in a table,
// hence no later field can reference one), the tables are equal, index invariant holds.
//
// Sensitivity (mut.sh, quick tier), all caught (first failing assertion: "decoded field == written field, same
// Sensitive flag"; the table / shape assertions fail on the same paths):
//   tables.go search `if !f.Sensitive {` -> `if true {`                       (sensitive field emitted as an index)
//   encode.go shouldIndex `!f.Sensitive && f.Size() <= ...` -> `f.Size() <= ...` (sensitive field enters the table)
//   encode.go encodeTypeByte `if sensitive { return 0x10` -> `return 0x00`     (never-indexed flag lost)

func init() {
	vfRegister("VerifC05_sensitive", VerifC05_sensitive)
}

type c05state struct {
	buf                                   bytes.Buffer
	e                                     *Encoder
	d                                     *Decoder
	got                                   []HeaderField
	written                               []HeaderField
	sawNameIdx, sawNewName, sawStaticName bool
}

// c05literal reports whether lit is the raw or the Huffman string literal of s (lengths < 127).
func c05literal(lit []byte, s string) bool {
	raw := append([]byte{byte(len(s))}, s...)
	if len(s) <= 2 {
		return c05eq(lit, raw) // a Huffman literal of <= 2 characters is never shorter (codes have >= 5 bits)
	}
	h := AppendHuffmanString(nil, s)
	huff := append([]byte{0x80 | byte(len(h))}, h...)
	return vfOr(c05eq(lit, raw), c05eq(lit, huff))
}

func c05eq(a, b []byte) bool {
	if len(a) != len(b) {
		return false
	}
	ok := true
	for i := range a {
		ok = vfAnd(ok, a[i] == b[i])
	}
	return ok
}

// c05shape: enc is one never-indexed literal representation of f, with the name given literally or by an index
// that names an entry with f's name in the static table or in dyn (the encoder's table, oldest first).
func (s *c05state) shape(enc []byte, f HeaderField, dyn []HeaderField) bool {
	if len(enc) == 0 || enc[0]&0xf0 != 0x10 {
		return false
	}
	idx := uint64(enc[0] & 0x0f)
	rest := enc[1:]
	if idx == 15 {
		v, r, err := readVarInt(4, enc)
		if err != nil {
			return false
		}
		idx, rest = v, r
	}
	if idx == 0 {
		s.sawNewName = true
		// name literal then value literal; names here are short: the split point is determined by the name literal
		nl := 1 + len(f.Name)
		if len(f.Name) > 2 {
			if h := AppendHuffmanString(nil, f.Name); len(h) < len(f.Name) {
				nl = 1 + len(h)
			}
		}
		if len(rest) < nl {
			return false
		}
		return vfAnd(c05literal(rest[:nl], f.Name), c05literal(rest[nl:], f.Value))
	}
	var name string
	switch {
	case idx <= uint64(staticTable.len()):
		name = staticTable.ents[idx-1].Name
		s.sawStaticName = true
	case idx <= uint64(staticTable.len()+len(dyn)):
		name = dyn[len(dyn)-int(idx-uint64(staticTable.len()))].Name
		s.sawNameIdx = true
	default:
		return false
	}
	return vfAnd(name == f.Name, c05literal(rest, f.Value))
}

func c05sameTable(a, b []HeaderField) bool {
	if len(a) != len(b) {
		return false
	}
	ok := true
	for i := range a {
		ok = vfAnd(ok, vfAnd(a[i].Name == b[i].Name, a[i].Value == b[i].Value))
	}
	return ok
}

func (s *c05state) write(f HeaderField) {
	et, dt := &s.e.dynTab, &s.d.dynTab
	// size updates the encoder is about to emit in front of the field (at most one here)
	skip := 0
	if s.e.tableSizeUpdate {
		skip = len(appendTableSize(nil, et.maxSize))
	}
	encBefore := append([]HeaderField(nil), et.table.ents...)
	evBefore, sizeBefore := et.table.evictCount, et.size
	nName, nPair := len(et.table.byName), len(et.table.byNameValue)
	before := s.buf.Len()

	vfAssert(s.e.WriteField(f) == nil, "WriteField succeeds")
	s.written = append(s.written, f)
	enc := append([]byte(nil), s.buf.Bytes()[before:]...)
	vfAssert(len(enc) > skip, "field bytes follow the size update")

	// the decoder sees the size update (if any) first, then the field
	if skip > 0 {
		_, err := s.d.Write(append([]byte(nil), enc[:skip]...))
		vfAssert(err == nil, "decoder accepts the size update")
	}
	decBefore := append([]HeaderField(nil), dt.table.ents...)
	decEv, decSize := dt.table.evictCount, dt.size
	ngot := len(s.got)
	_, err := s.d.Write(append([]byte(nil), enc[skip:]...))
	vfAssert(err == nil, "decoder accepts the field")
	vfAssert(len(s.got) == ngot+1, "exactly one field decoded")
	g := s.got[ngot]
	vfAssert(vfAnd(g.Name == f.Name, vfAnd(g.Value == f.Value, g.Sensitive == f.Sensitive)), "decoded field == written field, same Sensitive flag")

	if vfConcretizeBool(f.Sensitive) {
		vfAssert(s.shape(enc[skip:], f, encBefore), "sensitive field is a never-indexed literal with a literal value")
		vfAssert(et.table.evictCount == evBefore && et.size == sizeBefore, "encoder table untouched by a sensitive field")
		vfAssert(c05sameTable(et.table.ents, encBefore), "encoder table entries unchanged by a sensitive field")
		vfAssert(len(et.table.byName) == nName && len(et.table.byNameValue) == nPair, "encoder index maps unchanged by a sensitive field")
		vfAssert(dt.table.evictCount == decEv && dt.size == decSize, "decoder table untouched by a sensitive field")
		vfAssert(c05sameTable(dt.table.ents, decBefore), "decoder table entries unchanged by a sensitive field")
		vfReach("sensitive-field")
	}
}

func (s *c05state) endBlock() {
	vfAssert(s.d.Close() == nil, "block complete")
	s.buf.Reset()
}

// noSensitiveEntry: every entry equals some field written with Sensitive == false.
func (s *c05state) noSensitiveEntry(ents []HeaderField) bool {
	ok := true
	for _, e := range ents {
		from := false
		for _, f := range s.written {
			from = vfOr(from, vfAnd(vfNot(f.Sensitive), vfAnd(f.Name == e.Name, f.Value == e.Value)))
		}
		ok = vfAnd(ok, from)
	}
	return ok
}

func VerifC05_sensitive() {
	s := &c05state{}
	s.e = NewEncoder(&s.buf)
	s.d = NewDecoder(initialHeaderTableSize, func(f HeaderField) { s.got = append(s.got, f) })

	if vfChoice("resize", 2) == 1 {
		v := vfU32("max")
		vfAssume(v <= 200)
		s.e.SetMaxDynamicTableSize(v)
		s.d.SetAllowedMaxDynamicTableSize(v)
	}

	var a HeaderField
	switch vfChoice("A", 3) {
	case 0:
		a = HeaderField{Name: vfString("aname", 1), Value: vfString("avalue", 1)}
	case 1:
		a = HeaderField{Name: ":method", Value: "GET"}
	case 2:
		a = HeaderField{Name: ":method", Value: vfString("avalue", 1)}
	}
	a.Sensitive = vfBool("asensitive")
	s.write(a)

	sf := HeaderField{Sensitive: true}
	switch vfChoice("S", 5) {
	case 0: // identical to the earlier field
		sf.Name, sf.Value = a.Name, a.Value
		vfReach("sensitive-equals-earlier")
	case 1: // same name, other value
		sf.Name, sf.Value = a.Name, vfString("svalue", 1)
	case 2: // identical to a static table pair
		sf.Name, sf.Value = ":method", "GET"
		vfReach("sensitive-equals-static")
	case 3:
		sf.Name, sf.Value = vfString("sname", 1), vfString("svalue", 1)
	case 4: // static name, long concrete value (Huffman-coded literal)
		sf.Name, sf.Value = "authorization", "aaaaaaaaaaaaaaaa"
		vfReach("sensitive-huffman-value")
	}
	s.write(sf)

	if vfChoice("split", 2) == 1 {
		s.endBlock()
	}

	var c HeaderField
	switch vfChoice("C", 3) {
	case 0:
		c = HeaderField{Name: sf.Name, Value: sf.Value}
		vfReach("later-equal-plain")
	case 1:
		c = HeaderField{Name: sf.Name, Value: sf.Value, Sensitive: true}
	case 2:
		c = HeaderField{Name: vfString("cname", 1), Value: vfString("cvalue", 1)}
	}
	s.write(c)
	if vfTier() > 0 {
		// thorough: a fourth field, again equal to S (indexed legitimately only if C inserted the pair) or to A
		var d HeaderField
		if vfChoice("D", 2) == 0 {
			d = HeaderField{Name: sf.Name, Value: sf.Value}
		} else {
			d = HeaderField{Name: a.Name, Value: a.Value, Sensitive: vfBool("dsensitive")}
		}
		s.write(d)
	}
	s.endBlock()

	et, dt := &s.e.dynTab, &s.d.dynTab
	vfAssert(s.noSensitiveEntry(et.table.ents), "every encoder table entry comes from a non-sensitive field")
	vfAssert(s.noSensitiveEntry(dt.table.ents), "every decoder table entry comes from a non-sensitive field")
	vfAssert(c05sameTable(et.table.ents, dt.table.ents), "encoder and decoder tables equal")
	vfAssert(vfAnd(c01sizeOK(et), c01sizeOK(dt)), "table sizes consistent")
	vfAssert(vfAnd(c01tableInv(&et.table), c01tableInv(&dt.table)), "table index invariants")
	if s.sawNameIdx {
		vfReach("sensitive-with-dynamic-name-index")
	}
	if s.sawStaticName {
		vfReach("sensitive-with-static-name-index")
	}
	if s.sawNewName {
		vfReach("sensitive-with-literal-name")
	}
	vfObserve("tablelen", uint64(len(et.table.ents)))
	vfReach("end")
}
