package hpack

// C03 — HPACK decoding is independent of how a header block is split.

func init() {
	vfRegister("VerifC03_split", VerifC03_split)
}

type c03run struct {
	fields []HeaderField
	failed bool
	d      *Decoder
}

func c03decoder(maxStr int, preload bool) *c03run {
	r := &c03run{}
	r.d = NewDecoder(4096, func(f HeaderField) { r.fields = append(r.fields, f) })
	if preload {
		// one valid block first so that dynamic indices and eviction are reachable
		// literal with incremental indexing, new name "a" value "b": 0x40 0x01 'a' 0x01 'b'
		r.d.Write([]byte{0x40, 0x01, 'a', 0x01, 'b'})
		r.d.Close()
		r.fields = nil
	}
	if maxStr > 0 {
		r.d.SetMaxStringLength(maxStr)
	}
	return r
}

func c03sameFields(a, b []HeaderField) bool {
	if len(a) != len(b) {
		return false
	}
	ok := true
	for i := range a {
		ok = vfAnd(ok, a[i].Name == b[i].Name)
		ok = vfAnd(ok, a[i].Value == b[i].Value)
		ok = vfAnd(ok, a[i].Sensitive == b[i].Sensitive)
	}
	return ok
}

func c03sameTable(a, b *Decoder) bool {
	ta, tb := &a.dynTab, &b.dynTab
	if ta.size != tb.size || ta.maxSize != tb.maxSize || len(ta.table.ents) != len(tb.table.ents) {
		return false
	}
	return c03sameFields(ta.table.ents, tb.table.ents)
}

// c03allowed restricts index-bearing byte patterns to boundary indices:
//   1xxxxxxx (indexed field)        index in {0,1,2,61,62,63,127}
//   01xxxxxx (literal, incremental) index in {0,1,2,61,62,63}
//   001xxxxx (table size update)    any
//   000?xxxx (literal, no/never)    index in {0,1,2,15}
func c03allowed(b byte) bool {
	i7, i6, i4 := b&0x7f, b&0x3f, b&0x0f
	ok7 := vfOr(i7 <= 2, vfOr(vfAnd(i7 >= 61, i7 <= 63), i7 == 127))
	ok6 := vfOr(i6 <= 2, vfAnd(i6 >= 61, i6 <= 63))
	ok4 := vfOr(i4 <= 2, i4 == 15)
	return vfOr(vfAnd(b >= 0x80, ok7), vfOr(vfAnd(vfAnd(b >= 0x40, b < 0x80), ok6), vfOr(vfAnd(b >= 0x20, b < 0x40), vfAnd(b < 0x20, ok4))))
}

func VerifC03_split() {
	// 2-byte blocks range over all byte values. Longer blocks (3, thorough 4) restrict the index bits of
	// index-bearing bytes to boundary values: every static-table entry is a separate path (61 per byte) and
	// adds nothing after the full-range 2-byte run. See c03allowed.
	nmax := 3
	if vfTier() > 0 {
		nmax = 4
	}
	n := vfLen("n", 2, nmax)
	block := vfBytes("block", n)
	if n > 2 {
		for _, b := range block {
			vfAssume(c03allowed(b))
		}
	}
	preload := vfChoice("preload", 2) == 1
	maxStr := vfChoice("maxstr", 2) * 2 // 0 (unlimited) or 2

	a := c03decoder(maxStr, preload)
	_, err := a.d.Write(append([]byte(nil), block...))
	a.failed = err != nil
	if !a.failed {
		a.failed = a.d.Close() != nil
	}

	k := 1 + vfChoice("split", n-1)
	b := c03decoder(maxStr, preload)
	_, err = b.d.Write(append([]byte(nil), block[:k]...))
	b.failed = err != nil
	if !b.failed {
		_, err = b.d.Write(append([]byte(nil), block[k:]...))
		b.failed = err != nil
	}
	if !b.failed {
		b.failed = b.d.Close() != nil
	}

	vfAssert(a.failed == b.failed, "same success/failure whether or not the block is split")
	if !a.failed {
		vfAssert(c03sameFields(a.fields, b.fields), "same emitted fields")
		vfAssert(c03sameTable(a.d, b.d), "same dynamic table")
		vfAssert(b.d.saveBuf.Len() == 0, "nothing buffered after a complete block")
		vfObserve("nfields", uint64(len(a.fields)))
		vfReach("accepted")
	} else {
		vfReach("rejected")
	}
	vfReach("end")
}
